// C05 harness: binds specs/base/MotionCheck.tla + SegmentCount.tla (TLC-enumerated cases,
// spec -> impl) and specs/base/MotionCheckTrace.tla (recorded curved motions, impl -> spec)
// to the motion validators of ompl.
//
//   motion replay <cases.ndjson> [binding]   every case on every binding (or on one)
//   motion segcount <cases.ndjson>           SegmentCount cases on R^1 / weighted compound
//   motion record <out.ndjson> <ncases>      random curved Dubins / Reeds-Shepp / SE(2) motions
//
// Replay verdicts use only what the contract (specs/base/MotionContract.tla) talks about: the
// two verdicts, lastValid (fraction, state), caller's storage on success, the two counters, and
// which lattice points were handed to the validity checker.  The order of the queries is
// compared with the model's as a drift metric only.
#include "vtrace.h"
#include <ompl/base/SpaceInformation.h>
#include <ompl/base/StateValidityChecker.h>
#include <ompl/base/DiscreteMotionValidator.h>
#include <ompl/base/spaces/RealVectorStateSpace.h>
#include <ompl/base/spaces/SO2StateSpace.h>
#include <ompl/base/spaces/SE2StateSpace.h>
#include <ompl/base/spaces/DubinsStateSpace.h>
#include <ompl/base/spaces/ReedsSheppStateSpace.h>
#include <ompl/base/spaces/OwenStateSpace.h>
#include <ompl/base/spaces/VanaStateSpace.h>
#include <ompl/base/spaces/VanaOwenStateSpace.h>
#include <ompl/base/spaces/Dubins3DMotionValidator.h>
#include <ompl/util/Console.h>
#include <cmath>
#include <memory>
#include <set>

namespace ob = ompl::base;
using vt::json;

static const double PI = 3.14159265358979323846;
static const double LATTICE_TOL = 1e-7;   // a queried state further than this (in lattice steps /
                                          // coordinates) from a lattice point is "not a subdivision point"
static const int OFF_LATTICE = -1000;

[[noreturn]] static void framework(const std::string &msg)
{
    std::cout << "FRAMEWORK " << msg << std::endl;
    exit(3);
}

static double wrapPos(double a)
{
    a = std::fmod(a, 2 * PI);
    if (a < 0)
        a += 2 * PI;
    if (a > 2 * PI - 1e-6)  // a hair before the origin of the motion
        a -= 2 * PI;
    return a;
}
static double angDiff(double a, double b)
{
    double d = std::fabs(std::fmod(a - b, 2 * PI));
    return d > PI ? 2 * PI - d : d;
}
static double wrapYaw(double a)
{
    if (a >= -PI && a < PI)
        return a;
    a = std::fmod(a + PI, 2 * PI);
    if (a < 0)
        a += 2 * PI;
    return a - PI;
}

// ------------------------------------------------------------------------------------------
// recording validity checker: the predicate is a function of the lattice point nearest to the
// state it is asked about
struct Recorder : ob::StateValidityChecker
{
    // returns lattice index of the state (OFF_LATTICE if none within tolerance); near = nearest
    std::function<int(const ob::State *, int &near)> index;
    std::vector<char> ok;  // ok[i] for lattice points 0..nd
    mutable std::vector<int> q;

    explicit Recorder(const ob::SpaceInformationPtr &si) : ob::StateValidityChecker(si)
    {
    }
    bool isValid(const ob::State *s) const override
    {
        int near = -1;
        int idx = index(s, near);
        q.push_back(idx);
        return near >= 0 && near < (int)ok.size() ? ok[near] != 0 : false;
    }
};

// ------------------------------------------------------------------------------------------
// one way of realizing "a motion with segment count nd" in a real state space
struct Binding
{
    std::string name;
    std::string family{"discrete"};  // which validator runs: discrete | dubins | reedsshepp | dubins3d
    ob::StateSpacePtr space;
    ob::SpaceInformationPtr si;
    std::shared_ptr<Recorder> rec;
    std::function<bool(int)> applies = [](int) { return true; };
    std::function<void(int, ob::State *, ob::State *)> setPair;
    // lattice coordinate (in steps) of a state of the current pair; off = deviation in the other
    // coordinates from where that point of the motion should be
    std::function<double(const ob::State *, double &off)> coord;
    double sentinelValue{0};
    ob::State *s1{nullptr}, *s2{nullptr}, *sentinel{nullptr}, *out{nullptr}, *tmp{nullptr};
    int nd{0};
    double maxDev{0};
    long replayed{0}, skipped{0}, orderLin{0}, orderBis{0}, statesReplayed{0}, mismatch{0};

    void finish()
    {
        si = std::make_shared<ob::SpaceInformation>(space);
        rec = std::make_shared<Recorder>(si);
        si->setStateValidityChecker(rec);
        si->setup();
        s1 = si->allocState();
        s2 = si->allocState();
        sentinel = si->allocState();
        out = si->allocState();
        tmp = si->allocState();
        rec->index = [this](const ob::State *s, int &near) {
            double off = 0;
            double u = coord(s, off);
            near = (int)std::lround(u);
            double dev = std::max(std::fabs(u - near), off);
            if (dev <= LATTICE_TOL)
            {
                maxDev = std::max(maxDev, dev);
                return near;
            }
            return OFF_LATTICE;
        };
    }
    void release()
    {
        for (ob::State *s : {s1, s2, sentinel, out, tmp})
            if (s)
                si->freeState(s);
        s1 = s2 = sentinel = out = tmp = nullptr;
    }
};

static double *val(const Binding &b, ob::State *s, unsigned i)
{
    return b.space->getValueAddressAtIndex(s, i);
}
static double cval(const Binding &b, const ob::State *s, unsigned i)
{
    return *b.space->getValueAddressAtIndex(const_cast<ob::State *>(s), i);
}

// R^1, longest valid segment exactly f, count factor f: validSegmentCount(0, nd) = f*ceil(nd/f)
static std::shared_ptr<Binding> makeR1(const std::string &name, unsigned f, bool rev)
{
    auto b = std::make_shared<Binding>();
    b->name = name;
    auto sp = std::make_shared<ob::RealVectorStateSpace>(1);
    const double hi = 64.0 * f;
    sp->setBounds(0.0, hi);
    sp->setLongestValidSegmentFraction(1.0 / 64);
    sp->setValidSegmentCountFactor(f);
    b->space = sp;
    b->sentinelValue = hi - 0.75;
    b->applies = [f](int nd) { return nd % (int)f == 0; };
    Binding *p = b.get();
    b->setPair = [p, rev, hi](int nd, ob::State *a, ob::State *c) {
        *val(*p, a, 0) = rev ? hi : 0.0;
        *val(*p, c, 0) = rev ? hi - nd : (double)nd;
    };
    b->coord = [p, rev, hi](const ob::State *s, double &off) {
        off = 0;
        double x = cval(*p, s, 0);
        return rev ? hi - x : x;
    };
    b->finish();
    if (sp->getLongestValidSegmentLength() != (double)f)
        framework("R^1 longest valid segment is not exactly " + std::to_string(f));
    return b;
}

// SO(2) alone, motion across the +-pi seam in direction dir
static std::shared_ptr<Binding> makeSO2(const std::string &name, int dir)
{
    auto b = std::make_shared<Binding>();
    b->name = name;
    auto sp = std::make_shared<ob::SO2StateSpace>();
    sp->setLongestValidSegmentFraction(1.0 / 32);
    b->space = sp;
    b->sentinelValue = 0.123456789;
    Binding *p = b.get();
    auto par = std::make_shared<std::array<double, 2>>();  // yaw1, dtheta
    b->setPair = [p, par, dir](int nd, ob::State *a, ob::State *c) {
        double L = p->space->getLongestValidSegmentLength();
        double dth = nd == 0 ? 0.0 : (nd - 0.5) * L;
        double y1 = nd == 0 ? -PI : wrapYaw(dir * (PI - dth / 3));
        (*par)[0] = y1;
        (*par)[1] = dth;
        *val(*p, a, 0) = y1;
        *val(*p, c, 0) = wrapYaw(y1 + dir * dth);
    };
    b->coord = [p, par, dir](const ob::State *s, double &off) {
        off = 0;
        double yaw = cval(*p, s, 0);
        if (p->nd == 0)
        {
            off = angDiff(yaw, (*par)[0]);
            return 0.0;
        }
        return wrapPos(dir * (yaw - (*par)[0])) / (*par)[1] * p->nd;
    };
    b->finish();
    return b;
}

// SE(2)-shaped spaces (SE2 itself, Dubins, Reeds-Shepp).  mode: 0 = displacement along x decides
// the count (yaw turns less), 1 = yaw across the seam decides the count (x moves less),
// 2 = straight line heading 0 along +x, 3 = straight line heading 0, target BEHIND the start
static std::shared_ptr<Binding> makeSE2Like(const std::string &name, const std::shared_ptr<ob::SE2StateSpace> &sp,
                                            int mode)
{
    auto b = std::make_shared<Binding>();
    b->name = name;
    ob::RealVectorBounds bounds(2);
    bounds.setLow(0, -8);
    bounds.setHigh(0, 120);
    bounds.setLow(1, -64);
    bounds.setHigh(1, 64);
    sp->setBounds(bounds);
    sp->setLongestValidSegmentFraction(1.0 / 64);
    b->space = sp;
    b->sentinelValue = -7.75;
    Binding *p = b.get();
    struct Par
    {
        double x1, y1, yaw1, dx, dyaw;
        bool yawLeads;
    };
    auto par = std::make_shared<Par>();
    b->setPair = [p, par, mode, sp](int nd, ob::State *a, ob::State *c) {
        auto *A = a->as<ob::SE2StateSpace::StateType>();
        auto *C = c->as<ob::SE2StateSpace::StateType>();
        Par &q = *par;
        q.y1 = 0.25;
        q.yawLeads = false;
        if (mode == 0 || mode == 1)
        {
            double Lx = sp->getSubspace(0)->getLongestValidSegmentLength();
            double Lt = sp->getSubspace(1)->getLongestValidSegmentLength();
            double lead = nd == 0 ? 0.0 : nd - 0.5, follow = 0.9 * (nd / 2);
            q.x1 = 1.0;
            if (mode == 0)
            {
                q.dx = lead * Lx;
                q.dyaw = follow * Lt;
                q.yaw1 = -0.4;
            }
            else
            {
                q.dx = follow * Lx;
                q.dyaw = lead * Lt;
                q.yaw1 = nd == 0 ? -PI : wrapYaw(PI - q.dyaw / 3);
                q.yawLeads = true;
            }
        }
        else
        {
            double L = sp->getLongestValidSegmentLength();
            double d = nd == 0 ? 0.0 : (nd - 0.5) * L;
            q.yaw1 = 0.0;
            q.dyaw = 0.0;
            q.x1 = mode == 2 ? 1.0 : 1.0 + d;
            q.dx = mode == 2 ? d : -d;
        }
        A->setXY(q.x1, q.y1);
        A->setYaw(q.yaw1);
        C->setXY(q.x1 + q.dx, q.y1);
        C->setYaw(wrapYaw(q.yaw1 + q.dyaw));
    };
    b->coord = [p, par](const ob::State *s, double &off) {
        const auto *S = s->as<ob::SE2StateSpace::StateType>();
        const Par &q = *par;
        if (p->nd == 0)
        {
            off = std::max({std::fabs(S->getX() - q.x1), std::fabs(S->getY() - q.y1), angDiff(S->getYaw(), q.yaw1)});
            return 0.0;
        }
        double t;  // fraction along the motion
        if (q.yawLeads)
        {
            t = wrapPos(S->getYaw() - q.yaw1) / q.dyaw;
            off = std::fabs(S->getX() - (q.x1 + t * q.dx));
        }
        else
        {
            t = (S->getX() - q.x1) / q.dx;
            off = angDiff(S->getYaw(), q.yaw1 + t * q.dyaw);
        }
        off = std::max(off, std::fabs(S->getY() - q.y1));
        return t * p->nd;
    };
    b->finish();
    return b;
}

// 3D Dubins airplane spaces (Owen, Vana, Vana-Owen; Dubins3DMotionValidator): straight level
// flight along +x from `start` (x, y, z, [pitch,] yaw); every other coordinate stays put
template <class Space>
static std::shared_ptr<Binding> makeStraight3D(const std::string &name)
{
    auto b = std::make_shared<Binding>();
    b->name = name;
    b->family = "dubins3d";
    auto sp = std::make_shared<Space>();
    ob::RealVectorBounds bounds(3);
    bounds.setLow(0, -8);
    bounds.setHigh(0, 120);
    bounds.setLow(1, -64);
    bounds.setHigh(1, 64);
    bounds.setLow(2, -10);
    bounds.setHigh(2, 10);
    sp->setBounds(bounds);
    sp->setLongestValidSegmentFraction(1.0 / 64);
    b->space = sp;
    b->sentinelValue = -7.75;
    Binding *p = b.get();
    auto par = std::make_shared<std::pair<std::vector<double>, double>>();  // start reals, d
    b->setPair = [p, par](int nd, ob::State *a, ob::State *c) {
        std::vector<double> r(p->space->getDimension(), 0.0);
        r[0] = 1.0;
        r[1] = 0.25;
        r[2] = 0.5;
        double d = nd == 0 ? 0.0 : (nd - 0.5) * p->space->getLongestValidSegmentLength();
        par->first = r;
        par->second = d;
        p->space->copyFromReals(a, r);
        r[0] += d;
        p->space->copyFromReals(c, r);
    };
    b->coord = [p, par](const ob::State *s, double &off) {
        std::vector<double> r;
        p->space->copyToReals(r, s);
        off = 0;
        for (std::size_t i = p->nd == 0 ? 0 : 1; i < r.size(); ++i)
        {
            double d = std::fabs(r[i] - par->first[i]);
            off = std::max(off, i >= 3 ? std::min(d, std::fabs(d - 2 * PI)) : d);
        }
        return p->nd == 0 ? 0.0 : (r[0] - par->first[0]) / par->second * p->nd;
    };
    b->finish();
    if (dynamic_cast<const ob::Dubins3DMotionValidator<Space> *>(b->si->getMotionValidator().get()) == nullptr)
        framework("binding " + name + " does not run Dubins3DMotionValidator");
    return b;
}

// weighted compound of two R^1: the count is the maximum of the components' counts, whatever the
// weights.  lead = which component decides
static std::shared_ptr<Binding> makeCompound(const std::string &name, int lead)
{
    auto b = std::make_shared<Binding>();
    b->name = name;
    auto ra = std::make_shared<ob::RealVectorStateSpace>(1);
    auto rb = std::make_shared<ob::RealVectorStateSpace>(1);
    ra->setBounds(0.0, 64.0);
    rb->setBounds(0.0, 128.0);
    auto sp = std::make_shared<ob::CompoundStateSpace>();
    sp->addSubspace(ra, 3.0);
    sp->addSubspace(rb, 0.25);
    sp->setLongestValidSegmentFraction(1.0 / 64);
    b->space = sp;
    b->sentinelValue = 63.25;
    Binding *p = b.get();
    auto par = std::make_shared<std::array<double, 4>>();  // a1, da, b1, db
    b->setPair = [p, par, lead](int nd, ob::State *a, ob::State *c) {
        auto &q = *par;
        if (lead == 0)
            q = {0.0, (double)nd, 5.0, 2.0 * (nd / 2)};
        else
            q = {3.0, (double)(nd / 2), 0.0, 2.0 * nd};
        *val(*p, a, 0) = q[0];
        *val(*p, c, 0) = q[0] + q[1];
        *val(*p, a, 1) = q[2];
        *val(*p, c, 1) = q[2] + q[3];
    };
    b->coord = [p, par, lead](const ob::State *s, double &off) {
        const auto &q = *par;
        double xa = cval(*p, s, 0), xb = cval(*p, s, 1);
        if (p->nd == 0)
        {
            off = std::max(std::fabs(xa - q[0]), std::fabs(xb - q[2]));
            return 0.0;
        }
        double t = lead == 0 ? (xa - q[0]) / q[1] : (xb - q[2]) / q[3];
        off = lead == 0 ? std::fabs(xb - (q[2] + t * q[3])) : std::fabs(xa - (q[0] + t * q[1]));
        return t * p->nd;
    };
    b->finish();
    if (ra->getLongestValidSegmentLength() != 1.0 || rb->getLongestValidSegmentLength() != 2.0)
        framework("compound components do not have longest valid segments 1 and 2");
    return b;
}

static std::vector<std::shared_ptr<Binding>> allBindings()
{
    std::vector<std::shared_ptr<Binding>> v;
    v.push_back(makeR1("r1", 1, false));
    v.push_back(makeR1("r1-rev-from-bound", 1, true));
    v.push_back(makeR1("r1-factor2", 2, false));
    v.push_back(makeR1("r1-factor3", 3, false));
    v.push_back(makeSO2("so2-seam", +1));
    v.push_back(makeSO2("so2-seam-neg", -1));
    v.push_back(makeSE2Like("se2-x", std::make_shared<ob::SE2StateSpace>(), 0));
    v.push_back(makeSE2Like("se2-yaw-seam", std::make_shared<ob::SE2StateSpace>(), 1));
    v.push_back(makeCompound("compound-first-leads", 0));
    v.push_back(makeCompound("compound-second-leads", 1));
    v.push_back(makeSE2Like("dubins", std::make_shared<ob::DubinsStateSpace>(1.0, false), 2));
    v.push_back(makeSE2Like("dubins-symmetric-reversed", std::make_shared<ob::DubinsStateSpace>(1.0, true), 3));
    v.push_back(makeSE2Like("reedsshepp", std::make_shared<ob::ReedsSheppStateSpace>(1.0), 2));
    v.push_back(makeSE2Like("reedsshepp-backwards", std::make_shared<ob::ReedsSheppStateSpace>(1.5), 3));
    const std::size_t n2d = v.size();
    v.push_back(makeStraight3D<ob::OwenStateSpace>("owen"));
    v.push_back(makeStraight3D<ob::VanaStateSpace>("vana"));
    v.push_back(makeStraight3D<ob::VanaOwenStateSpace>("vanaowen"));
    // the validators the property names must really be the ones under test
    for (std::size_t i = 0; i < n2d; ++i)
    {
        auto &b = v[i];
        const ob::MotionValidator *mv = b->si->getMotionValidator().get();
        if (b->name.rfind("dubins", 0) == 0)
            b->family = "dubins";
        if (b->name.rfind("reedsshepp", 0) == 0)
            b->family = "reedsshepp";
        bool ok = b->family == "dubins"     ? dynamic_cast<const ob::DubinsMotionValidator *>(mv) != nullptr :
                  b->family == "reedsshepp" ? dynamic_cast<const ob::ReedsSheppMotionValidator *>(mv) != nullptr :
                                              dynamic_cast<const ob::DiscreteMotionValidator *>(mv) != nullptr;
        if (!ok)
            framework("binding " + b->name + " does not run the expected motion validator");
    }
    return v;
}

// ------------------------------------------------------------------------------------------
struct Failures
{
    // one entry per (binding, clause); the check groups them by (family, clause)
    std::map<std::string, long> count;
    std::map<std::string, json> first;
    void add(const std::string &binding, const std::string &family, const std::string &clause, const std::string &why,
             const json &cs)
    {
        const std::string key = binding + "|" + clause;
        if (count[key]++ == 0)
        {
            json f{{"key", key}, {"why", why}, {"binding", binding}, {"family", family}, {"clause", clause}, {"case", cs}};
            first[key] = f;
            std::cout << "FAIL " << f.dump() << std::endl;
        }
    }
    long total() const
    {
        long t = 0;
        for (auto &c : count)
            t += c.second;
        return t;
    }
};

static bool sameReals(const ob::StateSpacePtr &sp, const ob::State *a, const ob::State *b, double tol)
{
    std::vector<double> ra, rb;
    sp->copyToReals(ra, a);
    sp->copyToReals(rb, b);
    for (std::size_t i = 0; i < ra.size(); ++i)
    {
        double d = std::fabs(ra[i] - rb[i]);
        if (d > tol && std::fabs(d - 2 * PI) > tol)
            return false;
    }
    return true;
}

static std::string seqStr(const std::vector<int> &v)
{
    std::string s = "[";
    for (int x : v)
        s += (x == OFF_LATTICE ? std::string("off") : std::to_string(x)) + " ";
    return s + "]";
}

struct Vacuity
{
    long motionValid{0}, linFailScan{0}, linFailEnd{0}, bisFailEnd{0}, bisFailMid{0}, nd0{0}, nd1{0};
    long listValid{0}, listFailFront{0}, listFailBack{0}, listFailMid{0}, listSmall{0};
};

static const double SENT_FRACTION = -777.0;

// one motion case on one binding
static void runMotion(Binding &b, const json &cs, Failures &F, Vacuity &V)
{
    const int nd = cs["nd"].get<int>();
    if (!b.applies(nd))
    {
        ++b.skipped;
        return;
    }
    const json &exp = cs["exp"];
    const bool expVerdict = exp["verdict"].get<bool>();
    const int expLast = exp["last"].get<int>();
    const std::string expCtr = exp["ctr"].get<std::string>();
    b.nd = nd;
    b.setPair(nd, b.s1, b.s2);
    const unsigned real = b.space->validSegmentCount(b.s1, b.s2);
    if ((int)real != nd)
    {
        // not a verdict of this replay: the pair does not realize the case.  Counted; the check turns it
        // into a framework error unless the segment-count stage has already reported the rule broken
        if (b.mismatch++ == 0)
            std::cout << "NOTE binding " << b.name << ": validSegmentCount is " << real << " where the pair was built for "
                      << nd << std::endl;
        return;
    }
    b.rec->ok.assign(nd + 1, 0);
    b.rec->ok[0] = 1;
    bool endValid = nd == 0;
    for (auto &x : cs["valid"])
    {
        b.rec->ok[x.get<int>()] = 1;
        if (x.get<int>() == nd)
            endValid = true;
    }
    const std::string sit = expVerdict ? "valid" : endValid ? "mid-invalid" : "end-invalid";
    const ob::MotionValidatorPtr &mv = b.si->getMotionValidator();
    std::set<std::string> failedLin;  // clauses the call with storage already failed
    auto fail = [&](const std::string &clause, const std::string &why) {
        const std::string tag = "lin-nullptr";
        std::size_t at = clause.find(tag);
        if (at != std::string::npos)
        {
            std::string base = clause;
            base.replace(at, tag.size(), "lin");
            if (failedLin.count(base))
                return;  // same clause, same reason: reported once, for the call with storage
        }
        else
            failedLin.insert(clause);
        F.add(b.name, b.family + "-validator", clause, why, cs);
    };
    auto checkQueries = [&](const std::string &form, bool verdict) {
        std::set<int> seen;
        for (int i : b.rec->q)
        {
            if (i == OFF_LATTICE)
                fail("lattice:" + form, "validity checker was asked about a state that is not a subdivision point k/nd: " +
                                            seqStr(b.rec->q));
            else if (!((i >= 1 && i <= nd) || (nd == 0 && i == 0)))
                fail("outside:" + form, "validity checker was asked about lattice point " + std::to_string(i) +
                                            " outside 1.." + std::to_string(nd));
            seen.insert(i);
        }
        if (verdict && expVerdict)
            for (int i = 1; i <= nd; ++i)
                if (!seen.count(i))
                {
                    fail("coverage:" + form, "answered valid without consulting lattice point " + std::to_string(i));
                    break;
                }
    };
    auto checkCounters = [&](const std::string &form, unsigned v0, unsigned i0) {
        unsigned dv = mv->getValidMotionCount() - v0, di = mv->getInvalidMotionCount() - i0;
        bool ok = expCtr == "valid" ? (dv == 1 && di == 0) : (dv == 0 && di == 1);
        if (!ok)
            fail("counters:" + form + ":" + sit + ":+" + std::to_string(dv) + "+" + std::to_string(di),
                 "one call must advance exactly the " + expCtr + " counter by one; valid +" + std::to_string(dv) +
                     ", invalid +" + std::to_string(di));
    };
    auto checkReport = [&](const std::string &form, bool verdict, const std::pair<ob::State *, double> &lv) {
        if (verdict != expVerdict)
            return;  // already reported as verdict:<form>
        if (expVerdict)
        {
            if (lv.second != SENT_FRACTION || (lv.first && !b.space->equalStates(lv.first, b.sentinel)))
                fail("storage:" + form, "lastValid modified although the motion is valid");
            return;
        }
        const double want = (double)expLast / (double)nd;
        if (!(lv.second >= 0.0 && lv.second < 1.0))
            fail("lastvalid-fraction:" + form, "last-valid fraction " + std::to_string(lv.second) + " not in [0,1)");
        else if (std::fabs(lv.second - want) > 1e-12)
            fail("lastvalid-fraction:" + form, "last-valid fraction " + std::to_string(lv.second) + " is not " +
                                                   std::to_string(expLast) + "/" + std::to_string(nd));
        else if (lv.first)
        {
            b.space->interpolate(b.s1, b.s2, lv.second, b.tmp);
            double off = 0, u = b.coord(lv.first, off);
            if (!sameReals(b.space, lv.first, b.tmp, 1e-9))
                fail("lastvalid-state:" + form, "last-valid state is not the interpolation at the reported fraction");
            else if (std::fabs(u - expLast) > LATTICE_TOL || off > LATTICE_TOL)
                fail("lastvalid-state:" + form, "last-valid state is not lattice point " + std::to_string(expLast));
        }
    };

    // ---- form 1: checkMotion(s1, s2, lastValid)
    b.si->copyState(b.sentinel, b.s1);
    *val(b, b.sentinel, 0) = b.sentinelValue;
    b.si->copyState(b.out, b.sentinel);
    std::pair<ob::State *, double> lv(b.out, SENT_FRACTION);
    b.rec->q.clear();
    unsigned v0 = mv->getValidMotionCount(), i0 = mv->getInvalidMotionCount();
    bool r1 = b.si->checkMotion(b.s1, b.s2, lv);
    std::vector<int> qLin = b.rec->q;
    if (r1 != expVerdict)
        fail("verdict:lin", std::string("checkMotion(s1,s2,lastValid) answered ") + (r1 ? "valid" : "invalid"));
    checkQueries("lin", r1);
    checkCounters("lin", v0, i0);
    checkReport("lin", r1, lv);

    // ---- form 2: checkMotion(s1, s2)
    b.rec->q.clear();
    v0 = mv->getValidMotionCount(), i0 = mv->getInvalidMotionCount();
    bool r2 = b.si->checkMotion(b.s1, b.s2);
    std::vector<int> qBis = b.rec->q;
    if (r2 != expVerdict)
        fail("verdict:bisect", std::string("checkMotion(s1,s2) answered ") + (r2 ? "valid" : "invalid"));
    if (r1 != r2)
        fail("forms-disagree", "the two forms of checkMotion disagree");
    checkQueries("bisect", r2);
    checkCounters("bisect", v0, i0);

    // ---- form 1 again without storage for the state (documented: first may be nullptr)
    std::pair<ob::State *, double> lv0(nullptr, SENT_FRACTION);
    b.rec->q.clear();
    v0 = mv->getValidMotionCount(), i0 = mv->getInvalidMotionCount();
    bool r3 = b.si->checkMotion(b.s1, b.s2, lv0);
    if (r3 != expVerdict)
        fail("verdict:lin-nullptr", "checkMotion(s1,s2,{nullptr,..}) answered differently");
    checkCounters("lin-nullptr", v0, i0);
    checkReport("lin-nullptr", r3, lv0);

    ++b.replayed;
    // drift: order of the queries against the model's
    if (cs.contains("lin") && qLin == cs["lin"].get<std::vector<int>>())
        ++b.orderLin;
    if (cs.contains("bis") && qBis == cs["bis"].get<std::vector<int>>())
        ++b.orderBis;
    if (b.name == "r1")
    {
        if (nd == 0)
            ++V.nd0;
        if (nd == 1)
            ++V.nd1;
        if (r1)
            ++V.motionValid;
        else if (!qLin.empty() && qLin.back() == nd)
            ++V.linFailEnd;
        else
            ++V.linFailScan;
        if (!r2)
            (qBis.size() == 1 ? V.bisFailEnd : V.bisFailMid)++;
    }
}

// ------------------------------------------------------------------------------------------
// explicit state lists: getMotionStates builds the list, the two list overloads check it
static void runList(Binding &b, const json &cs, Failures &F, Vacuity &V, long &replayed, long &orderOk)
{
    const int count = cs["nd"].get<int>();
    const bool expVerdict = cs["exp"]["verdict"].get<bool>();
    const int expFirst = cs["exp"]["first"].get<int>();
    auto fail = [&](const std::string &clause, const std::string &why) { F.add("list", "state-list", clause, why, cs); };
    // the motion 0 -> count-1 in R^1 has its count states at the integers
    b.nd = std::max(count - 1, 0);
    b.setPair(b.nd, b.s1, b.s2);
    std::vector<ob::State *> states;
    if (count >= 2)
    {
        unsigned got = b.si->getMotionStates(b.s1, b.s2, states, count - 2, true, true);
        if ((int)got != count || (int)states.size() != count)
        {
            fail("getMotionStates-count", "getMotionStates(count-2, endpoints, alloc) returned " + std::to_string(got));
            b.si->freeStates(states);
            return;
        }
    }
    else if (count == 1)
        states.push_back(b.si->cloneState(b.s1));
    for (int k = 0; k < count; ++k)
        if (std::fabs(cval(b, states[k], 0) - k) > 1e-9)
        {
            fail("getMotionStates-spacing", "state " + std::to_string(k) + " of the extracted motion is not at k/(count-1)");
            b.si->freeStates(states);
            return;
        }
    // one more state behind `count`: must never be looked at (it is invalid for the predicate)
    states.push_back(b.si->allocState());
    *val(b, states.back(), 0) = (double)count;
    b.rec->ok.assign(count + 1, 0);
    for (auto &x : cs["valid"])
        b.rec->ok[x.get<int>()] = 1;
    auto checkQueries = [&](const std::string &form) {
        for (int i : b.rec->q)
            if (i == OFF_LATTICE || i < 0 || i >= count)
                fail("outside:" + form, "validity checker was asked about a state that is not one of the first count states");
    };
    b.rec->q.clear();
    bool r1 = b.si->checkMotion(states, (unsigned)count);
    std::vector<int> q1 = b.rec->q;
    if (r1 != expVerdict)
        fail("verdict:bisect", std::string("checkMotion(states,count) answered ") + (r1 ? "valid" : "invalid"));
    checkQueries("bisect");
    if (r1 && expVerdict)
    {
        std::set<int> seen(q1.begin(), q1.end());
        if ((int)seen.size() < count)
            fail("coverage:bisect", "answered valid without consulting every state of the list");
    }
    b.rec->q.clear();
    unsigned first = 7777u;
    bool r2 = b.si->checkMotion(states, (unsigned)count, first);
    if (r2 != expVerdict)
        fail("verdict:first", std::string("checkMotion(states,count,first) answered ") + (r2 ? "valid" : "invalid"));
    else if (expVerdict && first != 7777u)
        fail("first-index:modified-on-success", "firstInvalidStateIndex modified although every state is valid");
    else if (!expVerdict && (int)first != expFirst)
        fail("first-index", "firstInvalidStateIndex is " + std::to_string(first) + ", expected " + std::to_string(expFirst));
    checkQueries("first");
    if (r1 != r2)
        fail("forms-disagree", "the two list overloads disagree");
    b.si->freeStates(states);
    ++replayed;
    if (cs.contains("lst") && q1 == cs["lst"].get<std::vector<int>>())
        ++orderOk;
    if (count <= 1)
        ++V.listSmall;
    else if (r1)
        ++V.listValid;
    else if (q1.size() == 1)
        ++V.listFailFront;
    else if (q1.size() == 2)
        ++V.listFailBack;
    else
        ++V.listFailMid;
}

// getMotionStates lattice: count, endpoints flag, equal spacing, alloc or caller's storage
static void runStates(Binding &b, const json &cs, Failures &F, long &replayed)
{
    const int count = cs["count"].get<int>();
    const bool endpoints = cs["endpoints"].get<bool>();
    const int den = cs["den"].get<int>();
    const std::vector<int> num = cs["num"].get<std::vector<int>>();
    auto fail = [&](const std::string &clause, const std::string &why) {
        F.add(b.name, "getMotionStates", "getMotionStates:" + clause, why, cs);
    };
    // a motion with den lattice steps in this binding: the states asked for are its points num[k]
    if (!b.applies(den))
        return;
    b.nd = den;
    b.setPair(den, b.s1, b.s2);
    auto check = [&](const std::vector<ob::State *> &st, unsigned got, const std::string &how) {
        if (got != num.size())
        {
            fail("count:" + how, "getMotionStates returned " + std::to_string(got) + " states, expected " +
                                     std::to_string(num.size()));
            return;
        }
        for (std::size_t k = 0; k < num.size(); ++k)
        {
            double off = 0, u = b.coord(st[k], off);
            if (std::fabs(u - num[k]) > LATTICE_TOL || off > LATTICE_TOL)
            {
                fail("spacing:" + how, "state " + std::to_string(k) + " is not at " + std::to_string(num[k]) + "/" +
                                           std::to_string(den) + " of the motion");
                return;
            }
        }
    };
    {
        std::vector<ob::State *> st;
        unsigned got = b.si->getMotionStates(b.s1, b.s2, st, count, endpoints, true);
        if (st.size() != got)
            fail("count:alloc", "vector size differs from the returned number of states");
        else
            check(st, got, "alloc");
        b.si->freeStates(st);
    }
    {
        std::vector<ob::State *> st(num.size());
        for (auto &s : st)
            s = b.si->allocState();
        unsigned got = b.si->getMotionStates(b.s1, b.s2, st, count, endpoints, false);
        check(st, got, "prealloc");
        b.si->freeStates(st);
    }
    if (!num.empty())
    {
        // less room than needed: may return fewer, never more than fit
        std::vector<ob::State *> st(num.size() - 1);
        for (auto &s : st)
            s = b.si->allocState();
        unsigned got = b.si->getMotionStates(b.s1, b.s2, st, count, endpoints, false);
        if (got > st.size())
            fail("count:short", "returned more states than the caller's vector holds");
        b.si->freeStates(st);
    }
    ++replayed;
    ++b.statesReplayed;
}

static int replay(const std::string &path, const std::string &only)
{
    auto bindings = allBindings();
    Failures F;
    Vacuity V;
    long cases = 0, listReplayed = 0, listOrder = 0, statesReplayed = 0, motionCases = 0, listCases = 0;
    Binding &r1 = *bindings[0];
    std::ifstream in(path);
    if (!in)
        framework("cannot read " + path);
    std::string line;
    while (std::getline(in, line))
    {
        if (line.empty())
            continue;
        json cs = json::parse(line);
        std::string filter = only;
        if (cs.contains("binding") && filter.empty())
            filter = cs["binding"].get<std::string>();
        const std::string k = cs["k"].get<std::string>();
        ++cases;
        if (k == "motion")
        {
            ++motionCases;
            for (auto &b : bindings)
                if (filter.empty() || filter == b->name)
                    runMotion(*b, cs, F, V);
        }
        else if (k == "list")
        {
            ++listCases;
            if (filter.empty() || filter == "list")
                runList(r1, cs, F, V, listReplayed, listOrder);
        }
        else if (k == "states")
        {
            for (auto &b : bindings)
                if ((filter.empty() && (b->name == "r1" || b->name == "so2-seam" || b->name == "se2-x" ||
                                        b->name == "dubins" || b->name == "reedsshepp-backwards")) ||
                    filter == b->name)
                    runStates(*b, cs, F, statesReplayed);
        }
        else
            framework("unknown case kind " + k);
    }
    json per = json::object(), families = json::object();
    long scenarios = listReplayed + statesReplayed;
    families["state-list"] = json::array({"list"});
    families["getMotionStates"] = json::array();
    for (auto &b : bindings)
    {
        if (b->replayed)
            families[b->family + "-validator"].push_back(b->name);
        if (b->statesReplayed)
            families["getMotionStates"].push_back(b->name);
        per[b->name] = json{{"replayed", b->replayed}, {"family", b->family}, {"segment_count_mismatch", b->mismatch}, {"not_applicable", b->skipped}, {"order_as_model_lin", b->orderLin},
                            {"order_as_model_bis", b->orderBis}, {"max_lattice_dev", b->maxDev}};
        scenarios += b->replayed;
    }
    json fk = json::object();
    for (auto &c : F.count)
        fk[c.first] = c.second;
    json firsts = json::array();
    for (auto &f : F.first)
        firsts.push_back(f.second);
    json summ{{"cases", cases},
              {"motion_cases", motionCases},
              {"list_cases", listCases},
              {"scenarios", scenarios},
              {"list_replayed", listReplayed},
              {"list_order_as_model", listOrder},
              {"states_replayed", statesReplayed},
              {"failures", F.total()},
              {"failure_keys", fk},
              {"first_failures", firsts},
              {"bindings", per},
              {"families", families},
              {"vacuity",
               json{{"motion_valid", V.motionValid}, {"lin_fail_in_scan", V.linFailScan}, {"lin_fail_at_end", V.linFailEnd},
                    {"bis_fail_at_end", V.bisFailEnd}, {"bis_fail_at_mid", V.bisFailMid}, {"nd0", V.nd0}, {"nd1", V.nd1},
                    {"list_valid", V.listValid}, {"list_fail_front", V.listFailFront}, {"list_fail_back", V.listFailBack},
                    {"list_fail_mid", V.listFailMid}, {"list_small", V.listSmall}}}};
    std::cout << "SUMMARY " << summ.dump() << std::endl;
    for (auto &b : bindings)
        b->release();
    return F.total() ? 1 : 0;
}

// ------------------------------------------------------------------------------------------
// SegmentCount cases: (d, L, f) realized exactly in R^1 (bounds [0, 64 L], fraction 1/64)
static int segcount(const std::string &path)
{
    Failures F;
    long cases = 0, single = 0, compound = 0, compoundOwnFactorIgnored = 0;
    auto r1 = [](int L, int f) {
        auto sp = std::make_shared<ob::RealVectorStateSpace>(1);
        sp->setBounds(0.0, 64.0 * L);
        sp->setValidSegmentCountFactor((unsigned)f);
        return sp;
    };
    std::ifstream in(path);
    if (!in)
        framework("cannot read " + path);
    std::string line;
    while (std::getline(in, line))
    {
        if (line.empty())
            continue;
        json cs = json::parse(line);
        ++cases;
        const std::string k = cs["k"].get<std::string>();
        const unsigned exp = cs["exp"].get<unsigned>();
        if (k == "single")
        {
            const json &a = cs["a"];
            auto sp = r1(a["L"], a["f"]);
            sp->setLongestValidSegmentFraction(1.0 / 64);
            sp->setup();
            if (sp->getLongestValidSegmentLength() != (double)a["L"].get<int>())
                framework("R^1 longest valid segment not exact");
            ob::State *x = sp->allocState(), *y = sp->allocState();
            *sp->getValueAddressAtIndex(x, 0) = 0.0;
            *sp->getValueAddressAtIndex(y, 0) = (double)a["d"].get<int>();
            unsigned got = sp->validSegmentCount(x, y), back = sp->validSegmentCount(y, x);
            if (got != exp || back != exp)
                F.add("r1", "validSegmentCount", "factor*ceil(d/L)", "validSegmentCount is " + std::to_string(got) + "/" + std::to_string(back) +
                                                      ", expected " + std::to_string(exp), cs);
            sp->freeState(x);
            sp->freeState(y);
            ++single;
        }
        else
        {
            const json &a = cs["a"], &c = cs["b"];
            auto sa = r1(a["L"], a["f"]), sb = r1(c["L"], c["f"]);
            auto sp = std::make_shared<ob::CompoundStateSpace>();
            sp->addSubspace(sa, 3.0);
            sp->addSubspace(sb, 0.25);
            sp->setLongestValidSegmentFraction(1.0 / 64);
            sp->setup();
            if (sa->getLongestValidSegmentLength() != (double)a["L"].get<int>() ||
                sb->getLongestValidSegmentLength() != (double)c["L"].get<int>())
                framework("compound component longest valid segment not exact");
            ob::State *x = sp->allocState(), *y = sp->allocState();
            *sp->getValueAddressAtIndex(x, 0) = 0.0;
            *sp->getValueAddressAtIndex(x, 1) = 0.0;
            *sp->getValueAddressAtIndex(y, 0) = (double)a["d"].get<int>();
            *sp->getValueAddressAtIndex(y, 1) = (double)c["d"].get<int>();
            unsigned got = sp->validSegmentCount(x, y);
            if (got != exp)
                F.add("r1xr1", "compound-validSegmentCount", "max-of-components", "compound validSegmentCount is " + std::to_string(got) +
                                                            ", expected " + std::to_string(exp), cs);
            // observation only: a factor set on the compound itself does not reach the components
            sp->setValidSegmentCountFactor(2);
            if (exp > 0 && sp->validSegmentCount(x, y) == got)
                ++compoundOwnFactorIgnored;
            sp->freeState(x);
            sp->freeState(y);
            ++compound;
        }
    }
    json fk = json::object();
    for (auto &c : F.count)
        fk[c.first] = c.second;
    json firsts = json::array();
    for (auto &f : F.first)
        firsts.push_back(f.second);
    std::cout << "SUMMARY "
              << json{{"cases", cases}, {"scenarios", cases}, {"single", single}, {"compound", compound},
                      {"compound_own_factor_ignored", compoundOwnFactorIgnored}, {"failures", F.total()},
                      {"families", json{{"validSegmentCount", json::array({"r1"})}, {"compound-validSegmentCount", json::array({"r1xr1"})}}},
                      {"failure_keys", fk}, {"first_failures", firsts}}
                     .dump()
              << std::endl;
    return F.total() ? 1 : 0;
}

// ------------------------------------------------------------------------------------------
// impl -> spec: random curved motions.  The lattice of a pair is by definition the public
// interpolate(s1, s2, k/nd); a queried state is projected to the nearest lattice point.
struct Curved
{
    std::string name;
    std::shared_ptr<ob::SE2StateSpace> space;
    ob::SpaceInformationPtr si;
    std::shared_ptr<Recorder> rec;
    std::vector<ob::State *> lattice;
};

static double poseDist(const ob::State *a, const ob::State *b)
{
    const auto *A = a->as<ob::SE2StateSpace::StateType>();
    const auto *B = b->as<ob::SE2StateSpace::StateType>();
    return std::max({std::fabs(A->getX() - B->getX()), std::fabs(A->getY() - B->getY()), angDiff(A->getYaw(), B->getYaw())});
}

static int record(const std::string &out, long ncases)
{
    vt::Trace tr(out);
    vt::Rng rng(vt::envSeed() * 7919ULL + 5);
    std::vector<std::shared_ptr<Curved>> cv;
    auto add = [&](const std::string &name, std::shared_ptr<ob::SE2StateSpace> sp, double frac, unsigned factor) {
        auto c = std::make_shared<Curved>();
        c->name = name;
        c->space = sp;
        ob::RealVectorBounds bounds(2);
        bounds.setLow(-4);
        bounds.setHigh(4);
        sp->setBounds(bounds);
        sp->setLongestValidSegmentFraction(frac);
        sp->setValidSegmentCountFactor(factor);
        c->si = std::make_shared<ob::SpaceInformation>(sp);
        c->rec = std::make_shared<Recorder>(c->si);
        c->si->setStateValidityChecker(c->rec);
        c->si->setup();
        Curved *p = c.get();
        c->rec->index = [p](const ob::State *s, int &near) {
            double best = 1e300;
            near = -1;
            for (std::size_t k = 0; k < p->lattice.size(); ++k)
            {
                double d = poseDist(s, p->lattice[k]);
                if (d < best)
                {
                    best = d;
                    near = (int)k;
                }
            }
            return best <= LATTICE_TOL ? near : OFF_LATTICE;
        };
        cv.push_back(c);
    };
    add("dubins", std::make_shared<ob::DubinsStateSpace>(1.0, false), 0.04, 1);
    add("dubins-symmetric", std::make_shared<ob::DubinsStateSpace>(0.7, true), 0.05, 1);
    add("dubins-factor2", std::make_shared<ob::DubinsStateSpace>(1.3, false), 0.09, 2);
    add("reedsshepp", std::make_shared<ob::ReedsSheppStateSpace>(1.0), 0.04, 1);
    add("reedsshepp-tight", std::make_shared<ob::ReedsSheppStateSpace>(2.5), 0.05, 1);
    add("se2", std::make_shared<ob::SE2StateSpace>(), 0.03, 1);
    tr.emit(json{{"e", "Reset"}});
    long made = 0, ambiguous = 0, attempts = 0, maxNd = 0, invalidCases = 0, offLattice = 0;
    std::map<std::string, long> per;
    while (made < ncases)
    {
        if (++attempts > ncases * 20 + 1000)
            framework("too many ambiguous curved cases");
        Curved &c = *cv[rng.below((int)cv.size())];
        ob::State *s1 = c.si->allocState(), *s2 = c.si->allocState();
        auto rnd = [&](ob::State *s) {
            auto *S = s->as<ob::SE2StateSpace::StateType>();
            S->setXY(-4 + 8 * rng.unit(), -4 + 8 * rng.unit());
            S->setYaw(-PI + 2 * PI * rng.unit());
        };
        rnd(s1);
        rnd(s2);
        int shape = rng.below(10);
        if (shape == 0)  // nearby pair: nd 1 or 2
        {
            auto *A = s1->as<ob::SE2StateSpace::StateType>();
            auto *B = s2->as<ob::SE2StateSpace::StateType>();
            B->setXY(A->getX() + 0.05 * cos(A->getYaw()), A->getY() + 0.05 * sin(A->getYaw()));
            B->setYaw(A->getYaw());
        }
        else if (shape == 1)  // wrap-around pair of headings
        {
            s1->as<ob::SE2StateSpace::StateType>()->setYaw(PI - 0.2 * rng.unit());
            s2->as<ob::SE2StateSpace::StateType>()->setYaw(-PI + 0.2 * rng.unit());
        }
        const int nd = (int)c.space->validSegmentCount(s1, s2);
        for (ob::State *s : c.lattice)
            c.si->freeState(s);
        c.lattice.clear();
        for (int k = 0; k <= nd; ++k)
        {
            ob::State *p = c.si->allocState();
            if (k == nd)
                c.si->copyState(p, s2);
            else
                c.space->interpolate(s1, s2, (double)k / (double)nd, p);
            c.lattice.push_back(p);
        }
        bool amb = false;
        for (int a = 0; a <= nd && !amb; ++a)
            for (int b = a + 1; b <= nd; ++b)
                if (poseDist(c.lattice[a], c.lattice[b]) < 1e-5)
                {
                    amb = true;
                    break;
                }
        if (amb || nd > 400)
        {
            ++ambiguous;
            c.si->freeState(s1);
            c.si->freeState(s2);
            continue;
        }
        // the predicate
        std::vector<char> ok(nd + 1, 1);
        int mode = rng.below(20);
        if (nd > 0)
        {
            if (mode < 4)
                ;  // everything valid
            else if (mode < 11)
                ok[1 + rng.below(nd)] = 0;
            else if (mode < 14)
                ok[nd] = 0;
            else if (mode < 18)
                for (int k = 1; k <= nd; ++k)
                    ok[k] = rng.below(5) != 0;
            else
                for (int k = 1; k <= nd; ++k)
                    ok[k] = rng.below(2);
        }
        c.rec->ok = ok;
        json valid = json::array();
        for (int k = 1; k <= nd; ++k)
            if (ok[k])
                valid.push_back(k);
        auto qjson = [&](const std::vector<int> &q) {
            json a = json::array();
            for (int i : q)
            {
                a.push_back(i == OFF_LATTICE ? -1 : i);
                if (i == OFF_LATTICE)
                    ++offLattice;
            }
            return a;
        };
        // form 1
        ob::State *sent = c.si->allocState(), *store = c.si->allocState(), *tmp = c.si->allocState();
        sent->as<ob::SE2StateSpace::StateType>()->setXY(-3.987654321, 3.123456789);
        sent->as<ob::SE2StateSpace::StateType>()->setYaw(0.987654321);
        c.si->copyState(store, sent);
        std::pair<ob::State *, double> lv(store, SENT_FRACTION);
        c.rec->q.clear();
        bool r1 = c.si->checkMotion(s1, s2, lv);
        json lin{{"r", r1}, {"q", qjson(c.rec->q)}};
        int last;
        if (lv.second == SENT_FRACTION)
            last = -1;
        else
        {
            double u = lv.second * nd;
            long r = std::lround(u);
            last = (std::fabs(u - r) < 1e-9 && r >= 0 && r <= nd) ? (int)vt::tlcInt(r) : -2;
        }
        lin["last"] = last;
        int st = 2;
        if (poseDist(store, sent) == 0.0)
            st = 0;
        else if (lv.second >= 0.0 && lv.second <= 1.0)
        {
            c.space->interpolate(s1, s2, lv.second, tmp);
            if (poseDist(store, tmp) <= 1e-9)
                st = 1;
        }
        lin["st"] = st;
        // form 2
        c.rec->q.clear();
        bool r2 = c.si->checkMotion(s1, s2);
        json bis{{"r", r2}, {"q", qjson(c.rec->q)}};
        tr.emit(json{{"e", "Motion"}, {"v", c.name}, {"nd", nd}, {"valid", valid}, {"lin", lin}, {"bis", bis}});
        ++made;
        ++per[c.name];
        maxNd = std::max<long>(maxNd, nd);
        if (!r1)
            ++invalidCases;
        for (ob::State *s : {s1, s2, sent, store, tmp})
            c.si->freeState(s);
    }
    for (auto &c : cv)
        for (ob::State *s : c->lattice)
            c->si->freeState(s);
    json perj = json::object();
    for (auto &p : per)
        perj[p.first] = p.second;
    std::cout << "RECORDED "
              << json{{"events", tr.count()}, {"motions", made}, {"skipped_ambiguous", ambiguous}, {"max_nd", maxNd},
                      {"invalid_motions", invalidCases}, {"off_lattice_queries", offLattice}, {"per_space", perj}}
                     .dump()
              << std::endl;
    return 0;
}

int main(int argc, char **argv)
{
    vt::installCrashHandlers();
    ompl::msg::setLogLevel(ompl::msg::LOG_ERROR);
    std::string mode = argc > 1 ? argv[1] : "";
    if (mode == "replay" && argc > 2)
        return replay(argv[2], argc > 3 ? argv[3] : "");
    if (mode == "segcount" && argc > 2)
        return segcount(argv[2]);
    if (mode == "record" && argc > 3)
        return record(argv[2], atol(argv[3]));
    fprintf(stderr, "usage: motion replay <cases> [binding] | motion segcount <cases> | motion record <out> <n>\n");
    return 2;
}
