// C19 harness, scenario family planner:<name>: runs a REAL multi-threaded planner (pRRT, pSBL, PRM, PRMstar, CForest,
// AnytimePathShortening) on a small grid world with the OMPL_VERIF hooks on and records
//   (a) the hook events of its worker threads - fork / begin / end / join, lock acquired / releasing / try failed,
//       access (resource, site, object, read|write, atomic?, which of the named mutexes are owned right now) - for
//       the happens-before / lockset race rule and the mutex rules of specs/conc/SharedMemTrace.tla and for the
//       protocol trace specs (specs/conc/PSBLTrace.tla ...);
//   (b) the "Solve" report row that specs/base/PlannerContractTrace.tla judges (same contract as single-threaded
//       planners).
// The YIELD hooks (and accesses made without the protecting lock) are used to perturb the schedule, seeded.
//
//   concplan run <events.ndjson> <solve.ndjson> '<job json>'
//   job: {planner, threads, W, H, obst, start, goal, space, thr, range, budget, seed, query, perturb, flakyEvery,
//         solves, res}
#include "c19_plan.h"

using namespace c19;

static double rangeFor(const std::string &cls)
{
    if (cls == "tiny")
        return 0.15;
    if (cls == "small")
        return 0.4;
    if (cls == "huge")
        return 100.0;
    return 0.0;
}
static double thresholdFor(const std::string &cls)
{
    if (cls == "cell")
        return 0.5;
    if (cls == "huge")
        return 100.0;
    return 0.0;
}

int main(int argc, char **argv)
{
    vt::installCrashHandlers();
    quietLogs();
    if (argc < 5 || std::string(argv[1]) != "run")
    {
        fprintf(stderr, "usage: concplan run <events.ndjson> <solve.ndjson> '<job json>'\n");
        return 2;
    }
    vt::Trace tr(argv[2]);
    vt::Trace solveTr(argv[3]);
    json job = json::parse(argv[4]);
    const std::string planner = job["planner"];
    const int threads = job.value("threads", 2);
    const std::string space = job.value("space", "R2");
    const std::string thr = job.value("thr", "cell");
    const std::string range = job.value("range", "default");
    const std::string query = job.value("query", "single");
    const long budget = job.value("budget", 300);
    const unsigned seed = job.value("seed", 1u);
    const int solves = job.value("solves", 1);
    const long flakyEvery = job.value("flakyEvery", 0);
    const double res = job.value("res", 0.01);
    const std::string variant = job.value("variant", "plain");

    auto reg = registry();
    const Entry *e = findPlanner(reg, planner);
    if (!e)
    {
        fprintf(stderr, "unknown planner %s\n", planner.c_str());
        return 2;
    }
    World w(job["W"], job["H"], job["obst"].get<std::vector<int>>());
    Problem pr(w, space, res);
    std::atomic<long> samplerCalls{0};
    if (flakyEvery > 0)
        pr.si->setValidStateSamplerAllocator([&](const ob::SpaceInformation *si) {
            return std::make_shared<FlakyValidSampler>(si, &samplerCalls, flakyEvery);
        });
    ompl::RNG::setSeed(seed);
    vt::Rng jit(seed);
    std::vector<int> xstarts, xgoals;
    auto pd = makeQueryVariant(pr, query, job["start"], job["goal"], thresholdFor(thr), jit, xstarts, xgoals);
    ob::PlannerPtr p = e->make(pr.si);
    p->setProblemDefinition(pd);
    if (rangeFor(range) > 0 && p->params().hasParam("range"))
        p->params().setParam("range", std::to_string(rangeFor(range)));
    if (auto *x = dynamic_cast<og::pRRT *>(p.get()))
        x->setThreadCount(threads);
    if (auto *x = dynamic_cast<og::pSBL *>(p.get()))
        x->setThreadCount(threads);
    if (auto *x = dynamic_cast<og::CForest *>(p.get()))
        x->setNumThreads(threads);
    if (auto *x = dynamic_cast<og::AnytimePathShortening *>(p.get()))
        x->setDefaultNumPlanners(threads);
    if (job.contains("focus") && p->params().hasParam("focus_search"))
        p->params().setParam("focus_search", job["focus"].get<int>() ? "1" : "0");
    // AnytimePathShortening creates its planner instances in setup() and does not call it from solve()
    p->setup();

    Recorder &r = rec();
    r.seed = seed;
    r.perturb = job.value("perturb", 1);
    r.accessCapPerThread = job.value("cap", 20000);
    if (job.contains("stall"))
        for (auto &sp : job["stall"].get<std::vector<std::string>>())
            r.addStall(sp);
    if (job.contains("goalBias") && p->params().hasParam("goal_bias"))
        p->params().setParam("goal_bias", std::to_string(job["goalBias"].get<double>()));
    Ids ids;
    const std::string scen = "planner:" + planner + ":" + variant;
    long events = 0;
    for (int k = 0; k < solves; ++k)
    {
        Budget b;
        b.k = budget;
        b.pdef = pd.get();
        b.stopOnExact = (seed % 2) == 0;
        std::size_t nBefore = pd->getSolutionCount();
        ob::PlannerStatus st;
        std::string thrown;
        ompl::verif::sink().store(&sinkFn);
        try
        {
            st = p->solve(b.ptc());
        }
        catch (const ompl::Exception &ex)
        {
            thrown = ex.what();
        }
        ompl::verif::sink().store(nullptr);
        events += flush(tr, scen + (k ? ":resolve" : ""), ids);
        tr.emit(json{{"e", "PlanResult"}, {"planner", planner}, {"status", thrown.empty() ? statusName(st) : "EXCEPTION"},
                     {"solve", k}, {"evals", (long)b.evals.load()}, {"samplerCalls", (long)samplerCalls.load()}});
        tr.flush();
        if (k == 0)
        {
            json ev;
            ev["e"] = "Solve";
            ev["planner"] = planner;
            ev["space"] = space;
            ev["W"] = w.W;
            ev["H"] = w.H;
            ev["obst"] = job["obst"];
            ev["start"] = job["start"];
            ev["goal"] = job["goal"];
            ev["query"] = query;
            ev["xstarts"] = xstarts;
            ev["xgoals"] = xgoals;
            ev["thr"] = query == "region" && thr == "tiny" ? "cell" : thr;
            ev["thrMicro"] = fx(pr.threshold);
            ev["range"] = range == "small" ? "tiny" : range;
            ev["budget"] = budget;
            ev["seed"] = seed;
            ev["res"] = fx(pr.resolutionLength);
            ev["resFrac"] = fx(res);
            ev["pairs"] = (e->flags & F_PAIRS) != 0;
            ev["status"] = thrown.empty() ? statusName(st) : "EXCEPTION";
            if (!thrown.empty())
                ev["what"] = thrown.substr(0, 160);
            ev["nBefore"] = (int)nBefore;
            ev["nAfter"] = (int)pd->getSolutionCount();
            ev["evals"] = (long)b.evals.load();
            json sols = json::array();
            for (auto &s : pd->getSolutions())
                sols.push_back(solutionFacts(pr, *pd, s));
            ev["sols"] = sols;
            solveTr.emit(ev);
            solveTr.flush();
        }
    }
    std::cout << "RECORDED " << events << " dropped " << r.dropped.load() << " yields " << r.yields.load() << " sleeps "
              << r.sleeps.load() << std::endl;
    return 0;
}
