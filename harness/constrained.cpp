// C16 harness: binds specs/spaces/Geodesic.tla (spec -> impl: every behaviour TLC enumerates on the
// exact lattice sub-domain is replayed on the real ProjectedStateSpace / AtlasStateSpace /
// TangentBundleStateSpace inside a scripted environment) and specs/spaces/ConstrainedContractTrace.tla
// (impl -> spec: TLC judges what the real spaces, samplers and planners produced) to OMPL.
//
//   constrained replay <cases.ndjson> <trace.ndjson>
//        every finished behaviour of Geodesic.tla x every binding (embedding of the lattice line):
//        the script of the behaviour is served by this file's Constraint / StateValidityChecker
//        subclasses; discreteGeodesic, interpolate and both checkMotion overloads run on the real
//        space; the result is compared with the model (drift metric) and its contract-level facts
//        are logged as Geo / Interp / Motion records
//   constrained record <trace.ndjson> <quick|thorough> <jobs> [workdir]
//        real manifolds (sphere, torus, planes, intersections, products; co-dimension 1..3) x space
//        kind x parameter sets: samplers, valid-state samplers, interpolation, geodesics, motion
//        checks, and planners on top.  One forked child per block / planner run, seeded by
//        RNG::setSeed(mix(VERIF_SEED, block)) before anything else, so every block is reproducible
//        alone; a crash or hang of a child is a record no specification accepts.
//   constrained block <sp> <manifold> <cfg> [verbose]      one recording block to stdout
//   constrained plan <sp> <manifold> <planner> <cfg>       one planner run to stdout
//
// Facts are computed with this file's own closed-form constraint functions (long double); verdicts
// are TLC's.  BAD lines only describe (states as hex doubles for exact reproduction).
#include "vtrace.h"

#include "ompl/base/Constraint.h"
#include "ompl/base/ConstrainedSpaceInformation.h"
#include "ompl/base/PlannerTerminationCondition.h"
#include "ompl/base/ProblemDefinition.h"
#include "ompl/base/ProjectionEvaluator.h"
#include "ompl/base/spaces/RealVectorStateSpace.h"
#include "ompl/base/spaces/constraint/AtlasStateSpace.h"
#include "ompl/base/spaces/constraint/ConstrainedStateSpace.h"
#include "ompl/base/spaces/constraint/ProjectedStateSpace.h"
#include "ompl/base/spaces/constraint/TangentBundleStateSpace.h"
#include "ompl/geometric/PathGeometric.h"
#include "ompl/geometric/planners/est/BiEST.h"
#include "ompl/geometric/planners/est/EST.h"
#include "ompl/geometric/planners/est/ProjEST.h"
#include "ompl/geometric/planners/informedtrees/BITstar.h"
#include "ompl/geometric/planners/kpiece/BKPIECE1.h"
#include "ompl/geometric/planners/kpiece/KPIECE1.h"
#include "ompl/geometric/planners/prm/PRM.h"
#include "ompl/geometric/planners/rrt/RRT.h"
#include "ompl/geometric/planners/rrt/RRTConnect.h"
#include "ompl/geometric/planners/rrt/RRTstar.h"
#include "ompl/util/Console.h"
#include "ompl/util/Exception.h"
#include "ompl/util/RandomNumbers.h"

#include <execinfo.h>
#include <sys/resource.h>
#include <sys/wait.h>
#include <cmath>
#include <limits>
#include <set>

namespace ob = ompl::base;
namespace og = ompl::geometric;
using vt::json;
typedef long double LD;
typedef ob::ConstrainedStateSpace::StateType CState;

[[noreturn]] static void framework(const std::string &what)
{
    fprintf(stdout, "FRAMEWORK %s\n", what.c_str());
    fflush(stdout);
    _exit(4);
}

static std::string hexd(double v)
{
    char b[64];
    snprintf(b, sizeof b, "%a", v);
    return b;
}
static json hexvec(const double *x, unsigned n)
{
    json a = json::array();
    for (unsigned i = 0; i < n; ++i)
        a.push_back(hexd(x[i]));
    return a;
}
static json decvec(const double *x, unsigned n)
{
    json a = json::array();
    for (unsigned i = 0; i < n; ++i)
        a.push_back(x[i]);
    return a;
}
static const double *vals(const ob::State *s)
{
    return s->as<CState>()->data();
}
static double *vals(ob::State *s)
{
    return s->as<CState>()->data();
}
static double edist(const double *a, const double *b, unsigned n)
{
    LD s = 0;
    for (unsigned i = 0; i < n; ++i)
        s += ((LD)a[i] - b[i]) * ((LD)a[i] - b[i]);
    return (double)sqrtl(s);
}
static long long fixedRatio(double num, double den)
{
    double r = den > 0 ? num / den * 1e6 : 0;
    if (!(r == r) || r > 2e9)
        r = 2e9;
    return (long long)llround(r);
}

// ===================================================================== space kinds / parameters
struct Params
{
    double delta{0.05}, lambda{2.0}, tol{1e-4};
    double eps{0.05}, rho{0.25}, expl{0.75}, alpha{M_PI / 8};
    unsigned maxCharts{200};
    bool separate{true};
    json describe() const
    {
        return json{{"delta", delta}, {"lambda", lambda}, {"tol", tol}, {"epsilon", eps}, {"rho", rho},
                    {"exploration", expl}, {"alpha", alpha}, {"maxCharts", maxCharts}, {"separate", separate}};
    }
};

struct Env
{
    char kind{'P'};   // P(J) A(T) T(B)
    unsigned n{0};
    ob::StateSpacePtr amb;
    ob::ConstraintPtr con;
    ob::ConstrainedStateSpacePtr css;
    ob::ConstrainedSpaceInformationPtr csi;
    ob::AtlasStateSpace *atlas() const
    {
        return kind == 'P' ? nullptr : css->as<ob::AtlasStateSpace>();
    }
    ob::State *state(const double *x) const
    {
        ob::State *s = css->allocState();
        for (unsigned i = 0; i < n; ++i)
            vals(s)[i] = x[i];
        return s;
    }
    void anchor(const double *x) const
    {
        if (kind == 'P')
            return;
        ob::State *s = state(x);
        atlas()->anchorChart(s);
        css->freeState(s);
    }
};

static const char *kindName(char k)
{
    return k == 'P' ? "PJ" : k == 'A' ? "AT" : "TB";
}
static char kindOf(const std::string &s)
{
    if (s == "PJ")
        return 'P';
    if (s == "AT")
        return 'A';
    if (s == "TB")
        return 'T';
    framework("unknown space kind " + s);
}

// the construction order of demos/constraint/ConstrainedPlanningCommon.h
static Env makeEnv(char kind, unsigned n, double box, const ob::ConstraintPtr &con, const Params &p,
                   const ob::StateValidityCheckerFn &valid)
{
    Env e;
    e.kind = kind;
    e.n = n;
    auto rv = std::make_shared<ob::RealVectorStateSpace>(n);
    ob::RealVectorBounds b(n);
    b.setLow(-box);
    b.setHigh(box);
    rv->setBounds(b);
    e.amb = rv;
    e.con = con;
    con->setTolerance(p.tol);
    if (kind == 'P')
    {
        e.css = std::make_shared<ob::ProjectedStateSpace>(e.amb, con);
        e.csi = std::make_shared<ob::ConstrainedSpaceInformation>(e.css);
    }
    else if (kind == 'A')
    {
        e.css = std::make_shared<ob::AtlasStateSpace>(e.amb, con);
        e.csi = std::make_shared<ob::ConstrainedSpaceInformation>(e.css);
    }
    else
    {
        e.css = std::make_shared<ob::TangentBundleStateSpace>(e.amb, con);
        e.csi = std::make_shared<ob::TangentBundleSpaceInformation>(e.css);
    }
    e.css->setup();
    e.css->setDelta(p.delta);
    e.css->setLambda(p.lambda);
    if (kind != 'P')
    {
        auto *at = e.atlas();
        at->setExploration(p.expl);
        at->setEpsilon(p.eps);
        at->setRho(p.rho);
        at->setAlpha(p.alpha);
        at->setMaxChartsPerExtension(p.maxCharts);
        if (kind == 'A')
            at->setSeparated(p.separate);
        at->setup();
    }
    e.csi->setStateValidityChecker(valid);
    e.csi->setup();
    return e;
}

// ===================================================================== the scripted lattice (replay)
static const int FAIL = 1000;
static const int UNSCRIPTED = -999;

struct Binding
{
    std::string name;
    unsigned n;                      // ambient dimension
    unsigned axis;                   // coordinate the lattice line runs along
    int dir;                         // +1 / -1: direction of increasing cell index
    double x0, h;                    // cell c sits at x0 + dir * c * h along the axis (h dyadic)
    std::vector<unsigned> fixed;     // constrained coordinates (co-dimension = fixed.size())
    std::vector<double> base;        // value of every coordinate off the axis (free ones: the row)
};

static const std::vector<Binding> &bindings()
{
    static const std::vector<Binding> b = {
        {"r2-x", 2, 0, +1, 0.0, 0.125, {1}, {0.0, 0.0}},
        // (delta must stay below 1: ConstrainedStateSpace::setDelta hands it to
        // SpaceInformation::setStateValidityCheckingResolution, which takes a FRACTION and throws from 1 on)
        {"r3-y-reversed-codim2", 3, 1, -1, 2.5, 0.0625, {0, 2}, {1.0, 0.0, -0.5}},
        {"r3-plane-row", 3, 0, +1, -1.0, 0.03125, {2}, {0.0, 0.75, 0.25}},
    };
    return b;
}

struct CallLog
{
    std::vector<std::array<int, 3>> v;   // tag ('P','F','V'), cell, outcome
    bool on{false};
    long offLattice{0};
};

struct Script
{
    std::map<int, int> proj;
    std::map<int, int> valid;
};

static bool cellOf(const Binding &b, double v, int &c)
{
    const double q = (v - b.x0) * b.dir / b.h;
    const double r = std::nearbyint(q);
    c = (int)r;
    return std::fabs(q - r) <= 1e-6 && std::fabs(r) < 1e6;
}

class LatticeConstraint : public ob::Constraint
{
public:
    LatticeConstraint(const Binding &b, char kind, const Script &s, CallLog &log)
      : ob::Constraint(b.n, (unsigned)b.fixed.size()), b_(b), kind_(kind), s_(s), log_(log)
    {
    }
    // 0 on the manifold, 1 off it (PJ); NaN in the cells where the chart projection must fail (AT/TB)
    double cellTerm(double along, bool logIt) const
    {
        int c;
        if (!cellOf(b_, along, c))
        {
            ++log_.offLattice;
            return kind_ == 'P' ? 1.0 : 0.0;
        }
        auto it = s_.proj.find(c);
        if (kind_ == 'P')
            return (it != s_.proj.end() && it->second == 0) ? 0.0 : 1.0;
        const int o = it == s_.proj.end() ? 0 : it->second;
        if (logIt && log_.on)
            log_.v.push_back({'F', c, it == s_.proj.end() ? UNSCRIPTED : o});
        return o == FAIL ? std::numeric_limits<double>::quiet_NaN() : 0.0;
    }
    void function(const Eigen::Ref<const Eigen::VectorXd> &x, Eigen::Ref<Eigen::VectorXd> out) const override
    {
        for (std::size_t j = 0; j < b_.fixed.size(); ++j)
            out[j] = x[b_.fixed[j]] - b_.base[b_.fixed[j]];
        out[0] += cellTerm(x[b_.axis], true);
    }
    void jacobian(const Eigen::Ref<const Eigen::VectorXd> &, Eigen::Ref<Eigen::MatrixXd> out) const override
    {
        out.setZero();
        for (std::size_t j = 0; j < b_.fixed.size(); ++j)
            out(j, b_.fixed[j]) = 1;
    }
    using ob::Constraint::project;
    bool project(Eigen::Ref<Eigen::VectorXd> x) const override
    {
        if (kind_ != 'P')
            return ob::Constraint::project(x);
        int c;
        if (!cellOf(b_, x[b_.axis], c))
        {
            ++log_.offLattice;
            if (log_.on)
                log_.v.push_back({'P', 1 << 20, UNSCRIPTED});
            return false;
        }
        auto it = s_.proj.find(c);
        const int o = it == s_.proj.end() ? UNSCRIPTED : it->second;
        if (log_.on)
            log_.v.push_back({'P', c, o});
        if (o == UNSCRIPTED || o == FAIL)
            return false;
        for (unsigned i = 0; i < b_.n; ++i)
            if (i != b_.axis && std::find(b_.fixed.begin(), b_.fixed.end(), i) != b_.fixed.end())
                x[i] = b_.base[i];
        x[b_.axis] = b_.x0 + b_.dir * (c + o) * b_.h;
        return true;
    }

private:
    const Binding &b_;
    char kind_;
    const Script &s_;
    CallLog &log_;
};

struct LatticeWorld
{
    const Binding &b;
    char kind;
    Script script;
    CallLog log;
    Env env;
    double delta, lambda;

    LatticeWorld(const Binding &b_, char kind_, const json &cs) : b(b_), kind(kind_)
    {
        const int T = cs["T"];
        script.proj[0] = 0;
        script.proj[T] = 0;
        for (const auto &c : cs["calls"])
        {
            const std::string tag = c[0];
            const int cell = c[1], o = c[2];
            if (tag == "V")
                script.valid[cell] = o;
            else
            {
                script.proj[cell] = o;
                if (o != 0 && o != FAIL)
                    script.proj[cell + o] = 0;
            }
        }
        if (kind != 'P')
        {   // AT / TB: every cell that is not a NaN cell is on the (flat) manifold
            for (auto it = script.proj.begin(); it != script.proj.end();)
                it = (it->second == FAIL) ? std::next(it) : script.proj.erase(it);
        }
        Params p;
        delta = p.delta = cs["D"].get<int>() * b.h;
        lambda = p.lambda = cs["L"].get<int>() / 2.0;
        p.tol = 1e-4;
        p.expl = 0;                                    // rho_s = rho exactly
        p.rho = std::max(1, cs["R"].get<int>()) * b.h;
        p.maxCharts = cs["MC"].get<unsigned>();
        p.separate = false;
        auto con = std::make_shared<LatticeConstraint>(b, kind, script, log);
        env = makeEnv(kind, b.n, 64.0, con, p, [this](const ob::State *s) {
            int c;
            if (!cellOf(b, vals(s)[b.axis], c))
            {
                ++log.offLattice;
                if (log.on)
                    log.v.push_back({'V', 1 << 20, UNSCRIPTED});
                return true;
            }
            auto it = script.valid.find(c);
            const bool a = it == script.valid.end() ? true : it->second != 0;
            if (log.on)
                log.v.push_back({'V', c, it == script.valid.end() ? UNSCRIPTED : (int)a});
            return a;
        });
        double x[8];
        cellState(0, x);
        env.anchor(x);
    }
    void cellState(int c, double *x) const
    {
        for (unsigned i = 0; i < b.n; ++i)
            x[i] = b.base[i];
        x[b.axis] = b.x0 + b.dir * c * b.h;
    }
    ob::State *cell(int c) const
    {
        double x[8];
        cellState(c, x);
        return env.state(x);
    }
    // this file's own knowledge of the manifold: the residual of the fixed coordinates, and the cell status
    bool sat(const double *x) const
    {
        LD s = 0;
        for (unsigned i : b.fixed)
            s += ((LD)x[i] - b.base[i]) * ((LD)x[i] - b.base[i]);
        if (sqrtl(s) > 1e-4L * (1 + 1e-9L) + 1e-12L)
            return false;
        int c;
        if (!cellOf(b, x[b.axis], c))
            return kind != 'P';
        auto it = script.proj.find(c);
        if (kind == 'P')
            return it != script.proj.end() && it->second == 0;
        return it == script.proj.end() || it->second != FAIL;
    }
    // cell index of a state (INT_MIN when it is not a lattice state of this row)
    int cellIndex(const double *x) const
    {
        int c;
        if (!cellOf(b, x[b.axis], c) || x[b.axis] != b.x0 + b.dir * c * b.h)
            return INT_MIN;
        for (unsigned i = 0; i < b.n; ++i)
            if (i != b.axis && x[i] != b.base[i])
                return INT_MIN;
        return c;
    }
};

// facts of one geodesic, by this file's own arithmetic
struct GeoFacts
{
    int n{0}, unsat{0};
    bool stepOk{true}, endOk{false};
    double maxStep{0}, endDist{-1};
};
template <class Sat>
static GeoFacts geoFacts(const std::vector<ob::State *> &g, const ob::State *to, unsigned n, double delta,
                         double lambda, Sat sat)
{
    GeoFacts f;
    f.n = (int)g.size();
    for (std::size_t i = 0; i < g.size(); ++i)
    {
        if (!sat(vals(g[i])))
            ++f.unsat;
        if (i > 0)
            f.maxStep = std::max(f.maxStep, edist(vals(g[i - 1]), vals(g[i]), n));
    }
    f.stepOk = f.maxStep <= lambda * delta * (1 + 1e-9);
    if (!g.empty())
    {
        f.endDist = edist(vals(g.back()), vals(to), n);
        f.endOk = f.endDist <= delta * (1 + 1e-9);
    }
    return f;
}
static json geoRecord(const char *sp, const std::string &mf, bool ip, bool ok, const GeoFacts &f, bool fromSat,
                      bool toSat, double delta, double lambda)
{
    return json{{"e", "Geo"}, {"sp", sp}, {"mf", mf}, {"ip", ip ? 1 : 0}, {"ok", ok ? 1 : 0}, {"n", f.n},
                {"unsat", f.unsat}, {"stepOk", f.stepOk ? 1 : 0}, {"endOk", f.endOk ? 1 : 0},
                {"fromSat", fromSat ? 1 : 0}, {"toSat", toSat ? 1 : 0},
                {"stepPpm", vt::tlcInt(fixedRatio(f.maxStep, lambda * delta))},
                {"endPpm", vt::tlcInt(f.endDist < 0 ? -1 : fixedRatio(f.endDist, delta))}};
}

static int cmdReplay(const std::string &casesPath, const std::string &tracePath)
{
    ompl::msg::setLogLevel(ompl::msg::LOG_NONE);
    vt::Trace trace(tracePath);
    trace.emit(json{{"e", "Reset"}});
    struct Distinct
    {
        json rec;
        long ci, mult;
    };
    std::map<std::string, std::size_t> distinct;
    std::vector<Distinct> order;
    long cases = 0, runs = 0, drift = 0, events = 0, derived = 0;
    std::map<std::string, long> exitsMatched, perKind, driftKeys, interpBranches;
    json firstDrift;
    auto noteDrift = [&](const std::string &key, const json &cs, const Binding &b, const json &got) {
        ++drift;
        if (driftKeys[key]++ == 0 && driftKeys.size() <= 6)
            std::cout << "DRIFT " << json{{"key", key}, {"binding", b.name}, {"case", cs}, {"got", got}}.dump() << std::endl;
    };
    for (const json &cs : vt::readNdjson(casesPath))
    {
        const long ci = cases++;
        // the contract is a function of the facts of a record: equal records are judged once (`mult` says how
        // many runs produced them, `ci` names the first model case that did, for the replay artefact)
        auto emit = [&](const json &rec) {
            const std::string key = rec.dump();
            auto it = distinct.find(key);
            if (it == distinct.end())
            {
                distinct[key] = order.size();
                order.push_back({rec, ci, 1});
            }
            else
                ++order[it->second].mult;
        };
        const std::string kname = cs["kind"];
        const char kind = kindOf(kname);
        const int T = cs["T"], TDen = (int)cs["it"].size() - 1;
        const bool ip = cs["ip"];
        for (const Binding &b : bindings())
        {
            ++runs;
            ++perKind[kname];
            const std::string mf = "lattice:" + b.name;
            // ---- the geodesic itself
            bool ok;
            GeoFacts facts;
            {
                LatticeWorld w(b, kind, cs);
                ob::State *from = w.cell(0), *to = w.cell(T);
                std::vector<ob::State *> g;
                w.log.on = true;
                ok = w.env.css->discreteGeodesic(from, to, ip, &g);
                w.log.on = false;
                facts = geoFacts(g, to, b.n, w.delta, w.lambda, [&](const double *x) { return w.sat(x); });
                emit(geoRecord(kname.c_str(), mf, ip, ok, facts, w.sat(vals(from)), w.sat(vals(to)), w.delta,
                                     w.lambda));
                ++events;
                // drift against the model: return value, states, environment queries
                json got = json::array(), gotCalls = json::array();
                for (auto *s : g)
                    got.push_back(w.cellIndex(vals(s)));
                std::vector<std::array<int, 3>> want;
                if (kind != 'P')
                    want.push_back({'F', 0, UNSCRIPTED});
                for (const auto &c : cs["calls"])
                {
                    const std::string tag = c[0];
                    want.push_back({tag == "V" ? 'V' : kind == 'P' ? 'P' : 'F', c[1].get<int>(), c[2].get<int>()});
                }
                bool callsOk = want.size() == w.log.v.size();
                for (std::size_t i = 0; callsOk && i < want.size(); ++i)
                    callsOk = want[i][0] == w.log.v[i][0] && want[i][1] == w.log.v[i][1];
                for (auto &c : w.log.v)
                    gotCalls.push_back(json::array({std::string(1, (char)c[0]), c[1], c[2]}));
                bool same = ok == cs["ret"].get<bool>() && got == cs["geo"] && callsOk;
                if (same && kind != 'P')
                {
                    auto *at = w.env.atlas();
                    same = (int)at->getChartCount() == cs["ncharts"].get<int>();
                }
                if (!same)
                    noteDrift(kname + ":geodesic:" + cs["exit"].get<std::string>(), cs, b,
                              json{{"ret", ok}, {"geo", got}, {"calls", gotCalls}});
                else
                    ++exitsMatched[kname + ":" + cs["exit"].get<std::string>()];
                for (auto *s : g)
                    w.env.css->freeState(s);
                w.env.css->freeState(from);
                w.env.css->freeState(to);
            }
            // ---- interpolate(from, to, q / TDen), each on a fresh space (a fresh atlas, as in the model)
            if (ip && TDen >= 1)
            {
                json sat = json::array();
                bool fromSat = true, toSat = true;
                for (int q = 0; q <= TDen; ++q)
                {
                    LatticeWorld w(b, kind, cs);
                    ob::State *from = w.cell(0), *to = w.cell(T), *out = w.env.css->allocState();
                    w.env.css->interpolate(from, to, (double)q / TDen, out);
                    ++derived;
                    sat.push_back(w.sat(vals(out)) ? 1 : 0);
                    fromSat = w.sat(vals(from));
                    toSat = w.sat(vals(to));
                    const int want = cs["it"][q], got = w.cellIndex(vals(out));
                    if (got != want)
                        noteDrift(kname + ":interpolate", cs, b, json{{"q", q}, {"cell", got}});
                    else if (cs["ret"].get<bool>())
                    {
                        const int gi = cs["gi"][q];
                        const int picked = cs["geo"][gi - 1];
                        ++interpBranches[picked != want ? "tb-fallback" : gi == 1 ? "first" : gi == (int)cs["geo"].size() ? "last" : "inner"];
                    }
                    else
                        ++interpBranches["geodesic-failed"];
                    w.env.css->freeState(out);
                    w.env.css->freeState(from);
                    w.env.css->freeState(to);
                }
                emit(json{{"e", "Interp"}, {"sp", kname}, {"mf", mf}, {"fromSat", fromSat ? 1 : 0},
                                {"toSat", toSat ? 1 : 0}, {"sat", sat}});
                ++events;
            }
            // ---- ConstrainedMotionValidator::checkMotion, both overloads
            if (!ip)
            {
                bool cm1, cm2, toSat;
                {
                    LatticeWorld w(b, kind, cs);
                    ob::State *from = w.cell(0), *to = w.cell(T);
                    cm1 = w.env.csi->getMotionValidator()->checkMotion(from, to);
                    toSat = w.sat(vals(to));
                    w.env.css->freeState(from);
                    w.env.css->freeState(to);
                }
                {
                    LatticeWorld w(b, kind, cs);
                    ob::State *from = w.cell(0), *to = w.cell(T), *lv = w.env.css->allocState();
                    for (unsigned i = 0; i < b.n; ++i)
                        vals(lv)[i] = 77.0;
                    std::pair<ob::State *, double> last(lv, -7.0);
                    cm2 = w.env.csi->getMotionValidator()->checkMotion(from, to, last);
                    const json &m = cs["cm2"];
                    const int wantCell = m[1];
                    bool same = cm2 == (m[0].get<int>() == 1);
                    if (m[0].get<int>() == 1)
                        same = same && last.second == -7.0 && vals(lv)[b.axis] == 77.0;
                    else
                        same = same && w.cellIndex(vals(lv)) == wantCell &&
                               last.second == (m[2].get<double>() * b.h) / (m[3].get<double>() * b.h);
                    if (!same || cm1 != cs["cm1"].get<bool>())
                        noteDrift(kname + ":checkMotion", cs, b,
                                  json{{"cm1", cm1}, {"cm2", cm2}, {"cell", w.cellIndex(vals(lv))}, {"t", last.second}});
                    w.env.css->freeState(lv);
                    w.env.css->freeState(from);
                    w.env.css->freeState(to);
                }
                derived += 2;
                emit(json{{"e", "Motion"}, {"sp", kname}, {"mf", mf}, {"cm", cm1 ? 1 : 0}, {"form", 1},
                                {"geoOk", ok ? 1 : 0}, {"toSat", toSat ? 1 : 0}});
                emit(json{{"e", "Motion"}, {"sp", kname}, {"mf", mf}, {"cm", cm2 ? 1 : 0}, {"form", 2},
                                {"geoOk", ok ? 1 : 0}, {"toSat", toSat ? 1 : 0}});
                events += 2;
            }
        }
    }
    for (auto &d : order)
    {
        d.rec["ci"] = d.ci;
        d.rec["mult"] = vt::tlcInt(d.mult);
        trace.emit(d.rec);
    }
    trace.close();
    std::cout << "SUMMARY "
              << json{{"cases", cases}, {"runs", runs}, {"derived_calls", derived}, {"events", events}, {"drift", drift},
                      {"distinct_records", order.size()},
                      {"drift_keys", driftKeys}, {"exits_matched", exitsMatched}, {"per_kind", perKind},
                      {"interp_branches", interpBranches}, {"bindings", bindings().size()}}
                     .dump()
              << std::endl;
    return 0;
}

// ===================================================================== real manifolds (record)
static LD sq(LD v)
{
    return v * v;
}

struct Manifold
{
    std::string name;
    unsigned n, co;
    double box;
    std::function<void(const double *, LD *)> residual;          // this file's own constraint function
    std::function<void(double *)> snap;                          // closed-form nearest point (x must be generic)
    std::vector<double> centre;                                  // reflection through it maps the manifold to itself
    std::vector<int> flip;                                       // coordinates the reflection negates
    std::function<ob::ConstraintPtr()> make;                     // the constraint handed to OMPL
};

// ---- constraints handed to OMPL (written as a user would; the residuals above are separate code)
class SphereConstraint : public ob::Constraint
{
public:
    SphereConstraint(unsigned n, double r, bool numericJacobian = false)
      : ob::Constraint(n, 1), r_(r), numeric_(numericJacobian)
    {
    }
    void function(const Eigen::Ref<const Eigen::VectorXd> &x, Eigen::Ref<Eigen::VectorXd> out) const override
    {
        out[0] = x.norm() - r_;
    }
    void jacobian(const Eigen::Ref<const Eigen::VectorXd> &x, Eigen::Ref<Eigen::MatrixXd> out) const override
    {
        if (numeric_)
            ob::Constraint::jacobian(x, out);
        else
            out = x.transpose().normalized();
    }

private:
    double r_;
    bool numeric_;
};
class TorusConstraint : public ob::Constraint
{
public:
    TorusConstraint(double R, double r) : ob::Constraint(3, 1), R_(R), r_(r)
    {
    }
    void function(const Eigen::Ref<const Eigen::VectorXd> &x, Eigen::Ref<Eigen::VectorXd> out) const override
    {
        Eigen::Vector3d c(x[0], x[1], 0);
        out[0] = (x - R_ * c.normalized()).norm() - r_;
    }
    void jacobian(const Eigen::Ref<const Eigen::VectorXd> &x, Eigen::Ref<Eigen::MatrixXd> out) const override
    {
        const double xyNorm = std::sqrt(x[0] * x[0] + x[1] * x[1]);
        const double denom = std::sqrt(x[2] * x[2] + (xyNorm - R_) * (xyNorm - R_));
        const double c1 = (xyNorm - R_) / (xyNorm * denom);
        out(0, 0) = x[0] * c1;
        out(0, 1) = x[1] * c1;
        out(0, 2) = x[2] / denom;
    }

private:
    double R_, r_;
};
class PlaneConstraint : public ob::Constraint
{
public:
    PlaneConstraint(const std::vector<double> &normal, double d) : ob::Constraint((unsigned)normal.size(), 1), d_(d)
    {
        nrm_ = Eigen::Map<const Eigen::VectorXd>(normal.data(), (Eigen::Index)normal.size());
    }
    void function(const Eigen::Ref<const Eigen::VectorXd> &x, Eigen::Ref<Eigen::VectorXd> out) const override
    {
        out[0] = nrm_.dot(x) - d_;
    }
    void jacobian(const Eigen::Ref<const Eigen::VectorXd> &, Eigen::Ref<Eigen::MatrixXd> out) const override
    {
        out = nrm_.transpose();
    }

private:
    Eigen::VectorXd nrm_;
    double d_;
};
class CirclesConstraint : public ob::Constraint   // S^1 x ... x S^1 in R^(2m)
{
public:
    explicit CirclesConstraint(const std::vector<double> &radii)
      : ob::Constraint(2 * (unsigned)radii.size(), (unsigned)radii.size()), r_(radii)
    {
    }
    void function(const Eigen::Ref<const Eigen::VectorXd> &x, Eigen::Ref<Eigen::VectorXd> out) const override
    {
        for (std::size_t i = 0; i < r_.size(); ++i)
            out[i] = std::hypot(x[2 * i], x[2 * i + 1]) - r_[i];
    }
    void jacobian(const Eigen::Ref<const Eigen::VectorXd> &x, Eigen::Ref<Eigen::MatrixXd> out) const override
    {
        out.setZero();
        for (std::size_t i = 0; i < r_.size(); ++i)
        {
            const double h = std::hypot(x[2 * i], x[2 * i + 1]);
            out(i, 2 * i) = x[2 * i] / h;
            out(i, 2 * i + 1) = x[2 * i + 1] / h;
        }
    }

private:
    std::vector<double> r_;
};
class CoordinateConstraint : public ob::Constraint   // x[i] = v
{
public:
    CoordinateConstraint(unsigned n, unsigned i, double v) : ob::Constraint(n, 1), i_(i), v_(v)
    {
    }
    void function(const Eigen::Ref<const Eigen::VectorXd> &x, Eigen::Ref<Eigen::VectorXd> out) const override
    {
        out[0] = x[i_] - v_;
    }
    void jacobian(const Eigen::Ref<const Eigen::VectorXd> &, Eigen::Ref<Eigen::MatrixXd> out) const override
    {
        out.setZero();
        out(0, i_) = 1;
    }

private:
    unsigned i_;
    double v_;
};

static std::vector<double> unitVec(std::vector<double> v)
{
    LD s = 0;
    for (double c : v)
        s += sq(c);
    for (double &c : v)
        c = (double)(c / sqrtl(s));
    return v;
}

static const std::vector<Manifold> &manifolds()
{
    static std::vector<Manifold> ms;
    if (!ms.empty())
        return ms;
    auto sphere = [](const std::string &name, unsigned n, double r, bool numeric) {
        Manifold m;
        m.name = name, m.n = n, m.co = 1, m.box = r + 1;
        m.residual = [n, r](const double *x, LD *o) {
            LD s = 0;
            for (unsigned i = 0; i < n; ++i)
                s += sq(x[i]);
            o[0] = sqrtl(s) - r;
        };
        m.snap = [n, r](double *x) {
            LD s = 0;
            for (unsigned i = 0; i < n; ++i)
                s += sq(x[i]);
            for (unsigned i = 0; i < n; ++i)
                x[i] = (double)(x[i] * (r / sqrtl(s)));
        };
        m.centre.assign(n, 0.0);
        m.flip.assign(n, 1);
        m.make = [n, r, numeric] { return std::make_shared<SphereConstraint>(n, r, numeric); };
        return m;
    };
    ms.push_back(sphere("sphere3", 3, 1.0, false));
    ms.push_back(sphere("sphere4", 4, 2.0, false));
    ms.push_back(sphere("sphere3-numjac", 3, 1.25, true));
    {
        const double R = 1.5, r = 0.5;
        Manifold m;
        m.name = "torus3", m.n = 3, m.co = 1, m.box = 3;
        m.residual = [R, r](const double *x, LD *o) {
            const LD ring = sqrtl(sq(x[0]) + sq(x[1])) - R;
            o[0] = sqrtl(sq(ring) + sq(x[2])) - r;
        };
        m.snap = [R, r](double *x) {
            const LD u = atan2l(x[1], x[0]);
            const LD cx = R * cosl(u), cy = R * sinl(u);
            const LD dx = x[0] - cx, dy = x[1] - cy, dz = x[2];
            const LD l = sqrtl(dx * dx + dy * dy + dz * dz);
            x[0] = (double)(cx + dx * r / l), x[1] = (double)(cy + dy * r / l), x[2] = (double)(dz * r / l);
        };
        m.centre = {0, 0, 0};
        m.flip = {1, 1, 1};
        m.make = [R, r] { return std::make_shared<TorusConstraint>(R, r); };
        ms.push_back(m);
    }
    auto plane = [](const std::string &name, std::vector<double> normal, double d) {
        Manifold m;
        const std::vector<double> nv = unitVec(normal);
        const unsigned n = (unsigned)nv.size();
        m.name = name, m.n = n, m.co = 1, m.box = 3;
        m.residual = [nv, d, n](const double *x, LD *o) {
            LD s = 0;
            for (unsigned i = 0; i < n; ++i)
                s += (LD)nv[i] * x[i];
            o[0] = s - d;
        };
        m.snap = [nv, d, n](double *x) {
            LD s = 0;
            for (unsigned i = 0; i < n; ++i)
                s += (LD)nv[i] * x[i];
            for (unsigned i = 0; i < n; ++i)
                x[i] = (double)(x[i] - (s - d) * nv[i]);
        };
        m.centre.resize(n);
        for (unsigned i = 0; i < n; ++i)
            m.centre[i] = d * nv[i];
        m.flip.assign(n, 1);
        m.make = [nv, d] { return std::make_shared<PlaneConstraint>(nv, d); };
        return m;
    };
    ms.push_back(plane("plane3", {1, 2, 2}, 0.5));
    ms.push_back(plane("plane5", {1, -1, 2, 0.5, 1}, -0.3));
    {
        // circle = unit sphere /\ plane {nv . x = d}: co-dimension 2 through ConstraintIntersection
        const std::vector<double> nv = unitVec({0, 0.6, 0.8});
        const double d = 0.2;
        const LD rad = sqrtl(1 - (LD)d * d);
        Manifold m;
        m.name = "circle3", m.n = 3, m.co = 2, m.box = 2;
        m.residual = [nv, d](const double *x, LD *o) {
            o[0] = sqrtl(sq(x[0]) + sq(x[1]) + sq(x[2])) - 1;
            o[1] = (LD)nv[0] * x[0] + (LD)nv[1] * x[1] + (LD)nv[2] * x[2] - d;
        };
        m.snap = [nv, d, rad](double *x) {
            LD s = 0;
            for (int i = 0; i < 3; ++i)
                s += (LD)nv[i] * x[i];
            LD v[3], l = 0;
            for (int i = 0; i < 3; ++i)
                v[i] = x[i] - s * nv[i], l += v[i] * v[i];       // in-plane component relative to the axis
            l = sqrtl(l);
            for (int i = 0; i < 3; ++i)
                x[i] = (double)(d * nv[i] + v[i] * rad / l);
        };
        m.centre = {d * nv[0], d * nv[1], d * nv[2]};
        m.flip = {1, 1, 1};
        m.make = [nv, d]() -> ob::ConstraintPtr {
            std::vector<ob::ConstraintPtr> cs = {std::make_shared<SphereConstraint>(3, 1.0),
                                                 std::make_shared<PlaneConstraint>(nv, d)};
            return std::make_shared<ob::ConstraintIntersection>(3, cs);
        };
        ms.push_back(m);
    }
    auto circles = [](const std::string &name, const std::vector<double> &radii) {
        Manifold m;
        const unsigned k = (unsigned)radii.size();
        m.name = name, m.n = 2 * k, m.co = k, m.box = 2;
        m.residual = [radii, k](const double *x, LD *o) {
            for (unsigned i = 0; i < k; ++i)
                o[i] = sqrtl(sq(x[2 * i]) + sq(x[2 * i + 1])) - radii[i];
        };
        m.snap = [radii, k](double *x) {
            for (unsigned i = 0; i < k; ++i)
            {
                const LD l = sqrtl(sq(x[2 * i]) + sq(x[2 * i + 1]));
                x[2 * i] = (double)(x[2 * i] * radii[i] / l), x[2 * i + 1] = (double)(x[2 * i + 1] * radii[i] / l);
            }
        };
        m.centre.assign(2 * k, 0.0);
        m.flip.assign(2 * k, 1);
        m.make = [radii] { return std::make_shared<CirclesConstraint>(radii); };
        return m;
    };
    ms.push_back(circles("circles-r4-codim2", {1.0, 0.7}));
    ms.push_back(circles("circles-r6-codim3", {1.0, 0.7, 1.3}));
    {
        // S^2 inside R^5: sphere of radius 1.5 /\ {x3 = 0.5} /\ {x4 = -0.4}: co-dimension 3, stacked constraints
        const double r = 1.5, a = 0.5, b = -0.4;
        const LD rad = sqrtl((LD)r * r - (LD)a * a - (LD)b * b);
        Manifold m;
        m.name = "sphere2-in-r5-codim3", m.n = 5, m.co = 3, m.box = 2.5;
        m.residual = [r, a, b](const double *x, LD *o) {
            LD s = 0;
            for (int i = 0; i < 5; ++i)
                s += sq(x[i]);
            o[0] = sqrtl(s) - r, o[1] = (LD)x[3] - a, o[2] = (LD)x[4] - b;
        };
        m.snap = [a, b, rad](double *x) {
            const LD l = sqrtl(sq(x[0]) + sq(x[1]) + sq(x[2]));
            for (int i = 0; i < 3; ++i)
                x[i] = (double)(x[i] * rad / l);
            x[3] = a, x[4] = b;
        };
        m.centre = {0, 0, 0, a, b};
        m.flip = {1, 1, 1, 0, 0};
        m.make = [r, a, b]() -> ob::ConstraintPtr {
            std::vector<ob::ConstraintPtr> cs = {std::make_shared<SphereConstraint>(5, r),
                                                 std::make_shared<CoordinateConstraint>(5, 3, a),
                                                 std::make_shared<CoordinateConstraint>(5, 4, b)};
            return std::make_shared<ob::ConstraintIntersection>(5, cs);
        };
        ms.push_back(m);
    }
    return ms;
}
static const Manifold &manifold(const std::string &name)
{
    for (const auto &m : manifolds())
        if (m.name == name)
            return m;
    framework("unknown manifold " + name);
}

// "satisfies the constraint function within its tolerance": |f(x)|_2 <= tol (1 + 1e-9) + 1e-12
static bool satisfied(const Manifold &m, const double *x, double tol, double *normOut = nullptr)
{
    LD r[8], s = 0;
    m.residual(x, r);
    for (unsigned i = 0; i < m.co; ++i)
        s += r[i] * r[i];
    const LD nrm = sqrtl(s);
    if (normOut)
        *normOut = (double)nrm;
    return nrm == nrm && nrm <= (LD)tol * (1 + 1e-9L) + 1e-12L;
}

// obstacle: a notch that leaves every manifold connected
static bool freeOf(const double *x)
{
    return !(x[0] > 0.15 && x[0] < 0.4 && x[1] > 0.1);
}

static unsigned long long mix(unsigned long long a, unsigned long long b)
{
    unsigned long long z = a * 0x9E3779B97F4A7C15ULL + b + 0x7F4A7C15ULL;
    z = (z ^ (z >> 30)) * 0xBF58476D1CE4E5B9ULL;
    z = (z ^ (z >> 27)) * 0x94D049BB133111EBULL;
    return z ^ (z >> 31);
}

// parameter set number `cfg` (0 = the library defaults)
static Params paramsFor(unsigned long long seed, int cfg)
{
    Params p;
    if (cfg == 0)
        return p;
    vt::Rng r(mix(seed, 1000 + cfg));
    static const double deltas[] = {0.02, 0.05, 0.1, 0.2, 0.35};
    static const double lambdas[] = {1.25, 1.5, 2.0, 3.0, 5.0};
    static const double tols[] = {1e-2, 1e-3, 1e-4, 1e-6, 1e-8};
    static const double epss[] = {0.01, 0.05, 0.15};
    static const double rhoMul[] = {2, 5, 10};
    static const double expls[] = {0.0, 0.5, 0.75, 0.9};
    static const double alphas[] = {M_PI / 16, M_PI / 8, M_PI / 4, 1.2};
    static const unsigned charts[] = {0, 3, 200};
    p.delta = deltas[r.below(5)];
    p.lambda = lambdas[r.below(5)];
    p.tol = tols[r.below(5)];
    p.eps = epss[r.below(3)];
    p.rho = p.delta * rhoMul[r.below(3)];
    p.expl = expls[r.below(4)];
    p.alpha = alphas[r.below(4)];
    p.maxCharts = charts[r.below(3)];
    p.separate = r.below(4) != 0;
    return p;
}

struct Recorder
{
    const Manifold &m;
    char kind;
    Params p;
    int cfg;
    bool verbose;
    Env env;
    vt::Rng rng;
    std::vector<json> out;
    long badShown{0};
    std::vector<std::vector<double>> anchors;

    void anchor(const double *x)
    {
        anchors.emplace_back(x, x + m.n);
        env.anchor(x);
    }
    Env fresh() const
    {
        Env e = makeEnv(kind, m.n, m.box, m.make(), p, [](const ob::State *s) { return freeOf(vals(s)); });
        for (const auto &a : anchors)
            e.anchor(a.data());
        return e;
    }
    json anchorsJson() const
    {
        json j = json::array();
        for (const auto &a : anchors)
            j.push_back(hexvec(a.data(), m.n));
        return j;
    }

    Recorder(const Manifold &m_, char kind_, const Params &p_, int cfg_, unsigned long long seed, bool verbose_)
      : m(m_), kind(kind_), p(p_), cfg(cfg_), verbose(verbose_), rng(mix(seed, 77))
    {
        env = makeEnv(kind, m.n, m.box, m.make(), p, [](const ob::State *s) { return freeOf(vals(s)); });
    }
    bool sat(const double *x, double *nrm = nullptr) const
    {
        return satisfied(m, x, p.tol, nrm);
    }
    json head(const char *e) const
    {
        return json{{"e", e}, {"sp", kindName(kind)}, {"mf", m.name}, {"cfg", cfg}};
    }
    void bad(const std::string &what, const json &detail)
    {
        if (badShown++ < (verbose ? 50 : 3))
            std::cout << "BAD "
                      << json{{"what", what}, {"sp", kindName(kind)}, {"mf", m.name}, {"cfg", cfg}, {"params", p.describe()},
                              {"detail", detail}}
                             .dump()
                      << std::endl;
    }
    // closed-form on-manifold point (valid for the notch predicate when asked)
    void point(double *x, bool wantFree = true)
    {
        for (int tries = 0; tries < 1000; ++tries)
        {
            for (unsigned i = 0; i < m.n; ++i)
                x[i] = (rng.unit() * 2 - 1) * (m.box - 1) * 0.9 + 0.013;
            m.snap(x);
            if (sat(x) && (!wantFree || freeOf(x)))
                return;
        }
        framework("no closed-form point on " + m.name);
    }
    void nearPoint(const double *a, double dist, double *x)
    {
        for (int tries = 0; tries < 1000; ++tries)
        {
            double v[8];
            LD l = 0;
            for (unsigned i = 0; i < m.n; ++i)
                v[i] = rng.unit() * 2 - 1, l += sq(v[i]);
            for (unsigned i = 0; i < m.n; ++i)
                x[i] = (double)(a[i] + v[i] * dist / sqrtl(l));
            m.snap(x);
            if (sat(x))
                return;
        }
        framework("no near point on " + m.name);
    }
    void antipode(const double *a, double *x) const
    {
        for (unsigned i = 0; i < m.n; ++i)
            x[i] = m.flip[i] ? 2 * m.centre[i] - a[i] : a[i];
        m.snap(x);
    }

    // ------------------------------------------------------------------ samplers
    void samplers(int draws)
    {
        double c[8];
        for (int src = 0; src < 2; ++src)
        {
            ob::StateSamplerPtr s = src == 0 ? env.css->allocStateSampler() : env.css->allocDefaultStateSampler();
            ob::State *st = env.css->allocState();
            for (const char *mode : {"U", "N", "G"})
            {
                json rec = head("Sample");
                rec["src"] = src == 0 ? "alloc" : "default";
                rec["mode"] = mode;
                json flags = json::array();
                for (int i = 0; i < draws; ++i)
                {
                    ob::State *nr = nullptr;
                    double spread = 0;
                    if (mode[0] != 'U')
                    {
                        point(c, false);
                        nr = env.state(c);
                        // small and LARGE spreads: a sampler that gives up must still return an on-manifold state
                        static const double mul[] = {0.5, 3, 10, 40};
                        static const double wide[] = {1.0, 5.0};
                        spread = i % 6 < 4 ? p.delta * mul[i % 6] : wide[i % 6 - 4];
                    }
                    if (mode[0] == 'U')
                        s->sampleUniform(st);
                    else if (mode[0] == 'N')
                        s->sampleUniformNear(st, nr, spread);
                    else
                        s->sampleGaussian(st, nr, spread);
                    double nrm;
                    const bool ok = sat(vals(st), &nrm);
                    flags.push_back(ok ? 1 : 0);
                    if (!ok)
                        bad(std::string("sample:") + mode,
                            json{{"src", rec["src"]}, {"draw", i}, {"spread", spread}, {"residual", nrm},
                                 {"state", hexvec(vals(st), m.n)}, {"stateDec", decvec(vals(st), m.n)},
                                 {"near", nr ? hexvec(vals(nr), m.n) : json()},
                                 {"librarySaysSatisfied", env.con->isSatisfied(st)}});
                    if (nr)
                        env.css->freeState(nr);
                }
                rec["sat"] = flags;
                out.push_back(rec);
            }
            env.css->freeState(st);
        }
        // the valid-state sampler of the space information
        ob::ValidStateSamplerPtr vs = env.csi->allocValidStateSampler();
        vs->setNrAttempts(3);
        ob::State *st = env.css->allocState();
        for (const char *mode : {"sample", "sampleNear"})
        {
            json rec = head("ValidSample");
            rec["mode"] = mode;
            json ret = json::array(), flags = json::array();
            for (int i = 0; i < draws; ++i)
            {
                bool r;
                if (mode[6] == 0)
                    r = vs->sample(st);
                else
                {
                    point(c, true);
                    ob::State *nr = env.state(c);
                    r = vs->sampleNear(st, nr, p.delta * (i % 2 ? 4 : 20));
                    env.css->freeState(nr);
                }
                double nrm;
                const bool ok = sat(vals(st), &nrm);
                ret.push_back(r ? 1 : 0);
                flags.push_back(ok ? 1 : 0);
                if (r && !ok)
                    bad(std::string("validsample:") + mode,
                        json{{"draw", i}, {"residual", nrm}, {"state", hexvec(vals(st), m.n)}});
            }
            rec["ret"] = ret;
            rec["sat"] = flags;
            out.push_back(rec);
        }
        env.css->freeState(st);
    }

    // ------------------------------------------------------------------ pairs: geodesic, interpolate, checkMotion
    void pair(const char *cls, const double *a, const double *b)
    {
        ob::State *from = env.state(a), *to = env.state(b);
        const bool fromSat = sat(a), toSat = sat(b);
        bool okNoInterp = false;
        for (int ip = 1; ip >= 0; --ip)
        {
            std::vector<ob::State *> g;
            const bool ok = env.css->discreteGeodesic(from, to, ip != 0, &g);
            if (!ip)
                okNoInterp = ok;
            const GeoFacts f = geoFacts(g, to, m.n, p.delta, p.lambda, [&](const double *x) { return sat(x); });
            json rec = geoRecord(kindName(kind), m.name, ip != 0, ok, f, fromSat, toSat, p.delta, p.lambda);
            rec["cfg"] = cfg;
            rec["pair"] = cls;
            out.push_back(rec);
            if (kind != 'T' && ok && (f.unsat > 0 || !f.stepOk || !f.endOk))
            {
                json states = json::array();
                for (auto *s : g)
                    states.push_back(hexvec(vals(s), m.n));
                bad("geodesic", json{{"pair", cls}, {"interpolate", ip}, {"from", hexvec(a, m.n)}, {"to", hexvec(b, m.n)},
                                     {"unsat", f.unsat}, {"maxStep", f.maxStep}, {"endDist", f.endDist},
                                     {"bound", p.lambda * p.delta}, {"states", states}});
            }
            for (auto *s : g)
                env.css->freeState(s);
        }
        {
            json rec = head("Interp");
            rec["pair"] = cls;
            rec["fromSat"] = fromSat ? 1 : 0;
            rec["toSat"] = toSat ? 1 : 0;
            json flags = json::array();
            ob::State *o = env.css->allocState();
            const double ts[] = {0, 0.25, 0.5, 0.75, 1, rng.unit()};
            for (double t : ts)
            {
                env.css->interpolate(from, to, t, o);
                double nrm;
                const bool ok = sat(vals(o), &nrm);
                flags.push_back(ok ? 1 : 0);
                if (!ok)
                    bad("interpolate", json{{"pair", cls}, {"t", hexd(t)}, {"from", hexvec(a, m.n)}, {"to", hexvec(b, m.n)},
                                            {"residual", nrm}, {"result", hexvec(vals(o), m.n)}});
            }
            env.css->freeState(o);
            rec["sat"] = flags;
            out.push_back(rec);
        }
        {
            // the atlas grows with every call, so "the geodesic of this motion" is only well defined on equal
            // atlases: the geodesic and the two motion checks each run on a fresh space holding the anchor
            // charts only (chart creation is deterministic)
            bool okFresh = false, cm1 = false, cm2 = false;
            for (int call = 0; call < 3; ++call)
            {
                Env e = kind == 'P' ? env : fresh();
                ob::State *f = e.state(a), *t = e.state(b);
                if (call == 0)
                    okFresh = e.css->discreteGeodesic(f, t, false, nullptr);
                else if (call == 1)
                    cm1 = e.csi->getMotionValidator()->checkMotion(f, t);
                else
                {
                    ob::State *lv = e.css->allocState();
                    e.css->copyState(lv, f);
                    std::pair<ob::State *, double> last(lv, 0.0);
                    cm2 = e.csi->getMotionValidator()->checkMotion(f, t, last);
                    e.css->freeState(lv);
                }
                e.css->freeState(f);
                e.css->freeState(t);
            }
            for (int form = 1; form <= 2; ++form)
            {
                json rec = head("Motion");
                rec["pair"] = cls;
                rec["form"] = form;
                rec["cm"] = (form == 1 ? cm1 : cm2) ? 1 : 0;
                rec["geoOk"] = okFresh ? 1 : 0;
                rec["toSat"] = toSat ? 1 : 0;
                out.push_back(rec);
            }
            if ((cm1 || cm2) && !okFresh)
                bad("checkMotion", json{{"pair", cls}, {"from", hexvec(a, m.n)}, {"to", hexvec(b, m.n)}, {"cm1", cm1}, {"cm2", cm2},
                                        {"anchors", anchorsJson()}});
        }
        env.css->freeState(from);
        env.css->freeState(to);
    }

    void pairs(int reps)
    {
        double a[8], b[8];
        for (int i = 0; i < reps; ++i)
        {
            point(a), point(b);
            pair("far", a, b);
            point(a), nearPoint(a, p.delta * (1.2 + 6 * rng.unit()), b);
            pair("near", a, b);
            point(a), nearPoint(a, p.delta * 0.8 * rng.unit(), b);
            pair("within-delta", a, b);
            point(a), antipode(a, b);
            pair("antipodal", a, b);
            point(a);
            pair("identical", a, a);
        }
    }

    void run(int draws, int reps)
    {
        double a[8];
        for (int i = 0; i < 2; ++i)
        {
            point(a);
            anchor(a);
        }
        samplers(draws);
        pairs(reps);
        samplers(draws / 2 + 1);     // again, on the atlas the geodesics have grown
    }
};

// ---------------------------------------------------------------------- planners on top
class FirstCoordinates : public ob::ProjectionEvaluator
{
public:
    explicit FirstCoordinates(const ob::StateSpacePtr &sp) : ob::ProjectionEvaluator(sp)
    {
    }
    unsigned int getDimension() const override
    {
        return 2;
    }
    void defaultCellSizes() override
    {
        cellSizes_ = {0.2, 0.2};
    }
    void project(const ob::State *s, Eigen::Ref<Eigen::VectorXd> out) const override
    {
        out[0] = vals(s)[0], out[1] = vals(s)[1];
    }
};

static const std::vector<std::string> &plannerNames()
{
    static const std::vector<std::string> v = {"RRT",  "RRT-intermediate", "RRTConnect", "RRTConnect-intermediate",
                                               "PRM",  "KPIECE1",          "BKPIECE1",   "EST",
                                               "BiEST", "ProjEST",         "RRTstar",    "BITstar"};
    return v;
}

static ob::PlannerPtr makePlanner(const std::string &name, const Env &env, const Params &p)
{
    const ob::SpaceInformationPtr si = env.csi;
    const double range = env.kind == 'P' ? 10 * p.delta : env.atlas()->getRho_s();
    ob::PlannerPtr pl;
    auto ranged = [&](auto planner) {
        planner->setRange(range);
        pl = planner;
    };
    if (name == "RRT")
        ranged(std::make_shared<og::RRT>(si));
    else if (name == "RRT-intermediate")
        ranged(std::make_shared<og::RRT>(si, true));
    else if (name == "RRTConnect")
        ranged(std::make_shared<og::RRTConnect>(si));
    else if (name == "RRTConnect-intermediate")
        ranged(std::make_shared<og::RRTConnect>(si, true));
    else if (name == "RRTstar")
        ranged(std::make_shared<og::RRTstar>(si));
    else if (name == "EST")
        ranged(std::make_shared<og::EST>(si));
    else if (name == "BiEST")
        ranged(std::make_shared<og::BiEST>(si));
    else if (name == "ProjEST")
        ranged(std::make_shared<og::ProjEST>(si));
    else if (name == "KPIECE1")
        ranged(std::make_shared<og::KPIECE1>(si));
    else if (name == "BKPIECE1")
        ranged(std::make_shared<og::BKPIECE1>(si));
    else if (name == "PRM")
        pl = std::make_shared<og::PRM>(si);
    else if (name == "BITstar")
        pl = std::make_shared<og::BITstar>(si);
    else
        framework("unknown planner " + name);
    return pl;
}

static void planRun(const Manifold &m, char kind, const std::string &planner, int cfg, unsigned long long seed,
                    long budget, std::vector<json> &out)
{
    Params p = paramsFor(seed, cfg);
    // planning needs steps that get somewhere within the budget
    // (and an atlas whose charts stay local: with rho_s of the size of the manifold every chart is cut
    // against every other one and time and memory grow quadratically - a cost question, not this property)
    p.delta = std::max(p.delta, 0.05);
    p.rho = std::min(std::max(p.rho, 2 * p.delta), 0.5);
    p.expl = std::min(p.expl, 0.75);
    p.tol = std::min(p.tol, 1e-3);
    p.maxCharts = std::max(p.maxCharts, 3u);
    Recorder r(m, kind, p, cfg, mix(seed, 5), false);
    r.env.css->registerDefaultProjection(std::make_shared<FirstCoordinates>(r.env.css));
    double a[8], b[8];
    r.point(a);
    r.antipode(a, b);
    if (!freeOf(b) || !r.sat(b))
        r.point(b);
    r.env.anchor(a);
    r.env.anchor(b);
    ob::State *start = r.env.state(a), *goal = r.env.state(b);
    auto pdef = std::make_shared<ob::ProblemDefinition>(r.env.csi);
    pdef->setStartAndGoalStates(start, goal, 1e-6 + 0.5 * p.delta);
    json rec = r.head("PlannerPath");
    rec["planner"] = planner;
    rec["budget"] = budget;
    std::string status = "NONE";
    long evals = 0;
    try
    {
        ob::PlannerPtr pl = makePlanner(planner, r.env, p);
        pl->setProblemDefinition(pdef);
        pl->setup();
        ob::PlannerTerminationCondition ptc([&] { return ++evals > budget; });
        status = pl->solve(ptc).asString();
    }
    catch (const ompl::Exception &ex)
    {
        rec["e"] = "Threw";
        rec["what"] = ex.what();
        out.push_back(rec);
        return;
    }
    json flags = json::array();
    bool approx = false;
    if (pdef->hasSolution())
    {
        auto path = pdef->getSolutionPath()->as<og::PathGeometric>();
        approx = pdef->hasApproximateSolution();
        for (std::size_t i = 0; i < path->getStateCount(); ++i)
        {
            double nrm;
            const bool ok = r.sat(vals(path->getState(i)), &nrm);
            flags.push_back(ok ? 1 : 0);
            if (!ok)
                r.bad("path-vertex", json{{"planner", planner}, {"vertex", i}, {"of", path->getStateCount()},
                                          {"residual", nrm}, {"state", hexvec(vals(path->getState(i)), m.n)},
                                          {"start", hexvec(a, m.n)}, {"goal", hexvec(b, m.n)}});
        }
    }
    rec["status"] = status;
    rec["hasPath"] = pdef->hasSolution() ? 1 : 0;
    rec["approx"] = approx ? 1 : 0;
    rec["sat"] = flags;
    rec["evals"] = vt::tlcInt(evals);
    rec["charts"] = kind == 'P' ? 0 : (int)r.env.atlas()->getChartCount();
    out.push_back(rec);
    r.env.css->freeState(start);
    r.env.css->freeState(goal);
}

// ---------------------------------------------------------------------- child processes
// A planner run that dies: whose crash is it?  The stack decides.  A frame of the constrained-space code
// (the subject of this property) makes it a Crash record, which no specification accepts; a crash inside
// the planner's own data structures is the business of the planner properties and is recorded as
// PlannerDied (accepted, counted, reported).
static void plannerCrash(int sig)
{
    void *frames[64];
    const int n = backtrace(frames, 64);
    char **names = backtrace_symbols(frames, n);
    bool spaceCode = false;
    for (int i = 0; names != nullptr && i < n; ++i)
        for (const char *pat : {"AtlasStateSpace", "AtlasChart", "AtlasStateSampler", "TangentBundle", "ProjectedState",
                                "ConstrainedStateSpace", "ConstrainedMotionValidator", "ConstrainedSpaceInformation",
                                "ConstrainedValidStateSampler", "4base10Constraint", "ConstraintIntersection"})
            if (strstr(names[i], pat) != nullptr)
                spaceCode = true;
    fprintf(stdout, "CRASH signal %d in %s\n", sig, spaceCode ? "constrained-space code" : "planner code");
    if (names != nullptr)
        for (int i = 0; i < n && i < 12; ++i)
            fprintf(stdout, "  %s\n", names[i]);
    fflush(stdout);
    _exit(spaceCode ? 71 : 72);
}

struct Job
{
    bool plan;
    char kind;
    std::string mf, planner;
    int cfg;
    long budget;
    int draws, reps;
};

static unsigned long long jobSeed(const Job &j)
{
    unsigned long long s = mix(vt::envSeed(), (unsigned long long)j.cfg * 4 + (j.plan ? 1 : 0));
    for (char c : j.mf + "/" + j.planner + kindName(j.kind))
        s = mix(s, (unsigned char)c);
    return s;
}

static void runJob(const Job &j, std::vector<json> &out, bool verbose)
{
    const unsigned long long seed = jobSeed(j);
    ompl::RNG::setSeed((std::uint_fast32_t)(seed % 4000000007ULL) + 1);   // before any RNG of the library exists
    ompl::msg::setLogLevel(ompl::msg::LOG_NONE);
    const Manifold &m = manifold(j.mf);
    if (j.plan)
    {
        signal(SIGSEGV, plannerCrash);
        signal(SIGFPE, plannerCrash);
        signal(SIGABRT, plannerCrash);
        planRun(m, j.kind, j.planner, j.cfg, vt::envSeed(), j.budget, out);
    }
    else
    {
        Recorder r(m, j.kind, paramsFor(vt::envSeed(), j.cfg), j.cfg, seed, verbose);
        try
        {
            r.run(j.draws, j.reps);
        }
        catch (const ompl::Exception &ex)
        {
            json rec = r.head("Threw");
            rec["what"] = ex.what();
            r.out.push_back(rec);
        }
        out = r.out;
    }
}

static json jobHead(const Job &j)
{
    return json{{"sp", kindName(j.kind)}, {"mf", j.mf}, {"cfg", j.cfg}, {"planner", j.planner}, {"plan", j.plan ? 1 : 0}};
}

static int cmdRecord(const std::string &tracePath, const std::string &tier, int jobs, const std::string &workdir)
{
    const bool quick = tier == "quick";
    std::vector<Job> all;
    const int cfgs = quick ? 8 : 30, draws = quick ? 24 : 60, reps = quick ? 2 : 4;
    const int planCfgs = quick ? 2 : 5;
    const long budget = quick ? 1500 : 4000;
    const std::vector<std::string> planMf =
        quick ? std::vector<std::string>{"sphere3", "torus3", "plane3", "circles-r4-codim2", "sphere2-in-r5-codim3"}
              : std::vector<std::string>{"sphere3", "torus3", "plane3", "plane5", "circle3", "circles-r4-codim2",
                                         "circles-r6-codim3", "sphere2-in-r5-codim3", "sphere4"};
    for (char kind : {'P', 'A', 'T'})
        for (const Manifold &m : manifolds())
        {
            for (int c = 0; c < cfgs; ++c)
                all.push_back(Job{false, kind, m.name, "", c, 0, draws, reps});
        }
    for (char kind : {'P', 'A', 'T'})
        for (const std::string &mf : planMf)
            for (const std::string &pl : plannerNames())
                for (int c = 0; c < planCfgs; ++c)
                    // (RRT* keeps extending until the budget is spent; on an atlas that means thousands of
                    // mutually cut charts: quadratic time and memory)
                    all.push_back(Job{true, kind, mf, pl, c, pl == "RRTstar" ? std::min(budget, 600L) : budget, 0, 0});

    auto partPath = [&](std::size_t i) { return workdir + "/part-" + std::to_string(i) + ".ndjson"; };
    std::map<pid_t, std::size_t> running;
    std::vector<int> status(all.size(), -1);
    std::size_t next = 0;
    auto reap = [&] {
        int st;
        pid_t pid = wait(&st);
        if (pid <= 0)
            framework("wait failed");
        status[running[pid]] = st;
        running.erase(pid);
    };
    fflush(stdout);
    while (next < all.size() || !running.empty())
    {
        if (next < all.size() && (int)running.size() < jobs)
        {
            const std::size_t i = next++;
            pid_t pid = fork();
            if (pid < 0)
                framework("fork failed");
            if (pid == 0)
            {
                struct rlimit rl = {300, 300};       // CPU seconds: a hang becomes a record
                setrlimit(RLIMIT_CPU, &rl);
                struct rlimit ra = {4UL << 30, 4UL << 30};   // and a runaway allocation a crash record
                setrlimit(RLIMIT_AS, &ra);
                std::vector<json> out;
                {
                    // BAD lines of the child go to its own part file (prefixed), not to the parent's stdout
                    FILE *f = freopen((partPath(i) + ".log").c_str(), "w", stdout);
                    (void)f;
                }
                runJob(all[i], out, false);
                vt::Trace t(partPath(i));
                for (auto &r : out)
                    t.emit(r);
                t.close();
                fflush(stdout);
                _exit(0);
            }
            running[pid] = i;
        }
        else
            reap();
    }
    vt::Trace trace(tracePath);
    trace.emit(json{{"e", "Reset"}});
    long events = 0, crashed = 0;
    std::map<std::string, long> perEvent, perSpace, perManifold, planStatus, perPlanner;
    std::map<std::string, std::map<std::string, long>> cells;
    for (std::size_t i = 0; i < all.size(); ++i)
    {
        std::ifstream log(partPath(i) + ".log");
        std::string line;
        while (std::getline(log, line))
            if (line.rfind("BAD ", 0) == 0 || line.rfind("FRAMEWORK", 0) == 0 || line.rfind("CRASH", 0) == 0 ||
                line.rfind("  ", 0) == 0)
                std::cout << line << std::endl;
        const bool okExit = WIFEXITED(status[i]) && WEXITSTATUS(status[i]) == 0;
        if (WIFEXITED(status[i]) && WEXITSTATUS(status[i]) == 4)
            framework("child reported a framework error");
        if (okExit)
        {
            for (auto &r : vt::readNdjson(partPath(i)))
            {
                trace.emit(r);
                ++events;
                const std::string e = r["e"], sp = r["sp"], mf = r["mf"];
                ++perEvent[e];
                ++perSpace[sp];
                ++perManifold[mf];
                ++cells[sp + "/" + mf][e];
                if (e == "PlannerPath")
                {
                    ++planStatus[r["status"].get<std::string>()];
                    if (r["hasPath"] == 1)
                        ++perPlanner[r["planner"].get<std::string>()];
                }
            }
        }
        else
        {
            ++crashed;
            json rec = jobHead(all[i]);
            const bool hang = WIFSIGNALED(status[i]) && (WTERMSIG(status[i]) == SIGXCPU || WTERMSIG(status[i]) == SIGKILL);
            const bool plannerOwn = all[i].plan && WIFEXITED(status[i]) && WEXITSTATUS(status[i]) == 72;
            rec["e"] = hang ? "Hang" : plannerOwn ? "PlannerDied" : "Crash";
            rec["what"] = WIFSIGNALED(status[i]) ? std::string("signal ") + std::to_string(WTERMSIG(status[i]))
                                                 : std::string("exit ") + std::to_string(WEXITSTATUS(status[i]));
            trace.emit(rec);
            ++events;
            ++perEvent[rec["e"].get<std::string>()];
            std::cout << (plannerOwn ? "DIED " : "BAD ") << json{{"what", "child-died"}, {"job", rec}}.dump() << std::endl;
        }
        unlink(partPath(i).c_str());
        unlink((partPath(i) + ".log").c_str());
    }
    trace.close();
    std::cout << "SUMMARY "
              << json{{"jobs", all.size()}, {"events", events}, {"died", crashed}, {"per_event", perEvent},
                      {"per_space", perSpace}, {"per_manifold", perManifold}, {"cells", cells},
                      {"plan_status", planStatus}, {"paths_per_planner", perPlanner}, {"planner_died", perEvent["PlannerDied"]}}
                     .dump()
              << std::endl;
    return 0;
}

int main(int argc, char **argv)
{
    vt::installCrashHandlers();
    const std::string mode = argc > 1 ? argv[1] : "";
    if (mode == "replay" && argc == 4)
        return cmdReplay(argv[2], argv[3]);
    if (mode == "record" && argc >= 5)
        return cmdRecord(argv[2], argv[3], std::max(1, atoi(argv[4])), argc > 5 ? argv[5] : "/var/tmp");
    if (mode == "block" && argc >= 5)
    {
        Job j{false, kindOf(argv[2]), argv[3], "", atoi(argv[4]), 0, argc > 5 ? atoi(argv[5]) : 24,
              argc > 6 ? atoi(argv[6]) : 2};
        std::vector<json> out;
        runJob(j, out, true);
        for (auto &r : out)
            std::cout << r.dump() << std::endl;
        return 0;
    }
    if (mode == "plan" && argc >= 6)
    {
        Job j{true, kindOf(argv[2]), argv[3], argv[4], atoi(argv[5]), argc > 6 ? atol(argv[6]) : 1500, 0, 0};
        std::vector<json> out;
        runJob(j, out, true);
        for (auto &r : out)
            std::cout << r.dump() << std::endl;
        return 0;
    }
    fprintf(stderr, "usage: constrained replay <cases> <trace> | record <trace> <tier> <jobs> [workdir] | "
                    "block <sp> <manifold> <cfg> [draws reps] | plan <sp> <manifold> <planner> <cfg> [budget]\n");
    return 3;
}
