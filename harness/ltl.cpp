// G02 - discrete layer of the LTL planner: Automaton, World, ProductGraph.
//
//   ltl words   <file>        replay TLC's word export (specs/ltl/Automata.tla) on the real Automaton
//   ltl product <file>        replay TLC's configuration export (specs/ltl/Product.tla) on the real ProductGraph
//   ltl grid    <file>        replay TLC's export of specs/ltl/GridDecomp.tla on the real GridDecomposition
//   ltl record  <out> <n>     record n random executions (validated by specs/ltl/LtlContractTrace.tla)
//
// Verdicts compare what the public API answers with the CONTRACT facts of the export (accepted /
// live / distance per prefix; reachable set, solution flags, dead moves, minimal lead weight).  The
// numbering of automaton states is an implementation detail: it is followed by a simultaneous walk
// (real state <-> specification state) and only counted as drift.
#include "vtrace.h"
#include <ompl/control/planners/ltl/Automaton.h>
#include <ompl/control/planners/ltl/World.h>
#include <ompl/control/planners/ltl/ProductGraph.h>
#include <ompl/control/planners/ltl/PropositionalDecomposition.h>
#include <ompl/control/planners/syclop/Decomposition.h>
#include <ompl/control/planners/syclop/GridDecomposition.h>
#include <ompl/base/spaces/RealVectorStateSpace.h>
#include <ompl/util/Console.h>
#include <ompl/util/Exception.h>
#include <sys/resource.h>
#include <sys/wait.h>
#include <algorithm>
#include <limits>
#include <set>

namespace ob = ompl::base;
namespace oc = ompl::control;
using vt::json;

// ------------------------------------------------------------------------------ reporting
struct Rep
{
    long scenarios{0}, steps{0}, failures{0};
    std::map<std::string, long> keys, count;
    void fail(const std::string &key, const std::string &why, const json &scenario)
    {
        ++failures;
        if (keys[key]++ == 0 && keys.size() <= 40)
            std::cout << "FAIL " << json{{"key", key}, {"why", why}, {"scenario", scenario}}.dump() << std::endl;
    }
    void summary()
    {
        json j{{"scenarios", scenarios}, {"steps", steps}, {"failures", failures}, {"fail_keys", keys}, {"count", count}};
        std::cout << "SUMMARY " << j.dump() << std::endl;
    }
};

// ------------------------------------------------------------------------------ worlds / automata
// array over {0,1,2}; `order` (optional) = order in which the assigned propositions are inserted
static oc::World toWorld(const json &a, const std::vector<int> *order = nullptr, int np = -1)
{
    oc::World w(np >= 0 ? np : (int)a.size());
    if (order)
    {
        for (int p : *order)
            if (a[p].get<int>() != 2)
                w[p] = a[p].get<int>() == 1;
    }
    else
        for (std::size_t p = 0; p < a.size(); ++p)
            if (a[p].get<int>() != 2)
                w[p] = a[p].get<int>() == 1;
    return w;
}
static json fromWorld(const oc::World &w)
{
    json a = json::array();
    for (unsigned p = 0; p < w.numProps(); ++p)
    {
        auto it = w.props().find(p);
        a.push_back(it == w.props().end() ? 2 : (it->second ? 1 : 0));
    }
    return a;
}
static int distOf(const oc::Automaton &A, int s)
{
    unsigned d = A.distFromAccepting(s);
    return d == std::numeric_limits<unsigned>::max() ? -1 : (int)vt::tlcInt(d);
}
// props: 1-based as in the specification; hdr: the specification's header (needed for "Strict")
static oc::AutomatonPtr buildAut(const std::string &kind, int np, const json &props, const json *hdr)
{
    std::vector<unsigned> ps;
    for (auto &p : props)
        ps.push_back(p.get<int>() - 1);
    bool identity = (int)ps.size() == np;
    for (std::size_t i = 0; i < ps.size(); ++i)
        identity = identity && ps[i] == i;
    if (kind == "Accepting")
        return oc::Automaton::AcceptingAutomaton(np);
    if (kind == "Coverage")
        return identity ? oc::Automaton::CoverageAutomaton(np) : oc::Automaton::CoverageAutomaton(np, ps);
    if (kind == "Sequence")
        return identity ? oc::Automaton::SequenceAutomaton(np) : oc::Automaton::SequenceAutomaton(np, ps);
    if (kind == "Disjunction")
        return identity ? oc::Automaton::DisjunctionAutomaton(np) : oc::Automaton::DisjunctionAutomaton(np, ps);
    if (kind == "Avoidance")
        return oc::Automaton::AvoidanceAutomaton(np, ps);
    if (kind == "Strict")
    {
        // built by hand through the public mutators; shape given by the specification when available
        auto A = std::make_shared<oc::Automaton>(np);
        int k = (int)ps.size();
        if (hdr)
        {
            for (int i = 0; i < (*hdr)["ns"].get<int>(); ++i)
                A->addState(false);
            for (auto &t : (*hdr)["tr"])
                A->addTransition(t[0].get<int>(), toWorld(t[1]), t[2].get<int>());
            for (auto &s : (*hdr)["acc"])
                A->setAccepting(s.get<int>(), true);
            A->setStartState((*hdr)["start"].get<int>());
            return A;
        }
        for (int i = 0; i <= k; ++i)
            A->addState(i == k);
        for (int i = 0; i < k; ++i)
        {
            oc::World go(np), idle(np);
            go[ps[i]] = true;
            for (unsigned p : ps)
                idle[p] = false;
            A->addTransition(i, go, i + 1);
            A->addTransition(i, idle, i);
        }
        A->addTransition(k, oc::World(np), k);
        A->setStartState(0);
        return A;
    }
    fprintf(stderr, "FRAMEWORK: unknown automaton kind %s\n", kind.c_str());
    exit(4);
}

// ------------------------------------------------------------------------------ words
static int cmdWords(const std::string &path)
{
    Rep rep;
    std::map<std::string, json> headers;
    std::map<std::string, oc::AutomatonPtr> shared;
    std::ifstream in(path);
    if (!in)
    {
        fprintf(stderr, "cannot read %s\n", path.c_str());
        return 3;
    }
    std::string line;
    long leaf = 0;
    while (std::getline(in, line))
    {
        if (line.empty())
            continue;
        json j = json::parse(line);
        const std::string kind = j["k"];
        if (j.contains("hdr"))
        {
            int np = j["np"];
            std::string key = kind + j["p"].dump() + "/" + std::to_string(np);
            headers[key] = j;
            // drift only: the shape of the freshly built automaton against the transcription
            auto A = buildAut(kind, np, j["p"], &j);
            bool same = (int)A->numStates() == j["ns"].get<int>() && A->getStartState() == j["start"].get<int>() &&
                        A->numTransitions() == j["tr"].size() && (int)A->numProps() == np;
            for (unsigned s = 0; same && s < A->numStates(); ++s)
                same = A->isAccepting(s) == (std::find(j["acc"].begin(), j["acc"].end(), (int)s) != j["acc"].end());
            rep.count[same ? "shape_same" : "drift_shape"]++;
            rep.count["headers"]++;
            continue;
        }
        const json &word = j["w"];
        int np = (int)word[0].size();
        std::string key = kind + j["p"].dump() + "/" + std::to_string(np);
        auto hit = headers.find(key);
        const json *hdr = hit == headers.end() ? nullptr : &hit->second;
        if (!shared.count(key))
            shared[key] = buildAut(kind, np, j["p"], hdr);
        ++leaf;
        ++rep.scenarios;
        for (int pass = 0; pass < ((leaf % 16 == 0) ? 2 : 1); ++pass)
        {
            oc::AutomatonPtr A = pass == 0 ? shared[key] : buildAut(kind, np, j["p"], hdr);
            int cur = A->getStartState();
            std::vector<oc::World> prefix;
            for (std::size_t i = 0; i <= word.size(); ++i)
            {
                if (i > 0)
                {
                    oc::World w = toWorld(word[i - 1]);
                    cur = A->step(cur, w);
                    prefix.push_back(w);
                    ++rep.steps;
                }
                const json &x = j["x"][i];
                bool expAcc = x[0].get<int>() == 1, expLive = x[1].get<int>() == 1;
                int expDist = x[2];
                bool live = A->run(prefix);
                json sc{{"kind", kind}, {"props", j["p"]}, {"np", np}, {"word", word}, {"prefix", i},
                        {"fresh_automaton", pass == 1}};
                if (live != (cur != -1))
                    rep.fail("words:" + kind + ":run-vs-step",
                             "run() and the fold of step() disagree: run=" + std::to_string(live) + " state=" + std::to_string(cur), sc);
                if (live != expLive)
                    rep.fail("words:" + kind + ":run",
                             std::string("run() = ") + (live ? "true" : "false") + " but the prefix has " +
                                 (expLive ? "an" : "no") + " accepted extension", sc);
                bool acc = cur != -1 && A->isAccepting(cur);
                if (acc != expAcc)
                    rep.fail("words:" + kind + ":accept",
                             std::string("automaton ") + (acc ? "accepts" : "does not accept") + " a prefix the declared language " +
                                 (expAcc ? "contains" : "does not contain"), sc);
                if (cur != -1)
                {
                    int d = distOf(*A, cur);
                    if (d != expDist)
                        rep.fail("words:" + kind + ":dist",
                                 "distFromAccepting(" + std::to_string(cur) + ") = " + std::to_string(d) +
                                     ", shortest accepted extension has length " + std::to_string(expDist), sc);
                    if (cur != j["s"][i].get<int>())
                        rep.count["drift_state_id"]++;
                }
                else
                    rep.count["sink_positions"]++;
                if (i == word.size() || i == 0)
                    continue;
            }
            // vacuity counters on the whole word
            const json &last = j["x"][word.size()];
            rep.count[kind + (last[0].get<int>() == 1 ? ":accepted" : ":rejected")]++;
            if (last[1].get<int>() == 0)
                rep.count[kind + ":dead"]++;
            if (pass == 1)
                rep.count["fresh_automata"]++;
        }
    }
    rep.summary();
    return 0;
}

// ------------------------------------------------------------------------------ decomposition over a table
class TableDecomp : public oc::Decomposition
{
public:
    TableDecomp(int W, int H, std::vector<std::vector<int>> nbr)
      : oc::Decomposition(2, bounds(W, H)), W_(W), H_(H), nbr_(std::move(nbr))
    {
    }
    static ob::RealVectorBounds bounds(int W, int H)
    {
        ob::RealVectorBounds b(2);
        b.setLow(0);
        b.setHigh(0, W);
        b.setHigh(1, H);
        return b;
    }
    int getNumRegions() const override
    {
        return W_ * H_;
    }
    double getRegionVolume(int) override
    {
        return 1.0;
    }
    int locateRegion(const ob::State *s) const override
    {
        std::vector<double> c;
        project(s, c);
        int x = std::min(W_ - 1, std::max(0, (int)c[0])), y = std::min(H_ - 1, std::max(0, (int)c[1]));
        return y * W_ + x;
    }
    void project(const ob::State *s, std::vector<double> &coord) const override
    {
        coord.resize(2);
        coord[0] = s->as<ob::RealVectorStateSpace::StateType>()->values[0];
        coord[1] = s->as<ob::RealVectorStateSpace::StateType>()->values[1];
    }
    void getNeighbors(int rid, std::vector<int> &neighbors) const override
    {
        for (int n : nbr_[rid])
            neighbors.push_back(n);
    }
    void sampleFromRegion(int rid, ompl::RNG &, std::vector<double> &coord) const override
    {
        coord = {rid % W_ + 0.5, rid / W_ + 0.5};
    }
    void sampleFullState(const ob::StateSamplerPtr &, const std::vector<double> &coord, ob::State *s) const override
    {
        s->as<ob::RealVectorStateSpace::StateType>()->values[0] = coord[0];
        s->as<ob::RealVectorStateSpace::StateType>()->values[1] = coord[1];
    }
    int W_, H_;
    std::vector<std::vector<int>> nbr_;
};
class TableProps : public oc::PropositionalDecomposition
{
public:
    TableProps(const oc::DecompositionPtr &d, int np, json lab) : oc::PropositionalDecomposition(d), np_(np), lab_(std::move(lab))
    {
    }
    oc::World worldAtRegion(int rid) override
    {
        return toWorld(lab_[rid]);
    }
    int getNumProps() const override
    {
        return np_;
    }
    int np_;
    json lab_;
};

using PS = oc::ProductGraph::State;
static json tri(const PS *s)
{
    return json::array({s->getDecompRegion(), s->getCosafeState(), s->getSafeState()});
}
struct Tri
{
    int r, c, s;
    bool operator<(const Tri &o) const
    {
        return std::tie(r, c, s) < std::tie(o.r, o.c, o.s);
    }
};
static Tri triOf(const json &a)
{
    return {a[0].get<int>(), a[1].get<int>(), a[2].get<int>()};
}

// computeLead in a child process: outcome "lead" (with states) | "empty" | "exception" | "crash" | "hang"
static std::string leadInChild(oc::ProductGraph &pg, PS *from, const std::function<double(PS *, PS *)> &wt, json &leadOut)
{
    int fd[2];
    if (pipe(fd) != 0)
        return "framework";
    fflush(stdout);
    pid_t pid = fork();
    if (pid == 0)
    {
        close(fd[0]);
        signal(SIGSEGV, SIG_DFL);
        signal(SIGABRT, SIG_DFL);
        signal(SIGFPE, SIG_DFL);
        std::set_terminate([] { _exit(71); });
        struct rlimit rl{512ul << 20, 512ul << 20};
        setrlimit(RLIMIT_AS, &rl);
        alarm(20);   // a runaway computeLead hits the address-space limit within a second; this is the backstop
        std::string out;
        try
        {
            std::vector<PS *> lead = pg.computeLead(from, wt);
            json a = json::array();
            for (auto *s : lead)
                a.push_back(s ? tri(s) : json::array({-9, -9, -9}));
            out = json{{"o", lead.empty() ? "empty" : "lead"}, {"lead", a}}.dump();
        }
        catch (const std::bad_alloc &)
        {
            out = json{{"o", "hang"}}.dump();
        }
        catch (const std::exception &)
        {
            out = json{{"o", "exception"}}.dump();
        }
        ssize_t ignored = write(fd[1], out.data(), out.size());
        (void)ignored;
        _exit(0);
    }
    close(fd[1]);
    std::string buf;
    char tmp[4096];
    ssize_t n;
    while ((n = read(fd[0], tmp, sizeof tmp)) > 0)
        buf.append(tmp, n);
    close(fd[0]);
    int st = 0;
    waitpid(pid, &st, 0);
    if (WIFSIGNALED(st))
        return WTERMSIG(st) == SIGALRM ? "hang" : "crash";
    if (WIFEXITED(st) && WEXITSTATUS(st) == 71)
        return "crash";
    if (buf.empty())
        return "crash";
    json j = json::parse(buf);
    leadOut = j.contains("lead") ? j["lead"] : json::array();
    return j["o"];
}

static int cmdProduct(const std::string &path)
{
    Rep rep;
    auto space = std::make_shared<ob::RealVectorStateSpace>(2);
    std::ifstream in(path);
    if (!in)
    {
        fprintf(stderr, "cannot read %s\n", path.c_str());
        return 3;
    }
    std::string line;
    long idx = 0;
    int slowChildren = 0;   // computeLead calls that had to be killed (each costs seconds)
    while (std::getline(in, line))
    {
        if (line.empty())
            continue;
        json j = json::parse(line);
        ++rep.scenarios;
        ++idx;
        int W = j["W"], H = j["H"], np = j["np"];
        json sc{{"W", W}, {"H", H}, {"np", np}, {"lab", j["lab"]}, {"start", j["start"]}, {"co", j["co"]},
                {"sa", j["sa"]}, {"ws", j["ws"]}, {"nbr", j["nbr"]}};
        std::vector<std::vector<int>> nbr;
        for (auto &l : j["nbr"])
            nbr.push_back(l.get<std::vector<int>>());
        auto dec = std::make_shared<TableDecomp>(W, H, nbr);
        auto pd = std::make_shared<TableProps>(dec, np, j["lab"]);
        auto co = buildAut(j["co"]["kind"], np, j["co"]["props"], nullptr);
        auto sa = buildAut(j["sa"]["kind"], np, j["sa"]["props"], nullptr);
        std::unique_ptr<oc::ProductGraph> pg;
        if (j["sa"]["kind"] == "Accepting" && idx % 2 == 0)
            pg.reset(new oc::ProductGraph(pd, co));   // "the safety automaton is set to be one that always accepts"
        else
            pg.reset(new oc::ProductGraph(pd, co, sa));
        auto fail = [&](const std::string &clause, const std::string &why) { rep.fail("product:" + clause, why, sc); };

        // specification side, keyed by state triple
        std::map<Tri, json> info;
        for (auto &i : j["info"])
            info[triOf(i[0])] = i;
        std::map<std::pair<Tri, int>, Tri> move;   // (u, region entered) -> v
        std::map<std::pair<int, int>, int> wtab;   // (region left, region entered) -> weight
        for (auto &e : j["edges"])
        {
            Tri u = triOf(e[0]), v = triOf(e[1]);
            move[{u, v.r}] = v;
            wtab[{u.r, v.r}] = e[2];
        }
        std::set<std::pair<Tri, int>> dead;
        for (auto &d : j["dead"])
            dead.insert({triOf(d[0]), d[1].get<int>()});

        // what the specification offers (vacuity is measured on this side: it does not depend on how far the
        // code under test lets the replay get)
        rep.count[j["minw"].get<int>() < 0 ? "spec_configs_without_solution" : "spec_configs_with_solution"]++;
        rep.count["spec_configs_with_ties"] += j["ties"].get<int>();
        rep.count["spec_dead_moves"] += (long)dead.size();
        if (j["minw"].get<int>() >= 0)
            for (auto &i : j["info"])
                if (i.size() > 5)
                    rep.count[i[5].get<int>() < 0 ? "spec_states_without_lead" : "spec_states_with_lead"]++;

        // start state through getState(base::State)
        int r0 = j["start"];
        ob::State *bs = space->allocState();
        bs->as<ob::RealVectorStateSpace::StateType>()->values[0] = r0 % W + 0.5;
        bs->as<ob::RealVectorStateSpace::StateType>()->values[1] = r0 / W + 0.5;
        PS *start = pg->getState(bs);
        space->freeState(bs);
        if (start->getDecompRegion() != r0 || start->getCosafeState() != co->getStartState() ||
            start->getSafeState() != pg->getSafetyAutom()->getStartState())
            fail("start", "getState(base::State) is not (region of the state, start states of the automata): " + tri(start).dump());
        if (start != pg->getState(start->getDecompRegion(), start->getCosafeState(), start->getSafeState()))
            fail("start", "getState(region, cosafe, safe) does not return the unique State object");

        // buildGraph: every state initialised exactly once
        std::vector<PS *> inited;
        pg->buildGraph(start, [&](PS *s) { inited.push_back(s); });
        std::set<PS *> initSet(inited.begin(), inited.end());
        if (initSet.size() != inited.size())
            fail("states", "buildGraph initialised a state more than once");
        if (pg->getStartState() != start)
            fail("start", "getStartState() is not the state the graph was built from");

        // simultaneous walk: real state <-> specification state
        Tri s0 = triOf(j["s0"]);
        std::map<PS *, Tri> rel;
        std::vector<PS *> queue{start};
        rel[start] = s0;
        std::set<std::pair<PS *, PS *>> realEdges;
        bool walkOk = true;
        for (std::size_t qi = 0; qi < queue.size() && walkOk; ++qi)
        {
            PS *u = queue[qi];
            Tri us = rel[u];
            const json &ui = info[us];
            ++rep.steps;
            if (u->getDecompRegion() != us.r)
                fail("states", "region component differs");
            if (pg->isSolution(u) != (ui[3].get<int>() == 1))
                fail("isSolution", std::string("isSolution(") + tri(u).dump() + ") = " + (pg->isSolution(u) ? "true" : "false") +
                                       ", contract: accepting co-safe and accepting safe component = " + (ui[3].get<int>() ? "true" : "false"));
            if (pg->getCosafeAutDistance(u) != ui[1].get<int>() || pg->getSafeAutDistance(u) != ui[2].get<int>())
                fail("aut-distance", "getCosafeAutDistance/getSafeAutDistance of " + tri(u).dump() + " = " +
                                         std::to_string(pg->getCosafeAutDistance(u)) + "/" + std::to_string(pg->getSafeAutDistance(u)) +
                                         ", expected " + ui[1].dump() + "/" + ui[2].dump());
            if (!(tri(u) == json::array({us.r, us.c, us.s})))
                rep.count["drift_state_id"]++;
            for (int r2 : nbr[us.r])
            {
                PS *v = pg->getState(u, r2);
                bool isDead = dead.count({us, r2}) > 0;
                if (v->isValid() == isDead)
                {
                    fail("dead-move", "entering region " + std::to_string(r2) + " from " + tri(u).dump() + " gives " + tri(v).dump() +
                                          (isDead ? ", the specification's automata have no transition there" : ", the specification's automata go on"));
                    walkOk = false;
                    break;
                }
                if (isDead)
                {
                    rep.count["dead_moves"]++;
                    continue;
                }
                Tri vs = move[{us, r2}];
                realEdges.insert({u, v});
                auto it = rel.find(v);
                if (it == rel.end())
                {
                    rel[v] = vs;
                    queue.push_back(v);
                }
                else if (it->second < vs || vs < it->second)
                    rep.count["merged_states"]++;   // a coarser automaton: allowed, facts are still compared pairwise
            }
        }
        if (!walkOk)
            continue;
        std::set<PS *> walked;
        for (auto &p : rel)
            walked.insert(p.first);
        if (walked != initSet)
            fail("states", "states initialised by buildGraph (" + std::to_string(initSet.size()) +
                               ") differ from the states reachable from the start state (" + std::to_string(walked.size()) + ")");

        // leads
        std::set<std::pair<PS *, PS *>> weighed;
        auto wt = [&](PS *a, PS *b) -> double
        {
            weighed.insert({a, b});
            auto it = wtab.find({a->getDecompRegion(), b->getDecompRegion()});
            return it == wtab.end() ? 1.0 : (double)it->second;
        };
        int minw = j["minw"];
        if (j["ties"].get<int>() == 1)
            rep.count["configs_with_ties"]++;
        json leadJ;
        std::string outcome;
        if (minw < 0)
        {
            rep.count["configs_without_solution"]++;
            outcome = leadInChild(*pg, start, wt, leadJ);
            rep.count["nolead_" + outcome]++;
            if (outcome == "crash" || outcome == "hang" || outcome == "lead")
                fail("computeLead:no-solution:" + outcome,
                     "no product state reachable from the start state is accepting for both automata (buildGraph only logs an "
                     "error); computeLead then " + (outcome == "lead" ? "returns a lead " + leadJ.dump() : outcome == "crash" ? std::string("crashes") : std::string("does not return")));
            continue;
        }
        rep.count["configs_with_solution"]++;
        // a lead from the start state, then from every other reachable state (the initial state is a parameter)
        bool first = true;
        for (PS *from : queue)
        {
            const json &fi = info[rel[from]];
            int want = from == start ? minw : (fi.size() > 5 ? fi[5].get<int>() : -2);
            if (want == -2)
                break;   // export without per-state weights
            json scl = sc;
            scl["from"] = tri(from);
            auto failL = [&](const std::string &clause, const std::string &why)
            { rep.fail(std::string("product:") + (from == start ? "" : "from-any-state:") + clause, why, scl); };
            if (want < 0)
            {
                rep.count["leads_from_dead_ends"]++;
                if (slowChildren >= 4)
                {
                    rep.count["leads_from_dead_ends_skipped"]++;
                    continue;
                }
                outcome = leadInChild(*pg, from, wt, leadJ);
                rep.count["deadend_" + outcome]++;
                if (outcome == "hang")
                    ++slowChildren;
                if (outcome == "crash" || outcome == "hang" || outcome == "lead")
                    failL("computeLead:no-solution-from-given-state:" + outcome,
                          "no solution state is reachable from the given initial state (others are, from the state the graph was "
                          "built from); computeLead then " + (outcome == "lead" ? "returns a lead " + leadJ.dump() :
                          outcome == "crash" ? std::string("crashes") : std::string("does not return (memory grows without bound)")));
                continue;
            }
            weighed.clear();
            std::vector<PS *> lead = pg->computeLead(from, wt);
            if (weighed != realEdges)
                failL("edges", "edges handed to the weight function (" + std::to_string(weighed.size()) + ") differ from the product's edges (" +
                                   std::to_string(realEdges.size()) + ")");
            json la = json::array();
            for (auto *s : lead)
                la.push_back(tri(s));
            scl["lead"] = la;
            if (lead.empty() || lead.front() != from)
            {
                failL("lead-start", "the lead does not begin with the given initial state");
                continue;
            }
            long sum = 0;
            bool okPath = true;
            for (std::size_t i = 0; i + 1 < lead.size() && okPath; ++i)
            {
                if (!realEdges.count({lead[i], lead[i + 1]}))
                {
                    failL("lead-path", "consecutive lead states " + tri(lead[i]).dump() + " -> " + tri(lead[i + 1]).dump() + " are not an edge of the product");
                    okPath = false;
                    break;
                }
                sum += wtab[{lead[i]->getDecompRegion(), lead[i + 1]->getDecompRegion()}];
            }
            if (!okPath)
                continue;
            for (auto *s : lead)
                if (info[rel[s]][2].get<int>() != 0)
                    failL("lead-safe", "the lead passes through " + tri(s).dump() + " whose safety component is not accepting");
            if (info[rel[lead.back()]][3].get<int>() != 1)
                failL("lead-end", "the lead ends in " + tri(lead.back()).dump() + " which is not a solution state");
            if (sum != want)
                failL("lead-weight", "the lead weighs " + std::to_string(sum) + ", the minimum over all leads is " + std::to_string(want));
            rep.count[first ? "leads_checked" : "leads_from_other_states"]++;
            if (lead.size() == 1)
                rep.count["leads_trivial"]++;
            first = false;
        }
    }
    rep.summary();
    return 0;
}

// ------------------------------------------------------------------------------ grid decomposition
class TestGrid : public oc::GridDecomposition
{
public:
    TestGrid(int len, int dim, const ob::RealVectorBounds &b) : oc::GridDecomposition(len, dim, b)
    {
    }
    void project(const ob::State *s, std::vector<double> &coord) const override
    {
        coord.resize(dimension_);
        for (int i = 0; i < dimension_; ++i)
            coord[i] = s->as<ob::RealVectorStateSpace::StateType>()->values[i];
    }
    void sampleFullState(const ob::StateSamplerPtr &, const std::vector<double> &, ob::State *) const override
    {
    }
    using oc::GridDecomposition::regionToGridCoord;
    using oc::GridDecomposition::gridCoordToRegion;
    using oc::GridDecomposition::coordToRegion;
    using oc::GridDecomposition::coordToGridCoord;
    using oc::GridDecomposition::getRegionBounds;
};

static int cmdGrid(const std::string &path)
{
    Rep rep;
    std::ifstream in(path);
    if (!in)
    {
        fprintf(stderr, "cannot read %s\n", path.c_str());
        return 3;
    }
    std::string line;
    ompl::RNG rng;
    while (std::getline(in, line))
    {
        if (line.empty())
            continue;
        json j = json::parse(line);
        int len = j["len"], dim = j["dim"], cell = j["cell"], low = j["low"];
        ob::RealVectorBounds b(dim);
        b.setLow(low);
        b.setHigh(low + len * cell);
        TestGrid g(len, dim, b);
        auto space = std::make_shared<ob::RealVectorStateSpace>(dim);
        json sc{{"len", len}, {"dim", dim}, {"cell", cell}, {"low", low}};
        ++rep.scenarios;
        if (j.contains("pts"))
        {
            ob::State *st = space->allocState();
            for (auto &pr : j["pts"])
            {
                ++rep.steps;
                std::vector<double> p = pr[0].get<std::vector<double>>();
                int want = pr[1];
                for (int i = 0; i < dim; ++i)
                    st->as<ob::RealVectorStateSpace::StateType>()->values[i] = p[i];
                int got = g.locateRegion(st), got2 = g.coordToRegion(p);
                std::vector<int> gc, wc;
                g.coordToGridCoord(p, gc);
                g.regionToGridCoord(want, wc);
                json scp = sc;
                scp["point"] = pr[0];
                if (got != want || got2 != want)
                    rep.fail("grid:locateRegion", "point located in region " + std::to_string(got) + "/" + std::to_string(got2) +
                                                      ", the cell containing it is " + std::to_string(want), scp);
                if (gc != wc)
                    rep.fail("grid:coordToGridCoord", "grid coordinate of the point differs from the coordinate of its cell", scp);
                bool boundary = false;
                for (int i = 0; i < dim; ++i)
                    boundary = boundary || ((long)(p[i] - low) % cell == 0);
                rep.count[boundary ? "points_on_cell_boundaries" : "points_inside_cells"]++;
            }
            space->freeState(st);
            continue;
        }
        int r = j["r"];
        sc["r"] = r;
        ++rep.steps;
        rep.count["regions"]++;
        if (g.getNumRegions() != j["n"].get<int>())
            rep.fail("grid:numRegions", "getNumRegions() = " + std::to_string(g.getNumRegions()), sc);
        std::vector<int> c;
        g.regionToGridCoord(r, c);
        if (c != j["coord"].get<std::vector<int>>())
            rep.fail("grid:regionToGridCoord", "coordinate " + json(c).dump() + ", expected " + j["coord"].dump(), sc);
        if (g.gridCoordToRegion(j["coord"].get<std::vector<int>>()) != r)
            rep.fail("grid:gridCoordToRegion", "coordinate " + j["coord"].dump() + " maps to region " +
                                                   std::to_string(g.gridCoordToRegion(j["coord"].get<std::vector<int>>())), sc);
        std::vector<int> nb;
        g.getNeighbors(r, nb);
        std::vector<int> want = j["nbrs"].get<std::vector<int>>();
        std::sort(nb.begin(), nb.end());
        std::sort(want.begin(), want.end());
        if (nb != want)
            rep.fail("grid:getNeighbors", "neighbours " + json(nb).dump() + ", the cells at distance one are " + json(want).dump(), sc);
        rep.count["neighbours"] += (long)want.size();
        if (g.getRegionVolume(r) != j["vol"].get<double>())
            rep.fail("grid:getRegionVolume", "volume " + std::to_string(g.getRegionVolume(r)) + ", expected " + j["vol"].dump(), sc);
        const ob::RealVectorBounds &rb = g.getRegionBounds(r);
        for (int i = 0; i < dim; ++i)
            if (rb.low[i] != j["box"][i][0].get<double>() || rb.high[i] != j["box"][i][1].get<double>())
                rep.fail("grid:getRegionBounds", "bounds of the region differ from its cell", sc);
        ob::State *st = space->allocState();
        for (int k = 0; k < 4; ++k)
        {
            std::vector<double> p;
            g.sampleFromRegion(r, rng, p);
            for (int i = 0; i < dim; ++i)
                st->as<ob::RealVectorStateSpace::StateType>()->values[i] = p[i];
            if (g.locateRegion(st) != r)
                rep.fail("grid:sampleFromRegion", "a sample of the region is located in region " + std::to_string(g.locateRegion(st)), sc);
            rep.count["samples"]++;
        }
        space->freeState(st);
    }
    rep.summary();
    return 0;
}

// ------------------------------------------------------------------------------ record
struct Rec
{
    vt::Trace &tr;
    vt::Rng rng;
    Rec(vt::Trace &t, unsigned long long seed) : tr(t), rng(seed)
    {
    }
    json randWorld(int np, int pUnset)   // pUnset: percent of propositions left unassigned
    {
        json a = json::array();
        for (int p = 0; p < np; ++p)
            a.push_back(rng.below(100) < pUnset ? 2 : rng.below(2));
        return a;
    }
    std::vector<int> randOrder(int np)
    {
        std::vector<int> o(np);
        for (int i = 0; i < np; ++i)
            o[i] = i;
        for (int i = np - 1; i > 0; --i)
            std::swap(o[i], o[rng.below(i + 1)]);
        return o;
    }
    static bool sat(const json &w, const json &g)
    {
        for (std::size_t p = 0; p < g.size(); ++p)
            if (g[p].get<int>() != 2 && w[p].get<int>() != g[p].get<int>())
                return false;
        return true;
    }
    json structure(oc::Automaton &A)
    {
        json t = json::array();
        for (unsigned s = 0; s < A.numStates(); ++s)
            for (auto &e : A.getTransitions(s).entries)
                t.push_back(json::array({(int)s, fromWorld(e.first), (int)e.second}));
        return t;
    }
    void obs(int a, oc::Automaton &A)
    {
        tr.emit({{"e", "Obs"}, {"a", a}, {"ns", A.numStates()}, {"start", A.getStartState()}, {"np", A.numProps()},
                 {"nt", A.numTransitions()}, {"tr", structure(A)}});
    }
    void load(int a, oc::Automaton &A)
    {
        json acc = json::array();
        for (unsigned s = 0; s < A.numStates(); ++s)
            if (A.isAccepting(s))
                acc.push_back((int)s);
        tr.emit({{"e", "Load"}, {"a", a}, {"np", A.numProps()}, {"ns", A.numStates()}, {"start", A.getStartState()},
                 {"acc", acc}, {"tr", structure(A)}});
    }
    // one random mutation of a hand-built automaton (recorded)
    void mutate(int a, oc::Automaton &A, int np)
    {
        int ns = A.numStates();
        int k = rng.below(10);
        if (k == 0 || ns == 0)
        {
            bool acc = rng.below(3) == 0;
            unsigned id = A.addState(acc);
            tr.emit({{"e", "AddState"}, {"a", a}, {"acc", acc ? 1 : 0}, {"id", id}});
        }
        else if (k == 1)
        {
            int s = rng.below(ns);
            bool v = rng.below(2);
            A.setAccepting(s, v);
            tr.emit({{"e", "SetAcc"}, {"a", a}, {"s", s}, {"v", v ? 1 : 0}});
        }
        else if (k == 2)
        {
            int s = rng.below(ns);
            A.setStartState(s);
            tr.emit({{"e", "SetStart"}, {"a", a}, {"s", s}});
        }
        else
        {
            int s = rng.below(ns), d = rng.below(ns);
            json g = randWorld(np, 55);
            A.addTransition(s, toWorld(g), d);
            tr.emit({{"e", "AddTr"}, {"a", a}, {"s", s}, {"g", g}, {"d", d}});
        }
    }
    void query(int a, oc::Automaton &A, int np)
    {
        int ns = A.numStates();
        int k = rng.below(10);
        if (k < 4)
        {
            int s = rng.below(ns + 1) - 1;
            json w = randWorld(np, rng.below(4) == 0 ? 30 : 0);
            int r = A.step(s, toWorld(w));
            tr.emit({{"e", "Step"}, {"a", a}, {"s", s}, {"w", w}, {"r", r}});
        }
        else if (k < 6 && A.getStartState() != -1)   // running an automaton without a start state is misuse
        {
            json ws = json::array();
            std::vector<oc::World> v;
            for (int i = rng.below(7); i > 0; --i)
            {
                ws.push_back(randWorld(np, 0));
                v.push_back(toWorld(ws.back()));
            }
            bool r = A.run(v);
            tr.emit({{"e", "Run"}, {"a", a}, {"ws", ws}, {"r", r ? 1 : 0}});
        }
        else if (k < 8 && ns > 0)
        {
            int s = rng.below(ns);
            tr.emit({{"e", "Dist"}, {"a", a}, {"s", s}, {"d", distOf(A, s)}});
        }
        else if (k < 9 && ns > 0)
        {
            int s = rng.below(ns);
            tr.emit({{"e", "IsAcc"}, {"a", a}, {"s", s}, {"v", A.isAccepting(s) ? 1 : 0}});
        }
        else
            obs(a, A);
    }
    std::shared_ptr<oc::Automaton> handBuilt(int a, int np, int nmut)
    {
        int ns0 = rng.below(3);
        auto A = std::make_shared<oc::Automaton>(np, ns0);
        tr.emit({{"e", "New"}, {"a", a}, {"np", np}, {"ns", ns0}});
        if (ns0 == 0)
        {
            unsigned id = A->addState(false);
            tr.emit({{"e", "AddState"}, {"a", a}, {"acc", 0}, {"id", id}});
        }
        for (int i = 0; i < nmut; ++i)
            mutate(a, *A, np);
        return A;
    }
    void automatonExecution(bool mixed)
    {
        tr.emit({{"e", "Reset"}, {"mode", mixed ? "mixed" : "frozen"}});
        int np = 1 + rng.below(3);
        auto A = handBuilt(0, np, 4 + rng.below(10));
        obs(0, *A);
        for (int i = 0, n = 12 + rng.below(14); i < n; ++i)
        {
            if (mixed && rng.below(4) == 0)
                mutate(0, *A, np);
            else
                query(0, *A, np);
        }
    }
    void worldExecution()
    {
        tr.emit({{"e", "Reset"}, {"mode", "world"}});
        for (int i = 0; i < 12; ++i)
        {
            int np = 1 + rng.below(4);
            json x = randWorld(np, 35);
            auto ox = randOrder(np);
            oc::World wx = toWorld(x, &ox);
            int k = rng.below(3);
            if (k == 0)
            {
                json y = rng.below(2) ? randWorld(np, 45) : x;
                if (rng.below(3) == 0 && y != x)
                    for (int p = 0; p < np; ++p)   // a weakening of x: satisfied by construction
                        y[p] = rng.below(2) ? x[p] : json(2);
                auto oy = randOrder(np);
                oc::World wy = toWorld(y, &oy);
                tr.emit({{"e", "WSat"}, {"x", x}, {"y", y}, {"r", wx.satisfies(wy) ? 1 : 0}});
            }
            else if (k == 1)
            {
                int ny = rng.below(5) == 0 ? np + 1 : np;
                json y = rng.below(3) ? x : randWorld(np, 35);
                auto oy = randOrder(np);
                oc::World wy = toWorld(y, &oy, ny);
                bool eq = wx == wy;
                bool heq = std::hash<oc::World>()(wx) == std::hash<oc::World>()(wy);
                tr.emit({{"e", "WEq"}, {"x", x}, {"nx", np}, {"y", y}, {"ny", ny}, {"eq", eq ? 1 : 0}, {"heq", heq ? 1 : 0},
                         {"ox", ox}, {"oy", oy}});
            }
            else
            {
                std::vector<int> set;
                for (int p = 0; p < np; ++p)
                    if (x[p].get<int>() != 2)
                        set.push_back(p);
                if (set.empty())
                    continue;
                int p = set[rng.below(set.size())];
                const oc::World &cw = wx;
                tr.emit({{"e", "WGet"}, {"x", x}, {"p", p}, {"v", cw[p] ? 1 : 0}});
            }
        }
    }
    // an automaton for slot a that is deterministic on the given labels
    std::shared_ptr<oc::Automaton> productAutomaton(int a, int np, const json &labels, bool safety)
    {
        for (int attempt = 0; attempt < 50; ++attempt)
        {
            int k = rng.below(safety ? 3 : 6);
            std::shared_ptr<oc::Automaton> A;
            if (safety && k < 2)
            {
                if (k == 0)
                    A = oc::Automaton::AcceptingAutomaton(np);
                else
                    A = oc::Automaton::AvoidanceAutomaton(np, {(unsigned)rng.below(np)});
            }
            else if (!safety && k < 4)
            {
                std::vector<unsigned> ps;
                auto o = randOrder(np);
                for (int i = 0, n = 1 + rng.below(np); i < n; ++i)
                    ps.push_back(o[i]);
                A = k == 0 ? oc::Automaton::CoverageAutomaton(np, ps) : k == 1 ? oc::Automaton::SequenceAutomaton(np, ps) :
                    k == 2 ? oc::Automaton::DisjunctionAutomaton(np, ps) : oc::Automaton::SequenceAutomaton(np);
            }
            if (A)
            {
                // deterministic on the labels? (input filter of the recorder, not a verdict)
                bool det = true;
                json t = structure(*A);
                for (unsigned s = 0; s < A->numStates() && det; ++s)
                    for (auto &l : labels)
                    {
                        std::set<int> ds;
                        for (auto &e : t)
                            if (e[0].get<int>() == (int)s && sat(l, e[1]))
                                ds.insert(e[2].get<int>());
                        det = det && ds.size() <= 1;
                    }
                if (!det)
                    continue;
                load(a, *A);
                return A;
            }
            // hand-built; keep it only when deterministic on the labels
            std::vector<json> evs;
            int ns = 2 + rng.below(3);
            auto B = std::make_shared<oc::Automaton>(np, ns);
            evs.push_back({{"e", "New"}, {"a", a}, {"np", np}, {"ns", ns}});
            std::vector<json> tl;
            for (int i = 0, n = 3 + rng.below(8); i < n; ++i)
            {
                int s = rng.below(ns), d = rng.below(ns);
                json g = randWorld(np, 55);
                bool clash = false;
                for (auto &l : labels)
                    for (auto &e : tl)
                        if (e[0].get<int>() == s && e[2].get<int>() != d && !(e[1] == g) && sat(l, e[1]) && sat(l, g))
                            clash = true;
                if (clash)
                    continue;
                for (auto it = tl.begin(); it != tl.end();)
                    it = ((*it)[0].get<int>() == s && (*it)[1] == g) ? tl.erase(it) : it + 1;
                tl.push_back(json::array({s, g, d}));
                B->addTransition(s, toWorld(g), d);
                evs.push_back({{"e", "AddTr"}, {"a", a}, {"s", s}, {"g", g}, {"d", d}});
            }
            int st = rng.below(ns);
            B->setStartState(st);
            evs.push_back({{"e", "SetStart"}, {"a", a}, {"s", st}});
            for (int s = 0; s < ns; ++s)
                if ((safety && rng.below(3) > 0) || (!safety && (rng.below(3) == 0 || s == ns - 1)))
                {
                    B->setAccepting(s, true);
                    evs.push_back({{"e", "SetAcc"}, {"a", a}, {"s", s}, {"v", 1}});
                }
            for (auto &e : evs)
                tr.emit(e);
            return B;
        }
        auto A = oc::Automaton::AcceptingAutomaton(np);
        load(a, *A);
        return A;
    }
    void productExecution(const std::shared_ptr<ob::RealVectorStateSpace> &space)
    {
        tr.emit({{"e", "Reset"}, {"mode", "product"}});
        int np = 1 + rng.below(3);
        int W, H;
        std::vector<std::vector<int>> nbr;
        if (rng.below(2))
        {
            W = 2 + rng.below(2);
            H = 1 + rng.below(2);
            nbr.resize(W * H);
            for (int r = 0; r < W * H; ++r)
            {
                int x = r % W, y = r / W;
                if (x > 0) nbr[r].push_back(r - 1);
                if (x < W - 1) nbr[r].push_back(r + 1);
                if (y > 0) nbr[r].push_back(r - W);
                if (y < H - 1) nbr[r].push_back(r + W);
            }
        }
        else
        {
            W = 2 + rng.below(5);
            H = 1;
            nbr.resize(W);
            for (int r = 0; r < W; ++r)
                for (int q = 0; q < W; ++q)
                    if (q != r && rng.below(100) < 40)
                        nbr[r].push_back(q);   // possibly one-way
        }
        int nr = W * H;
        json lab = json::array();
        for (int r = 0; r < nr; ++r)
        {
            json l = json::array();
            int one = rng.below(np + 2);   // mostly mutually exclusive labels
            for (int p = 0; p < np; ++p)
                l.push_back(one == np + 1 ? rng.below(2) : (p == one ? 1 : 0));
            lab.push_back(l);
        }
        tr.emit({{"e", "Decomp"}, {"nbr", nbr}, {"lab", lab}});
        auto dec = std::make_shared<TableDecomp>(W, H, nbr);
        auto pd = std::make_shared<TableProps>(dec, np, lab);
        auto co = productAutomaton(0, np, lab, false);
        auto sa = productAutomaton(1, np, lab, true);
        oc::ProductGraph pg(pd, co, sa);
        int r0 = rng.below(nr);
        ob::State *bs = space->allocState();
        bs->as<ob::RealVectorStateSpace::StateType>()->values[0] = r0 % W + 0.25;
        bs->as<ob::RealVectorStateSpace::StateType>()->values[1] = r0 / W + 0.75;
        PS *start = pg.getState(bs);
        space->freeState(bs);
        std::vector<PS *> states;
        pg.buildGraph(start, [&](PS *s) { states.push_back(s); });
        json sj = json::array(), sol = json::array(), cd = json::array(), sd = json::array();
        bool any = false;
        for (auto *s : states)
        {
            sj.push_back(tri(s));
            sol.push_back(pg.isSolution(s) ? 1 : 0);
            any = any || pg.isSolution(s);
            cd.push_back(pg.getCosafeAutDistance(s));
            sd.push_back(pg.getSafeAutDistance(s));
        }
        tr.emit({{"e", "PBuild"}, {"co", 0}, {"sa", 1}, {"s0", tri(start)}, {"states", sj}, {"sol", sol}, {"cd", cd}, {"sd", sd}});
        for (int i = 0; i < 3; ++i)
        {
            PS *u = states[rng.below(states.size())];
            if (nbr[u->getDecompRegion()].empty())
                continue;
            int r2 = nbr[u->getDecompRegion()][rng.below(nbr[u->getDecompRegion()].size())];
            PS *v = pg.getState(u, r2);
            tr.emit({{"e", "PStep"}, {"u", tri(u)}, {"r2", r2}, {"v", tri(v)}});
        }
        for (int rep = 0; rep < 2; ++rep)
        {
            std::vector<int> wt(nr);
            for (auto &w : wt)
                w = rng.below(4) == 0 ? 0 : 1 + rng.below(3);
            json lead = json::array();
            if (any)
                for (auto *s : pg.computeLead(start, [&](PS *, PS *b) { return (double)wt[b->getDecompRegion()]; }))
                    lead.push_back(tri(s));
            tr.emit({{"e", "PLead"}, {"from", tri(start)}, {"wt", wt}, {"ok", any ? 1 : 0}, {"lead", lead}});
        }
    }
};

static int cmdRecord(const std::string &out, int n)
{
    vt::Trace tr(out);
    Rec rec(tr, vt::envSeed());
    auto space = std::make_shared<ob::RealVectorStateSpace>(2);
    std::map<std::string, long> modes;
    for (int i = 0; i < n; ++i)
    {
        int k = i % 10;
        if (k < 4)
            rec.automatonExecution(false), modes["frozen"]++;
        else if (k < 6)
            rec.automatonExecution(true), modes["mixed"]++;
        else if (k < 7)
            rec.worldExecution(), modes["world"]++;
        else
            rec.productExecution(space), modes["product"]++;
    }
    tr.close();
    std::cout << "SUMMARY " << json{{"executions", n}, {"events", tr.count()}, {"modes", modes}}.dump() << std::endl;
    return 0;
}

int main(int argc, char **argv)
{
    vt::installCrashHandlers();
    ompl::msg::setLogLevel(ompl::msg::LOG_NONE);
    std::string cmd = argc > 1 ? argv[1] : "";
    if (cmd == "words" && argc > 2)
        return cmdWords(argv[2]);
    if (cmd == "product" && argc > 2)
        return cmdProduct(argv[2]);
    if (cmd == "grid" && argc > 2)
        return cmdGrid(argv[2]);
    if (cmd == "record" && argc > 3)
        return cmdRecord(argv[2], atoi(argv[3]));
    fprintf(stderr, "usage: ltl words <file> | product <file> | grid <file> | record <out> <n>\n");
    return 3;
}
