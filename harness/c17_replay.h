// C17 part 1: replay of the cases enumerated by specs/geometric/PathOps.tla on a real
// PathGeometric in R^1.  The verdict on a case is the contract of PathOps.tla evaluated on the
// states the real code produced (operators VerticesInOrderOnSegments, LengthUnchanged,
// SubdivideContract, CountContract, ResolutionContract, mirrored below); whether the states are
// also exactly those of the transcription is reported separately as a drift metric.
#pragma once
#include "c17_world.h"
#include <map>

namespace c17
{
    static const double KSCALE = 360360.0;

    struct Line
    {
        ob::SpaceInformationPtr si;
    };
    // R^1 with longestValidSegment = lnum/lden exactly (extent 64, dyadic fraction) and the
    // given validSegmentCountFactor
    inline Line makeLine(int lnum, int lden, int factor)
    {
        auto space = std::make_shared<ob::RealVectorStateSpace>(1);
        space->setBounds(-32.0, 32.0);
        auto si = std::make_shared<ob::SpaceInformation>(space);
        si->setStateValidityChecker([](const ob::State *) { return true; });
        si->setStateValidityCheckingResolution(((double)lnum / (double)lden) / 64.0);
        space->setValidSegmentCountFactor(factor);
        si->setup();
        double want = (double)lnum / (double)lden;
        if (space->getLongestValidSegmentLength() != want || (int)space->getValidSegmentCountFactor() != factor)
        {
            fprintf(stderr, "FRAMEWORK: R^1 resolution is %.17g, wanted %.17g\n", space->getLongestValidSegmentLength(), want);
            exit(4);
        }
        return Line{si};
    }

    inline double pos1(const ob::State *s)
    {
        return s->as<ob::RealVectorStateSpace::StateType>()->values[0];
    }

    // ---- the contract of PathOps.tla on doubles -------------------------------------------
    inline bool monotone(const std::vector<double> &q, double a, double b, std::size_t lo, std::size_t hi)
    {
        if (q[lo] != a || q[hi] != b)
            return false;
        for (std::size_t k = lo; k < hi; ++k)
            if (a <= b ? !(q[k] <= q[k + 1]) : !(q[k] >= q[k + 1]))
                return false;
        return true;
    }
    inline bool embeds(const std::vector<double> &p, const std::vector<double> &q, std::size_t i, std::size_t j)
    {
        if (q[j] != p[i])
            return false;
        if (i + 1 == p.size())
            return j + 1 == q.size();
        for (std::size_t j2 = j + 1; j2 < q.size(); ++j2)
            if (monotone(q, p[i], p[i + 1], j, j2) && embeds(p, q, i + 1, j2))
                return true;
        return false;
    }
    inline double len1(const std::vector<double> &p)
    {
        double L = 0;
        for (std::size_t i = 1; i < p.size(); ++i)
            L += std::fabs(p[i] - p[i - 1]);
        return L;
    }
    // returns "" when the contract holds, else "<clause of PathOps.tla>|<what was observed>"
    inline std::string contract1(const std::string &op, const json &a, const std::vector<double> &p,
                                 const std::vector<double> &q)
    {
        for (double v : q)
            if (!std::isfinite(v))
                return "Finite|a state is not finite";
        if (q.empty() || !embeds(p, q, 0, 0))
            return "VerticesInOrderOnSegments|original vertices do not appear in order with the new states on their segments";
        if (std::fabs(len1(q) - len1(p)) > 1e-9)
            return "LengthUnchanged|length changed";
        const std::size_t n = p.size();
        if (op == "Subdivide")
        {
            if (n < 2)
                return q == p ? "" : "SubdivideContract|path with fewer than 2 states changed";
            if (q.size() != 2 * n - 1)
                return "SubdivideContract|subdivide: " + std::to_string(q.size()) + " states instead of 2n-1";
            for (std::size_t i = 0; i < n; ++i)
                if (q[2 * i] != p[i])
                    return "SubdivideContract|subdivide: original vertex not at its odd position";
            for (std::size_t i = 0; i + 1 < n; ++i)
                if (2 * q[2 * i + 1] != p[i] + p[i + 1])
                    return "SubdivideContract|subdivide: inserted state is not the middle of its segment";
        }
        else if (op == "InterpolateCount")
        {
            std::size_t c = a[0].get<std::size_t>();
            if (c < n || n < 2)
                return q == p ? "" : "CountContract|interpolate(count): path changed although it has at least count states";
            if (q.size() != c)
                return "CountContract|interpolate(count): " + std::to_string(q.size()) + " states instead of " + std::to_string(c);
        }
        else if (op == "InterpolateAll")
        {
            double L = a[0].get<double>() / a[1].get<double>(), F = a[2].get<double>();
            for (std::size_t k = 0; k + 1 < q.size(); ++k)
                if (F * std::fabs(q[k + 1] - q[k]) > L + 1e-12)
                    return "ResolutionContract|interpolate(): consecutive states further apart than a validity checking step";
        }
        return "";
    }

    inline int replayCases(const std::string &file)
    {
        vt::Report rep;
        std::map<int, Line> lines;
        auto lineFor = [&](int lnum, int lden, int f) -> Line & {
            int key = lnum * 100 + lden * 10 + f;
            auto it = lines.find(key);
            if (it == lines.end())
                it = lines.emplace(key, makeLine(lnum, lden, f)).first;
            return it->second;
        };
        std::ifstream in(file);
        if (!in)
        {
            fprintf(stderr, "cannot read %s\n", file.c_str());
            return 3;
        }
        std::map<std::string, long> perOp, drift, grew;
        long exactStates = 0;
        std::string ln;
        while (std::getline(in, ln))
        {
            if (ln.empty())
                continue;
            json c = json::parse(ln);
            const std::string op = c["op"];
            const json &a = c["a"];
            std::vector<double> p = c["p"].get<std::vector<double>>();
            std::vector<long long> exp = c["exp"].get<std::vector<long long>>();
            Line &line = op == "InterpolateAll" ? lineFor(a[0], a[1], a[2]) : lineFor(1, 1, 1);
            setContext("replay " + ln.substr(0, 400));
            og::PathGeometric path(line.si);
            {
                ob::State *s = line.si->allocState();
                for (double v : p)
                {
                    s->as<ob::RealVectorStateSpace::StateType>()->values[0] = v;
                    path.append(s);
                }
                line.si->freeState(s);
            }
            const double lenBefore = path.length();
            if (op == "Subdivide")
                path.subdivide();
            else if (op == "InterpolateAll")
                path.interpolate();
            else if (op == "InterpolateCount")
                path.interpolate(a[0].get<unsigned int>());
            else
            {
                fprintf(stderr, "FRAMEWORK: unknown op %s\n", op.c_str());
                return 4;
            }
            std::vector<double> q;
            for (std::size_t i = 0; i < path.getStateCount(); ++i)
                q.push_back(pos1(path.getState(i)));
            ++rep.scenarios;
            ++rep.steps;
            ++perOp[op];
            if (q.size() > p.size())
                ++grew[op];
            std::string why = contract1(op, a, p, q);
            // PathGeometric::length() is part of the property ("leaves length unchanged")
            if (why.empty() && std::fabs(path.length() - lenBefore) > 1e-9)
                why = "LengthUnchanged|length() changed";
            if (!why.empty())
            {
                json sc = c;
                sc["got"] = q;
                rep.fail(sc, why);
                continue;
            }
            bool exact = q.size() == exp.size();
            for (std::size_t i = 0; exact && i < q.size(); ++i)
                exact = std::fabs(q[i] - (double)exp[i] / KSCALE) <= 1e-12;
            if (!exact)
            {
                if (drift[op]++ == 0)
                {
                    json sc = c;
                    sc["got"] = q;
                    std::cout << "DRIFT " << sc.dump() << std::endl;
                }
            }
            else
                exactStates += (long)q.size();
        }
        json extra{{"cases", perOp}, {"grew", grew}, {"drift", drift}, {"states_compared", exactStates}};
        rep.summary(extra);
        return rep.failures ? 1 : 0;
    }
}  // namespace c17
