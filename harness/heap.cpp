// C11 harness: binds specs/ds/BinaryHeap.tla (scenario replay, spec -> impl) and
// specs/ds/HeapContractTrace.tla (recorded random histories, impl -> spec) to ompl::BinaryHeap.
//
//   heap replay <graph.ndjson>            replay every edge of the TLC state graph
//   heap record <out.ndjson> <nops> <variant>   drive the real heap randomly and log a trace
//
// Verdicts in replay mode use contract observations only (size, multiset of contents, top is a
// minimum, handles still describe their own element, final drain sorted); the array layout of
// the model is never compared.
#include "vtrace.h"
#include "ompl/datastructures/BinaryHeap.h"
#include <algorithm>
#include <set>

using vt::json;

struct Item
{
    int key;
    int uid;
};

struct LessKey
{
    bool operator()(const Item &a, const Item &b) const
    {
        return a.key < b.key;
    }
};
// order reversed on negated keys: same abstract order, different functor
struct GreaterNeg
{
    bool operator()(const Item &a, const Item &b) const
    {
        return -a.key > -b.key;
    }
};
// stateful functor going through a rank table
struct TableLess
{
    std::function<int(int)> rank;
    TableLess() : rank([](int k) { return 2 * k + 1; })
    {
    }
    bool operator()(const Item &a, const Item &b) const
    {
        return rank(a.key) < rank(b.key);
    }
};

template <class Cmp>
struct Driver
{
    using Heap = ompl::BinaryHeap<Item, Cmp>;
    using Elem = typename Heap::Element;
    Heap heap;
    std::map<int, Elem *> handle;  // uid -> handle (only for elements whose handle the API exposed)
    std::map<int, int> model;      // uid -> key the element should have
    std::vector<Elem *> inserted;  // filled by the after-insert callback
    std::string err;

    Driver()
    {
        heap.onAfterInsert([](Elem *e, void *self) { static_cast<Driver *>(self)->inserted.push_back(e); }, this);
    }

    bool fail(const std::string &w)
    {
        if (err.empty())
            err = w;
        return false;
    }

    // contract observations after a step
    bool observe()
    {
        if (heap.size() != model.size())
            return fail("size() = " + std::to_string(heap.size()) + " but " + std::to_string(model.size()) + " live elements");
        if (heap.empty() != model.empty())
            return fail("empty() disagrees with size");
        std::vector<Item> content;
        heap.getContent(content);
        std::multiset<std::pair<int, int>> a, b;
        for (auto &c : content)
            a.insert({c.uid, c.key});
        for (auto &m : model)
            b.insert({m.first, m.second});
        if (a != b)
            return fail("getContent() is not the multiset of live elements");
        Elem *t = heap.top();
        if (model.empty())
        {
            if (t != nullptr)
                return fail("top() non-null on empty heap");
        }
        else
        {
            if (t == nullptr)
                return fail("top() null on non-empty heap");
            int mn = model.begin()->second;
            for (auto &m : model)
                mn = std::min(mn, m.second);
            if (t->data.key != mn)
                return fail("top() key " + std::to_string(t->data.key) + " is not the minimum " + std::to_string(mn));
            if (!model.count(t->data.uid))
                return fail("top() is not a live element");
        }
        for (auto &h : handle)
        {
            auto it = model.find(h.first);
            if (it == model.end())
                return fail("internal: stale handle table");
            if (h.second->data.uid != h.first || h.second->data.key != it->second)
                return fail("handle of element " + std::to_string(h.first) + " no longer describes it");
        }
        return true;
    }

    void insert(int uid, int key)
    {
        inserted.clear();
        Elem *e = heap.insert(Item{key, uid});
        model[uid] = key;
        handle[uid] = e;
        if (inserted.size() != 1 || inserted[0] != e)
            fail("after-insert event not fired exactly once for insert()");
    }
    void insertMany(int uid0, const std::vector<int> &keys)
    {
        std::vector<Item> v;
        for (std::size_t i = 0; i < keys.size(); ++i)
            v.push_back(Item{keys[i], uid0 + (int)i});
        inserted.clear();
        heap.insert(v);
        if (inserted.size() != keys.size())
        {
            fail("after-insert event not fired once per element of insert(vector)");
            return;
        }
        for (auto *e : inserted)
        {
            handle[e->data.uid] = e;
        }
        for (std::size_t i = 0; i < keys.size(); ++i)
            model[uid0 + (int)i] = keys[i];
    }
    bool remove(int uid)
    {
        auto it = handle.find(uid);
        if (it == handle.end())
            return false;  // no handle available (buildFrom element): step not executable
        heap.remove(it->second);
        handle.erase(it);
        model.erase(uid);
        return true;
    }
    // returns uid popped, or -1
    int pop()
    {
        Elem *t = heap.top();
        if (!t)
        {
            fail("top() null before pop on non-empty model");
            return -1;
        }
        int uid = t->data.uid, key = t->data.key;
        auto it = model.find(uid);
        if (it == model.end())
        {
            fail("pop(): top is not a live element");
            return -1;
        }
        for (auto &m : model)
            if (m.second < key)
            {
                fail("pop(): popped key " + std::to_string(key) + " while " + std::to_string(m.second) + " is present");
                break;
            }
        heap.pop();
        model.erase(uid);
        handle.erase(uid);
        return uid;
    }
    bool update(int uid, int key)
    {
        auto it = handle.find(uid);
        if (it == handle.end())
            return false;
        it->second->data.key = key;
        model[uid] = key;
        heap.update(it->second);
        return true;
    }
    bool perturb(int uid, int key)
    {
        auto it = handle.find(uid);
        if (it == handle.end())
            return false;
        it->second->data.key = key;
        model[uid] = key;
        return true;
    }
    void buildFrom(int uid0, const std::vector<int> &keys)
    {
        std::vector<Item> v;
        for (std::size_t i = 0; i < keys.size(); ++i)
            v.push_back(Item{keys[i], uid0 + (int)i});
        heap.buildFrom(v);
        model.clear();
        handle.clear();
        for (std::size_t i = 0; i < keys.size(); ++i)
            model[uid0 + (int)i] = keys[i];
    }
    bool sortPure(const std::vector<int> &keys, std::vector<int> &out)
    {
        std::vector<Item> v;
        for (std::size_t i = 0; i < keys.size(); ++i)
            v.push_back(Item{keys[i], -1 - (int)i});
        heap.sort(v);
        out.clear();
        for (auto &x : v)
            out.push_back(x.key);
        std::vector<int> expect = keys;
        std::sort(expect.begin(), expect.end());
        if (out != expect)
            return fail("sort() did not return the sorted permutation");
        return true;
    }
    void clear()
    {
        heap.clear();
        model.clear();
        handle.clear();
    }
    // drain: popping everything yields all live elements in non-decreasing order
    bool drain()
    {
        std::vector<int> expect;
        for (auto &m : model)
            expect.push_back(m.second);
        std::sort(expect.begin(), expect.end());
        std::vector<int> got;
        std::size_t guard = expect.size() + 2;
        while (!heap.empty() && guard--)
        {
            got.push_back(heap.top()->data.key);
            heap.pop();
        }
        model.clear();
        handle.clear();
        if (got != expect)
        {
            std::string s = "drain order [";
            for (int g : got)
                s += std::to_string(g) + " ";
            s += "] expected [";
            for (int g : expect)
                s += std::to_string(g) + " ";
            return fail(s + "]");
        }
        return true;
    }

    // ---- replay of specification steps: elements are addressed by their slot in the model's
    // array; `byPos` maps model slot -> real uid (0 = element without a handle).
    std::vector<int> byPos;
    int nextUid{1};
    long tieRebinds{0};

    std::vector<int> sortedModelKeys() const
    {
        std::vector<int> keys;
        for (auto &m : model)
            keys.push_back(m.second);
        std::sort(keys.begin(), keys.end());
        return keys;
    }

    bool step(const vt::Edge &e, bool obs)
    {
        const json &a = e.args;
        std::vector<int> fresh;  // uids created by this step, in label order n+1, n+2, ...
        const std::size_t n = byPos.size();
        auto slotUid = [&](const char *k) -> int {
            std::size_t p = a[k].get<std::size_t>();
            return p >= 1 && p <= n ? byPos[p - 1] : 0;
        };
        if (e.a == "Insert")
        {
            fresh.push_back(nextUid);
            insert(nextUid++, a["key"]);
        }
        else if (e.a == "InsertMany")
        {
            auto keys = a["keys"].get<std::vector<int>>();
            for (std::size_t i = 0; i < keys.size(); ++i)
                fresh.push_back(nextUid + (int)i);
            insertMany(nextUid, keys);
            nextUid += (int)keys.size();
        }
        else if (e.a == "Remove")
        {
            if (!remove(slotUid("pos")))
                return fail("no handle for element to remove");
        }
        else if (e.a == "Pop")
        {
            int want = n ? byPos[0] : 0;
            int got = pop();
            if (!err.empty())
                return false;
            if (got != want)
            {
                // a tie broken differently: equal-key elements are interchangeable for the contract
                ++tieRebinds;
                for (auto &u : byPos)
                    if (u == got)
                    {
                        u = want;
                        break;
                    }
            }
        }
        else if (e.a == "Update")
        {
            if (!update(slotUid("pos"), a["key"]))
                return fail("no handle for element to update");
        }
        else if (e.a == "PerturbRebuild")
        {
            if (!perturb(slotUid("pos1"), a["key1"]) || !perturb(slotUid("pos2"), a["key2"]))
                return fail("no handle for element to perturb");
            heap.rebuild();
        }
        else if (e.a == "BuildFrom")
        {
            auto keys = a["keys"].get<std::vector<int>>();
            for (std::size_t i = 0; i < keys.size(); ++i)
                fresh.push_back(nextUid + (int)i);
            buildFrom(nextUid, keys);
            nextUid += (int)keys.size();
        }
        else if (e.a == "Sort")
        {
            std::vector<int> out;
            sortPure(a["keys"].get<std::vector<int>>(), out);
            if (err.empty() && out != a["sorted"].get<std::vector<int>>())
                fail("sort() result differs from the specification's");
        }
        else if (e.a == "Clear")
            clear();
        else
            return fail("unknown action " + e.a);
        if (!err.empty())
            return false;
        // follow the model's bookkeeping of where elements moved
        std::vector<int> np;
        const std::size_t base = e.a == "BuildFrom" ? 0 : n;
        for (auto &lab : e.perm)
        {
            std::size_t L = lab.get<std::size_t>();
            if (L <= base)
                np.push_back(byPos[L - 1]);
            else
                np.push_back(fresh.at(L - base - 1));
        }
        byPos.swap(np);
        if (obs)
        {
            if (!observe())
                return false;
            if (sortedModelKeys() != e.exp["keys"].get<std::vector<int>>() || (int)heap.size() != e.exp["n"].get<int>())
                return fail("contents differ from the specification's expectation");
        }
        return true;
    }
    bool finish()
    {
        return drain();
    }
};

static long g_rebinds = 0;
template <class Cmp>
static void replayGraph(const vt::Graph &g, vt::Report &rep, const std::string &depthMode, long walks)
{
    auto make = []() { return Driver<Cmp>(); };
    auto small = [](const vt::Edge &e) { return e.a == "Pop" || e.a == "Remove" || e.a == "Insert" || e.a == "Update"; };
    vt::walkEveryEdge<Driver<Cmp>>(g, rep, make);
    if (depthMode != "edges")
        vt::walkEveryPair<Driver<Cmp>>(g, rep, make, small);
    vt::walkRandom<Driver<Cmp>>(g, rep, make, walks, 40, vt::envSeed());
}

template <class Cmp>
static void record(const std::string &out, long nops, unsigned long long seed, int keyRange, int maxLive)
{
    vt::Trace tr(out);
    vt::Rng rng(seed);
    Driver<Cmp> d;
    int nextUid = 1;
    auto obs = [&](json ev) {
        ev["n"] = (int)d.heap.size();
        auto *t = d.heap.top();
        ev["top"] = t ? json{{"id", t->data.uid}, {"k", t->data.key}} : json{{"id", -1}, {"k", 0}};
        ev["hasTop"] = t != nullptr;
        tr.emit(ev);
    };
    // two regimes, switched at every audit: few distinct keys (ties) / many distinct keys (every
    // misplacement is visible)
    bool wide = false;
    auto key = [&]() { return wide || rng.below(10) == 0 ? rng.below(1000) : rng.below(keyRange); };
    long nextAudit = 30 + rng.below(60);
    auto liveHandle = [&]() -> int {
        if (d.handle.empty())
            return -1;
        auto it = d.handle.begin();
        std::advance(it, rng.below((int)d.handle.size()));
        return it->first;
    };
    tr.emit(json{{"e", "Reset"}});
    for (long i = 0; i < nops; ++i)
    {
        if (i == nextAudit)
        {
            // audit: pop everything (each pop is judged against the contract's bag), then refill to a
            // random size so that interior removals also happen in heaps of four and more levels
            while (!d.heap.empty())
            {
                auto *t = d.heap.top();
                int u = t->data.uid, k = t->data.key;
                d.heap.pop();
                d.handle.erase(u);
                obs(json{{"e", "Pop"}, {"id", u}, {"k", k}});
            }
            wide = !wide;
            int m = 4 + rng.below(std::max(1, maxLive - 4));
            for (int j = 0; j < m; ++j)
            {
                int k = key(), u = nextUid++;
                d.heap.insert(Item{k, u});
                d.handle[u] = d.inserted.back();
                obs(json{{"e", "Insert"}, {"id", u}, {"k", k}});
            }
            nextAudit = i + 8 + rng.below(40);
        }
        int op = rng.below(100);
        int live = (int)d.heap.size();
        if (op < 30 || live == 0)
        {
            if (live >= maxLive)
                continue;
            int k = key(), u = nextUid++;
            d.heap.insert(Item{k, u});
            // handles come from the callback table
            d.handle[u] = d.inserted.back();
            obs(json{{"e", "Insert"}, {"id", u}, {"k", k}});
        }
        else if (op < 36)
        {
            int m = 2 + rng.below(4);
            if (live + m > maxLive)
                continue;
            std::vector<Item> v;
            json ids = json::array(), ks = json::array();
            for (int j = 0; j < m; ++j)
            {
                v.push_back(Item{key(), nextUid++});
                ids.push_back(v.back().uid);
                ks.push_back(v.back().key);
            }
            d.inserted.clear();
            d.heap.insert(v);
            for (auto *e : d.inserted)
                d.handle[e->data.uid] = e;
            obs(json{{"e", "InsertMany"}, {"ids", ids}, {"ks", ks}});
        }
        else if (op < 56)
        {
            int u = liveHandle();
            if (u < 0)
                continue;
            d.heap.remove(d.handle[u]);
            d.handle.erase(u);
            obs(json{{"e", "Remove"}, {"id", u}});
        }
        else if (op < 72)
        {
            auto *t = d.heap.top();
            int u = t->data.uid, k = t->data.key;
            d.heap.pop();
            d.handle.erase(u);
            obs(json{{"e", "Pop"}, {"id", u}, {"k", k}});
        }
        else if (op < 88)
        {
            int u = liveHandle();
            if (u < 0)
                continue;
            int k = key();
            d.handle[u]->data.key = k;
            d.heap.update(d.handle[u]);
            obs(json{{"e", "Update"}, {"id", u}, {"k", k}});
        }
        else if (op < 93)
        {
            int m = 1 + rng.below(3);
            json ch = json::array();
            for (int j = 0; j < m; ++j)
            {
                int u = liveHandle();
                if (u < 0)
                    break;
                int k = key();
                d.handle[u]->data.key = k;
                ch.push_back(json{{"id", u}, {"k", k}});
            }
            d.heap.rebuild();
            obs(json{{"e", "Rebuild"}, {"ch", ch}});
        }
        else if (op < 95)
        {
            int m = rng.below(7);
            std::vector<Item> v;
            json ids = json::array(), ks = json::array();
            for (int j = 0; j < m; ++j)
            {
                v.push_back(Item{key(), nextUid++});
                ids.push_back(v.back().uid);
                ks.push_back(v.back().key);
            }
            d.heap.buildFrom(v);
            d.handle.clear();
            obs(json{{"e", "BuildFrom"}, {"ids", ids}, {"ks", ks}});
        }
        else if (op < 98)
        {
            int m = rng.below(6);
            std::vector<Item> v;
            json in = json::array(), outk = json::array();
            for (int j = 0; j < m; ++j)
            {
                v.push_back(Item{key(), 0});
                in.push_back(v.back().key);
            }
            d.heap.sort(v);
            for (auto &x : v)
                outk.push_back(x.key);
            obs(json{{"e", "Sort"}, {"in", in}, {"out", outk}});
        }
        else if (op < 99)
        {
            // full content listing
            std::vector<Item> c;
            d.heap.getContent(c);
            json ids = json::array(), ks = json::array();
            for (auto &x : c)
            {
                ids.push_back(x.uid);
                ks.push_back(x.key);
            }
            obs(json{{"e", "Content"}, {"ids", ids}, {"ks", ks}});
        }
        else
        {
            d.heap.clear();
            d.handle.clear();
            obs(json{{"e", "Clear"}});
        }
    }
    // final drain as ordinary pops
    while (!d.heap.empty())
    {
        auto *t = d.heap.top();
        int u = t->data.uid, k = t->data.key;
        d.heap.pop();
        obs(json{{"e", "Pop"}, {"id", u}, {"k", k}});
    }
    std::cout << "RECORDED " << tr.count() << std::endl;
}

int main(int argc, char **argv)
{
    vt::installCrashHandlers();
    std::string mode = argc > 1 ? argv[1] : "";
    if (mode == "replay" && argc > 2)
    {
        vt::Graph g(argv[2]);
        vt::Report rep;
        long rebinds = 0;
        std::string depthMode = argc > 3 ? argv[3] : "pairs";
        long walks = argc > 4 ? atol(argv[4]) : 2000;
        (void)rebinds;
        replayGraph<LessKey>(g, rep, depthMode, walks);
        replayGraph<GreaterNeg>(g, rep, "edges", walks / 4);
        replayGraph<TableLess>(g, rep, "edges", walks / 4);
        rep.summary(json{{"edges", g.edges.size()}, {"states", g.nStates}});
        return rep.failures ? 1 : 0;
    }
    if (mode == "record" && argc > 4)
    {
        long nops = atol(argv[3]);
        std::string variant = argv[4];
        unsigned long long seed = vt::envSeed();
        if (variant == "less")
            record<LessKey>(argv[2], nops, seed, 4, 40);
        else if (variant == "greater")
            record<GreaterNeg>(argv[2], nops, seed + 1, 3, 64);
        else
            record<TableLess>(argv[2], nops, seed + 2, 6, 24);
        return 0;
    }
    fprintf(stderr, "usage: heap replay <graph> | heap record <out> <nops> <less|greater|table>\n");
    return 2;
}
