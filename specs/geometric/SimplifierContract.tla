--------------------------- MODULE SimplifierContract ---------------------------
(* Contract (A) of property C17 for the routines of ompl::geometric::PathSimplifier *)
(* and for ompl::geometric::PathHybridization.                                      *)
(*                                                                                  *)
(* The abstract state is what the property talks about: for the path being          *)
(* post-processed (`cur`) its number of states, its length, its cost under the      *)
(* objective the simplifier was given, whether it is valid (independent oracle),    *)
(* whether the library's own check() accepts it; for a hybridization session        *)
(* (`hyb`) the number of recorded paths and the best recorded cost.                 *)
(*                                                                                  *)
(* There is one operator per routine.  Its argument r is the REPORT the harness     *)
(* logged for one call: the facts before and after the call, computed by the        *)
(* harness's own code (own distance, own cost sum, own validity sweep at a tenth of *)
(* the resolution), never by the routine under test.  An operator is enabled only   *)
(* for a report the property allows; the trace module replays recorded reports      *)
(* through these operators.                                                         *)
(*                                                                                  *)
(* Quantities are fixed point integers (micro-units).                               *)
(*                                                                                  *)
(* What each routine promises (read off PathSimplifier.cpp / .h):                   *)
(*   all                     first state kept; last state kept, or replaced by a     *)
(*                           state of the goal region the simplifier was given;     *)
(*                           every state finite                                     *)
(*   all but simplify*       valid in => valid out (only validated motions, or      *)
(*                           pieces of them, are introduced)                        *)
(*   reduceVertices,         replace a stretch of the path by one straight motion:  *)
(*   collapseCloseVertices,  never longer in a metric space                         *)
(*   partialShortcutPath,                                                           *)
(*   ropeShortcutPath                                                               *)
(*   partialShortcutPath,    compare costs before changing the path: never worse    *)
(*   ropeShortcutPath,       under the simplifier's objective (reduceVertices and   *)
(*   perturbPath,            collapseCloseVertices are documented as objective      *)
(*   findBetterGoal          agnostic, smoothBSpline promises validity only)        *)
(*   simplify, simplifyMax   "return false iff the simplified path is not valid":   *)
(*                           returned TRUE => check() passes and the oracle agrees  *)
EXTENDS Integers, Sequences, TLC

VARIABLES cur, hyb

(* every logged quantity is rounded to the nearest micro-unit: two roundings *)
Tol == 2

NoPath == [has |-> FALSE]
NoHyb == [open |-> FALSE]

CInit == cur = NoPath /\ hyb = NoHyb

(* ------------------------------------------------------------------ a new input path *)
CNewPath(r) ==
    /\ r.n >= 1 /\ r.finite
    /\ cur' = [has |-> TRUE, n |-> r.n, len |-> r.len, cost |-> r.cost, valid |-> r.valid,
               check |-> r.check, metric |-> r.metric, goal |-> r.goal, obj |-> r.obj]

(* ------------------------------------------------------------------ common clauses *)
(* the report is about the path the previous report left behind *)
Frame(r) ==
    /\ cur.has
    /\ r.nBefore = cur.n /\ r.lenBefore = cur.len /\ r.costBefore = cur.cost
    /\ r.validBefore = cur.valid /\ r.checkBefore = cur.check
    /\ r.metric = cur.metric /\ r.goal = cur.goal /\ r.obj = cur.obj

Endpoints(r) ==
    /\ r.finite /\ r.nAfter >= 1
    /\ r.firstKept
    /\ r.lastKept \/ (cur.goal /\ r.lastIsGoal)

KeepsValid(r) == cur.valid => r.validAfter
NotLonger(r) == cur.metric => r.lenAfter <= cur.len + Tol
NotWorse(r) == r.costAfter <= cur.cost + Tol

(* validity is only ever claimed for a chain that started valid and stayed valid *)
Becomes(r) ==
    cur' = [cur EXCEPT !.n = r.nAfter, !.len = r.lenAfter, !.cost = r.costAfter,
                       !.valid = cur.valid /\ r.validAfter, !.check = r.checkAfter]

(* ------------------------------------------------------------------ the routines *)
(* a valid input: the oracle and the library's check() both accept it *)
SimplifySuccessIsTruthful(r) ==
    (cur.valid /\ cur.check /\ r.ret) => (r.checkAfter /\ r.validAfter)

(* which clauses bind which routine *)
Routines == {"reduceVertices", "collapseCloseVertices", "partialShortcutPath", "ropeShortcutPath",
             "smoothBSpline", "perturbPath", "findBetterGoal", "simplify", "simplifyMax"}
ClausesOf(e) ==
    CASE e \in {"reduceVertices", "collapseCloseVertices"} -> {"Endpoints", "KeepsValid", "NotLonger"}
      [] e \in {"partialShortcutPath", "ropeShortcutPath"} -> {"Endpoints", "KeepsValid", "NotLonger", "NotWorse"}
      [] e = "smoothBSpline" -> {"Endpoints", "KeepsValid"}
      [] e \in {"perturbPath", "findBetterGoal"} -> {"Endpoints", "KeepsValid", "NotWorse"}
      [] e \in {"simplify", "simplifyMax"} -> {"Endpoints", "SimplifySuccessIsTruthful"}

Holds(c, r) ==
    CASE c = "Endpoints" -> Endpoints(r)
      [] c = "KeepsValid" -> KeepsValid(r)
      [] c = "NotLonger" -> NotLonger(r)
      [] c = "NotWorse" -> NotWorse(r)
      [] c = "SimplifySuccessIsTruthful" -> SimplifySuccessIsTruthful(r)

(* the clauses of the property the report r breaks (empty: the report is allowed) *)
Broken(r) == IF ~Frame(r) THEN {"Frame"} ELSE {c \in ClausesOf(r.e) : ~Holds(c, r)}

Routine(name, r) == r.e = name /\ Broken(r) = {} /\ Becomes(r)

CReduceVertices(r) == Routine("reduceVertices", r)
CCollapseCloseVertices(r) == Routine("collapseCloseVertices", r)
CPartialShortcutPath(r) == Routine("partialShortcutPath", r)
CRopeShortcutPath(r) == Routine("ropeShortcutPath", r)
CSmoothBSpline(r) == Routine("smoothBSpline", r)
CPerturbPath(r) == Routine("perturbPath", r)
CFindBetterGoal(r) == Routine("findBetterGoal", r)
CSimplify(r) == Routine("simplify", r)
CSimplifyMax(r) == Routine("simplifyMax", r)

(* ------------------------------------------------------------------ hybridization *)
Min(a, b) == IF a <= b THEN a ELSE b

CHybridStart(r) ==
    hyb' = [open |-> TRUE, count |-> 0, best |-> 0, allValid |-> TRUE, obj |-> r.obj]

(* recordPath: a path that is already part of the hybridization is skipped *)
RecordBroken(r) ==
    IF ~hyb.open THEN {"Frame"}
    ELSE IF r.dup THEN (IF r.pathCount = hyb.count /\ r.attempts = 0 THEN {} ELSE {"DuplicateSkipped"})
    ELSE (IF r.pathCount = hyb.count + 1 THEN {} ELSE {"PathCounted"})
RecordBecomes(r) ==
    IF r.dup \/ ~hyb.open THEN UNCHANGED hyb
    ELSE hyb' = [hyb EXCEPT !.count = hyb.count + 1,
                            !.best = IF hyb.count = 0 THEN r.cost ELSE Min(hyb.best, r.cost),
                            !.allValid = hyb.allValid /\ r.valid]
CRecordPath(r) == RecordBroken(r) = {} /\ RecordBecomes(r)

(* computeHybridPath: "never worse than the best recorded input path", made of     *)
(* recorded motions and validated cross connections, from the common start to the  *)
(* end of a recorded path                                                          *)
HybridBroken(r) ==
    IF ~hyb.open THEN {"Frame"}
    ELSE IF ~r.has THEN (IF hyb.count > 0 THEN {"HybridExists"} ELSE {})
    ELSE IF hyb.count = 0 \/ ~r.finite \/ r.n < 1 THEN {"Frame"}
    ELSE (IF r.cost <= hyb.best + Tol THEN {} ELSE {"NotWorseThanBestRecorded"})
         \cup (IF hyb.allValid => r.valid THEN {} ELSE {"KeepsValid"})
         \cup (IF r.firstKept /\ r.lastOK THEN {} ELSE {"Endpoints"})
CComputeHybridPath(r) == HybridBroken(r) = {} /\ UNCHANGED hyb
===============================================================================
