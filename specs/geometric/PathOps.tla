------------------------------- MODULE PathOps -------------------------------
(* Implementation-shaped specification (I) of the densification operations of  *)
(* ompl::geometric::PathGeometric (src/ompl/geometric/src/PathGeometric.cpp):  *)
(*     subdivide(), interpolate(), interpolate(unsigned int count)             *)
(* on a path that lives on an integer line, together with the contract (A) of  *)
(* property C17 for these operations.                                          *)
(*                                                                             *)
(* A path is a sequence of positions.  Vertices of the enumerated input paths  *)
(* sit on integers; inserted states sit on fractions j/(k+1) of a segment with *)
(* k+1 <= 15, so every position is stored multiplied by K = lcm(1..15) and all *)
(* arithmetic is exact integer arithmetic (Between asserts it).  Repeated      *)
(* states, zero-length segments, direction changes and the all-zero path are   *)
(* part of the enumeration.                                                    *)
(*                                                                             *)
(* TLC (a) checks I => A on every enumerated case and (b) prints every case    *)
(* with the positions the algorithm must produce (operator Dump); the harness  *)
(* replays each case on the real PathGeometric in R^1.                         *)
EXTENDS Integers, Sequences, FiniteSets, TLC, Json

CONSTANTS MaxSeg,     \* longest input path, in segments
          NegDisp,    \* segment displacements range over -NegDisp..PosDisp (integers;
          PosDisp,    \* a .cfg file cannot hold a negative number)
          MaxCount,   \* interpolate(count) is tried for count in 0..MaxCount
          ResCodes    \* resolution settings for interpolate(), each coded as the decimal
                      \* number "lnum lden factor" (a .cfg file cannot hold tuples):
                      \* longestValidSegment = lnum/lden, validSegmentCountFactor = factor

K == 360360           \* lcm(1..15)
Disp == (0 - NegDisp)..PosDisp
Res == {<<r \div 100, (r \div 10) % 10, r % 10>> : r \in ResCodes}

VARIABLES inp,        \* the input path (scaled positions)
          out,        \* the path after the operation
          done,       \* an operation has been applied
          lastAct     \* [op, a]: which operation, with which arguments
vars == <<inp, out, done, lastAct>>

Abs(x) == IF x < 0 THEN 0 - x ELSE x

RECURSIVE Positions(_, _)
Positions(ds, x) == IF ds = <<>> THEN <<x>> ELSE <<x>> \o Positions(Tail(ds), x + Head(ds) * K)
PathSet == UNION {{Positions(ds, 0) : ds \in [1..m -> Disp]} : m \in 0..MaxSeg}

RECURSIVE PathLenFrom(_, _)
PathLenFrom(p, i) == IF i >= Len(p) THEN 0 ELSE Abs(p[i + 1] - p[i]) + PathLenFrom(p, i + 1)
PathLen(p) == PathLenFrom(p, 1)     \* PathGeometric::length()

(* ---------------------------------------------------------------------------- *)
(* SpaceInformation::getMotionStates(s1, s2, block, k, endpoints = false,        *)
(* alloc = true): k states at fractions j/(k+1), j = 1..k, nothing when k+1 < 2  *)
(* (this includes k = UINT_MAX, what interpolate() passes for a zero-length      *)
(* segment: validSegmentCount = 0, 0u - 1 wraps, count++ wraps back to 0).       *)
Between(s1, s2, k) ==
    IF k < 1 THEN <<>>
    ELSE [j \in 1..k |->
            IF Assert(((s2 - s1) * j) % (k + 1) = 0, <<"scale K too small for", s1, s2, j, k>>)
            THEN s1 + ((s2 - s1) * j) \div (k + 1) ELSE 0]

(* ------------------------------ subdivide() --------------------------------- *)
RECURSIVE SubdivideFrom(_, _, _)
SubdivideFrom(p, i, acc) ==        \* acc = newStates, i = index of the next original state
    IF i > Len(p) THEN acc
    ELSE SubdivideFrom(p, i + 1, acc \o <<(acc[Len(acc)] + p[i]) \div 2, p[i]>>)
Subdivide(p) == IF Len(p) < 2 THEN p ELSE SubdivideFrom(p, 2, <<p[1]>>)

(* ------------------------------ interpolate() ------------------------------- *)
(* StateSpace::validSegmentCount = factor * ceil(distance / longestValidSegment) *)
Vsc(d, L, F) == F * ((d + L - 1) \div L)
RECURSIVE InterpolateAllFrom(_, _, _, _)
InterpolateAllFrom(p, i, L, F) ==
    IF i >= Len(p) THEN <<p[Len(p)]>>
    ELSE <<p[i]>> \o Between(p[i], p[i + 1], Vsc(Abs(p[i + 1] - p[i]), L, F) - 1)
                  \o InterpolateAllFrom(p, i + 1, L, F)
InterpolateAll(p, L, F) == InterpolateAllFrom(p, 1, L, F)

(* ------------------------ interpolate(unsigned count) ----------------------- *)
(* floor(0.5 + count * segmentLength / remainingLength) in exact arithmetic; the *)
(* operands are small integers, so the double computation of the code cannot     *)
(* round across an integer boundary (ties are dyadic and exact).                 *)
RoundShare(count, seg, rem) == (2 * count * seg + rem) \div (2 * rem)

RECURSIVE ICount(_, _, _, _)
ICount(p, i, count, rem) ==        \* i = 0-based segment index, as in the code
    LET n  == Len(p)
        n1 == n - 1
    IN  IF i >= n1 THEN <<p[n]>>                      \* "add the last state"
        ELSE LET s1   == p[i + 1]
                 s2   == p[i + 2]
                 maxN == count + i - n                \* maxNStates
                 seg  == Abs(s2 - s1)
                 \* remainingLength = 0 (all that is left has zero length): the code
                 \* evaluates (int)floor(0.5 + NaN) + 1, which is INT_MIN + 1 on this
                 \* platform; any value <= 2 takes the same branch, modelled as 0 + 1
                 ns0  == IF i + 1 = n1 THEN maxN + 2
                         ELSE (IF rem = 0 THEN 0 ELSE RoundShare(count, seg, rem)) + 1
                 ns   == IF ns0 > 2 THEN (IF ns0 - 2 > maxN THEN maxN ELSE ns0 - 2) ELSE 0
             IN  IF maxN > 0
                 THEN <<s1>> \o Between(s1, s2, ns) \o ICount(p, i + 1, count - (ns + 1), rem - seg)
                 ELSE <<s1>> \o ICount(p, i + 1, count - 1, rem)
InterpolateCount(p, c) ==
    IF c < Len(p) \/ Len(p) < 2 THEN p ELSE ICount(p, 0, c, PathLen(p))

(* ------------------------------- behaviours --------------------------------- *)
Init == /\ inp \in PathSet
        /\ out = inp
        /\ done = FALSE
        /\ lastAct = [op |-> "Init", a |-> <<>>]

DoSubdivide ==
    /\ ~done /\ done' = TRUE /\ UNCHANGED inp
    /\ out' = Subdivide(inp)
    /\ lastAct' = [op |-> "Subdivide", a |-> <<>>]

DoInterpolateAll(r) ==
    /\ ~done /\ done' = TRUE /\ UNCHANGED inp
    /\ out' = InterpolateAll(inp, (K * r[1]) \div r[2], r[3])
    /\ lastAct' = [op |-> "InterpolateAll", a |-> r]

DoInterpolateCount(c) ==
    /\ ~done /\ done' = TRUE /\ UNCHANGED inp
    /\ out' = InterpolateCount(inp, c)
    /\ lastAct' = [op |-> "InterpolateCount", a |-> <<c>>]

Next == \/ DoSubdivide
        \/ \E r \in Res : DoInterpolateAll(r)
        \/ \E c \in 0..MaxCount : DoInterpolateCount(c)

Spec == Init /\ [][Next]_vars

(* ------------------------------- contract (A) -------------------------------- *)
(* q[lo..hi] runs from a to b without turning back (hence without leaving [a,b]) *)
Monotone(q, a, b, lo, hi) ==
    /\ q[lo] = a /\ q[hi] = b
    /\ \A k \in lo..(hi - 1) : IF a <= b THEN q[k] <= q[k + 1] ELSE q[k] >= q[k + 1]

(* the original vertices p[i..] can be matched, in order, with states of q        *)
(* starting with p[i] at q[j], the last one with the last state of q, such that   *)
(* every state in between lies on the segment of the two vertices around it       *)
RECURSIVE Embeds(_, _, _, _)
Embeds(p, q, i, j) ==
    /\ q[j] = p[i]
    /\ IF i = Len(p) THEN j = Len(q)
       ELSE \E j2 \in (j + 1)..Len(q) : Monotone(q, p[i], p[i + 1], j, j2) /\ Embeds(p, q, i + 1, j2)

VerticesInOrderOnSegments(p, q) == Len(q) >= 1 /\ Embeds(p, q, 1, 1)
LengthUnchanged(p, q) == PathLen(q) = PathLen(p)

SubdivideContract(p, q) ==
    IF Len(p) < 2 THEN q = p
    ELSE /\ Len(q) = 2 * Len(p) - 1
         /\ \A i \in 1..Len(p) : q[2 * i - 1] = p[i]                    \* originals at odd positions
         /\ \A i \in 1..(Len(p) - 1) : 2 * q[2 * i] = p[i] + p[i + 1]    \* "the middle of each segment"

(* "Changes are performed only if a path has less than count states"; otherwise   *)
(* "the path is made up of exactly count states"                                  *)
CountContract(p, q, c) ==
    IF c < Len(p) \/ Len(p) < 2 THEN q = p ELSE Len(q) = c

(* interpolate(): the states a discrete motion validator looks at - consecutive   *)
(* states are at most one validity-checking step (L / factor) apart               *)
ResolutionContract(q, L, F) == \A k \in 1..(Len(q) - 1) : F * Abs(q[k + 1] - q[k]) <= L

Contract ==
    done =>
        /\ VerticesInOrderOnSegments(inp, out)
        /\ LengthUnchanged(inp, out)
        /\ lastAct.op = "Subdivide" => SubdivideContract(inp, out)
        /\ lastAct.op = "InterpolateCount" => CountContract(inp, out, lastAct.a[1])
        /\ lastAct.op = "InterpolateAll" =>
               ResolutionContract(out, (K * lastAct.a[1]) \div lastAct.a[2], lastAct.a[3])

(* ------------------------------ scenario export ------------------------------ *)
Units(p) == [i \in 1..Len(p) |-> p[i] \div K]
Dump == PrintT(ToJson([op |-> lastAct'.op, a |-> lastAct'.a, p |-> Units(inp), exp |-> out']))
===============================================================================
