------------------------- MODULE ExportedGraphTrace --------------------------
(* impl -> spec: every recorded export must be allowed by ExportedGraphContract; *)
(* a refused report is printed with the failed clauses and the cursor advances.  *)
(* Crash / Hang events (a planner dying inside solve or getPlannerData) are      *)
(* never allowed.                                                                *)
EXTENDS ExportedGraphContract, TraceIO

VARIABLE l
Ev == Log[l]
TInit == l = 1
Report(failed) == IF failed = {} THEN TRUE ELSE PrintT(ToJson([line |-> l, failed |-> failed]))
TSolve == /\ l <= NLog /\ Ev.e = "Solve"
          /\ IF Has(Ev, "graph") THEN Report(Failed(Ev)) ELSE TRUE   \* a planner that refused the space: no export
          /\ l' = l + 1
TBad == /\ l <= NLog /\ Ev.e \in {"Hang", "Crash"}
        /\ Report({Ev.e})
        /\ l' = l + 1
TAccept == /\ l = NLog + 1
           /\ PrintT(ToJson([accepted |-> NLog]))
           /\ l' = l + 1
TNext == TSolve \/ TBad \/ TAccept
TSpec == TInit /\ [][TNext]_l
==============================================================================
