----------------------------- MODULE TreePlanner -----------------------------
(* Reference model of the search structure of a sampling-based planner on the *)
(* abstract cell map (GridWorld): a forest of validated motions grown from    *)
(* the start states (and, for bidirectional planners, from the goal states),  *)
(* one node per accepted sample.  Nodes are abstract samples (ids), each in a *)
(* cell; a motion between two nodes is valid exactly when their cells are     *)
(* equal or 8-adjacent free cells (the over-approximation of GridWorld).      *)
(*                                                                            *)
(* Actions mirror the critical sections of the implementations:               *)
(*   AddRoot     - a start / goal state is taken from the input-state iterator*)
(*   Extend      - RRT / EST / KPIECE style: new node under an existing node  *)
(*                 after the motion check                                      *)
(*   Rewire      - RRT* style: a node gets a new parent of the same tree      *)
(*                 (only when the new parent is not one of its descendants)   *)
(*   Connect     - bidirectional planners: one edge between a start-tree and  *)
(*                 a goal-tree node                                            *)
(*   Prune       - a leaf that is no root is dropped (informed / BIT* pruning)*)
(*   LazyExtend  - lazy planners: node and edge admitted without a check      *)
(*   LazyRepair  - lazy planners: an edge found invalid is removed, the       *)
(*                 subtree below it is dropped                                 *)
(*   Report      - a solution path is read off the parent pointers            *)
(* The invariants are the facts the exported planner data (getPlannerData)    *)
(* must show; ExportedGraphTrace judges recorded exports against them.        *)
EXTENDS GridWorld, TLC

CONSTANTS W, H, Obst, Starts, Goals, MaxNodes, Bidirectional, Lazy, Rewiring,
          Fault   \* "none", or a seeded design fault that TLC must refute (binding of the invariants)

Cells == CellsOf(W, H)
Free == Cells \ Obst
Ids == 1..MaxNodes
None == 0

VARIABLES cell,      \* id -> cell of a live node
          parent,    \* id -> parent id (None for roots)
          side,      \* id -> "s" | "g": tree the node belongs to
          checked,   \* set of <<child>> whose edge to the parent passed the motion check
          link,      \* set of {a, b}: connection edges between the two forests
          path,      \* last reported path (sequence of ids) or << >>
          nextId
vars == <<cell, parent, side, checked, link, path, nextId>>

Live == DOMAIN cell
MotionOk(a, b) == a \in Free /\ b \in Free /\ (a = b \/ Adj8(W, a, b))

RECURSIVE Anc(_, _, _)
Anc(p, n, fuel) == IF n = None \/ fuel = 0 THEN {} ELSE {n} \cup Anc(p, p[n], fuel - 1)
Ancestors(n) == Anc(parent, parent[n], MaxNodes)
Descendants(n) == {m \in Live : n \in Ancestors(m)}
RootOf(n) == CHOOSE r \in ({n} \cup Ancestors(n)) : parent[r] = None

Init == /\ cell = << >> /\ parent = << >> /\ side = << >>
        /\ checked = {} /\ link = {} /\ path = << >> /\ nextId = 1

Add(id, c, p, s) ==
    /\ cell' = [i \in Live \cup {id} |-> IF i = id THEN c ELSE cell[i]]
    /\ parent' = [i \in Live \cup {id} |-> IF i = id THEN p ELSE parent[i]]
    /\ side' = [i \in Live \cup {id} |-> IF i = id THEN s ELSE side[i]]
    /\ nextId' = nextId + 1

(* invalid start / goal states are filtered before use *)
AddRoot == /\ nextId <= MaxNodes
           /\ \E c \in (Starts \cup (IF Bidirectional THEN Goals ELSE {})) \cap Free :
                \E s \in {"s", "g"} :
                  /\ (s = "s" => c \in Starts) /\ (s = "g" => Bidirectional /\ c \in Goals)
                  /\ Add(nextId, c, None, s)
           /\ UNCHANGED <<checked, link, path>>

Extend == /\ nextId <= MaxNodes
          /\ \E p \in Live, c \in Free :
               /\ (MotionOk(cell[p], c) \/ (Fault = "uncheckedExtend" /\ c \in Free))
               /\ Add(nextId, c, p, side[p])
               /\ checked' = checked \cup {nextId}
          /\ UNCHANGED <<link, path>>

LazyExtend == /\ Lazy /\ nextId <= MaxNodes
              /\ \E p \in Live, c \in Cells : Add(nextId, c, p, side[p])
              /\ UNCHANGED <<checked, link, path>>

Rewire == /\ Rewiring
          /\ \E n \in Live, p \in Live :
               /\ parent[n] # None /\ p # n /\ side[p] = side[n]
               /\ (p \notin Descendants(n) \/ Fault = "rewireDescendant")
               /\ MotionOk(cell[p], cell[n])
               /\ parent' = [parent EXCEPT ![n] = p]
               /\ checked' = checked \cup {n}
          /\ UNCHANGED <<cell, side, link, path, nextId>>

Connect == /\ Bidirectional
           /\ \E a \in Live, b \in Live :
                /\ side[a] = "s" /\ side[b] = "g"
                /\ MotionOk(cell[a], cell[b])
                /\ link' = link \cup {{a, b}}
           /\ UNCHANGED <<cell, parent, side, checked, path, nextId>>

Drop(S) == /\ cell' = [i \in Live \ S |-> cell[i]]
           /\ parent' = [i \in Live \ S |-> parent[i]]
           /\ side' = [i \in Live \ S |-> side[i]]
           /\ checked' = checked \ S
           /\ link' = {e \in link : e \cap S = {}}
           /\ path' = << >>
           /\ UNCHANGED nextId

Prune == \E n \in Live : /\ parent[n] # None /\ Descendants(n) = {}
                         /\ Drop({n})

LazyRepair == /\ Lazy
              /\ \E n \in Live : /\ parent[n] # None /\ n \notin checked
                                 /\ IF MotionOk(cell[parent[n]], cell[n])
                                      THEN /\ checked' = checked \cup {n}
                                           /\ UNCHANGED <<cell, parent, side, link, path, nextId>>
                                      ELSE Drop({n} \cup Descendants(n))

(* chain of parents from n up to its root, root first *)
RECURSIVE Chain(_, _)
Chain(n, fuel) == IF n = None \/ fuel = 0 THEN << >> ELSE Append(Chain(parent[n], fuel - 1), n)
Rev(s) == [i \in 1..Len(s) |-> s[Len(s) + 1 - i]]

PathEdgesChecked(n) == \A m \in {n} \cup Ancestors(n) : parent[m] = None \/ m \in checked

Report == \/ /\ \E n \in Live :
                  /\ side[n] = "s" /\ cell[n] \in Goals
                  /\ (PathEdgesChecked(n) \/ Fault = "reportUnchecked")   \* lazy planners validate the candidate first
                  /\ path' = Chain(n, MaxNodes)
             /\ UNCHANGED <<cell, parent, side, checked, link, nextId>>
          \/ /\ \E e \in link : \E a \in e, b \in e :
                  /\ side[a] = "s" /\ side[b] = "g"
                  /\ PathEdgesChecked(a) /\ PathEdgesChecked(b)
                  /\ path' = Chain(a, MaxNodes) \o Rev(Chain(b, MaxNodes))
             /\ UNCHANGED <<cell, parent, side, checked, link, nextId>>

Next == AddRoot \/ Extend \/ LazyExtend \/ Rewire \/ Connect \/ Prune \/ LazyRepair \/ Report
Spec == Init /\ [][Next]_vars

(* ------------------------------------------------------------------ invariants *)
TypeOK == /\ Live \subseteq Ids
          /\ \A n \in Live : parent[n] \in Live \cup {None} /\ side[n] \in {"s", "g"}

(* every node hangs, through finitely many parents, under a root: the exported *)
(* graph is a forest (no cycle edge) and every tree holds a start/goal vertex  *)
Forest == \A n \in Live : \E r \in {n} \cup Ancestors(n) : parent[r] = None
RootsAreInputs == \A n \in Live : parent[n] = None =>
                      /\ cell[n] \in Free
                      /\ (side[n] = "s" => cell[n] \in Starts)
                      /\ (side[n] = "g" => cell[n] \in Goals)
SidesAgree == \A n \in Live : parent[n] # None => side[parent[n]] = side[n]
(* eager planners: every vertex valid, every edge a valid motion *)
VerticesValid == ~Lazy => \A n \in Live : cell[n] \in Free
EdgesValid == ~Lazy => \A n \in Live : parent[n] # None => MotionOk(cell[parent[n]], cell[n])
CheckedEdgesValid == \A n \in checked : parent[n] # None => MotionOk(cell[parent[n]], cell[n])
LinksValid == \A e \in link : \A a \in e, b \in e : a # b => MotionOk(cell[a], cell[b])
(* the reported path runs along exported vertices; along exported edges only as long as no   *)
(* rewiring took place since (TLC refutes the unconditional form: Report, then Rewire of a   *)
(* path node leaves the earlier path outside the tree) - so the edge clause is claimed for   *)
(* planners that never rewire, the vertex clause for all (Drop clears the path)              *)
PathVerticesLive == \A i \in 1..Len(path) : path[i] \in Live
PathEdgesInGraph ==
    (path # << >> /\ ~Rewiring) =>
        \A i \in 1..Len(path) - 1 :
              \/ parent[path[i + 1]] = path[i] \/ parent[path[i]] = path[i + 1]
              \/ {path[i], path[i + 1]} \in link
(* the form first written down, for every planner: refuted by TLC with Rewiring = TRUE (TreePlanner_pathedges.cfg) *)
PathEdgesUnconditional ==
    path # << >> =>
        \A i \in 1..Len(path) - 1 :
              \/ parent[path[i + 1]] = path[i] \/ parent[path[i]] = path[i + 1]
              \/ {path[i], path[i + 1]} \in link
PathIsFreeWalk ==
    path # << >> =>
        /\ cell[path[1]] \in Starts /\ cell[path[Len(path)]] \in Goals
        /\ IsFreeWalk(W, H, Obst, [i \in 1..Len(path) |-> cell[path[i]]])
PathInGraph == PathVerticesLive /\ PathEdgesInGraph /\ PathIsFreeWalk
(* necessary condition tying the structure to the map *)
TreeWithinReach == ~Lazy => \A n \in Live : cell[n] \in Reach(W, H, Obst, cell[RootOf(n)])

Inv == /\ TypeOK /\ Forest /\ RootsAreInputs /\ SidesAgree /\ VerticesValid /\ EdgesValid
       /\ CheckedEdgesValid /\ LinksValid /\ PathInGraph /\ TreeWithinReach
==============================================================================
