SPECIFICATION Spec
CONSTANTS
 W = 3
 H = 3
 Obst = {4}
 Starts = {0}
 Goals = {8}
 MaxNodes = 3
 Bidirectional = FALSE
 Lazy = FALSE
 Rewiring = FALSE
 Fault = "uncheckedExtend"
INVARIANT Inv
CHECK_DEADLOCK FALSE
