SPECIFICATION Spec
CONSTANTS
 W = 3
 H = 3
 Obst = {4}
 Starts = {0}
 Goals = {8}
 MaxNodes = 5
 Bidirectional = TRUE
 Lazy = TRUE
 Rewiring = FALSE
 Fault = "none"
INVARIANT Inv
CHECK_DEADLOCK FALSE
