SPECIFICATION Spec
CONSTANTS
 W = 3
 H = 3
 Obst = {3, 4, 5}
 Starts = {0}
 Goals = {8}
 MaxNodes = 5
 Bidirectional = TRUE
 Lazy = FALSE
 Rewiring = TRUE
 Fault = "none"
INVARIANT Inv
CHECK_DEADLOCK FALSE
