SPECIFICATION Spec
CONSTANTS
 W = 3
 H = 3
 Obst = {1, 4}
 Starts = {0, 3}
 Goals = {8, 2}
 MaxNodes = 5
 Bidirectional = TRUE
 Lazy = FALSE
 Rewiring = FALSE
 Fault = "none"
INVARIANT Inv
CHECK_DEADLOCK FALSE
