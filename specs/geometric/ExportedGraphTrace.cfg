SPECIFICATION TSpec
CHECK_DEADLOCK FALSE
