SPECIFICATION Spec
CONSTANTS
 W = 3
 H = 3
 Obst = {4}
 Starts = {0}
 Goals = {8}
 MaxNodes = 4
 Bidirectional = FALSE
 Lazy = TRUE
 Rewiring = FALSE
 Fault = "reportUnchecked"
INVARIANT Inv
CHECK_DEADLOCK FALSE
