------------------------ MODULE SimplifierContractTrace ------------------------
(* Trace validation of recorded PathSimplifier / PathHybridization reports      *)
(* against SimplifierContract.  One ndjson line per routine call ("e" names the *)
(* routine); NewPath starts a chain of calls on one path, HybridStart a         *)
(* hybridization session, Crash says that the routine named in its context      *)
(* killed the process.                                                          *)
(*                                                                              *)
(* A line the contract allows is taken with the contract's own action.  A line  *)
(* it does not allow is REJECTED: the spec prints {"reject": line, "broken":    *)
(* clauses} and goes on with the facts of that report, so that one run lists    *)
(* every report that breaks the property instead of stopping at the first.      *)
(* The log counts as read once l has run past its end (INVARIANT NotAccepted    *)
(* violated, as everywhere in this tree); the verdict is the list of rejected   *)
(* lines.  A malformed line stops the match: that is a framework error.         *)
EXTENDS SimplifierContract, TraceIO

VARIABLE l
tvars == <<cur, hyb, l>>

Ev == Log[l]
Is(e) == l <= NLog /\ Ev.e = e /\ l' = l + 1
Reject(b) == PrintT(ToJson([reject |-> l, broken |-> b]))

TInit == CInit /\ l = 1

TNewPath ==
    /\ Is("NewPath") /\ UNCHANGED hyb
    /\ IF Ev.n >= 1 /\ Ev.finite THEN CNewPath(Ev) ELSE Reject({"Frame"}) /\ cur' = NoPath

TRoutine ==
    /\ l <= NLog /\ Ev.e \in Routines /\ l' = l + 1 /\ UNCHANGED hyb
    /\ LET b == Broken(Ev)
       IN  IF b = {} THEN Routine(Ev.e, Ev)
           ELSE Reject(b) /\ IF "Frame" \in b THEN cur' = NoPath ELSE Becomes(Ev)

THybridStart == Is("HybridStart") /\ CHybridStart(Ev) /\ cur' = NoPath

TRecordPath ==
    /\ Is("recordPath") /\ UNCHANGED cur
    /\ LET b == RecordBroken(Ev)
       IN  IF b = {} THEN CRecordPath(Ev) ELSE Reject(b) /\ RecordBecomes(Ev)

TComputeHybridPath ==
    /\ Is("computeHybridPath") /\ UNCHANGED <<cur, hyb>>
    /\ LET b == HybridBroken(Ev) IN b = {} \/ Reject(b)

TCrash == Is("Crash") /\ Reject({"Crash"}) /\ cur' = NoPath /\ hyb' = NoHyb

TNext == TNewPath \/ TRoutine \/ THybridStart \/ TRecordPath \/ TComputeHybridPath \/ TCrash

TSpec == TInit /\ [][TNext]_tvars
NotAccepted == l <= NLog
==============================================================================
