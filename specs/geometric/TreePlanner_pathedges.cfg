SPECIFICATION Spec
CONSTANTS
 W = 3
 H = 3
 Obst = {4}
 Starts = {0}
 Goals = {8}
 MaxNodes = 5
 Bidirectional = FALSE
 Lazy = FALSE
 Rewiring = TRUE
 Fault = "none"
INVARIANT PathEdgesUnconditional
CHECK_DEADLOCK FALSE
