------------------------ MODULE ExportedGraphContract ------------------------
(* What Planner::getPlannerData() must show after a solve, derived from the   *)
(* reference model TreePlanner.tla (its invariants Forest, RootsAreInputs,    *)
(* VerticesValid, EdgesValid, PathVerticesLive, PathEdgesInGraph).  A report  *)
(* carries facts measured by the harness's own oracle on the exported graph   *)
(* (`graph`); a clause applies to the planner classes for which the reference *)
(* model states it:                                                           *)
(*   lazy planners admit vertices / edges before checking them (LazyExtend),  *)
(*   rewiring planners move path nodes after the report (TLC refutes          *)
(*   PathEdgesInGraph with Rewiring = TRUE),                                  *)
(*   roadmap planners build graphs, not forests,                              *)
(*   batch planners export their free samples as isolated vertices,           *)
(*   the multilevel planners export an annotated multi-level graph of their   *)
(*   own conventions (only the "no crash, no null state" clauses apply).      *)
EXTENDS Naturals, FiniteSets, Sequences

Multilevel == {"QRRT", "QRRTStar", "QMP", "QMPStar"}
(* vertices admitted without a validity check (checked when a candidate path is examined) *)
LazyVertices == {"LazyRRT", "LazyPRM", "LazyPRMstar", "LBKPIECE1", "LazyLBTRRT"}
(* edges admitted without a motion check *)
LazyEdges == LazyVertices \cup {"SBL", "pSBL"}
(* planners whose structure is a forest of parent pointers (TreePlanner: Forest) *)
Trees == {"RRT", "RRTConnect", "RRTstar", "InformedRRTstar", "SORRTstar", "RRTsharp", "RRTXstatic", "LBTRRT",
          "LazyRRT", "TRRT", "BiTRRT", "pRRT", "EST", "BiEST", "ProjEST", "KPIECE1", "BKPIECE1", "LBKPIECE1",
          "PDST", "SBL", "pSBL", "SST", "STRIDE", "FMT", "RLRT", "BiRLRT", "BITstar", "ABITstar", "AITstar",
          "CForest"}
(* planners that export a structure of their own shape (documented in DESIGN 7, G03):          *)
(*  BFMT exports the edges of both trees over shared samples, no marks and no isolated roots;   *)
(*  LazyLBTRRT exports its lower-bound graph with in/out-degree marks; AnytimePathShortening    *)
(*  exports nothing.  (FMT marks every unconnected sample as a start vertex: a known finding,   *)
(*  not an exemption.)                                                                          *)
OwnMarks == {"BFMT", "LazyLBTRRT", "AnytimePathShortening"}
(* planners that never rewire or prune: the reported path runs along exported edges *)
NoRewire == {"RRT", "EST", "ProjEST", "KPIECE1", "BKPIECE1", "BiEST", "BiRLRT", "STRIDE", "LazyRRT", "FMT",
             "PRM", "PRMstar", "LazyPRM", "LazyPRMstar", "SPARS", "SPARStwo"}
(* planners whose reported path is not made of exported vertices: AIT* and BFMT export      *)
(* per-call snapshots that can leave out path states (measured; documented), APS exports    *)
(* nothing, the multilevel planners export per-level copies                                 *)
PathOutside == {"AITstar", "BFMT", "AnytimePathShortening"} \cup Multilevel

Clauses == {"noNullStates", "verticesValid", "verticesInBounds", "edgesValid", "startMarksAreStarts",
            "noSelfLoops", "forest", "treesRooted", "pathVerticesExported", "pathEdgesExported",
            "solutionHasGraph"}

Failed(r) ==
    LET g == r.graph
        p == r.planner
        sol == r.status \in {"EXACT", "APPROXIMATE"}
    IN  {c \in Clauses :
          CASE c = "noNullStates" -> g.nullStates # 0
            [] c = "verticesValid" -> p \notin LazyVertices \cup Multilevel /\ g.invalidVerts # 0
            [] c = "verticesInBounds" -> p \notin LazyVertices \cup Multilevel /\ g.outOfBounds # 0
            [] c = "edgesValid" -> p \notin LazyEdges \cup Multilevel /\ g.badEdges # 0
            [] c = "startMarksAreStarts" -> p \notin OwnMarks \cup Multilevel /\ g.startNotAStart # 0
            [] c = "noSelfLoops" -> p \notin Multilevel /\ g.selfLoops # 0
            [] c = "forest" -> p \in Trees /\ g.cycleEdges # 0
            [] c = "treesRooted" -> p \in Trees \ OwnMarks /\ g.unrootedEdgeComps # 0
            [] c = "pathVerticesExported" -> /\ sol /\ p \notin PathOutside
                                             /\ g.pathStatesInGraph # g.pathStates
            [] c = "pathEdgesExported" -> /\ sol /\ p \in NoRewire
                                          /\ g.pathHopsInGraph # g.pathHops
            [] c = "solutionHasGraph" -> /\ sol /\ p \notin OwnMarks
                                         /\ g.nV = 0
            [] OTHER -> FALSE}
==============================================================================
