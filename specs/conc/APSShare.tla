------------------------------- MODULE APSShare -------------------------------
(* Sharing protocol of ompl::geometric::AnytimePathShortening (src/ompl/        *)
(* geometric/planners/AnytimePathShortening.cpp) at the code's atomicity.       *)
(* solve(): clear() (bestCost_ = NaN), spawn one thread per planner             *)
(* (threadSolve: planner->solve, then addPath), THEN bestCost_ = infinite cost  *)
(* (no lock), then loop: read bestCost_ (no lock) for the satisfaction test,    *)
(* take the best path of the problem definition (its own lock), shortcut it,    *)
(* addPath(); join.  addPath(): std::lock_guard(lock_); if better than          *)
(* bestCost_ then bestCost_ = cost; the path goes into the solution list (which *)
(* has its own lock, taken inside).                                             *)
(* FixInit = TRUE: bestCost_ is initialised before the threads are spawned.     *)
EXTENDS Naturals, FiniteSets, TLC

CONSTANTS Workers, MaxCost, FixInit
None == 0
Main == 99
ASSUME None \notin Workers /\ Main \notin Workers
Inf == MaxCost + 1
NaN == MaxCost + 2          \* nothing is better than NaN: isCostBetterThan(c, NaN) = FALSE
Better(c, b) == b # NaN /\ c < b
Threads == Workers \cup {Main}

VARIABLES pc, best, L, PL, paths, cost, ptc, listTouchedUnlocked
vars == <<pc, best, L, PL, paths, cost, ptc, listTouchedUnlocked>>

Init == /\ pc = [t \in Threads |-> IF t = Main THEN "clear" ELSE "idle"] /\ best = Inf /\ L = None /\ PL = None
        /\ paths = {} /\ cost = [t \in Threads |-> Inf] /\ ptc = FALSE /\ listTouchedUnlocked = FALSE
Goto(t, l) == pc' = [pc EXCEPT ![t] = l]
Fire == ~ptc /\ ptc' = TRUE /\ UNCHANGED <<pc, best, L, PL, paths, cost, listTouchedUnlocked>>

(* ---- main thread *)
MClear == /\ pc[Main] = "clear" /\ best' = (IF FixInit THEN Inf ELSE NaN) /\ Goto(Main, "spawn")
          /\ UNCHANGED <<L, PL, paths, cost, ptc, listTouchedUnlocked>>
MSpawn == /\ pc[Main] = "spawn"
          /\ pc' = [t \in Threads |-> IF t = Main THEN (IF FixInit THEN "loop" ELSE "resetLate") ELSE "solve"]
          /\ UNCHANGED <<best, L, PL, paths, cost, ptc, listTouchedUnlocked>>
(* bestCost_ = opt->infiniteCost();   -- the workers are running already *)
MResetLate == /\ pc[Main] = "resetLate" /\ best' = Inf /\ Goto(Main, "loop")
              /\ UNCHANGED <<L, PL, paths, cost, ptc, listTouchedUnlocked>>
(* while (!ptc) { if (satisfied(bestCost_)) ...; sln = best path of pdef_ (under its lock) *)
MLoop == /\ pc[Main] = "loop" /\ Goto(Main, IF ptc THEN "join" ELSE "lockPL")
         /\ UNCHANGED <<best, L, PL, paths, cost, ptc, listTouchedUnlocked>>
MLockPL == /\ pc[Main] = "lockPL" /\ PL = None /\ PL' = Main /\ Goto(Main, "readPaths")
           /\ UNCHANGED <<best, L, paths, cost, ptc, listTouchedUnlocked>>
MReadPaths == /\ pc[Main] = "readPaths" /\ PL' = None
              /\ IF paths = {} THEN Goto(Main, "loop") /\ UNCHANGED cost
                 ELSE /\ \E c \in 1..(CHOOSE m \in paths : \A x \in paths : m <= x) : cost' = [cost EXCEPT ![Main] = c]  \* shortcut
                      /\ Goto(Main, "lockL")
              /\ UNCHANGED <<best, L, paths, ptc, listTouchedUnlocked>>
MJoin == /\ pc[Main] = "join" /\ \A w \in Workers : pc[w] = "done" /\ Goto(Main, "done")
         /\ UNCHANGED <<best, L, PL, paths, cost, ptc, listTouchedUnlocked>>
(* ---- workers: while (!ptc) { solve; if exact: addPath } *)
WSolve(w) == /\ pc[w] = "solve"
             /\ IF ptc THEN Goto(w, "done") /\ UNCHANGED cost
                ELSE \/ Goto(w, "solve") /\ UNCHANGED cost
                     \/ \E c \in 1..MaxCost : cost' = [cost EXCEPT ![w] = c] /\ Goto(w, "lockL")
             /\ UNCHANGED <<best, L, PL, paths, ptc, listTouchedUnlocked>>
(* ---- addPath(), by any thread *)
LockL(t) == /\ pc[t] = "lockL" /\ L = None /\ L' = t /\ Goto(t, "compare")
            /\ UNCHANGED <<best, PL, paths, cost, ptc, listTouchedUnlocked>>
Compare(t) == /\ pc[t] = "compare"
              /\ best' = IF Better(cost[t], best) THEN cost[t] ELSE best
              /\ Goto(t, IF Better(cost[t], best) \/ t # Main THEN "lockPLadd" ELSE "unlockL")
              /\ UNCHANGED <<L, PL, paths, cost, ptc, listTouchedUnlocked>>
LockPLAdd(t) == /\ pc[t] = "lockPLadd" /\ PL = None /\ PL' = t /\ Goto(t, "addPath")
                /\ UNCHANGED <<best, L, paths, cost, ptc, listTouchedUnlocked>>
AddPath(t) == /\ pc[t] = "addPath" /\ paths' = paths \cup {cost[t]} /\ PL' = None
              /\ listTouchedUnlocked' = (listTouchedUnlocked \/ PL # t) /\ Goto(t, "unlockL")
              /\ UNCHANGED <<best, L, cost, ptc>>
UnlockL(t) == /\ pc[t] = "unlockL" /\ L' = None /\ Goto(t, IF t = Main THEN "loop" ELSE "solve")
              /\ UNCHANGED <<best, PL, paths, cost, ptc, listTouchedUnlocked>>

WStep(t) == WSolve(t) \/ LockL(t) \/ Compare(t) \/ LockPLAdd(t) \/ AddPath(t) \/ UnlockL(t)
MStep == MClear \/ MSpawn \/ MResetLate \/ MLoop \/ MLockPL \/ MReadPaths \/ MJoin
         \/ LockL(Main) \/ Compare(Main) \/ LockPLAdd(Main) \/ AddPath(Main) \/ UnlockL(Main)
Terminated == pc[Main] = "done" /\ UNCHANGED vars
Next == Fire \/ Terminated \/ MStep \/ \E w \in Workers : WStep(w)
Spec == Init /\ [][Next]_vars
FairSpec == Spec /\ WF_vars(Fire) /\ SF_vars(MStep) /\ \A w \in Workers : SF_vars(WStep(w))

TypeOK == best \in 1..NaN /\ paths \subseteq 1..MaxCost
(* the path list is only touched with its lock held *)
PathListUnderLock == ~listTouchedUnlocked /\ \A t \in Threads : pc[t] \in {"readPaths", "addPath"} => PL = t
(* once the planners run, the best cost never gets worse *)
BestCostMonotone == [][(\E w \in Workers : pc[w] # "idle") => (best = NaN \/ best' <= best)]_vars
(* when solve() returns, bestCost_ is the cost of the best path that was added *)
BestCostIsBestPath == (pc[Main] = "done" /\ paths # {}) => best = (CHOOSE m \in paths : \A x \in paths : m <= x)
Termination == <>(pc[Main] = "done")
===============================================================================
