SPECIFICATION Spec
CONSTANTS
 Loggers = {"l1", "l2"}
 Switchers = {"s1"}
 Handlers = {"h1", "h2"}
 Levels = {1, 2}
 MaxOps = 2
 SnapshotOutsideLock = TRUE
INVARIANTS DeliveredToInstalled
CHECK_DEADLOCK FALSE
