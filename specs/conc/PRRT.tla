--------------------------------- MODULE PRRT ---------------------------------
(* Protocol model of ompl::geometric::pRRT (src/ompl/geometric/planners/rrt/    *)
(* src/pRRT.cpp) at the code's atomicity: worker threads share the tree behind  *)
(* nnLock_ and the solution record behind sol->lock; the loop condition and the *)
(* first comparison with sol->approxdif are UNLOCKED reads, exactly as written. *)
(* Geometry is abstracted: a motion check may succeed or fail, a new state may  *)
(* or may not satisfy the goal, and its goal distance is any value of Dists.    *)
(* TLC explores every interleaving and checks what C19 asks of a multi-threaded *)
(* planner: the reported path is a parent chain inside the tree ending in a     *)
(* start state, an exact report ends in a goal-satisfying state, the            *)
(* approximate candidate and its recorded difference belong together, and all   *)
(* workers stop once a solution is published or the termination condition fires.*)
EXTENDS Naturals, FiniteSets, TLC

CONSTANTS Workers, MaxNodes, Dists

Root == 0
None == 99
Nodes == 0..MaxNodes

VARIABLES tree,      \* set of nodes in the nearest-neighbour structure
          parent,    \* node -> parent node (Root has None)
          dist,      \* node -> goal distance (0 = satisfies the goal)
          nnLock, solLock,            \* holder or None
          solution, approxsol, approxdif,
          ptc,       \* termination condition has fired (monotone)
          pc, near, mine, next,
          reported   \* what solve() returns after joining: <<node, approximate>> or <<None, FALSE>>
vars == <<tree, parent, dist, nnLock, solLock, solution, approxsol, approxdif, ptc, pc, near, mine, next, reported>>
Inf == 98

Init == /\ tree = {Root} /\ parent = [n \in Nodes |-> None] /\ dist = [n \in Nodes |-> Inf]
        /\ nnLock = None /\ solLock = None
        /\ solution = None /\ approxsol = None /\ approxdif = Inf
        /\ ptc = FALSE
        /\ pc = [w \in Workers |-> "loop"] /\ near = [w \in Workers |-> None] /\ mine = [w \in Workers |-> None]
        /\ next = 1 /\ reported = <<None, FALSE>>

Fire == ~ptc /\ ptc' = TRUE /\ UNCHANGED <<tree, parent, dist, nnLock, solLock, solution, approxsol, approxdif, pc, near, mine, next, reported>>

(* while (sol->solution == nullptr && ptc == false)   -- unlocked read *)
Loop(w) == /\ pc[w] = "loop"
           /\ pc' = [pc EXCEPT ![w] = IF solution = None /\ ~ptc /\ next <= MaxNodes THEN "lockNN1" ELSE "done"]
           /\ UNCHANGED <<tree, parent, dist, nnLock, solLock, solution, approxsol, approxdif, ptc, near, mine, next, reported>>
LockNN1(w) == /\ pc[w] = "lockNN1" /\ nnLock = None
              /\ nnLock' = w /\ pc' = [pc EXCEPT ![w] = "nearest"]
              /\ UNCHANGED <<tree, parent, dist, solLock, solution, approxsol, approxdif, ptc, near, mine, next, reported>>
Nearest(w) == /\ pc[w] = "nearest"
              /\ \E n \in tree : near' = [near EXCEPT ![w] = n]
              /\ nnLock' = None /\ pc' = [pc EXCEPT ![w] = "check"]
              /\ UNCHANGED <<tree, parent, dist, solLock, solution, approxsol, approxdif, ptc, mine, next, reported>>
(* checkMotion fails: back to the loop; succeeds: allocate the motion (private) *)
CheckFail(w) == /\ pc[w] = "check" /\ pc' = [pc EXCEPT ![w] = "loop"]
                /\ UNCHANGED <<tree, parent, dist, nnLock, solLock, solution, approxsol, approxdif, ptc, near, mine, next, reported>>
CheckOk(w) == /\ pc[w] = "check" /\ next <= MaxNodes
              /\ \E d \in Dists :
                   /\ mine' = [mine EXCEPT ![w] = next]
                   /\ parent' = [parent EXCEPT ![next] = near[w]]
                   /\ dist' = [dist EXCEPT ![next] = d]
              /\ next' = next + 1 /\ pc' = [pc EXCEPT ![w] = "lockNN2"]
              /\ UNCHANGED <<tree, nnLock, solLock, solution, approxsol, approxdif, ptc, near, reported>>
LockNN2(w) == /\ pc[w] = "lockNN2" /\ nnLock = None
              /\ nnLock' = w /\ pc' = [pc EXCEPT ![w] = "add"]
              /\ UNCHANGED <<tree, parent, dist, solLock, solution, approxsol, approxdif, ptc, near, mine, next, reported>>
Add(w) == /\ pc[w] = "add"
          /\ tree' = tree \cup {mine[w]} /\ nnLock' = None
          /\ pc' = [pc EXCEPT ![w] = IF dist[mine[w]] = 0 THEN "lockSolExact"
                                     ELSE IF dist[mine[w]] < approxdif THEN "lockSolApprox" ELSE "loop"]   \* unlocked read
          /\ UNCHANGED <<parent, dist, solLock, solution, approxsol, approxdif, ptc, near, mine, next, reported>>
LockSolExact(w) == /\ pc[w] = "lockSolExact" /\ solLock = None
                   /\ solLock' = w /\ pc' = [pc EXCEPT ![w] = "publish"]
                   /\ UNCHANGED <<tree, parent, dist, nnLock, solution, approxsol, approxdif, ptc, near, mine, next, reported>>
Publish(w) == /\ pc[w] = "publish"
              /\ approxdif' = dist[mine[w]] /\ solution' = mine[w] /\ solLock' = None
              /\ pc' = [pc EXCEPT ![w] = "done"]
              /\ UNCHANGED <<tree, parent, dist, nnLock, approxsol, ptc, near, mine, next, reported>>
LockSolApprox(w) == /\ pc[w] = "lockSolApprox" /\ solLock = None
                    /\ solLock' = w /\ pc' = [pc EXCEPT ![w] = "recheck"]
                    /\ UNCHANGED <<tree, parent, dist, nnLock, solution, approxsol, approxdif, ptc, near, mine, next, reported>>
Recheck(w) == /\ pc[w] = "recheck"
              /\ IF dist[mine[w]] < approxdif
                 THEN approxdif' = dist[mine[w]] /\ approxsol' = mine[w]
                 ELSE UNCHANGED <<approxdif, approxsol>>
              /\ solLock' = None /\ pc' = [pc EXCEPT ![w] = "loop"]
              /\ UNCHANGED <<tree, parent, dist, nnLock, solution, ptc, near, mine, next, reported>>
(* solve(): after joining every worker *)
Report == /\ \A w \in Workers : pc[w] = "done" /\ reported = <<None, FALSE>>
          /\ (solution # None \/ approxsol # None)
          /\ reported' = IF solution # None THEN <<solution, FALSE>> ELSE <<approxsol, TRUE>>
          /\ UNCHANGED <<tree, parent, dist, nnLock, solLock, solution, approxsol, approxdif, ptc, pc, near, mine, next>>

Step(w) == Loop(w) \/ LockNN1(w) \/ Nearest(w) \/ CheckFail(w) \/ CheckOk(w) \/ LockNN2(w) \/ Add(w)
           \/ LockSolExact(w) \/ Publish(w) \/ LockSolApprox(w) \/ Recheck(w)
Next == Fire \/ Report \/ \E w \in Workers : Step(w)
Spec == Init /\ [][Next]_vars
FairSpec == Spec /\ WF_vars(Fire) /\ \A w \in Workers : WF_vars(Step(w))

(* ---- properties ---- *)
RECURSIVE ChainOk(_, _)
ChainOk(n, fuel) == IF n = Root THEN TRUE
                    ELSE IF fuel = 0 \/ n \notin tree THEN FALSE
                    ELSE ChainOk(parent[n], fuel - 1)
TreeIsForest == \A n \in tree : n = Root \/ parent[n] \in tree          \* a motion's parent is already in the tree
MutualExclusion == \A w \in Workers : (pc[w] \in {"nearest", "add"} => nnLock = w)
                                      /\ (pc[w] \in {"publish", "recheck"} => solLock = w)
ReportedPathIsReal ==
    reported[1] # None =>
        /\ ChainOk(reported[1], MaxNodes + 1)                              \* parent chain inside the tree, to the start
        /\ (~reported[2] => dist[reported[1]] = 0)                         \* exact report ends in the goal
        /\ (reported[2] => dist[reported[1]] = approxdif)                  \* difference belongs to the reported state
CandidateConsistent == solLock = None /\ approxsol # None /\ solution = None => dist[approxsol] = approxdif
WorkersStop == <>(\A w \in Workers : pc[w] = "done")
===============================================================================
