SPECIFICATION Spec
CONSTANTS Threads = {1, 2}
 Calls = 2
 Atomic = FALSE
INVARIANTS CounterEqualsCalls NeverAhead
