----------------------------- MODULE CForestShare -----------------------------
(* Sharing protocol of ompl::geometric::CForest (src/ompl/geometric/planners/   *)
(* cforest/src/CForest.cpp, CForestStateSampler.cpp, CForest.h) at the code's   *)
(* atomicity.  Every tree runs in its own thread:                               *)
(*   - its planner allocates its sampler inside solve(): CForest::addSampler()  *)
(*     pushes it on samplers_ under addSamplerMutex_ (push_back may reallocate: *)
(*     two steps, `growing` is the thread between them);                        *)
(*   - sampling: `if (!statesToSample_.empty())` is read WITHOUT statesLock_,   *)
(*     then getNextSample() pops under statesLock_ (copies the state out and    *)
(*     frees the queued copy);                                                  *)
(*   - a better solution: newSolutionFound() compares / updates bestCost_ and   *)
(*     statesShared_ under newSolutionFoundMutex_, then walks samplers_ WITHOUT *)
(*     addSamplerMutex_ and hands the states to every other tree's sampler:     *)
(*     setStatesToSample() frees the old queue and pushes COPIES, under that    *)
(*     sampler's statesLock_.                                                   *)
(* FixIter = TRUE: the walk over samplers_ (including the setStatesToSample()   *)
(* calls) happens under addSamplerMutex_ (std::lock_guard for the rest of       *)
(* newSolutionFound()) - the library's correction.                              *)
EXTENDS Naturals, FiniteSets, Sequences, TLC

CONSTANTS Trees, MaxCost, FixIter
None == 0
ASSUME None \notin Trees
Inf == MaxCost + 1

VARIABLES pc, best, A, N, SLk,      \* addSamplerMutex_, newSolutionFoundMutex_, statesLock_ per tree (owners)
          samplers,                  \* trees whose sampler is registered
          growing,                   \* thread inside samplers_.push_back
          queue,                     \* per tree: set of queued state copies (ids)
          nextId, freed,             \* allocation of copies; ids freed so far
          sawNonEmpty, cost, todo, share, ptc, popped
vars == <<pc, best, A, N, SLk, samplers, growing, queue, nextId, freed, sawNonEmpty, cost, todo, share, ptc, popped>>

Init == /\ pc = [t \in Trees |-> "lockA"] /\ best = Inf /\ A = None /\ N = None /\ SLk = [t \in Trees |-> None]
        /\ samplers = {} /\ growing = None /\ queue = [t \in Trees |-> {}] /\ nextId = 1 /\ freed = {}
        /\ sawNonEmpty = [t \in Trees |-> FALSE] /\ cost = [t \in Trees |-> Inf] /\ todo = [t \in Trees |-> {}]
        /\ share = [t \in Trees |-> FALSE] /\ ptc = FALSE /\ popped = 0
Goto(t, l) == pc' = [pc EXCEPT ![t] = l]
Fire == ~ptc /\ ptc' = TRUE /\ UNCHANGED <<pc, best, A, N, SLk, samplers, growing, queue, nextId, freed, sawNonEmpty, cost, todo, share, popped>>

(* addSampler(): addSamplerMutex_.lock(); samplers_.push_back(sampler); unlock *)
LockA(t) == /\ pc[t] = "lockA" /\ A = None /\ A' = t /\ Goto(t, "push1")
            /\ UNCHANGED <<best, N, SLk, samplers, growing, queue, nextId, freed, sawNonEmpty, cost, todo, share, ptc, popped>>
Push1(t) == /\ pc[t] = "push1" /\ growing' = t /\ Goto(t, "push2")
            /\ UNCHANGED <<best, A, N, SLk, samplers, queue, nextId, freed, sawNonEmpty, cost, todo, share, ptc, popped>>
Push2(t) == /\ pc[t] = "push2" /\ samplers' = samplers \cup {t} /\ growing' = None /\ A' = None /\ Goto(t, "loop")
            /\ UNCHANGED <<best, N, SLk, queue, nextId, freed, sawNonEmpty, cost, todo, share, ptc, popped>>
(* the planner's loop: stop on ptc; sample; maybe report a solution *)
Loop(t) == /\ pc[t] = "loop" /\ Goto(t, IF ptc THEN "done" ELSE "emptyCheck")
           /\ UNCHANGED <<best, A, N, SLk, samplers, growing, queue, nextId, freed, sawNonEmpty, cost, todo, share, ptc, popped>>
(* if (!statesToSample_.empty())   -- unlocked read *)
EmptyCheck(t) == /\ pc[t] = "emptyCheck" /\ sawNonEmpty' = [sawNonEmpty EXCEPT ![t] = queue[t] # {}]
                 /\ Goto(t, IF queue[t] # {} THEN "lockPop" ELSE "work")
                 /\ UNCHANGED <<best, A, N, SLk, samplers, growing, queue, nextId, freed, cost, todo, share, ptc, popped>>
LockPop(t) == /\ pc[t] = "lockPop" /\ SLk[t] = None /\ SLk' = [SLk EXCEPT ![t] = t] /\ Goto(t, "pop")
              /\ UNCHANGED <<best, A, N, samplers, growing, queue, nextId, freed, sawNonEmpty, cost, todo, share, ptc, popped>>
(* getNextSample(): copyState(state, back()); freeState(back()); pop_back() *)
Pop(t) == /\ pc[t] = "pop"
          /\ IF queue[t] = {} THEN UNCHANGED <<queue, freed, popped>>        \* back() of an empty vector: see PopNeverEmpty
             ELSE \E s \in queue[t] : /\ queue' = [queue EXCEPT ![t] = @ \ {s}] /\ freed' = freed \cup {s}
                                     /\ popped' = IF popped < 2 THEN popped + 1 ELSE popped
          /\ SLk' = [SLk EXCEPT ![t] = None] /\ Goto(t, "work")
          /\ UNCHANGED <<best, A, N, samplers, growing, nextId, sawNonEmpty, cost, todo, share, ptc>>
(* the planner extends its tree; it may have found a solution of some cost *)
Work(t) == /\ pc[t] = "work"
           /\ \/ Goto(t, "loop") /\ UNCHANGED cost
              \/ \E c \in 1..MaxCost : cost' = [cost EXCEPT ![t] = c] /\ Goto(t, "lockN")
           /\ UNCHANGED <<best, A, N, SLk, samplers, growing, queue, nextId, freed, sawNonEmpty, todo, share, ptc, popped>>
LockN(t) == /\ pc[t] = "lockN" /\ N = None /\ N' = t /\ Goto(t, "compare")
            /\ UNCHANGED <<best, A, SLk, samplers, growing, queue, nextId, freed, sawNonEmpty, cost, todo, share, ptc, popped>>
(* if (better(cost, bestCost_)) { bestCost_ = cost; change = true; statesToShare = ... } unlock *)
Compare(t) == /\ pc[t] = "compare"
              /\ IF cost[t] < best THEN best' = cost[t] /\ share' = [share EXCEPT ![t] = TRUE]
                                   ELSE UNCHANGED best /\ share' = [share EXCEPT ![t] = FALSE]
              /\ N' = None /\ Goto(t, "afterCompare")
              /\ UNCHANGED <<A, SLk, samplers, growing, queue, nextId, freed, sawNonEmpty, cost, todo, ptc, popped>>
(* if (!change || statesToShare.empty()) return;  for (auto &i : samplers_) ...   -- samplers_ read here *)
AfterCompare(t) == /\ pc[t] = "afterCompare"
                   /\ IF share[t] THEN Goto(t, IF FixIter THEN "lockAIter" ELSE "iterate") ELSE Goto(t, "loop")
                   /\ UNCHANGED <<best, A, N, SLk, samplers, growing, queue, nextId, freed, sawNonEmpty, cost, todo, share, ptc, popped>>
LockAIter(t) == /\ pc[t] = "lockAIter" /\ A = None /\ A' = t /\ Goto(t, "iterate")
                /\ UNCHANGED <<best, N, SLk, samplers, growing, queue, nextId, freed, sawNonEmpty, cost, todo, share, ptc, popped>>
Iterate(t) == /\ pc[t] = "iterate" /\ todo' = [todo EXCEPT ![t] = samplers \ {t}]
              /\ Goto(t, "nextSampler")
              /\ UNCHANGED <<best, A, N, SLk, samplers, growing, queue, nextId, freed, sawNonEmpty, cost, share, ptc, popped>>
NextSampler(t) == /\ pc[t] = "nextSampler" /\ Goto(t, IF todo[t] = {} THEN "loop" ELSE "lockSet")
                  /\ A' = (IF FixIter /\ todo[t] = {} THEN None ELSE A)        \* end of newSolutionFound(): the guard goes
                  /\ UNCHANGED <<best, N, SLk, samplers, growing, queue, nextId, freed, sawNonEmpty, cost, todo, share, ptc, popped>>
Target(t) == CHOOSE u \in todo[t] : \A v \in todo[t] : u <= v
LockSet(t) == /\ pc[t] = "lockSet" /\ SLk[Target(t)] = None /\ SLk' = [SLk EXCEPT ![Target(t)] = t] /\ Goto(t, "set")
              /\ UNCHANGED <<best, A, N, samplers, growing, queue, nextId, freed, sawNonEmpty, cost, todo, share, ptc, popped>>
(* setStatesToSample(): free the old copies, clear, push fresh copies of the shared states *)
Set(t) == /\ pc[t] = "set"
          /\ freed' = freed \cup queue[Target(t)]
          /\ queue' = [queue EXCEPT ![Target(t)] = {nextId}] /\ nextId' = nextId + 1
          /\ SLk' = [SLk EXCEPT ![Target(t)] = None] /\ todo' = [todo EXCEPT ![t] = @ \ {Target(t)}]
          /\ Goto(t, "nextSampler")
          /\ UNCHANGED <<best, A, N, samplers, growing, sawNonEmpty, cost, share, ptc, popped>>

Step(t) == LockA(t) \/ Push1(t) \/ Push2(t) \/ Loop(t) \/ EmptyCheck(t) \/ LockPop(t) \/ Pop(t) \/ Work(t) \/ LockN(t)
           \/ Compare(t) \/ AfterCompare(t) \/ LockAIter(t) \/ Iterate(t) \/ NextSampler(t) \/ LockSet(t) \/ Set(t)
AllDone == \A t \in Trees : pc[t] = "done"
Terminated == AllDone /\ UNCHANGED vars
Next == Fire \/ Terminated \/ \E t \in Trees : Step(t)
Spec == Init /\ [][Next]_vars
FairSpec == Spec /\ WF_vars(Fire) /\ \A t \in Trees : SF_vars(Step(t))

TypeOK == best \in 1..Inf /\ nextId \in 1..(MaxCost * Cardinality(Trees) + 2)
(* a state handed to another tree is an owned copy: nothing queued has been freed, nothing is queued twice *)
QueuesOwnTheirStates == /\ \A t \in Trees : queue[t] \cap freed = {}
                        /\ \A t, u \in Trees : t # u => queue[t] \cap queue[u] = {}
(* getNextSample() never meets an empty queue although the emptiness check was made without the lock *)
PopNeverEmpty == \A t \in Trees : pc[t] = "pop" => queue[t] # {}
LocksHeld == \A t \in Trees : /\ pc[t] \in {"push1", "push2"} => A = t
                              /\ (FixIter /\ pc[t] \in {"iterate", "nextSampler", "lockSet", "set"}) => A = t
                              /\ pc[t] = "compare" => N = t
                              /\ pc[t] = "pop" => SLk[t] = t
                              /\ pc[t] = "set" => SLk[Target(t)] = t
(* samplers_ is not walked while another thread is inside push_back *)
NoIterationDuringGrowth == \A t \in Trees : pc[t] = "iterate" => growing \in {None, t}
BestCostMonotone == [][best' <= best]_vars
Termination == <>AllDone
===============================================================================
