SPECIFICATION FairSpec
CONSTANTS Workers = {1, 2, 3}
 MaxFails = 1
 Variant = "pinned"
INVARIANTS TypeOK MutualExclusion Exclusion
PROPERTY Termination
