SPECIFICATION Spec
CONSTANTS
 Loggers = {"l1", "l2"}
 Switchers = {"s1", "s2"}
 Handlers = {"h1", "h2"}
 Levels = {1, 2}
 MaxOps = 2
 SnapshotOutsideLock = FALSE
INVARIANTS MutualExclusion DeliveredToInstalled LevelRespected
CHECK_DEADLOCK FALSE
