--------------------------- MODULE GoalStatesSample ---------------------------
(* ompl::base::GoalStates::sampleGoal() (src/ompl/base/goals/src/GoalStates.cpp)*)
(* called by several threads at once - it is a const member function, which the *)
(* library documents as thread safe, and pRRT's workers / CForest's trees do    *)
(* call it concurrently.  At the code's atomicity, with the plain               *)
(* `mutable unsigned int samplePosition_`:                                      *)
(*     samplePosition_ = samplePosition_ % states_.size();   load, store        *)
(*     copyState(st, states_[samplePosition_]);               load (the index)   *)
(*     samplePosition_++;                                     load, store        *)
(* Atomic = TRUE is the proposed correction: one fetch-and-increment, the index *)
(* is the fetched value modulo the size.                                        *)
EXTENDS Naturals, FiniteSets

CONSTANTS Threads, Calls, Size, Atomic

VARIABLES pos, pc, tmp, idx, done
vars == <<pos, pc, tmp, idx, done>>
NoIdx == Size + 100

Init == /\ pos = 0 /\ pc = [t \in Threads |-> "idle"] /\ tmp = [t \in Threads |-> 0]
        /\ idx = [t \in Threads |-> NoIdx] /\ done = [t \in Threads |-> 0]
Load1(t) == /\ ~Atomic /\ pc[t] = "idle" /\ done[t] < Calls /\ tmp' = [tmp EXCEPT ![t] = pos]
            /\ pc' = [pc EXCEPT ![t] = "store1"] /\ UNCHANGED <<pos, idx, done>>
Store1(t) == /\ pc[t] = "store1" /\ pos' = tmp[t] % Size /\ pc' = [pc EXCEPT ![t] = "index"] /\ UNCHANGED <<tmp, idx, done>>
Index(t) == /\ pc[t] = "index" /\ idx' = [idx EXCEPT ![t] = pos] /\ pc' = [pc EXCEPT ![t] = "load2"] /\ UNCHANGED <<pos, tmp, done>>
Load2(t) == /\ pc[t] = "load2" /\ tmp' = [tmp EXCEPT ![t] = pos] /\ pc' = [pc EXCEPT ![t] = "store2"] /\ UNCHANGED <<pos, idx, done>>
Store2(t) == /\ pc[t] = "store2" /\ pos' = tmp[t] + 1 /\ pc' = [pc EXCEPT ![t] = "idle"]
             /\ done' = [done EXCEPT ![t] = @ + 1] /\ UNCHANGED <<tmp, idx>>
FetchAdd(t) == /\ Atomic /\ pc[t] = "idle" /\ done[t] < Calls
               /\ idx' = [idx EXCEPT ![t] = pos % Size] /\ pos' = pos + 1
               /\ done' = [done EXCEPT ![t] = @ + 1] /\ UNCHANGED <<pc, tmp>>
Terminated == (\A t \in Threads : pc[t] = "idle" /\ done[t] = Calls) /\ UNCHANGED vars
Next == Terminated \/ \E t \in Threads : Load1(t) \/ Store1(t) \/ Index(t) \/ Load2(t) \/ Store2(t) \/ FetchAdd(t)
Spec == Init /\ [][Next]_vars

(* states_[samplePosition_] stays inside the vector *)
IndexInRange == \A t \in Threads : idx[t] = NoIdx \/ idx[t] < Size
TypeOK == pos \in 0..(Size + Cardinality(Threads) * Calls + 1)
===============================================================================
