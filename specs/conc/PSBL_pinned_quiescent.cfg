SPECIFICATION Spec
CONSTANTS Workers = {1, 2}
 MaxFails = 1
 Variant = "pinned"
INVARIANTS QuiescentClean
