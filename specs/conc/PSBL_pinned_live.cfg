SPECIFICATION NoPtcSpec
CONSTANTS Workers = {1, 2}
 MaxFails = 1
 Variant = "pinned"
PROPERTY RemovalHappens
