SPECIFICATION FairSpec
CONSTANTS Workers = {1, 2, 3}
 MaxFails = 2
 Variant = "sharedMutex"
INVARIANTS TypeOK MutualExclusion Exclusion UnlockByOwner CounterZeroWhenIdle QuiescentClean
PROPERTY Termination
