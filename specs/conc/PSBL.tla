--------------------------------- MODULE PSBL ---------------------------------
(* Protocol model of ompl::geometric::pSBL::threadSolve (src/ompl/geometric/   *)
(* planners/sbl/src/pSBL.cpp) at the code's atomicity: one action per critical  *)
(* section / unlocked access.  Geometry is abstracted (a worker's iteration may *)
(* fail to sample, may find an invalid motion on a candidate path and queue it  *)
(* for removal, may find a solution).                                           *)
(*                                                                              *)
(* What is modelled exactly as written:                                         *)
(*  - the removal phase: removeList_.lock, `if (!motions.empty())`,             *)
(*    loopLock_.try_lock(), removal, clear, unlock, the retry loop;             *)
(*  - the reader-count scheme: loopLockCounter_ protects loopCounter_; the      *)
(*    first reader LOCKS loopLock_, the last reader UNLOCKS it;                 *)
(*  - `continue` after a failed sampleNear(): it skips the decrement;           *)
(*  - sol->found: unlocked reads in the loop conditions, write under sol->lock. *)
(* loopLock_ is a std::mutex: the model keeps its OWNER (the locking thread);   *)
(* unlock() by another thread or of an unlocked mutex is undefined behaviour    *)
(* and is recorded in `badUnlock`.                                              *)
(*                                                                              *)
(* Variant = "pinned"      : the code as it is                                  *)
(* Variant = "sharedMutex" : the proposed correction (loopLock_ becomes a       *)
(*    std::shared_mutex held shared - scoped - by a worker during its           *)
(*    iteration, exclusively by the removal phase; no counter)                  *)
EXTENDS Naturals, FiniteSets, TLC

CONSTANTS Workers, MaxFails, Variant

None == 0
ASSUME None \notin Workers /\ Variant \in {"pinned", "sharedMutex"}

VARIABLES pc, retry,
          RL,        \* owner of removeList_.lock
          LL,        \* exclusive owner of loopLock_
          readers,   \* shared owners of loopLock_ (sharedMutex variant only)
          LC,        \* owner of loopLockCounter_
          SL,        \* owner of sol->lock
          counter,   \* loopCounter_
          pending,   \* removeList_.motions is not empty
          found, ptc,
          fails,     \* failed sampleNear() calls so far (bounds the model)
          badUnlock, \* "none" | "wrongThread" | "notLocked": what loopLock_.unlock() did wrong
          removals   \* removal phases completed (vacuity / coverage, capped)
vars == <<pc, retry, RL, LL, readers, LC, SL, counter, pending, found, ptc, fails, badUnlock, removals>>

Init == /\ pc = [w \in Workers |-> "loop"] /\ retry = [w \in Workers |-> FALSE]
        /\ RL = None /\ LL = None /\ readers = {} /\ LC = None /\ SL = None
        /\ counter = 0 /\ pending = FALSE /\ found = FALSE /\ ptc = FALSE /\ fails = 0
        /\ badUnlock = "none" /\ removals = 0

Goto(w, l) == pc' = [pc EXCEPT ![w] = l]

Fire == /\ ~ptc /\ ptc' = TRUE
        /\ UNCHANGED <<pc, retry, RL, LL, readers, LC, SL, counter, pending, found, fails, badUnlock, removals>>

(* while (!sol->found && ptc == false) { bool retry = true;   -- unlocked reads *)
Loop(w) == /\ pc[w] = "loop"
           /\ IF ~found /\ ~ptc THEN Goto(w, "retryCond") /\ retry' = [retry EXCEPT ![w] = TRUE]
                                ELSE Goto(w, "done") /\ UNCHANGED retry
           /\ UNCHANGED <<RL, LL, readers, LC, SL, counter, pending, found, ptc, fails, badUnlock, removals>>
(* while (retry && !sol->found && ptc == false) *)
RetryCond(w) == /\ pc[w] = "retryCond"
                /\ Goto(w, IF retry[w] /\ ~found /\ ~ptc THEN "lockRL" ELSE "afterRemoval")
                /\ UNCHANGED <<retry, RL, LL, readers, LC, SL, counter, pending, found, ptc, fails, badUnlock, removals>>
LockRL(w) == /\ pc[w] = "lockRL" /\ RL = None /\ RL' = w /\ Goto(w, "rlHeld")
             /\ UNCHANGED <<retry, LL, readers, LC, SL, counter, pending, found, ptc, fails, badUnlock, removals>>
(* if (!motions.empty()) { if (loopLock_.try_lock()) {retry = false; ...} } else retry = false; *)
RLHeld(w) == /\ pc[w] = "rlHeld"
             /\ IF pending
                THEN IF LL = None /\ readers = {}
                     THEN LL' = w /\ retry' = [retry EXCEPT ![w] = FALSE] /\ Goto(w, "removing")   \* try_lock succeeded
                     ELSE UNCHANGED <<LL, retry>> /\ Goto(w, "unlockRL")                            \* try_lock failed
                ELSE UNCHANGED LL /\ retry' = [retry EXCEPT ![w] = FALSE] /\ Goto(w, "unlockRL")
             /\ UNCHANGED <<RL, readers, LC, SL, counter, pending, found, ptc, fails, badUnlock, removals>>
(* removeMotion(...) for every queued motion: touches both trees WITHOUT their locks; motions.clear() *)
Remove(w) == /\ pc[w] = "removing" /\ pending' = FALSE /\ Goto(w, "removerUnlock")
             /\ removals' = IF removals < 2 THEN removals + 1 ELSE removals
             /\ UNCHANGED <<retry, RL, LL, readers, LC, SL, counter, found, ptc, fails, badUnlock>>
RemoverUnlock(w) == /\ pc[w] = "removerUnlock"
                    /\ badUnlock' = IF LL = w THEN badUnlock ELSE IF LL = None THEN "notLocked" ELSE "wrongThread"
                    /\ LL' = None /\ Goto(w, "unlockRL")
                    /\ UNCHANGED <<retry, RL, readers, LC, SL, counter, pending, found, ptc, fails, removals>>
UnlockRL(w) == /\ pc[w] = "unlockRL" /\ RL' = None /\ Goto(w, "retryCond")
               /\ UNCHANGED <<retry, LL, readers, LC, SL, counter, pending, found, ptc, fails, badUnlock, removals>>
(* if (sol->found || ptc) break; *)
AfterRemoval(w) == /\ pc[w] = "afterRemoval"
                   /\ Goto(w, IF found \/ ptc THEN "done" ELSE IF Variant = "pinned" THEN "lockLC1" ELSE "lockShared")
                   /\ UNCHANGED <<retry, RL, LL, readers, LC, SL, counter, pending, found, ptc, fails, badUnlock, removals>>
(* ---- pinned: loopLockCounter_.lock(); if (loopCounter_ == 0) loopLock_.lock(); loopCounter_++; unlock *)
LockLC1(w) == /\ pc[w] = "lockLC1" /\ LC = None /\ LC' = w /\ Goto(w, "enter")
              /\ UNCHANGED <<retry, RL, LL, readers, SL, counter, pending, found, ptc, fails, badUnlock, removals>>
Enter(w) == /\ pc[w] = "enter"
            /\ IF counter = 0 THEN LL = None /\ LL' = w ELSE UNCHANGED LL       \* lock() blocks while someone owns it
            /\ counter' = counter + 1 /\ Goto(w, "unlockLC1")
            /\ UNCHANGED <<retry, RL, readers, LC, SL, pending, found, ptc, fails, badUnlock, removals>>
UnlockLC1(w) == /\ pc[w] = "unlockLC1" /\ LC' = None /\ Goto(w, "work")
                /\ UNCHANGED <<retry, RL, LL, readers, SL, counter, pending, found, ptc, fails, badUnlock, removals>>
(* ---- sharedMutex: std::shared_lock<std::shared_mutex> inLoop(loopLock_); *)
LockShared(w) == /\ pc[w] = "lockShared" /\ LL = None /\ readers' = readers \cup {w} /\ Goto(w, "work")
                 /\ UNCHANGED <<retry, RL, LL, LC, SL, counter, pending, found, ptc, fails, badUnlock, removals>>
(* ---- the iteration proper (inside the counted section) *)
(* sampleNear() failed: `continue` *)
SampleFail(w) == /\ pc[w] = "work" /\ fails < MaxFails /\ fails' = fails + 1
                 /\ Goto(w, IF Variant = "pinned" THEN "loop" ELSE "unlockShared")   \* pinned: the decrement is skipped
                 /\ UNCHANGED <<retry, RL, LL, readers, LC, SL, counter, pending, found, ptc, badUnlock, removals>>
(* motion added; checkSolution() found nothing to connect to *)
NoConnection(w) == /\ pc[w] = "work" /\ Goto(w, IF Variant = "pinned" THEN "lockLC2" ELSE "unlockShared")
                   /\ UNCHANGED <<retry, RL, LL, readers, LC, SL, counter, pending, found, ptc, fails, badUnlock, removals>>
(* isPathValid() met an invalid motion: removeList_.lock.lock(); push_back; unlock *)
Invalid(w) == /\ pc[w] = "work" /\ Goto(w, "lockRLpush")
              /\ UNCHANGED <<retry, RL, LL, readers, LC, SL, counter, pending, found, ptc, fails, badUnlock, removals>>
LockRLPush(w) == /\ pc[w] = "lockRLpush" /\ RL = None /\ RL' = w /\ Goto(w, "push")
                 /\ UNCHANGED <<retry, LL, readers, LC, SL, counter, pending, found, ptc, fails, badUnlock, removals>>
Push(w) == /\ pc[w] = "push" /\ pending' = TRUE /\ RL' = None
           /\ Goto(w, IF Variant = "pinned" THEN "lockLC2" ELSE "unlockShared")
           /\ UNCHANGED <<retry, LL, readers, LC, SL, counter, found, ptc, fails, badUnlock, removals>>
(* checkSolution() returned true: sol->lock.lock(); if (!sol->found) {sol->found = true; ...} unlock *)
Solved(w) == /\ pc[w] = "work" /\ Goto(w, "lockSol")
             /\ UNCHANGED <<retry, RL, LL, readers, LC, SL, counter, pending, found, ptc, fails, badUnlock, removals>>
LockSol(w) == /\ pc[w] = "lockSol" /\ SL = None /\ SL' = w /\ Goto(w, "publish")
              /\ UNCHANGED <<retry, RL, LL, readers, LC, counter, pending, found, ptc, fails, badUnlock, removals>>
Publish(w) == /\ pc[w] = "publish" /\ found' = TRUE /\ SL' = None
              /\ Goto(w, IF Variant = "pinned" THEN "lockLC2" ELSE "unlockShared")
              /\ UNCHANGED <<retry, RL, LL, readers, LC, counter, pending, ptc, fails, badUnlock, removals>>
(* ---- pinned: loopLockCounter_.lock(); loopCounter_--; if (loopCounter_ == 0) loopLock_.unlock(); unlock *)
LockLC2(w) == /\ pc[w] = "lockLC2" /\ LC = None /\ LC' = w /\ Goto(w, "leave")
              /\ UNCHANGED <<retry, RL, LL, readers, SL, counter, pending, found, ptc, fails, badUnlock, removals>>
Leave(w) == /\ pc[w] = "leave" /\ counter > 0
            /\ counter' = counter - 1
            /\ IF counter = 1
               THEN /\ badUnlock' = IF LL = w THEN badUnlock ELSE IF LL = None THEN "notLocked" ELSE "wrongThread"
                    /\ LL' = None
               ELSE UNCHANGED <<LL, badUnlock>>
            /\ Goto(w, "unlockLC2")
            /\ UNCHANGED <<retry, RL, readers, LC, SL, pending, found, ptc, fails, removals>>
UnlockLC2(w) == /\ pc[w] = "unlockLC2" /\ LC' = None /\ Goto(w, "loop")
                /\ UNCHANGED <<retry, RL, LL, readers, SL, counter, pending, found, ptc, fails, badUnlock, removals>>
(* ---- sharedMutex: end of the iteration's scope (also on `continue`) *)
UnlockShared(w) == /\ pc[w] = "unlockShared" /\ readers' = readers \ {w} /\ Goto(w, "loop")
                   /\ UNCHANGED <<retry, RL, LL, LC, SL, counter, pending, found, ptc, fails, badUnlock, removals>>

Step(w) == Loop(w) \/ RetryCond(w) \/ LockRL(w) \/ RLHeld(w) \/ Remove(w) \/ RemoverUnlock(w) \/ UnlockRL(w)
           \/ AfterRemoval(w) \/ LockLC1(w) \/ Enter(w) \/ UnlockLC1(w) \/ LockShared(w)
           \/ SampleFail(w) \/ NoConnection(w) \/ Invalid(w) \/ LockRLPush(w) \/ Push(w)
           \/ Solved(w) \/ LockSol(w) \/ Publish(w) \/ LockLC2(w) \/ Leave(w) \/ UnlockLC2(w) \/ UnlockShared(w)
AllDone == \A w \in Workers : pc[w] = "done"
Terminated == AllDone /\ UNCHANGED vars
Next == Fire \/ Terminated \/ \E w \in Workers : Step(w)
Spec == Init /\ [][Next]_vars
(* a worker that can move does move; a lock that becomes free again and again is eventually obtained *)
Fair == \A w \in Workers : SF_vars(Step(w))
FairSpec == Spec /\ Fair /\ WF_vars(Fire)      \* the termination condition eventually fires
NoPtcSpec == Spec /\ Fair                       \* ... or never does

(* ---- properties ---- *)
InCounted(w) == pc[w] \in {"work", "lockRLpush", "push", "lockSol", "publish", "lockLC2", "leave", "unlockShared"}
(* the purpose of the scheme: the removal never runs while a worker is inside its iteration *)
Exclusion == \A r \in Workers : pc[r] \in {"removing"} => \A w \in Workers : ~InCounted(w)
(* std::mutex: unlock() only by the owning thread, only when locked *)
UnlockByOwner == badUnlock = "none"
(* loopCounter_ counts the workers that are inside *)
CounterMatches == LC = None => counter = Cardinality({w \in Workers : InCounted(w) \/ pc[w] = "unlockLC2"})
CounterZeroWhenIdle == (LC = None /\ \A w \in Workers : ~InCounted(w) /\ pc[w] # "unlockLC2") => counter = 0
(* solve() returns with the scheme reset: the next solve() starts from loopCounter_ = 0 and must find loopLock_ free *)
QuiescentClean == AllDone => (LL = None /\ readers = {} /\ RL = None /\ LC = None /\ SL = None)
MutualExclusion == \A w \in Workers : /\ pc[w] \in {"rlHeld", "removing", "removerUnlock", "unlockRL", "push"} => RL = w
                                      /\ pc[w] \in {"enter", "unlockLC1", "leave", "unlockLC2"} => LC = w
                                      /\ pc[w] = "publish" => SL = w
                                      /\ pc[w] \in {"removing", "removerUnlock"} => LL = w
TypeOK == /\ counter \in 0..(Cardinality(Workers) + MaxFails + 1)
          /\ LL \in Workers \cup {None} /\ readers \subseteq Workers
Termination == <>AllDone
(* queued removals are carried out (or the planner stops): workers do not spin for ever in the retry loop *)
RemovalHappens == pending ~> (~pending \/ AllDone)
(* coverage goals for the vacuity gate: TLC must be able to reach them *)
NeverRemoves == removals = 0
===============================================================================
