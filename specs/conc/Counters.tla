------------------------------- MODULE Counters -------------------------------
(* Protocol model, at the code's atomicity, of the motion counters bumped by    *)
(* checkMotion() when several threads share one validator (C19, layer 1).       *)
(* With Atomic = FALSE the increment `valid_++` on a plain integer is two steps *)
(* (load, store) as the compiled code performs it; with Atomic = TRUE it is one *)
(* indivisible read-modify-write (std::atomic).  At quiescence the counter must *)
(* equal the number of calls made.                                              *)
EXTENDS Naturals, FiniteSets

CONSTANTS Threads, Calls, Atomic

VARIABLES counter, pc, tmp, done
vars == <<counter, pc, tmp, done>>

Init == /\ counter = 0
        /\ pc = [t \in Threads |-> "idle"]
        /\ tmp = [t \in Threads |-> 0]
        /\ done = [t \in Threads |-> 0]

Load(t) == /\ ~Atomic /\ pc[t] = "idle" /\ done[t] < Calls
           /\ tmp' = [tmp EXCEPT ![t] = counter]
           /\ pc' = [pc EXCEPT ![t] = "loaded"]
           /\ UNCHANGED <<counter, done>>
Store(t) == /\ ~Atomic /\ pc[t] = "loaded"
            /\ counter' = tmp[t] + 1
            /\ pc' = [pc EXCEPT ![t] = "idle"]
            /\ done' = [done EXCEPT ![t] = @ + 1]
            /\ UNCHANGED tmp
FetchAdd(t) == /\ Atomic /\ pc[t] = "idle" /\ done[t] < Calls
               /\ counter' = counter + 1
               /\ done' = [done EXCEPT ![t] = @ + 1]
               /\ UNCHANGED <<pc, tmp>>
Next == \E t \in Threads : Load(t) \/ Store(t) \/ FetchAdd(t)
Spec == Init /\ [][Next]_vars

Quiescent == \A t \in Threads : pc[t] = "idle" /\ done[t] = Calls
CounterEqualsCalls == Quiescent => counter = Cardinality(Threads) * Calls
NeverAhead == counter <= Cardinality(Threads) * Calls
===============================================================================
