------------------------------ MODULE PSBLTrace ------------------------------
(* C19: what pSBL's loopLock_ scheme is FOR, judged on the lock / counter       *)
(* events recorded from the real planner (projection of a hook trace on the     *)
(* events named pSBL.loopLock, pSBL.loopCounter, pSBL.tree@removeMotion and the *)
(* thread begin / end events).  Works for the counter scheme of the pinned code *)
(* (enter / leave = the accesses to loopCounter_ under loopLockCounter_, first  *)
(* reader locks, last reader unlocks) and for a std::shared_mutex (enter /      *)
(* leave = AcquireShared / ReleaseShared).  Clauses:                            *)
(*   removalOverlapsWorker   the removal phase (exclusive owner of loopLock_)   *)
(*                           overlaps a worker that is inside its iteration     *)
(*   removalOutsideExclusive a tree is pruned by a thread that does not own     *)
(*                           loopLock_ exclusively                              *)
(*   readerCountLeaked       a worker enters again without having left, or ends *)
(*                           inside: loopCounter_ no longer counts the workers  *)
(*                           inside, loopLock_ stays locked for ever            *)
(*   readerLockMismatch      loopLock_ locked / unlocked by a reader although   *)
(*                           it is not the first / last one inside              *)
(* (unlock by a thread that is not the owner and a thread ending while it owns  *)
(* a mutex are judged on the same trace by SharedMemTrace.)                     *)
(* Failed clauses are printed; the cursor always advances.                      *)
EXTENDS Naturals, Integers, Sequences, FiniteSets, TLC, TraceIO

VARIABLES l, inside, entering, remover, first, scen, seen
tvars == <<l, inside, entering, remover, first, scen, seen>>
Ev == Log[l]
Is(e) == l <= NLog /\ Ev.e = e /\ l' = l + 1
Report(failed) == IF failed = {} THEN TRUE
                  ELSE PrintT(ToJson([line |-> l, failed |-> failed, what |-> "pSBL", scen |-> scen]))
Note(x) == seen' = seen \cup {x}

TInit == l = 1 /\ inside = {} /\ entering = {} /\ remover = 0 /\ first = 0 /\ scen = "-" /\ seen = {}

TScenario == /\ Is("Scenario") /\ scen' = Ev.name /\ inside' = {} /\ entering' = {} /\ remover' = 0 /\ first' = 0
             /\ UNCHANGED seen
(* ---- the removal phase *)
TRemoverIn == /\ Is("Acquire") /\ Ev.name = "pSBL.loopLock" /\ Ev.site = "remover"
              /\ Report(IF inside = {} THEN {} ELSE {"removalOverlapsWorker"})
              /\ remover' = Ev.t /\ Note("removal") /\ UNCHANGED <<inside, entering, first, scen>>
TRemoverOut == /\ Is("Release") /\ Ev.name = "pSBL.loopLock" /\ Ev.site = "remover"
               /\ remover' = 0 /\ UNCHANGED <<inside, entering, first, scen, seen>>
TTryFail == /\ Is("TryFail") /\ Note("tryFail") /\ UNCHANGED <<inside, entering, remover, first, scen>>
TPrune == /\ Is("Access") /\ Ev.res = "pSBL.tree" /\ Ev.site = "removeMotion"
          /\ Report(IF remover = Ev.t THEN {} ELSE {"removalOutsideExclusive"})
          /\ UNCHANGED <<inside, entering, remover, first, scen, seen>>
(* ---- workers entering / leaving their iteration *)
Enter(t) == /\ Report((IF remover = 0 THEN {} ELSE {"removalOverlapsWorker"})
                      \cup (IF t \in inside THEN {"readerCountLeaked"} ELSE {}))
            /\ inside' = inside \cup {t}
Leave(t) == inside' = inside \ {t}
(* counter scheme: the access to loopCounter_ under loopLockCounter_ opens the entry (the first reader may still have to *)
(* wait for loopLock_ in there); the entry is complete when loopLockCounter_ is released                              *)
TEnterCounted == /\ Is("Access") /\ Ev.res = "pSBL.loopCounter" /\ Ev.site = "enter"
                 /\ Report(IF Ev.t \in inside THEN {"readerCountLeaked"} ELSE {})
                 /\ entering' = entering \cup {Ev.t} /\ Note("enter") /\ UNCHANGED <<inside, remover, first, scen>>
TCounterUnlocked == /\ Is("Release") /\ Ev.name = "pSBL.loopLockCounter"
                    /\ IF Ev.t \in entering
                       THEN /\ Report(IF remover = 0 THEN {} ELSE {"removalOverlapsWorker"})
                            /\ inside' = inside \cup {Ev.t} /\ entering' = entering \ {Ev.t}
                       ELSE UNCHANGED <<inside, entering>>
                    /\ UNCHANGED <<remover, first, scen, seen>>
TLeaveCounted == /\ Is("Access") /\ Ev.res = "pSBL.loopCounter" /\ Ev.site = "leave"
                 /\ Leave(Ev.t) /\ Note("leave") /\ UNCHANGED <<entering, remover, first, scen>>
TInit0 == /\ Is("Access") /\ Ev.res = "pSBL.loopCounter" /\ Ev.site = "init"
          /\ UNCHANGED <<inside, entering, remover, first, scen, seen>>
(* the first reader locks loopLock_ (the event comes after its @enter access, before the increment) *)
TFirstReader == /\ Is("Acquire") /\ Ev.name = "pSBL.loopLock" /\ Ev.site = "firstReader"
                /\ Report(IF inside = {} /\ Ev.t \in entering THEN {} ELSE {"readerLockMismatch"})
                /\ first' = Ev.t /\ Note("firstReader") /\ UNCHANGED <<inside, entering, remover, scen>>
(* the last reader unlocks it (the event comes after its @leave access) *)
TLastReader == /\ Is("Release") /\ Ev.name = "pSBL.loopLock" /\ Ev.site = "lastReader"
               /\ Report(IF inside = {} THEN {} ELSE {"readerLockMismatch"})
               /\ Note(IF first = Ev.t THEN "lastReaderIsFirst" ELSE "lastReaderIsOther")
               /\ first' = 0 /\ UNCHANGED <<inside, entering, remover, scen>>
TEnterShared == /\ Is("AcquireShared") /\ Ev.name = "pSBL.loopLock"
                /\ Enter(Ev.t) /\ Note("enterShared") /\ UNCHANGED <<entering, remover, first, scen>>
TLeaveShared == /\ Is("ReleaseShared") /\ Ev.name = "pSBL.loopLock"
                /\ Leave(Ev.t) /\ Note("leaveShared") /\ UNCHANGED <<entering, remover, first, scen>>
(* a worker ends: it must have left *)
TEnd == /\ Is("End")
        /\ Report(IF Ev.t \in inside THEN {"readerCountLeaked"} ELSE {})
        /\ inside' = inside \ {Ev.t} /\ entering' = entering \ {Ev.t} /\ UNCHANGED <<remover, first, scen, seen>>
TOther == /\ l <= NLog /\ l' = l + 1
          /\ ~(Ev.e \in {"Scenario", "End", "TryFail", "AcquireShared", "ReleaseShared"})
          /\ ~(Ev.e \in {"Acquire", "Release"} /\ Ev.name = "pSBL.loopLock")
          /\ ~(Ev.e = "Release" /\ Ev.name = "pSBL.loopLockCounter")
          /\ ~(Ev.e = "Access" /\ Ev.res = "pSBL.loopCounter")
          /\ ~(Ev.e = "Access" /\ Ev.res = "pSBL.tree" /\ Ev.site = "removeMotion")
          /\ UNCHANGED <<inside, entering, remover, first, scen, seen>>
(* the last line: what was seen (vacuity) *)
TNext == TScenario \/ TRemoverIn \/ TRemoverOut \/ TTryFail \/ TPrune \/ TEnterCounted \/ TCounterUnlocked
         \/ TLeaveCounted \/ TInit0
         \/ TFirstReader \/ TLastReader \/ TEnterShared \/ TLeaveShared \/ TEnd \/ TOther
TSpec == TInit /\ [][TNext]_tvars
NotAccepted == l <= NLog \/ ~PrintT(ToJson([seen |-> seen]))
TAccept == /\ l = NLog + 1 /\ PrintT(ToJson([accepted |-> NLog, seen |-> seen])) /\ l' = l + 1
           /\ UNCHANGED <<inside, entering, remover, first, scen, seen>>
TSpecAnnounce == TInit /\ [][TNext \/ TAccept]_tvars
===============================================================================
