SPECIFICATION NoPtcSpec
CONSTANTS Workers = {1, 2, 3}
 MaxFails = 2
 Variant = "sharedMutex"
PROPERTY RemovalHappens
