---------------------------- MODULE SharedMemTrace ----------------------------
(* C19, layers 2 and 3: a recorded multi-threaded execution is judged by        *)
(*  (a) the data-race rule of the C++ memory model restricted to what the hooks *)
(*      measure: two accesses to the same resource (same name, same object) by  *)
(*      different threads conflict if at least one writes, at least one is not  *)
(*      atomic, they hold no common mutex, and neither happens-before the other *)
(*      (program order + thread creation/start + thread end/join, kept as       *)
(*      vector clocks);                                                         *)
(*  (b) contract events: results that must equal those of some sequential order *)
(*      (counters equal the calls made, generator seeds equal the sequential    *)
(*      set, unique space names, solution set complete and ranked, exact        *)
(*      nearest-neighbour answers, terminate() observed and sticky).            *)
(* Failed clauses are printed; the cursor always advances.                      *)
EXTENDS Naturals, Integers, Sequences, FiniteSets, TLC, TraceIO

VARIABLES l,
          vc,      \* thread -> (thread -> Nat): vector clocks
          forkVC,  \* token -> vector clock at fork
          endVC,   \* token -> vector clock at thread end
          last,    \* <<res, obj>> -> set of [t, c, w, a, locks]: latest access per thread and class
          scen
tvars == <<l, vc, forkVC, endVC, last, scen>>
Ev == Log[l]
Is(e) == l <= NLog /\ Ev.e = e /\ l' = l + 1

Zero == <<>>                               \* clocks are sparse functions: absent = 0
Get(f, k) == IF k \in DOMAIN f THEN f[k] ELSE 0
VCof(t) == IF t \in DOMAIN vc THEN vc[t] ELSE Zero
Put(f, k, v) == IF k \in DOMAIN f THEN [f EXCEPT ![k] = v] ELSE f @@ (k :> v)
Merge(a, b) == [k \in DOMAIN a \cup DOMAIN b |-> IF Get(a, k) >= Get(b, k) THEN Get(a, k) ELSE Get(b, k)]
Tick(t, c) == Put(c, t, Get(c, t) + 1)
Report(failed, what) == IF failed = {} THEN TRUE
                        ELSE PrintT(ToJson([line |-> l, failed |-> failed, what |-> what]))

TInit == l = 1 /\ vc = <<>> /\ forkVC = <<>> /\ endVC = <<>> /\ last = <<>> /\ scen = "-"

TScenario == /\ Is("Scenario") /\ scen' = Ev.name
             /\ vc' = <<>> /\ forkVC' = <<>> /\ endVC' = <<>> /\ last' = <<>>

TFork == /\ Is("Fork")
         /\ forkVC' = Put(forkVC, Ev.tok, VCof(Ev.t))
         /\ vc' = Put(vc, Ev.t, Tick(Ev.t, VCof(Ev.t)))
         /\ UNCHANGED <<endVC, last, scen>>
TBegin == /\ Is("Begin")
          /\ vc' = Put(vc, Ev.t, Tick(Ev.t, Merge(VCof(Ev.t), Get(forkVC, Ev.tok))))
          /\ UNCHANGED <<forkVC, endVC, last, scen>>
TEnd == /\ Is("End")
        /\ endVC' = Put(endVC, Ev.tok, VCof(Ev.t))
        /\ vc' = Put(vc, Ev.t, Tick(Ev.t, VCof(Ev.t)))
        /\ UNCHANGED <<forkVC, last, scen>>
TJoin == /\ Is("Join")
         /\ vc' = Put(vc, Ev.t, Tick(Ev.t, Merge(VCof(Ev.t), Get(endVC, Ev.tok))))
         /\ UNCHANGED <<forkVC, endVC, last, scen>>

(* Get on the clock tables may hit an absent token: a fork the trace did not record = no edge *)
Races(key, t, w, a, locks) ==
    {p \in (IF key \in DOMAIN last THEN last[key] ELSE {}) :
        /\ p.t # t
        /\ (p.w \/ w)
        /\ ~(p.a /\ a)
        /\ p.locks \cap locks = {}
        /\ ~(p.c <= Get(VCof(t), p.t))}
TAccess ==
    /\ Is("Access")
    /\ LET key == <<Ev.res, Ev.obj>>
           t == Ev.t
           locks == SeqToSet(Ev.locks)
           mine == VCof(t)
           c == Get(mine, t) + 1
           racing == Races(key, t, Ev.w, Ev.a, locks)
           old == IF key \in DOMAIN last THEN last[key] ELSE {}
           kept == {p \in old : ~(p.t = t /\ p.w = Ev.w /\ p.a = Ev.a /\ p.locks = locks)}
       IN  /\ Report(IF racing = {} THEN {} ELSE {"dataRace"}, Ev.res)
           /\ vc' = Put(vc, t, Put(mine, t, c))
           /\ last' = Put(last, key, kept \cup {[t |-> t, c |-> c, w |-> Ev.w, a |-> Ev.a, locks |-> locks]})
    /\ UNCHANGED <<forkVC, endVC, scen>>

Contract(name, ok) == Report(IF ok THEN {} ELSE {name}, scen)
TCounters == Is("CountersFinal") /\ Contract("countersEqualCalls", Ev.counted = Ev.calls /\ Ev.validCounted = Ev.validReturned)
             /\ UNCHANGED <<vc, forkVC, endVC, last, scen>>
TTerminate == Is("TerminateSeen") /\ Contract("terminateObservedAndSticky", Ev.seen = Ev.pollers /\ Ev.sticky)
              /\ UNCHANGED <<vc, forkVC, endVC, last, scen>>
TNN == Is("NNQueries") /\ Contract("concurrentQueriesExact", Ev.mismatch = 0 /\ Ev.queries > 0)
       /\ UNCHANGED <<vc, forkVC, endVC, last, scen>>
TSolutions == Is("SolutionsFinal")
              /\ Contract("solutionSetLinearizable",
                          Ev.held = Ev.added /\ Ev.distinctIndices = Ev.added /\ Ev.unrankedSnapshots = 0
                              /\ Ev.shrunkSnapshots = 0)
              /\ UNCHANGED <<vc, forkVC, endVC, last, scen>>
TSeeds == Is("SeedsConcurrent") /\ Contract("seedsEqualSequentialSet", Ev.differFromSequential = 0 /\ Ev.n > 0)
          /\ UNCHANGED <<vc, forkVC, endVC, last, scen>>
TSpaces == Is("SpaceNames") /\ Contract("spaceNamesUnique", Ev.distinct = Ev.n /\ Ev.n > 0)
           /\ UNCHANGED <<vc, forkVC, endVC, last, scen>>
TBad == /\ l <= NLog /\ Ev.e \in {"Hang", "Crash"} /\ l' = l + 1 /\ Report({Ev.e}, scen)
        /\ UNCHANGED <<vc, forkVC, endVC, last, scen>>

TNext == TScenario \/ TFork \/ TBegin \/ TEnd \/ TJoin \/ TAccess \/ TCounters \/ TTerminate \/ TNN
         \/ TSolutions \/ TSeeds \/ TSpaces \/ TBad
TSpec == TInit /\ [][TNext]_tvars
NotAccepted == l <= NLog
===============================================================================
