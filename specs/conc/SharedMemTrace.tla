---------------------------- MODULE SharedMemTrace ----------------------------
(* C19, layers 2 and 3: a recorded multi-threaded execution is judged by        *)
(*  (a) the data-race rule of the C++ memory model restricted to what the hooks *)
(*      measure: two accesses to the same resource (same name, same object) by  *)
(*      different threads conflict if at least one writes, at least one is not  *)
(*      atomic, they hold no common mutex, and neither happens-before the other *)
(*      (program order + thread creation/start + thread end/join + release of a *)
(*      mutex / next acquisition of the same mutex, kept as vector clocks);     *)
(*  (a') what the C++ standard demands of std::mutex, on the recorded lock      *)
(*      events: unlock() only by the thread that owns the mutex, no thread ends *)
(*      while it owns one;                                                      *)
(*  (b) contract events: results that must equal those of some sequential order *)
(*      (counters equal the calls made, generator seeds equal the sequential    *)
(*      set, unique space names, solution set complete and ranked, exact        *)
(*      nearest-neighbour answers, terminate() observed and sticky).            *)
(* Failed clauses are printed; the cursor always advances.                      *)
EXTENDS Naturals, Integers, Sequences, FiniteSets, TLC, TraceIO

VARIABLES l,
          vc,      \* thread -> (thread -> Nat): vector clocks
          forkVC,  \* token -> vector clock at fork
          endVC,   \* token -> vector clock at thread end
          last,    \* <<res, obj>> -> set of [t, c, w, a, locks, site]: latest access per thread and class
          relVC,   \* mutex -> vector clock of its last unlock()            (lock events are optional in a trace)
          shrVC,   \* mutex -> join of the clocks of its unlock_shared() calls
          owner,   \* mutex -> [t, name] of the exclusive owner (absent = free)
          scen
tvars == <<l, vc, forkVC, endVC, last, relVC, shrVC, owner, scen>>
Ev == Log[l]
Is(e) == l <= NLog /\ Ev.e = e /\ l' = l + 1

Zero == <<>>                               \* clocks are sparse functions: absent = 0
Get(f, k) == IF k \in DOMAIN f THEN f[k] ELSE 0
VCof(t) == IF t \in DOMAIN vc THEN vc[t] ELSE Zero
GetVC(f, k) == IF k \in DOMAIN f THEN f[k] ELSE Zero   \* a clock table entry; absent = no edge recorded
Put(f, k, v) == IF k \in DOMAIN f THEN [f EXCEPT ![k] = v] ELSE f @@ (k :> v)
Merge(a, b) == [k \in DOMAIN a \cup DOMAIN b |-> IF Get(a, k) >= Get(b, k) THEN Get(a, k) ELSE Get(b, k)]
Tick(t, c) == Put(c, t, Get(c, t) + 1)
Report(failed, what) == IF failed = {} THEN TRUE
                        ELSE PrintT(ToJson([line |-> l, failed |-> failed, what |-> what]))

Drop(f, k) == [x \in DOMAIN f \ {k} |-> f[x]]
Field(name, default) == IF name \in DOMAIN Ev THEN Ev[name] ELSE default
ReportAt(failed, what, sites) == IF failed = {} THEN TRUE
                                 ELSE PrintT(ToJson([line |-> l, failed |-> failed, what |-> what, sites |-> sites]))

TInit == /\ l = 1 /\ vc = <<>> /\ forkVC = <<>> /\ endVC = <<>> /\ last = <<>> /\ scen = "-"
         /\ relVC = <<>> /\ shrVC = <<>> /\ owner = <<>>

TScenario == /\ Is("Scenario") /\ scen' = Ev.name
             /\ vc' = <<>> /\ forkVC' = <<>> /\ endVC' = <<>> /\ last' = <<>>
             /\ relVC' = <<>> /\ shrVC' = <<>> /\ owner' = <<>>

TFork == /\ Is("Fork")
         /\ forkVC' = Put(forkVC, Ev.tok, VCof(Ev.t))
         /\ vc' = Put(vc, Ev.t, Tick(Ev.t, VCof(Ev.t)))
         /\ UNCHANGED <<endVC, last, relVC, shrVC, owner, scen>>
TBegin == /\ Is("Begin")
          /\ vc' = Put(vc, Ev.t, Tick(Ev.t, Merge(VCof(Ev.t), GetVC(forkVC, Ev.tok))))
          /\ UNCHANGED <<forkVC, endVC, last, relVC, shrVC, owner, scen>>
(* a thread ends: it must not own a mutex (C++: undefined behaviour; the mutex can never be locked again) *)
TEnd == /\ Is("End")
        /\ endVC' = Put(endVC, Ev.tok, VCof(Ev.t))
        /\ vc' = Put(vc, Ev.t, Tick(Ev.t, VCof(Ev.t)))
        /\ LET mine == {m \in DOMAIN owner : owner[m].t = Ev.t}
           IN  \A m \in mine : ReportAt({"mutexOwnedAtThreadEnd"}, owner[m].name, {})
        /\ UNCHANGED <<forkVC, last, relVC, shrVC, owner, scen>>
TJoin == /\ Is("Join")
         /\ vc' = Put(vc, Ev.t, Tick(Ev.t, Merge(VCof(Ev.t), GetVC(endVC, Ev.tok))))
         /\ UNCHANGED <<forkVC, endVC, last, relVC, shrVC, owner, scen>>

(* ---- mutexes: release -> next acquisition is a happens-before edge; ownership is tracked ---- *)
TAcquire == /\ Is("Acquire")
            /\ vc' = Put(vc, Ev.t, Tick(Ev.t, Merge(VCof(Ev.t), Merge(GetVC(relVC, Ev.m), GetVC(shrVC, Ev.m)))))
            /\ owner' = Put(owner, Ev.m, [t |-> Ev.t, name |-> Ev.name])
            /\ UNCHANGED <<forkVC, endVC, last, relVC, shrVC, scen>>
TRelease == /\ Is("Release")
            \* (an unlock of a mutex nobody is known to hold, by a thread measured not to own it, orders nothing)
            /\ relVC' = IF Field("measured", FALSE) /\ ~Ev.owned /\ Ev.m \notin DOMAIN owner THEN relVC
                        ELSE Put(relVC, Ev.m, VCof(Ev.t))
            /\ vc' = Put(vc, Ev.t, Tick(Ev.t, VCof(Ev.t)))
            /\ LET recorded == Ev.m \in DOMAIN owner /\ owner[Ev.m].t = Ev.t        \* by the recorded lock events
                   ok == IF Field("measured", FALSE) THEN Ev.owned ELSE recorded   \* by the measured owner, if there is one
               IN  ReportAt(IF ok THEN {} ELSE IF Ev.m \in DOMAIN owner THEN {"unlockByNonOwner"}
                                               ELSE {"unlockOfUnlockedMutex"}, Ev.name, {})
            /\ owner' = IF Ev.m \in DOMAIN owner THEN Drop(owner, Ev.m) ELSE owner
            /\ UNCHANGED <<forkVC, endVC, last, shrVC, scen>>
TAcquireShared == /\ Is("AcquireShared")
                  /\ vc' = Put(vc, Ev.t, Tick(Ev.t, Merge(VCof(Ev.t), GetVC(relVC, Ev.m))))
                  /\ UNCHANGED <<forkVC, endVC, last, relVC, shrVC, owner, scen>>
TReleaseShared == /\ Is("ReleaseShared")
                  /\ shrVC' = Put(shrVC, Ev.m, Merge(GetVC(shrVC, Ev.m), VCof(Ev.t)))
                  /\ vc' = Put(vc, Ev.t, Tick(Ev.t, VCof(Ev.t)))
                  /\ UNCHANGED <<forkVC, endVC, last, relVC, owner, scen>>
(* events that carry no ordering: a failed try_lock, planner-protocol notes, the planner's result *)
TSkip == /\ l <= NLog /\ Ev.e \in {"TryFail", "Note", "PlanResult"} /\ l' = l + 1
         /\ UNCHANGED <<vc, forkVC, endVC, last, relVC, shrVC, owner, scen>>

(* Get on the clock tables may hit an absent token: a fork the trace did not record = no edge *)
Races(key, t, w, a, locks) ==
    {p \in (IF key \in DOMAIN last THEN last[key] ELSE {}) :
        /\ p.t # t
        /\ (p.w \/ w)
        /\ ~(p.a /\ a)
        /\ p.locks \cap locks = {}
        /\ ~(p.c <= Get(VCof(t), p.t))}
TAccess ==
    /\ Is("Access")
    /\ LET key == <<Ev.res, Ev.obj>>
           t == Ev.t
           locks == SeqToSet(Ev.locks)
           mine == VCof(t)
           c == Get(mine, t) + 1
           racing == Races(key, t, Ev.w, Ev.a, locks)
           site == Field("site", "")
           old == IF key \in DOMAIN last THEN last[key] ELSE {}
           kept == {p \in old : ~(p.t = t /\ p.w = Ev.w /\ p.a = Ev.a /\ p.locks = locks /\ p.site = site)}
       IN  /\ ReportAt(IF racing = {} THEN {} ELSE {"dataRace"}, Ev.res,
                       {<<p.site, p.locks # {}, site, locks # {}>> : p \in racing})   \* site, owned a lock?, twice
           /\ vc' = Put(vc, t, Put(mine, t, c))
           /\ last' = Put(last, key, kept \cup {[t |-> t, c |-> c, w |-> Ev.w, a |-> Ev.a, locks |-> locks,
                                                  site |-> site]})
    /\ UNCHANGED <<forkVC, endVC, relVC, shrVC, owner, scen>>

Contract(name, ok) == Report(IF ok THEN {} ELSE {name}, scen)
TCounters == Is("CountersFinal") /\ Contract("countersEqualCalls", Ev.counted = Ev.calls /\ Ev.validCounted = Ev.validReturned)
             /\ UNCHANGED <<vc, forkVC, endVC, last, relVC, shrVC, owner, scen>>
TTerminate == Is("TerminateSeen") /\ Contract("terminateObservedAndSticky", Ev.seen = Ev.pollers /\ Ev.sticky)
              /\ UNCHANGED <<vc, forkVC, endVC, last, relVC, shrVC, owner, scen>>
TNN == Is("NNQueries") /\ Contract("concurrentQueriesExact", Ev.mismatch = 0 /\ Ev.queries > 0)
       /\ UNCHANGED <<vc, forkVC, endVC, last, relVC, shrVC, owner, scen>>
TSolutions == Is("SolutionsFinal")
              /\ Contract("solutionSetLinearizable",
                          Ev.held = Ev.added /\ Ev.distinctIndices = Ev.added /\ Ev.unrankedSnapshots = 0
                              /\ Ev.shrunkSnapshots = 0)
              /\ UNCHANGED <<vc, forkVC, endVC, last, relVC, shrVC, owner, scen>>
TSeeds == Is("SeedsConcurrent") /\ Contract("seedsEqualSequentialSet", Ev.differFromSequential = 0 /\ Ev.n > 0)
          /\ UNCHANGED <<vc, forkVC, endVC, last, relVC, shrVC, owner, scen>>
TSpaces == Is("SpaceNames") /\ Contract("spaceNamesUnique", Ev.distinct = Ev.n /\ Ev.n > 0)
           /\ UNCHANGED <<vc, forkVC, endVC, last, relVC, shrVC, owner, scen>>
(* logging (ConsoleLog.tla): what the handlers saw at the linearization point - inside their own log(), which the    *)
(* library calls with the console lock held: they were the installed handler, the message was not below the level, *)
(* and no two handler calls overlapped                                                                             *)
TConsole == Is("ConsoleLog")
            /\ Report((IF Ev.stale = 0 /\ Ev.delivered > 0 THEN {} ELSE {"logDeliveredToInstalledHandler"}) \cup
                       (IF Ev.belowLevel = 0 THEN {} ELSE {"logLevelRespected"}) \cup
                       (IF Ev.overlap = 0 THEN {} ELSE {"handlerCallsSerialized"}), scen)
            /\ UNCHANGED <<vc, forkVC, endVC, last, relVC, shrVC, owner, scen>>
TBad == /\ l <= NLog /\ Ev.e \in {"Hang", "Crash"} /\ l' = l + 1 /\ Report({Ev.e}, scen)
        /\ UNCHANGED <<vc, forkVC, endVC, last, relVC, shrVC, owner, scen>>

TNext == TScenario \/ TFork \/ TBegin \/ TEnd \/ TJoin \/ TAccess \/ TCounters \/ TTerminate \/ TNN
         \/ TSolutions \/ TSeeds \/ TSpaces \/ TConsole \/ TBad \/ TAcquire \/ TRelease \/ TAcquireShared \/ TReleaseShared
         \/ TSkip
TSpec == TInit /\ [][TNext]_tvars
NotAccepted == l <= NLog
(* the same, for long traces: acceptance is announced by a printed line instead of by a violated invariant (TLC     *)
(* prints the whole behaviour for the latter, which costs more than checking it)                                   *)
TAccept == /\ l = NLog + 1 /\ PrintT(ToJson([accepted |-> NLog])) /\ l' = l + 1
           /\ UNCHANGED <<vc, forkVC, endVC, last, relVC, shrVC, owner, scen>>
TSpecAnnounce == TInit /\ [][TNext \/ TAccept]_tvars
===============================================================================
