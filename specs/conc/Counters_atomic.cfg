SPECIFICATION Spec
CONSTANTS Threads = {1, 2, 3}
 Calls = 3
 Atomic = TRUE
INVARIANTS CounterEqualsCalls NeverAhead
