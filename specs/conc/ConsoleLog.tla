----------------------------- MODULE ConsoleLog ------------------------------
(* The console of ompl::msg at the code's atomicity (util/src/Console.cpp):   *)
(* one global lock, the installed output handler, the previous one, the log   *)
(* level.  log() takes the lock, reads handler and level, and calls the       *)
(* handler while it still owns the lock; useOutputHandler / noOutputHandler / *)
(* restorePreviousOutputHandler / setLogLevel change the state under the same *)
(* lock.  "Logging ... with the same results as some sequential order": a     *)
(* message is delivered to the handler that is installed at the moment of the *)
(* delivery, and only when its level is not below the level set at that       *)
(* moment.  With SnapshotOutsideLock = TRUE log() decides BEFORE it owns the  *)
(* lock (handler and level read first, lock taken around the handler call     *)
(* only): the seeded design fault TLC must refute - a switch that completes   *)
(* between the reads and the lock makes the call deliver to a handler that is *)
(* not installed any more.                                                    *)
EXTENDS Naturals, FiniteSets, TLC

CONSTANTS Loggers, Switchers, Handlers, Levels, MaxOps, SnapshotOutsideLock

None == "none"
Threads == Loggers \cup Switchers

VARIABLES installed, previous, level, lock, pc, snapH, snapL, msgL, ops, staleDelivery, lowDelivery
vars == <<installed, previous, level, lock, pc, snapH, snapL, msgL, ops, staleDelivery, lowDelivery>>

Init == /\ installed \in Handlers /\ previous = installed /\ level \in Levels
        /\ lock = None
        /\ pc = [t \in Threads |-> "idle"]
        /\ snapH = [t \in Loggers |-> None] /\ snapL = [t \in Loggers |-> 0] /\ msgL = [t \in Loggers |-> 0]
        /\ ops = [t \in Threads |-> 0]
        /\ staleDelivery = FALSE /\ lowDelivery = FALSE

Acquire(t, next) == /\ lock = None /\ lock' = t /\ pc' = [pc EXCEPT ![t] = next]
Release(t) == /\ lock = t /\ lock' = None /\ pc' = [pc EXCEPT ![t] = "idle"]

(* ---- log(level m) ---- *)
LogStart(t) == /\ t \in Loggers /\ pc[t] = "idle" /\ ops[t] < MaxOps
               /\ ops' = [ops EXCEPT ![t] = @ + 1]
               /\ \E m \in Levels : msgL' = [msgL EXCEPT ![t] = m]
               /\ IF SnapshotOutsideLock
                    THEN /\ snapH' = [snapH EXCEPT ![t] = installed] /\ snapL' = [snapL EXCEPT ![t] = level]
                         /\ pc' = [pc EXCEPT ![t] = "decided"]
                    ELSE /\ pc' = [pc EXCEPT ![t] = "wantLock"] /\ UNCHANGED <<snapH, snapL>>
               /\ UNCHANGED <<installed, previous, level, lock, staleDelivery, lowDelivery>>
(* pinned form: lock, then read *)
LogLock(t) == /\ t \in Loggers /\ pc[t] = "wantLock" /\ Acquire(t, "locked")
              /\ UNCHANGED <<installed, previous, level, snapH, snapL, msgL, ops, staleDelivery, lowDelivery>>
LogRead(t) == /\ t \in Loggers /\ pc[t] = "locked" /\ lock = t
              /\ snapH' = [snapH EXCEPT ![t] = installed] /\ snapL' = [snapL EXCEPT ![t] = level]
              /\ pc' = [pc EXCEPT ![t] = "deliver"]
              /\ UNCHANGED <<installed, previous, level, lock, msgL, ops, staleDelivery, lowDelivery>>
(* faulty form: decided already, lock around the handler call only (skipped when filtered out) *)
LogLockLate(t) == /\ t \in Loggers /\ pc[t] = "decided"
                  /\ IF snapH[t] # None /\ msgL[t] >= snapL[t]
                       THEN Acquire(t, "deliver")
                       ELSE pc' = [pc EXCEPT ![t] = "idle"] /\ UNCHANGED lock
                  /\ UNCHANGED <<installed, previous, level, snapH, snapL, msgL, ops, staleDelivery, lowDelivery>>
(* the handler call, made while the lock is owned: the linearization point the harness observes *)
LogDeliver(t) == /\ t \in Loggers /\ pc[t] = "deliver" /\ lock = t
                 /\ IF snapH[t] # None /\ msgL[t] >= snapL[t]
                      THEN /\ staleDelivery' = (staleDelivery \/ snapH[t] # installed)
                           /\ lowDelivery' = (lowDelivery \/ msgL[t] < level)
                      ELSE UNCHANGED <<staleDelivery, lowDelivery>>
                 /\ pc' = [pc EXCEPT ![t] = "unlock"]
                 /\ UNCHANGED <<installed, previous, level, lock, snapH, snapL, msgL, ops>>
LogUnlock(t) == /\ t \in Loggers /\ pc[t] = "unlock" /\ Release(t)
                /\ UNCHANGED <<installed, previous, level, snapH, snapL, msgL, ops, staleDelivery, lowDelivery>>

(* ---- the switching calls ---- *)
SwitchStart(t) == /\ t \in Switchers /\ pc[t] = "idle" /\ ops[t] < MaxOps
                  /\ ops' = [ops EXCEPT ![t] = @ + 1]
                  /\ Acquire(t, "switch")
                  /\ UNCHANGED <<installed, previous, level, snapH, snapL, msgL, staleDelivery, lowDelivery>>
SwitchDo(t) == /\ t \in Switchers /\ pc[t] = "switch" /\ lock = t
               /\ \/ \E h \in Handlers : installed' = h /\ previous' = installed /\ UNCHANGED level   \* useOutputHandler
                  \/ installed' = None /\ previous' = installed /\ UNCHANGED level                    \* noOutputHandler
                  \/ installed' = previous /\ previous' = installed /\ UNCHANGED level                \* restorePrevious
                  \/ \E v \in Levels : level' = v /\ UNCHANGED <<installed, previous>>                \* setLogLevel
               /\ pc' = [pc EXCEPT ![t] = "unlock"]
               /\ UNCHANGED <<lock, snapH, snapL, msgL, ops, staleDelivery, lowDelivery>>
SwitchUnlock(t) == /\ t \in Switchers /\ pc[t] = "unlock" /\ Release(t)
                   /\ UNCHANGED <<installed, previous, level, snapH, snapL, msgL, ops, staleDelivery, lowDelivery>>

Next == \E t \in Threads : \/ LogStart(t) \/ LogLock(t) \/ LogRead(t) \/ LogLockLate(t) \/ LogDeliver(t) \/ LogUnlock(t)
                           \/ SwitchStart(t) \/ SwitchDo(t) \/ SwitchUnlock(t)
Spec == Init /\ [][Next]_vars

MutualExclusion == Cardinality({t \in Threads : pc[t] \in {"locked", "deliver", "unlock", "switch"}}) <= 1
DeliveredToInstalled == ~staleDelivery
LevelRespected == ~lowDelivery
==============================================================================
