----------------------------- MODULE PRMTwoThread -----------------------------
(* Protocol model of ompl::geometric::PRM::solve (src/ompl/geometric/planners/  *)
(* prm/src/PRM.cpp) at the code's atomicity: the planning thread P (solve ->    *)
(* constructRoadmap -> growRoadmap / expandRoadmap, addMilestone under          *)
(* graphMutex_) and the solution thread S (checkForSolution: goal intake via    *)
(* addMilestone, maybeConstructSolution: sameComponent under the lock, the      *)
(* UNLOCKED stateProperty_ read of isStartGoalPairValid, constructSolution      *)
(* under the lock, bestCost_ and addedNewSolution_ without a lock).  Geometry   *)
(* is abstracted: a new milestone connects to any subset of the roadmap.        *)
(*                                                                              *)
(* A roadmap mutation is two steps under the lock (boost::add_vertex, which may *)
(* reallocate the vertex storage, then properties / edges / union-find / nn):   *)
(* `mutating` is the thread that is between them.                               *)
(*                                                                              *)
(* FixPair = FixExpand = FixBest = FALSE: the code as it is.  TRUE: the proposed *)
(* corrections (pair check inside the locked section, expansion reads under the *)
(* lock, bestCost_ reset before the solution thread starts).                    *)
EXTENDS Naturals, FiniteSets, TLC

CONSTANTS MaxV,        \* vertices 0..MaxV: 0 = start, 1 = first goal, the rest are added while running
          ExtraGoals,  \* goal states still to be delivered by the goal sampler while running
          Satisficing, \* TRUE: any path satisfies the objective (PRM); FALSE: never satisfied (PRMstar: runs until ptc)
          FixPair,     \* the start/goal pair check reads the vertex storage inside the locked section
          FixExpand,   \* expandRoadmap reads the roadmap under the lock
          FixBest      \* bestCost_ is reset before the solution thread is started

None == 99
Free == "free"
NoPath == <<None, None>>
NoReport == [made |-> FALSE, path |-> <<None, None>>, cost |-> "nan", optimized |-> FALSE, approx |-> FALSE]
P == "P"
S == "S"
Verts == 0..(MaxV + ExtraGoals)     \* MaxV+1.. are the vertices of goals delivered while running

VARIABLES pcP, pcS,
          gm,          \* owner of graphMutex_ (Free / P / S)
          V, comp,     \* roadmap vertices; component id per vertex (disjointSets_)
          mutating,    \* thread inside a roadmap mutation (Free if none)
          mine,        \* vertex being added by P / by S
          goalM, goalsLeft, gi, same, path, result,
          added,       \* addedNewSolution_
          bestCost,    \* "nan" | "inf" | "c"
          sol,         \* base::PathPtr sol of solve(): NoPath or <<start, goal>>
          ptc, grow, reported
vars == <<pcP, pcS, gm, V, comp, mutating, mine, goalM, goalsLeft, gi, same, path, result, added, bestCost, sol, ptc,
          grow, reported>>

(* solve() up to the creation of the solution thread: start and first goal are milestones; they may or may not be   *)
(* connected already (a roadmap kept from an earlier solve(), or a goal visible from the start)                      *)
Init == /\ pcP = "reset" /\ pcS = "idle" /\ gm = Free
        /\ V = {0, 1} /\ comp \in {[v \in Verts |-> v], [v \in Verts |-> IF v = 1 THEN 0 ELSE v]}
        /\ mutating = Free /\ mine = [t \in {P, S} |-> None]
        /\ goalM = {1} /\ goalsLeft = ExtraGoals /\ gi = None /\ same = FALSE /\ path = NoPath /\ result = FALSE
        /\ added \in BOOLEAN /\ bestCost = "nan" /\ sol = NoPath /\ ptc = FALSE /\ grow = TRUE
        /\ reported = NoReport

Fire == /\ ~ptc /\ ptc' = TRUE
        /\ UNCHANGED <<pcP, pcS, gm, V, comp, mutating, mine, goalM, goalsLeft, gi, same, path, result, added, bestCost,
                       sol, grow, reported>>

Least(X) == IF X = {} THEN None ELSE CHOOSE v \in X : \A u \in X : v <= u
Fresh(t) == IF t = P THEN Least((2..MaxV) \ V) ELSE Least(((MaxV + 1)..(MaxV + ExtraGoals)) \ V)
(* addMilestone(), second half: connect the new vertex m to the vertices of N and unite the components *)
Connect(m, N) == LET ids == {comp[n] : n \in N} \cup {comp[m]}
                     low == CHOOSE i \in ids : \A j \in ids : i <= j
                 IN  [v \in Verts |-> IF comp[v] \in ids THEN low ELSE comp[v]]

(* ------------------------------------------------------------------ planning thread *)
(* addedNewSolution_ = false; (FixBest: bestCost_ = infinite here) ; std::thread slnThread(...) *)
PReset == /\ pcP = "reset" /\ added' = FALSE /\ bestCost' = (IF FixBest THEN "inf" ELSE bestCost) /\ pcP' = "fork"
          /\ UNCHANGED <<pcS, gm, V, comp, mutating, mine, goalM, goalsLeft, gi, same, path, result, sol, ptc, grow, reported>>
PFork == /\ pcP = "fork" /\ pcS = "idle" /\ pcS' = "loop" /\ pcP' = IF FixBest THEN "loop" ELSE "bestReset"
         /\ UNCHANGED <<gm, V, comp, mutating, mine, goalM, goalsLeft, gi, same, path, result, added, bestCost, sol, ptc, grow, reported>>
(* constructRoadmap(): bestCost_ = opt_->infiniteCost();   -- the solution thread is already running *)
PBestReset == /\ pcP = "bestReset" /\ bestCost' = "inf" /\ pcP' = "loop"
              /\ UNCHANGED <<pcS, gm, V, comp, mutating, mine, goalM, goalsLeft, gi, same, path, result, added, sol, ptc, grow, reported>>
(* while (!ptcOrSolutionFound()) : unlocked read of addedNewSolution_ ; grow and expand alternate *)
PLoop == /\ pcP = "loop"
         /\ IF ptc \/ added \/ Fresh(P) = None THEN pcP' = "join" /\ UNCHANGED grow
            ELSE /\ grow' = ~grow
                 /\ pcP' = IF grow THEN "lockAdd" ELSE IF FixExpand THEN "lockExpand" ELSE "expandRead"
         /\ UNCHANGED <<pcS, gm, V, comp, mutating, mine, goalM, goalsLeft, gi, same, path, result, added, bestCost, sol, ptc, reported>>
(* expandRoadmap(): the pdf over boost::vertices(g_) and stateProperty_[v] for the bounce are read WITHOUT the lock *)
PExpandRead == /\ pcP = "expandRead" /\ pcP' = "lockAdd"
               /\ UNCHANGED <<pcS, gm, V, comp, mutating, mine, goalM, goalsLeft, gi, same, path, result, added, bestCost, sol, ptc, grow, reported>>
PLockExpand == /\ pcP = "lockExpand" /\ gm = Free /\ gm' = P /\ pcP' = "expandLocked"
               /\ UNCHANGED <<pcS, V, comp, mutating, mine, goalM, goalsLeft, gi, same, path, result, added, bestCost, sol, ptc, grow, reported>>
PExpandLocked == /\ pcP = "expandLocked" /\ gm' = Free /\ pcP' = "lockAdd"
                 /\ UNCHANGED <<pcS, V, comp, mutating, mine, goalM, goalsLeft, gi, same, path, result, added, bestCost, sol, ptc, grow, reported>>
(* addMilestone(): std::lock_guard _(graphMutex_); add_vertex; ... ; nn_->add *)
LockAdd(t) == /\ gm = Free /\ gm' = t
              /\ UNCHANGED <<V, comp, mutating, mine, goalM, goalsLeft, gi, same, path, result, added, bestCost, sol, ptc, grow, reported>>
AddVertex(t) == /\ Fresh(t) # None /\ V' = V \cup {Fresh(t)} /\ mine' = [mine EXCEPT ![t] = Fresh(t)] /\ mutating' = t
                /\ UNCHANGED <<gm, comp, goalM, goalsLeft, gi, same, path, result, added, bestCost, sol, ptc, grow, reported>>
FinishAdd(t) == /\ \E N \in SUBSET (V \ {mine[t]}) : comp' = Connect(mine[t], N)
                /\ mutating' = Free /\ gm' = Free
                /\ UNCHANGED <<V, mine, goalsLeft, gi, same, path, result, added, bestCost, sol, ptc, grow, reported>>
PLockAdd == pcP = "lockAdd" /\ LockAdd(P) /\ pcP' = "addVertex" /\ UNCHANGED pcS
PAddVertex == pcP = "addVertex" /\ AddVertex(P) /\ pcP' = "finishAdd" /\ UNCHANGED pcS
PFinishAdd == pcP = "finishAdd" /\ FinishAdd(P) /\ pcP' = "loop" /\ UNCHANGED <<pcS, goalM>>
(* slnThread.join(); then report *)
PJoin == /\ pcP = "join" /\ pcS = "done" /\ pcP' = IF sol # NoPath THEN "report" ELSE "lockApprox"
         /\ UNCHANGED <<pcS, gm, V, comp, mutating, mine, goalM, goalsLeft, gi, same, path, result, added, bestCost, sol, ptc, grow, reported>>
(* psol.setOptimized(opt_, bestCost_, addedNewSolution()); pdef_->addSolutionPath(psol) *)
PReport == /\ pcP = "report" /\ reported' = [made |-> TRUE, path |-> sol, cost |-> bestCost, optimized |-> added, approx |-> FALSE]
           /\ pcP' = "done"
           /\ UNCHANGED <<pcS, gm, V, comp, mutating, mine, goalM, goalsLeft, gi, same, path, result, added, bestCost, sol, ptc, grow>>
(* constructApproximateSolution(): std::lock_guard _(graphMutex_) *)
PLockApprox == /\ pcP = "lockApprox" /\ gm = Free /\ gm' = P /\ pcP' = "approx"
               /\ UNCHANGED <<pcS, V, comp, mutating, mine, goalM, goalsLeft, gi, same, path, result, added, bestCost, sol, ptc, grow, reported>>
PApprox == /\ pcP = "approx" /\ gm' = Free /\ pcP' = "done"
           /\ reported' = [made |-> TRUE, path |-> <<0, None>>, cost |-> "inf", optimized |-> FALSE, approx |-> TRUE]
           /\ UNCHANGED <<pcS, V, comp, mutating, mine, goalM, goalsLeft, gi, same, path, result, added, bestCost, sol, ptc, grow>>

(* ------------------------------------------------------------------ solution thread: checkForSolution() *)
SLoop == /\ pcS = "loop" /\ pcS' = IF ptc \/ added THEN "done" ELSE "goal"
         /\ UNCHANGED <<pcP, gm, V, comp, mutating, mine, goalM, goalsLeft, gi, same, path, result, added, bestCost, sol, ptc, grow, reported>>
(* if (goal->maxSampleCount() > goalM_.size()) { st = pis_.nextGoal(); if (st) goalM_.push_back(addMilestone(st)); } *)
SGoal == /\ pcS = "goal"
         /\ \/ goalsLeft > 0 /\ Fresh(S) # None /\ goalsLeft' = goalsLeft - 1 /\ pcS' = "lockAdd" /\ UNCHANGED <<gi, result>>
            \/ pcS' = "nextPair" /\ gi' = None /\ result' = FALSE /\ UNCHANGED goalsLeft
         /\ UNCHANGED <<pcP, gm, V, comp, mutating, mine, goalM, same, path, added, bestCost, sol, ptc, grow, reported>>
SLockAdd == pcS = "lockAdd" /\ LockAdd(S) /\ pcS' = "addVertex" /\ UNCHANGED pcP
SAddVertex == pcS = "addVertex" /\ AddVertex(S) /\ pcS' = "finishAdd" /\ UNCHANGED pcP
SFinishAdd == /\ pcS = "finishAdd" /\ FinishAdd(S) /\ goalM' = goalM \cup {mine[S]} /\ pcS' = "nextPair"
              /\ UNCHANGED pcP
(* maybeConstructSolution(): foreach goal (one start) *)
Later == {g \in goalM : gi = None \/ g > gi}
SNextPair == /\ pcS = "nextPair"
             /\ IF Later = {} THEN pcS' = "store" /\ UNCHANGED gi
                ELSE gi' = (CHOOSE g \in Later : \A h \in Later : g <= h) /\ pcS' = "lockSame"
             /\ UNCHANGED <<pcP, gm, V, comp, mutating, mine, goalM, goalsLeft, same, path, result, added, bestCost, sol, ptc, grow, reported>>
SLockSame == /\ pcS = "lockSame" /\ gm = Free /\ gm' = S /\ pcS' = "same"
             /\ UNCHANGED <<pcP, V, comp, mutating, mine, goalM, goalsLeft, gi, same, path, result, added, bestCost, sol, ptc, grow, reported>>
(* bool same_component = sameComponent(start, goal); unlock   (FixPair: the pair check happens here, before the unlock) *)
SSame == /\ pcS = "same" /\ same' = (comp[0] = comp[gi]) /\ gm' = Free
         /\ pcS' = IF comp[0] = comp[gi] THEN (IF FixPair THEN "lockConstruct" ELSE "pairValid") ELSE "nextPair"
         /\ UNCHANGED <<pcP, V, comp, mutating, mine, goalM, goalsLeft, gi, path, result, added, bestCost, sol, ptc, grow, reported>>
(* g->isStartGoalPairValid(stateProperty_[goal], stateProperty_[start])   -- UNLOCKED read of the vertex storage *)
SPairValid == /\ pcS = "pairValid" /\ pcS' = "lockConstruct"
              /\ UNCHANGED <<pcP, gm, V, comp, mutating, mine, goalM, goalsLeft, gi, same, path, result, added, bestCost, sol, ptc, grow, reported>>
SLockConstruct == /\ pcS = "lockConstruct" /\ gm = Free /\ gm' = S /\ pcS' = "construct"
                  /\ UNCHANGED <<pcP, V, comp, mutating, mine, goalM, goalsLeft, gi, same, path, result, added, bestCost, sol, ptc, grow, reported>>
(* constructSolution(): A* under the lock *)
SConstruct == /\ pcS = "construct" /\ path' = (IF comp[0] = comp[gi] THEN <<0, gi>> ELSE NoPath) /\ gm' = Free
              /\ pcS' = "best"
              /\ UNCHANGED <<pcP, V, comp, mutating, mine, goalM, goalsLeft, gi, same, result, added, bestCost, sol, ptc, grow, reported>>
(* if (p) { if (better(pathCost, bestCost_)) bestCost_ = pathCost; if (satisfied) {solution = p; return true;} ... solution = p; } *)
SBest == /\ pcS = "best"
         /\ IF path = NoPath THEN UNCHANGED <<bestCost, sol, result>> /\ pcS' = "nextPair"
            ELSE /\ bestCost' = "c" /\ sol' = path
                 /\ IF Satisficing THEN result' = TRUE /\ pcS' = "store" ELSE UNCHANGED result /\ pcS' = "nextPair"
         /\ UNCHANGED <<pcP, gm, V, comp, mutating, mine, goalM, goalsLeft, gi, same, path, added, ptc, grow, reported>>
(* addedNewSolution_ = maybeConstructSolution(...);  sleep 1 ms if false *)
SStore == /\ pcS = "store" /\ added' = result /\ pcS' = "loop"
          /\ UNCHANGED <<pcP, gm, V, comp, mutating, mine, goalM, goalsLeft, gi, same, path, result, bestCost, sol, ptc, grow, reported>>

PStep == PReset \/ PFork \/ PBestReset \/ PLoop \/ PExpandRead \/ PLockExpand \/ PExpandLocked \/ PLockAdd
         \/ PAddVertex \/ PFinishAdd \/ PJoin \/ PReport \/ PLockApprox \/ PApprox
SStep == SLoop \/ SGoal \/ SLockAdd \/ SAddVertex \/ SFinishAdd \/ SNextPair \/ SLockSame \/ SSame \/ SPairValid
         \/ SLockConstruct \/ SConstruct \/ SBest \/ SStore
Terminated == pcP = "done" /\ UNCHANGED vars
Next == Fire \/ PStep \/ SStep \/ Terminated
Spec == Init /\ [][Next]_vars
FairSpec == Spec /\ WF_vars(Fire) /\ SF_vars(PStep) /\ SF_vars(SStep)

(* ---- properties ---- *)
(* places where the roadmap / the disjoint sets / the vertex storage are read or written *)
PAccess == pcP \in {"expandRead", "expandLocked", "addVertex", "finishAdd", "approx"}
SAccess == pcS \in {"addVertex", "finishAdd", "same", "pairValid", "construct"}
(* every access to the roadmap happens with graphMutex_ held *)
LockDiscipline == (PAccess => gm = P) /\ (SAccess => gm = S)
(* ... whose point is: nobody looks at the roadmap while the other thread is inside a mutation *)
NoAccessDuringMutation == /\ (mutating = S => ~PAccess)
                          /\ (mutating = P => ~SAccess)
MutationsUnderLock == mutating # Free => gm = mutating
(* the reported exact solution joins a start and a goal milestone of one component *)
ReportedSolutionConnects ==
    (reported.made /\ ~reported.approx) => /\ reported.path[1] = 0 /\ reported.path[2] \in goalM
                                             /\ comp[reported.path[1]] = comp[reported.path[2]]
(* ... and the cost stored with it is the cost of a path that was found, not the reset value *)
ReportedCostIsAPathCost == (reported.made /\ ~reported.approx) => reported.cost = "c"
ApproximateOnlyWithoutExact == (reported.made /\ reported.approx) => sol = NoPath
Termination == <>(pcP = "done" /\ pcS = "done")
(* coverage goals (must be reachable) *)
NeverReportsExact == ~(reported.made /\ ~reported.approx)
NeverReportsApprox == ~(reported.made /\ reported.approx)
===============================================================================
