SPECIFICATION Spec
CONSTANTS Workers = {1, 2}
 MaxFails = 0
 Variant = "pinned"
INVARIANTS UnlockByOwner
