SPECIFICATION TSpecAnnounce
CHECK_DEADLOCK FALSE
