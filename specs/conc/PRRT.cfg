SPECIFICATION FairSpec
CONSTANTS Workers = {1, 2}
 MaxNodes = 3
 Dists = {0, 1, 2}
INVARIANTS TreeIsForest MutualExclusion ReportedPathIsReal CandidateConsistent
PROPERTY WorkersStop
