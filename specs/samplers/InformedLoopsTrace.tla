------------------------- MODULE InformedLoopsTrace -------------------------
(* impl -> spec: attempt sequences recorded from the real                      *)
(* PathLengthDirectInfSampler (harness/informed.cpp, counting state space:      *)
(* one attempt per vector allocation, one bounds test per kept draw) must be    *)
(* behaviours of InformedLoops.  One line per sampleUniform call:               *)
(*   kind, ov, N, K0, can, finite, big   the configuration (0 / 1 flags)        *)
(*   att   one entry <<k, keep, inb, cls>> per attempt; for a draw the coin     *)
(*         rejected nothing else is observable (k = 0 stands for "unknown")     *)
(*   ret   what the call returned                                               *)
(* The model is restarted for every line; the unobservable inclusion count of a *)
(* draw that was not kept is taken to be 2 (the smallest the coin can reject).  *)
(* Rounding = TRUE: a kept draw observed in no PHS is what the code allows.     *)
(* A line that is no behaviour of the model stops the validation there: that is *)
(* drift of the transcription, not a verdict on the property.                   *)
EXTENDS InformedLoops, TraceIO

VARIABLE l
tvars == <<vars, l>>
Ev == Log[l]
ClsName(c) == IF c = 0 THEN "below" ELSE IF c = 1 THEN "inside" ELSE "atmax"
CfgOf(ev) == [kind |-> ev.kind, ov |-> ev.ov, N |-> ev.N, K0 |-> ev.K0, finite |-> ev.finite = 1, big |-> ev.big = 1,
              can |-> [i \in 1..ev.K0 |-> ev.can[i] = 1]]

(* InitWith on the primed variables *)
Restart(cf) ==
    /\ kind' = cf.kind /\ ov' = cf.ov /\ N' = cf.N /\ K0' = cf.K0 /\ can' = cf.can /\ finite' = cf.finite /\ big' = cf.big
    /\ pc' = "start" /\ alive' = [i \in 1..cf.K0 |-> i] /\ degen' = FALSE /\ ui' = 0 /\ it' = 0 /\ draws' = 0
    /\ script' = <<>> /\ cur' = 0 /\ found' = FALSE /\ ret' = FALSE
    /\ B' = 0 /\ deg' = FALSE /\ bound' = 0 /\ q' = <<>> /\ fresh' = FALSE /\ feed' = <<>> /\ calls' = <<>>
    /\ batch' = 0 /\ nb' = 0 /\ bi' = 0 /\ lost' = 0 /\ path' = <<>>

Matches(o, a) ==
    /\ o.keep = (a[2] = 1)
    /\ IF o.keep THEN o.k = a[1] /\ o.inb = (a[3] = 1) /\ o.cls = ClsName(a[4])
       ELSE o.k = 2

TInit == l = 1 /\ NLog >= 1 /\ InitWith(CfgOf(Log[1]))
TStepO == /\ l <= NLog /\ Q <= Len(Ev.att)
          /\ \E o \in Outcomes : Matches(o, Ev.att[Q]) /\ StepWith(o)
          /\ l' = l
TStepP == l <= NLog /\ StepPlain /\ l' = l
TAdvance == /\ l <= NLog /\ pc = "done"
            /\ ret = (Ev.ret = 1) /\ Len(script) = Len(Ev.att)
            /\ l' = l + 1
            /\ IF l + 1 <= NLog THEN Restart(CfgOf(Log[l + 1])) ELSE UNCHANGED vars
TNext == TStepO \/ TStepP \/ TAdvance
TSpec == TInit /\ [][TNext]_tvars
NotAccepted == l <= NLog
(* the invariants of the model hold on what was observed, too *)
Observed == Bounded /\ FalseOnlyExhausted /\ PruneRule
==============================================================================
