---------------------------- MODULE InformedLoops ----------------------------
(* C15, first sentence: "A successful informed sample for cost bound c lies     *)
(* within the space bounds and has a heuristic solution cost strictly below c   *)
(* (and not below the lower bound when one is given)."                          *)
(*                                                                              *)
(* The control structure of the three informed samplers, statement by           *)
(* statement, over an abstract environment that answers, per attempt, what the  *)
(* geometry and the random source would answer:                                 *)
(*    k     number of prolate hyperspheroids (PHSs) of the current list that    *)
(*          contain the drawn point  (numberOfPhsInclusions / isInAnyPhs)       *)
(*    keep  outcome of the coin  rand <= 1/k  (keepSample)                      *)
(*    inb   StateSpace::satisfiesBounds of the drawn state                      *)
(*    cls   class of the heuristic solution cost of the drawn state:            *)
(*          "below" the lower bound / "inside" [min, max) / "atmax" (>= max)    *)
(*                                                                              *)
(*  src/ompl/base/samplers/informed/src/PathLengthDirectInfSampler.cpp          *)
(*     sampleUniform(state, maxCost)            Enter / HRet                     *)
(*     sampleUniform(state, minCost, maxCost)   OTest / OMin / OInc              *)
(*     sampleUniform(state, maxCost, iters)     HEnter / HInf / HBranch          *)
(*     updatePhsDefinitions                     UStep (one list element a step)  *)
(*     sampleBoundsRejectPhs                    WTest / WDraw                    *)
(*     samplePhsRejectBounds (+ keepSample)     PTest / PDraw                    *)
(*  .../RejectionInfSampler.cpp  helper loop    RTest / RDraw (same outer loops) *)
(*  .../OrderedInfSampler.cpp                   OrdCall .. OrdTop (second part)  *)
(*                                                                              *)
(* Environment assumptions (each is a property of another component):           *)
(*   - the default state sampler of the space returns states inside the bounds  *)
(*     (C08), so base draws have inb = TRUE;                                    *)
(*   - a point drawn from PHS i lies strictly inside PHS i (k >= 1; dropped     *)
(*     with Rounding = TRUE) and a point that lies in some PHS of diameter      *)
(*     maxCost has cost < maxCost (isInPhs and heuristicSolnCost evaluate the   *)
(*     same getPathLength; judged on recorded samples by InformedContract);     *)
(*   - rand is in [0, 1): with k = 1 the coin always keeps.                     *)
(* TLC enumerates every answer sequence up to numIters_; each complete run is   *)
(* exported with the expected return flag and the index of the returned draw.   *)
(* harness/informed.cpp replays the scripts on the real classes where the       *)
(* environment is user code (space bounds test, default sampler, measure of the *)
(* space, start/goal geometry) and records attempt sequences where it is the    *)
(* sampler's private random source (InformedLoopsTrace validates those).        *)
EXTENDS Integers, Sequences, FiniteSets, TLC, Json

CONSTANTS Kinds,       \* subset of {"direct", "rejection", "ordered"}
          Overloads,   \* subset of {"max", "minmax"}
          NSet,        \* values of numIters_
          KSet,        \* numbers of start/goal pairs of the direct sampler
          BSet,        \* batch sizes of the ordered sampler
          Costs,       \* 1..C: cost levels of the ordered sampler's samples
          MaxCalls,    \* calls per behaviour of the ordered sampler
          Rounding     \* TRUE: a point drawn from a PHS may land strictly inside none (rounding)

VARIABLES
    \* configuration, fixed per behaviour
    kind, ov, N, K0, can, finite, big,
    \* direct / rejection
    pc, alive, degen, ui, it, draws, script, cur, found, ret,
    \* ordered
    B, deg, bound, q, fresh, feed, calls, batch, nb, bi, lost,
    \* ghost: names of the actions taken (vacuity is measured on the export)
    path

cfgv == <<kind, ov, N, K0, can, finite, big, B, deg>>
loopv == <<pc, alive, degen, ui, it, draws, script, cur, found, ret>>
ordv == <<bound, q, fresh, feed, calls, batch, nb, bi, lost>>
vars == <<cfgv, loopv, ordv, path>>

Step(name) == path' = Append(path, name)
Q == Len(script) + 1
Ask(o) == script' = Append(script, o)
Done(r) == pc' = "done" /\ ret' = r
Classes == {"below", "inside", "atmax"}

(* a configuration: cf.can[i] = "the focal distance of PHS i is below maxCost";  *)
(* cf.big = "the informed subspace is smaller than the average PHS" (whole-space  *)
(* branch); with no PHS left that can improve, summedMeasure_ = 0 and the branch  *)
(* is never taken                                                                 *)
Configs ==
    {cf \in [kind : Kinds \ {"ordered"}, ov : Overloads, N : NSet, K0 : KSet, finite : BOOLEAN, big : BOOLEAN,
             can : UNION {[1..k -> BOOLEAN] : k \in KSet}] :
        /\ DOMAIN cf.can = 1..cf.K0
        /\ cf.kind = "rejection" => cf.K0 = 1 /\ ~cf.big /\ cf.can[1]
        /\ ~cf.finite => ~cf.big /\ \A i \in 1..cf.K0 : cf.can[i]
        /\ cf.big => \E i \in 1..cf.K0 : cf.can[i]}

InitWith(cf) ==
    /\ kind = cf.kind /\ ov = cf.ov /\ N = cf.N /\ K0 = cf.K0 /\ can = cf.can /\ finite = cf.finite /\ big = cf.big
    /\ pc = "start" /\ alive = [i \in 1..cf.K0 |-> i] /\ degen = FALSE /\ ui = 0 /\ it = 0 /\ draws = 0
    /\ script = <<>> /\ cur = 0 /\ found = FALSE /\ ret = FALSE
    /\ B = 0 /\ deg = FALSE /\ bound = 0 /\ q = <<>> /\ fresh = FALSE /\ feed = <<>> /\ calls = <<>>
    /\ batch = 0 /\ nb = 0 /\ bi = 0 /\ lost = 0 /\ path = <<>>

InitOrdered(b, d) ==
    /\ kind = "ordered" /\ ov = "max" /\ N = 0 /\ K0 = 0 /\ can = <<>> /\ finite = TRUE /\ big = FALSE
    /\ pc = "idle" /\ alive = <<>> /\ degen = FALSE /\ ui = 0 /\ it = 0 /\ draws = 0
    /\ script = <<>> /\ cur = 0 /\ found = FALSE /\ ret = FALSE
    /\ B = b /\ deg = d /\ bound = 0 /\ q = <<>> /\ fresh = FALSE /\ feed = <<>> /\ calls = <<>>
    /\ batch = 0 /\ nb = 0 /\ bi = 0 /\ lost = 0 /\ path = <<>>

Init == \/ \E cf \in Configs : InitWith(cf)
        \/ "ordered" \in Kinds /\ \E b \in BSet, d \in BOOLEAN : InitOrdered(b, d)

(* =========================== direct and rejection sampler =========================== *)
IsLoop == kind \in {"direct", "rejection"}

(* sampleUniform(statePtr, maxCost): unsigned int iter = 0; return helper(.., &iter);     *)
(* sampleUniform(statePtr, minCost, maxCost): bool foundSample = false; for (i = 0; ...   *)
Enter ==
    /\ IsLoop /\ pc = "start" /\ Step("Enter")
    /\ pc' = IF ov = "max" THEN "helper" ELSE "o_test"
    /\ UNCHANGED <<cfgv, alive, degen, ui, it, draws, script, cur, found, ret, ordv>>

(* for (unsigned int i = 0u; i < numIters_ && !foundSample; ++i)                          *)
OTest ==
    /\ IsLoop /\ pc = "o_test" /\ Step("OTest")
    /\ IF it < N /\ ~found THEN pc' = "helper" /\ ret' = ret ELSE Done(found)
    /\ UNCHANGED <<cfgv, alive, degen, ui, it, draws, script, cur, found, ordv>>

(* helper: bool foundSample = false; if (!opt_->isFinite(maxCost)) ... else ...           *)
HEnter ==
    /\ IsLoop /\ pc = "helper" /\ Step("HEnter")
    /\ found' = FALSE
    /\ pc' = IF kind = "rejection" THEN "r_test" ELSE IF ~finite THEN "h_inf" ELSE "u_loop"
    /\ ui' = 1
    /\ UNCHANGED <<cfgv, alive, degen, it, draws, script, cur, ret, ordv>>

(* baseSampler_->sampleUniform(statePtr); ++iters; foundSample = true;                 *)
HInf(o) ==
    /\ kind = "direct" /\ pc = "h_inf" /\ Step("HInf")
    /\ o.inb /\ o.keep /\ o.k = 0 /\ o.cls # "atmax"
    /\ Ask(o) /\ cur' = Q /\ it' = it + 1 /\ draws' = draws + 1 /\ found' = TRUE /\ pc' = "h_ret"
    /\ UNCHANGED <<cfgv, alive, degen, ui, ret, ordv>>

(* updatePhsDefinitions: while (phsIter != end) { if (minDiameter < maxCost) keep, ++     *)
(*   else if (size > 1) erase else { degenerate; summedMeasure_ = 0; ++ } }               *)
RemoveAt(s, i) == SubSeq(s, 1, i - 1) \o SubSeq(s, i + 1, Len(s))
UStep ==
    /\ kind = "direct" /\ pc = "u_loop" /\ ui <= Len(alive)
    /\ IF can[alive[ui]] THEN /\ Step("UKeep") /\ ui' = ui + 1 /\ UNCHANGED <<alive, degen>>
       ELSE IF Len(alive) > 1 THEN /\ Step("UErase") /\ alive' = RemoveAt(alive, ui) /\ UNCHANGED <<ui, degen>>
       ELSE /\ Step("UDegenerate") /\ degen' = TRUE /\ ui' = ui + 1 /\ UNCHANGED alive
    /\ UNCHANGED <<cfgv, pc, it, draws, script, cur, found, ret, ordv>>
(* if (informedSubSpace_->getMeasure() < summedMeasure_ / size) whole space else PHSs     *)
HBranch ==
    /\ kind = "direct" /\ pc = "u_loop" /\ ui > Len(alive) /\ Step("HBranch")
    /\ pc' = IF big /\ ~degen THEN "w_test" ELSE "p_test"
    /\ UNCHANGED <<cfgv, alive, degen, ui, it, draws, script, cur, found, ret, ordv>>

(* sampleBoundsRejectPhs: while (!foundSample && *iters < numIters_)                      *)
WTest ==
    /\ pc = "w_test" /\ Step("WTest")
    /\ pc' = IF ~found /\ it < N THEN "w_draw" ELSE "h_ret"
    /\ UNCHANGED <<cfgv, alive, degen, ui, it, draws, script, cur, found, ret, ordv>>
(* { baseSampler_->sampleUniform(statePtr); foundSample = isInAnyPhs(..); ++iters; }   *)
WDraw(o) ==
    /\ pc = "w_draw" /\ Step(IF o.k > 0 THEN "WDrawIn" ELSE "WDrawOut")
    /\ o.inb /\ o.keep /\ o.k \in 0..Len(alive) /\ (o.k = 0 <=> o.cls = "atmax")
    /\ Ask(o) /\ cur' = Q /\ found' = (o.k > 0) /\ it' = it + 1 /\ draws' = draws + 1 /\ pc' = "w_test"
    /\ UNCHANGED <<cfgv, alive, degen, ui, ret, ordv>>

(* samplePhsRejectBounds: while (!foundSample && *iters < numIters_)                      *)
PTest ==
    /\ pc = "p_test" /\ Step("PTest")
    /\ pc' = IF ~found /\ it < N THEN "p_draw" ELSE "h_ret"
    /\ UNCHANGED <<cfgv, alive, degen, ui, it, draws, script, cur, found, ret, ordv>>
(* { phs = randomPhsPtr(); rng_.uniformProlateHyperspheroid(phs, v);                      *)
(*   foundSample = keepSample(v);   [size > 1: rand <= 1/numberOfPhsInclusions(v)]        *)
(*   if (foundSample) { createFullState(statePtr, v); foundSample = satisfiesBounds; }    *)
(*   ++iters; }                                                                           *)
(* k = 0 (the drawn point is strictly inside no PHS) is what the degenerate set always     *)
(* gives (a line segment), and what rounding of the transform can give otherwise           *)
(* (Rounding = TRUE).  keepSample does not look at k for a single PHS and computes         *)
(* rand <= 1.0 / 0 = infinity for several: the draw is kept.                               *)
PDraw(o) ==
    /\ pc = "p_draw"
    /\ Step(IF ~o.keep THEN "PDrawCoinRejects" ELSE IF ~o.inb THEN "PDrawOutOfBounds"
            ELSE IF o.k = 0 THEN "PDrawKeptInNoPhs" ELSE "PDrawKept")
    /\ o.k \in (IF degen THEN {0} ELSE IF Rounding THEN 0..Len(alive) ELSE 1..Len(alive))
    /\ (Len(alive) = 1 \/ o.k <= 1) => o.keep                   \* size 1: no coin; k <= 1: rand <= 1.0 (inf)
    /\ o.keep => (o.cls = "atmax" <=> o.k = 0)                  \* in some PHS of diameter maxCost, or in none
    /\ ~o.keep => ~o.inb /\ o.cls = "inside"                    \* not looked at: one canonical value
    /\ Ask(o)
    /\ cur' = IF o.keep THEN Q ELSE cur                          \* createFullState only for kept draws
    /\ found' = (o.keep /\ o.inb) /\ it' = it + 1 /\ draws' = draws + 1 /\ pc' = "p_test"
    /\ UNCHANGED <<cfgv, alive, degen, ui, ret, ordv>>

(* RejectionInfSampler helper: for (; *iterPtr < numIters_ && !foundSample; ++iterPtr) *)
RTest ==
    /\ pc = "r_test" /\ Step("RTest")
    /\ pc' = IF it < N /\ ~found THEN "r_draw" ELSE "h_ret"
    /\ UNCHANGED <<cfgv, alive, degen, ui, it, draws, script, cur, found, ret, ordv>>
(* { baseSampler_->sampleUniform(statePtr); foundSample = cost(state) < maxCost; }        *)
RDraw(o) ==
    /\ pc = "r_draw" /\ Step(IF o.cls = "atmax" THEN "RDrawReject" ELSE "RDrawAccept")
    /\ o.inb /\ o.keep /\ o.k = 0 /\ (~finite => o.cls # "atmax")
    /\ Ask(o) /\ cur' = Q /\ found' = (o.cls # "atmax") /\ it' = it + 1 /\ draws' = draws + 1 /\ pc' = "r_test"
    /\ UNCHANGED <<cfgv, alive, degen, ui, ret, ordv>>

(* return foundSample; (helper)                                                            *)
HRet ==
    /\ IsLoop /\ pc = "h_ret" /\ Step("HRet")
    /\ IF ov = "max" THEN Done(found) ELSE pc' = "o_min" /\ ret' = ret
    /\ UNCHANGED <<cfgv, alive, degen, ui, it, draws, script, cur, found, ordv>>
(* if (foundSample) foundSample = isCostEquivalentTo(min, c) || isCostBetterThan(min, c)   *)
OMin ==
    /\ IsLoop /\ pc = "o_min"
    /\ Step(IF ~found THEN "OMinNone" ELSE IF script[cur].cls = "below" THEN "OMinBelow" ELSE "OMinOk")
    /\ found' = (found /\ script[cur].cls # "below")
    /\ pc' = "o_inc"
    /\ UNCHANGED <<cfgv, alive, degen, ui, it, draws, script, cur, ret, ordv>>
(* ++i of the for loop: the same counter the helper has already moved                      *)
OInc ==
    /\ IsLoop /\ pc = "o_inc" /\ Step("OInc")
    /\ it' = it + 1 /\ pc' = "o_test"
    /\ UNCHANGED <<cfgv, alive, degen, ui, draws, script, cur, found, ret, ordv>>

Outcomes == [k : 0..(IF K0 = 0 THEN 0 ELSE K0), keep : BOOLEAN, inb : BOOLEAN,
             cls : IF ov = "minmax" THEN Classes ELSE {"inside", "atmax"}]
StepWith(o) == HInf(o) \/ WDraw(o) \/ PDraw(o) \/ RDraw(o)
StepPlain == Enter \/ OTest \/ HEnter \/ UStep \/ HBranch \/ WTest \/ PTest \/ RTest \/ HRet \/ OMin \/ OInc

(* ================================== ordered sampler ================================== *)
(* OrderedInfSampler wraps another informed sampler; `feed` is what the wrapped sampler    *)
(* answered so far: 0 = returned false, c = returned a state of cost level c.  A wrapped    *)
(* sampler that keeps the first sentence answers c < bound; deg = TRUE behaviours also      *)
(* allow c >= bound (the degenerate informed set of a bound at the focal distance).         *)
(* Between calls the caller may move maxCost in either direction.                           *)
Bounds == Costs \cup {1 + Cardinality(Costs)}
WOut(m) == {0} \cup {c \in Costs : deg \/ c < m}
InsertSorted(s, e) ==
    LET n == Cardinality({i \in 1..Len(s) : s[i].c <= e.c})
    IN  SubSeq(s, 1, n) \o <<e>> \o SubSeq(s, n + 1, Len(s))
Return(r, e) ==
    /\ calls' = Append(calls, [m |-> bound, ret |-> r, c |-> e.c, b |-> e.b]) /\ pc' = "idle"

(* bool found = false; bool freshBatch = false; while (!found) ...                          *)
OrdCall(m) ==
    /\ kind = "ordered" /\ pc = "idle" /\ Len(calls) < MaxCalls /\ Step("OrdCall")
    /\ bound' = m /\ fresh' = FALSE /\ nb' = 0 /\ pc' = "ord_while"
    /\ UNCHANGED <<cfgv, alive, degen, ui, it, draws, script, cur, found, ret, q, feed, calls, batch, bi, lost>>
(* if (orderedSamples_.empty()) { createBatch(maxCost); freshBatch = true; ...              *)
OrdWhile ==
    /\ pc = "ord_while" /\ Step(IF q = <<>> THEN "OrdQueueEmpty" ELSE "OrdQueueHasSamples")
    /\ pc' = IF q = <<>> THEN "ord_batch" ELSE "ord_top"
    /\ bi' = 0
    /\ UNCHANGED <<cfgv, alive, degen, ui, it, draws, script, cur, found, ret, bound, q, fresh, feed, calls, batch, nb, lost>>
(* createBatch: for (i = 0; i < batchSize_; ++i) if (infSampler_->sampleUniform(s, maxCost)) push else free *)
OrdDraw(w) ==
    /\ pc = "ord_batch" /\ bi < B /\ Step(IF w = 0 THEN "OrdDrawFailed" ELSE "OrdDrawPushed")
    /\ w \in WOut(bound)
    /\ feed' = Append(feed, w) /\ bi' = bi + 1
    /\ q' = IF w = 0 THEN q ELSE InsertSorted(q, [c |-> w, b |-> batch + 1])
    /\ UNCHANGED <<cfgv, alive, degen, ui, it, draws, script, cur, found, ret, pc, bound, fresh, calls, batch, nb, lost>>
(* ... if (orderedSamples_.empty()) return false;  [no informed sample could be drawn]      *)
OrdBatchEnd ==
    /\ pc = "ord_batch" /\ bi = B
    /\ fresh' = TRUE /\ batch' = batch + 1 /\ nb' = nb + 1
    /\ IF q = <<>> THEN Step("OrdGiveUpEmpty") /\ Return(FALSE, [c |-> 0, b |-> 0])
       ELSE Step("OrdBatchReady") /\ pc' = "ord_top" /\ calls' = calls
    /\ UNCHANGED <<cfgv, alive, degen, ui, it, draws, script, cur, found, ret, bound, q, feed, bi, lost>>
(* if (cost(top) < maxCost) { copy; free; pop; found = true; }                              *)
(* else { clearBatch(); if (freshBatch) return false; }                                     *)
OrdTop ==
    /\ pc = "ord_top"
    /\ IF Head(q).c < bound
       THEN /\ Step("OrdReturnTop") /\ Return(TRUE, Head(q)) /\ q' = Tail(q) /\ lost' = lost
       ELSE /\ q' = <<>>
            /\ lost' = lost + Cardinality({i \in 1..Len(q) : q[i].c < bound})
            /\ IF fresh THEN Step("OrdGiveUpFresh") /\ Return(FALSE, [c |-> 0, b |-> 0])
               ELSE Step("OrdDiscardStale") /\ pc' = "ord_while" /\ calls' = calls
    /\ UNCHANGED <<cfgv, alive, degen, ui, it, draws, script, cur, found, ret, bound, fresh, feed, batch, nb, bi>>

OrdStep == (\E m \in Bounds : OrdCall(m)) \/ OrdWhile \/ (\E w \in {0} \cup Costs : OrdDraw(w)) \/ OrdBatchEnd \/ OrdTop

Next == (\E o \in Outcomes : StepWith(o)) \/ StepPlain \/ OrdStep
Spec == Init /\ [][Next]_vars

(* ===================================== properties ===================================== *)
Finished == pc = "done"
PosDraws == N >= 1
(* the property's first sentence on the model.  For a bound at or below every focal distance  *)
(* (degen, outside the property's quantifier) the direct sampler returns points of the segment *)
(* between the foci, whose cost equals the focal distance: planners rely on the call           *)
(* succeeding there (BIT*, AIT*, EIT* allocate the sampler with UINT_MAX attempts).             *)
(* With Rounding = TRUE this invariant is VIOLATED (known finding sample:direct:               *)
(* SuccessBelowBound): the check runs that configuration to show the counterexample.           *)
SuccessSound ==
    Finished /\ ret => /\ cur \in 1..Len(script)
                       /\ script[cur].inb
                       /\ ~degen => script[cur].cls # "atmax"
                       /\ ov = "minmax" => script[cur].cls # "below"
DegenerateReturnsBoundaryPoints == Finished /\ ret /\ degen => script[cur].cls = "atmax"
(* every call ends, whatever the informed set: within numIters_ draws (Bounded below)          *)
(* attempts never exceed numIters_; the counter may overshoot by the outer ++i only          *)
Bounded == IsLoop => draws <= N /\ draws = Len(script) /\ it <= N + 1 /\ draws <= it
(* false only after the counter reached numIters_.  With [min, max] the counter is moved by  *)
(* the helper AND by the outer for loop, so only every other count is a real attempt         *)
FalseOnlyExhausted ==
    Finished /\ ~ret => /\ it >= N
                        /\ ov = "max" => draws = N
                        /\ ov = "minmax" => 2 * draws >= N
(* no usable draw is thrown away: a draw that is kept, in bounds and in [min, max) ends the  *)
(* call, so the returned draw is the last one and no earlier one was usable                  *)
Usable(o) == o.keep /\ o.inb /\ (o.cls = "inside" \/ (o.cls = "below" /\ ov = "max")) /\
             (kind = "direct" /\ finite /\ big => o.k > 0)
FirstUsableReturned ==
    Finished /\ ~degen => /\ ret => cur = Len(script) /\ Usable(script[cur])
                          /\ \A j \in 1..Len(script) - 1 : ~Usable(script[j])
                          /\ ~ret => \A j \in 1..Len(script) : ~Usable(script[j])
(* pruning: what is left are exactly the PHSs that can still improve, in order; if none can, *)
(* the last one is kept as a degenerate (measure 0) set                                      *)
Improvable == SelectSeq([i \in 1..K0 |-> i], LAMBDA i : can[i])
PruneRule ==
    kind = "direct" /\ pc \in {"w_test", "w_draw", "p_test", "p_draw"} =>
        IF Improvable # <<>> THEN alive = Improvable /\ ~degen
        ELSE alive = <<K0>> /\ degen

(* ordered sampler *)
OrdFinished == kind = "ordered" /\ pc = "idle" /\ Len(calls) = MaxCalls
OrdSound == \A i \in 1..Len(calls) : calls[i].ret => calls[i].c < calls[i].m
OrdSorted == \A i, j \in 1..Len(calls) :
                i < j /\ calls[i].ret /\ calls[j].ret /\ calls[i].b = calls[j].b => calls[i].c <= calls[j].c
OrdQueueSorted == \A i \in 1..Len(q) - 1 : q[i].c <= q[i + 1].c
OrdNothingUsableDiscarded == lost = 0
OrdAtMostTwoBatches == nb <= 2
OrdFalseOnlyAfterFreshBatch == kind = "ordered" /\ pc = "idle" /\ calls # <<>> /\ ~calls[Len(calls)].ret => fresh
OrdFreshExitOnlyDegenerate == \A i \in 1..Len(path) : path[i] = "OrdGiveUpFresh" => deg

(* ================================== scenario export ================================== *)
EmitDone ==
    /\ Finished => PrintT(ToJson([kind |-> kind, ov |-> ov, N |-> N, K0 |-> K0, can |-> can, finite |-> finite,
                                  big |-> big, alive |-> alive, degen |-> degen, script |-> script, ret |-> ret,
                                  idx |-> cur, draws |-> draws, it |-> it, path |-> path]))
    /\ OrdFinished => PrintT(ToJson([kind |-> kind, B |-> B, deg |-> deg, feed |-> feed, calls |-> calls,
                                     path |-> path]))
==============================================================================
