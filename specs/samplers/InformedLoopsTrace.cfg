SPECIFICATION TSpec
CONSTANTS
  Kinds = {"direct", "rejection"}
  Overloads = {"max", "minmax"}
  NSet = {1}
  KSet = {1}
  BSet = {1}
  Costs = {1}
  MaxCalls = 0
  Rounding = TRUE
INVARIANTS NotAccepted Observed
CHECK_DEADLOCK FALSE
