------------------------ MODULE InformedContractTrace ------------------------
(* impl -> spec: every observation harness/informed.cpp recorded on the real    *)
(* classes must be allowed by InformedContract.  An observation that is not      *)
(* allowed is printed with the names of the failed clauses and the cursor still   *)
(* advances, so one pass judges a whole recording; a sampler that threw, a crash  *)
(* or a hang is never allowed.                                                   *)
EXTENDS InformedContract, TraceIO

VARIABLE l
Ev == Log[l]
TInit == l = 1
Report(failed) == IF failed = {} THEN TRUE ELSE PrintT(ToJson([line |-> l, failed |-> failed]))
TSample == l <= NLog /\ Ev.e = "Sample" /\ Report(SampleFailed(Ev)) /\ l' = l + 1
TSurface == l <= NLog /\ Ev.e = "Surface" /\ Report(SurfaceFailed(Ev)) /\ l' = l + 1
TMeasure == l <= NLog /\ Ev.e = "Measure" /\ Report(MeasureFailed(Ev)) /\ l' = l + 1
TInPhs == l <= NLog /\ Ev.e = "InPhs" /\ Report(InPhsFailed(Ev)) /\ l' = l + 1
THist == l <= NLog /\ Ev.e = "Hist" /\ Report(HistFailed(Ev)) /\ l' = l + 1
TBad == l <= NLog /\ Ev.e \in {"Threw", "Crash", "Hang"} /\ Report({Ev.e}) /\ l' = l + 1
TNext == TSample \/ TSurface \/ TMeasure \/ TInPhs \/ THist \/ TBad
TSpec == TInit /\ [][TNext]_l
NotAccepted == l <= NLog
==============================================================================
