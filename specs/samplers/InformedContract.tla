--------------------------- MODULE InformedContract ---------------------------
(* C15 as a contract over observations of the real informed samplers (the only  *)
(* oracle for recorded executions; it knows nothing about loops, transforms or  *)
(* rejection).  One named clause per statement of the property.  The harness    *)
(* reports integers only: flags 0 / 1, counts, and fixed-point relative errors  *)
(* (unit 1e-12, saturated at 2e9); position i of every sequence of one record   *)
(* is the same call / point / bin.                                              *)
(*                                                                              *)
(*  Sample (one sampleUniform call):                                            *)
(*     ret    the call reported success                                         *)
(*     inb    the harness's own bounds test accepts the returned state (or, in  *)
(*            a scripted replay, the scripted bounds test said so)              *)
(*     lt     cost the sampler reports for the state (heuristicSolnCost) < c,   *)
(*            compared exactly as doubles                                       *)
(*     ge     reported cost >= lower bound (1 when none was given)              *)
(*     xlt    the harness's own cost (long double, best focal sum over the      *)
(*            start / goal pairs) < c * (1 + 1e-9)                              *)
(*     xge    own cost >= lower bound * (1 - 1e-9)                              *)
(*     agree  reported and own cost agree to 1e-9 (relative)                    *)
(*  Surface  err[i]: |summed focal distance - c| / scale of the i-th point that *)
(*           RNG::uniformProlateHyperspheroidSurface produced                   *)
(*  Measure  err[i]: relative distance of a reported measure to the analytic    *)
(*           volume (range of the closed form over inputs moved by 4 ulp);      *)
(*           has: hasInformedMeasure answered as documented                     *)
(*  InPhs    exp / in / on: expected membership of constructed points (own      *)
(*           formula), isInPhs, isOnPhs                                         *)
(*  Hist     n_[j] samples in bin j out of `total` successful samples; the      *)
(*           exact probability p_j of bin j under the uniform distribution over *)
(*           (informed set /\ bounds) satisfies elo[j] <= total*p_j <= ehi[j];  *)
(*           out = samples outside the set by the own formula                   *)
EXTENDS Integers, Sequences, FiniteSets

Flags(s) == \A i \in 1..Len(s) : s[i] \in {0, 1}
SameLen(r, fs) == \A f \in fs : Len(r[f]) = Len(r.ret)

TolRel == 1000            \* 1e-9 in units of 1e-12

(* ---- "A successful informed sample for cost bound c lies within the space bounds ..." *)
SuccessInBounds(r) == \A i \in 1..Len(r.ret) : r.ret[i] = 1 => r.inb[i] = 1
(* ---- "... and has a heuristic solution cost strictly below c ..."  exactly as stated, on *)
(* the cost the sampler itself reports.  The bound must lie above the focal distance (the  *)
(* property's quantifier); degen = 1 marks calls with a bound at or below it.              *)
SuccessBelowBound(r) == r.degen = 0 => \A i \in 1..Len(r.ret) : r.ret[i] = 1 => r.lt[i] = 1
(* the same on the harness's own cost, with the 1e-9 margin: fails only when the sample is  *)
(* outside the informed set by more than rounding                                           *)
SuccessBelowBoundCrossCheck(r) == r.degen = 0 => \A i \in 1..Len(r.ret) : r.ret[i] = 1 => r.xlt[i] = 1
(* ---- "... (and not below the lower bound when one is given)."                          *)
SuccessNotBelowLowerBound(r) == \A i \in 1..Len(r.ret) : r.ret[i] = 1 => r.ge[i] = 1 /\ r.xge[i] = 1
(* every call returns, with success or without, within the attempts it was allowed - also   *)
(* when the informed set has measure zero (bound = focal distance), which planners rely on.  *)
(* att[i] / nmax[i]: draws counted by the harness's state space, numIters_ (empty when the   *)
(* call was not made on the counting space; a call that does not return is a Hang event)     *)
ReturnsWithinAttemptBound(r) == /\ Len(r.att) = Len(r.nmax)
                                /\ \A i \in 1..Len(r.att) : r.att[i] >= 0 /\ r.att[i] <= r.nmax[i]
(* the cost the sampler reports is the heuristic the property talks about                 *)
ReportedCostIsFocalSum(r) == \A i \in 1..Len(r.ret) : r.agree[i] = 1
SampleWellFormed(r) == /\ Len(r.ret) > 0 /\ SameLen(r, {"inb", "lt", "ge", "xlt", "xge", "agree"})
                       /\ Flags(r.ret) /\ Flags(r.inb) /\ Flags(r.lt) /\ Flags(r.ge) /\ Flags(r.xlt)
                       /\ Flags(r.xge) /\ Flags(r.agree) /\ r.degen \in {0, 1}
SampleFailed(r) ==
    IF ~SampleWellFormed(r) THEN {"Malformed"}
    ELSE {c \in {"SuccessInBounds", "SuccessBelowBound", "SuccessBelowBoundCrossCheck", "SuccessNotBelowLowerBound",
                 "ReportedCostIsFocalSum", "ReturnsWithinAttemptBound"} :
            ~CASE c = "SuccessInBounds" -> SuccessInBounds(r)
               [] c = "SuccessBelowBound" -> SuccessBelowBound(r)
               [] c = "SuccessBelowBoundCrossCheck" -> SuccessBelowBoundCrossCheck(r)
               [] c = "ReturnsWithinAttemptBound" -> ReturnsWithinAttemptBound(r)
               [] c = "SuccessNotBelowLowerBound" -> SuccessNotBelowLowerBound(r)
               [] c = "ReportedCostIsFocalSum" -> ReportedCostIsFocalSum(r)}

(* ---- "points of the unit sphere surface map to points whose summed focal distance equals c" *)
SurfaceOnBoundary(r) == Len(r.err) > 0 /\ \A i \in 1..Len(r.err) : r.err[i] >= 0 /\ r.err[i] <= TolRel
FocalDistanceRight(r) == r.dfoci_err >= 0 /\ r.dfoci_err <= TolRel
SurfaceFailed(r) == {c \in {"SurfaceOnBoundary", "FocalDistanceRight"} :
                        ~CASE c = "SurfaceOnBoundary" -> SurfaceOnBoundary(r)
                           [] c = "FocalDistanceRight" -> FocalDistanceRight(r)}

(* ---- "the reported measure equals the analytic volume"                                  *)
MeasureAnalytic(r) == Len(r.err) > 0 /\ \A i \in 1..Len(r.err) : r.err[i] >= 0 /\ r.err[i] <= TolRel
MeasureAvailability(r) == r.has = 1
MeasureFailed(r) == {c \in {"MeasureAnalytic", "MeasureAvailability"} :
                        ~CASE c = "MeasureAnalytic" -> MeasureAnalytic(r)
                           [] c = "MeasureAvailability" -> MeasureAvailability(r)}

(* ---- "the sampled region is exactly the prolate hyperspheroid" at the level of the       *)
(* membership predicates the samplers use                                                  *)
MembershipRight(r) == /\ Len(r.exp) = Len(r.in) /\ Len(r.on) = Len(r.in) /\ Flags(r.exp) /\ Flags(r.in) /\ Flags(r.on)
                      /\ \A i \in 1..Len(r.in) : r.in[i] = r.exp[i] /\ r.on[i] = 0
InPhsFailed(r) == IF MembershipRight(r) THEN {} ELSE {"MembershipRight"}

(* ---- "samples are uniformly distributed over the region, so no state that could improve  *)
(* the current solution is excluded from sampling"                                          *)
(* Bernstein's inequality for a binomial count X with mean m <= ehi:                        *)
(*     P(|X - m| >= t) <= 2 exp(-t^2 / (2 (m + t/3))),                                      *)
(* so t^2 > 2 L (ehi + t/3) has probability <= 2 exp(-L); L = 42 gives 1.2e-18 per bin, and   *)
(* below 1e-12 for the at most 1e5 bins of one run.                                          *)
L2 == 84                  \* 2 L
L23 == 28                 \* 2 L / 3
DevCap == 40000           \* no admissible deviation is larger (keeps the squares inside 32 bits)
Dev(r, j) == IF r.n_[j] > r.ehi[j] THEN r.n_[j] - r.ehi[j]
             ELSE IF r.n_[j] < r.elo[j] THEN r.elo[j] - r.n_[j] ELSE 0
BinOk(r, j) == LET d == Dev(r, j) IN d <= DevCap /\ d * d <= L2 * r.ehi[j] + L23 * d
UniformPerBin(r) == \A j \in 1..Len(r.n_) : BinOk(r, j)
(* Pearson's statistic over the bins with an expected count of at least 50 (8 x the value,   *)
(* rounded down, deviations measured to the interval): for df bins it is stochastically      *)
(* below chi-square(df); Laurent-Massart: P(chi2_df >= df + 2 sqrt(df x) + 2 x) <= exp(-x),   *)
(* x = 40 (4e-18: five orders of room for the chi-square approximation of the multinomial).  *)
Counted(r, j) == r.ehi[j] >= 50 /\ r.elo[j] >= 1
RECURSIVE SumTerms(_, _)
SumTerms(r, j) == IF j = 0 THEN 0
                  ELSE SumTerms(r, j - 1) +
                       (IF Counted(r, j) /\ BinOk(r, j) THEN (8 * Dev(r, j) * Dev(r, j)) \div r.ehi[j] ELSE 0)
UniformChiSquare(r) ==
    /\ r.df = Cardinality({j \in 1..Len(r.n_) : Counted(r, j)})
    /\ r.sq * r.sq >= 40 * r.df /\ (r.sq = 0 \/ (r.sq - 1) * (r.sq - 1) < 40 * r.df)
    /\ SumTerms(r, Len(r.n_)) <= 8 * (r.df + 2 * r.sq + 80)
(* no part of the region that should have received more than 50 samples received none         *)
NoneExcluded(r) == \A j \in 1..Len(r.n_) : r.elo[j] > 50 => r.n_[j] > 0
(* only the region: nothing outside the informed set / the bounds, and the counts add up       *)
RECURSIVE SumSeq(_, _)
SumSeq(s, j) == IF j = 0 THEN 0 ELSE SumSeq(s, j - 1) + s[j]
OnlyTheRegion(r) == r.out = 0 /\ SumSeq(r.n_, Len(r.n_)) + r.out = r.total
HistWellFormed(r) == /\ Len(r.n_) > 1 /\ Len(r.elo) = Len(r.n_) /\ Len(r.ehi) = Len(r.n_)
                     /\ \A j \in 1..Len(r.n_) : r.n_[j] >= 0 /\ r.elo[j] <= r.ehi[j] /\ r.ehi[j] <= r.total + 1
                     /\ r.total >= 1000
HistFailed(r) ==
    IF ~HistWellFormed(r) THEN {"Malformed"}
    ELSE {c \in {"UniformPerBin", "UniformChiSquare", "NoneExcluded", "OnlyTheRegion"} :
            ~CASE c = "UniformPerBin" -> UniformPerBin(r)
               [] c = "UniformChiSquare" -> UniformChiSquare(r)
               [] c = "NoneExcluded" -> NoneExcluded(r)
               [] c = "OnlyTheRegion" -> OnlyTheRegion(r)}
==============================================================================
