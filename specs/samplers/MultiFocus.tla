------------------------------ MODULE MultiFocus ------------------------------
(* C15, "only, and all of": the multi-focus procedure of                         *)
(* PathLengthDirectInfSampler::samplePhsRejectBounds as an EXACT counting        *)
(* argument on a finite universe of equally sized cells.                         *)
(*                                                                               *)
(*   Cells     1..M, all of the same measure                                     *)
(*   R         a list of k regions (the prolate hyperspheroids of the start/goal *)
(*             pairs), any non-empty subsets of the cells, overlapping freely;   *)
(*             the measure of a region is its number of cells                    *)
(*   Bnd       the cells inside the space bounds                                 *)
(*                                                                               *)
(* One attempt of the procedure draws three independent uniform numbers          *)
(*   a in 1..A   randomPhsPtr: region i with probability measure_i / sum         *)
(*               (the running-measure loop over the list)                        *)
(*   b in 1..Bm  uniformProlateHyperspheroid: a uniform cell of region i         *)
(*   u in 1..L   keepSample: keep iff u / L <= 1 / (number of regions that       *)
(*               contain the cell)                                               *)
(* and returns the cell iff it is kept and inside the bounds.  A, Bm, L are      *)
(* common multiples, so every triple <<a, b, u>> has the same probability and    *)
(* probabilities are counts of triples: integer arithmetic only.                 *)
(*                                                                               *)
(* TLC proves for EVERY list of regions and every bounds set up to the limits:   *)
(*   OnlyTheUnion   a cell outside the union or outside the bounds is never      *)
(*                  returned                                                     *)
(*   AllOfTheUnion  every cell of the union inside the bounds can be returned    *)
(*   Uniform        all of them with the same number of triples                  *)
(*   ExactValue     namely |triples| / (sum of the measures): the per-attempt    *)
(*                  density is 1 / summedMeasure_, whatever the overlap          *)
(* Variant # "correct" are the model mutations the invariants must reject:       *)
(*   "nokeep"       the 1/k acceptance is dropped                                *)
(*   "uniformpick"  the region is chosen uniformly instead of by measure         *)
(*   "keepfirst"    a cell in several regions is kept only from the first one    *)
(*                  (correct, another valid design: must be accepted)            *)
EXTENDS Integers, Sequences, FiniteSets, TLC

CONSTANTS M, KMax, Variant, Stepwise

Cells == 1..M
RECURSIVE Lcm(_, _), Gcd(_, _)
Gcd(x, y) == IF y = 0 THEN x ELSE Gcd(y, x % y)
Lcm(x, y) == (x * y) \div Gcd(x, y)
RECURSIVE LcmUpTo(_)
LcmUpTo(n) == IF n <= 1 THEN 1 ELSE Lcm(n, LcmUpTo(n - 1))

VARIABLES R, Bnd, stage, a, b, u, reg, cell, out
vars == <<R, Bnd, stage, a, b, u, reg, cell, out>>

K == Len(R)
Meas(i) == Cardinality(R[i])
RECURSIVE Cum(_)
Cum(i) == IF i = 0 THEN 0 ELSE Cum(i - 1) + Meas(i)
Sum == Cum(K)
A == Sum * K                       \* a: fine enough for both ways of choosing a region
Bm == LcmUpTo(M)                   \* b: a multiple of every region size
L == LcmUpTo(KMax)                 \* u: a multiple of every inclusion count
Union == UNION {R[i] : i \in 1..K}
Good == Union \cap Bnd
Inclusions(c) == Cardinality({i \in 1..K : c \in R[i]})

(* randomPhsPtr: randDbl = (x - 1) / Sum for x in 1..Sum; the first region whose running   *)
(* relative measure exceeds it                                                            *)
PickRegion(x) ==
    IF Variant = "uniformpick" THEN ((x - 1) % K) + 1
    ELSE LET t == ((x - 1) \div K) + 1     \* uniform on 1..Sum
         IN  CHOOSE i \in 1..K : Cum(i - 1) < t /\ t <= Cum(i)
(* the y-th cell of region i in increasing order, y uniform on 1..|R_i| *)
RECURSIVE Nth(_, _)
Nth(S, y) == LET m == CHOOSE x \in S : \A z \in S : x <= z IN IF y = 1 THEN m ELSE Nth(S \ {m}, y - 1)
PickCell(i, y) == Nth(R[i], ((y - 1) % Meas(i)) + 1)
(* keepSample: rand = w / L in (0, 1];  keep iff rand <= 1 / numIn  (size 1: always) *)
Keep(i, c, w) ==
    CASE Variant = "nokeep" -> TRUE
      [] Variant = "keepfirst" -> i = CHOOSE j \in 1..K : c \in R[j] /\ \A h \in 1..K : c \in R[h] => j <= h
      [] OTHER -> K = 1 \/ w * Inclusions(c) <= L
Outcome(x, y, w) == LET i == PickRegion(x)
                        c == PickCell(i, y)
                    IN  IF Keep(i, c, w) /\ c \in Bnd THEN c ELSE 0

Triples == (1..A) \X (1..Bm) \X (1..L)
Count(c) == Cardinality({t \in Triples : Outcome(t[1], t[2], t[3]) = c})

RegionLists == UNION {[1..k -> (SUBSET Cells) \ {{}}] : k \in 1..KMax}
Init == /\ R \in RegionLists /\ Bnd \in SUBSET Cells
        /\ stage = "config" /\ a = 0 /\ b = 0 /\ u = 0 /\ reg = 0 /\ cell = 0 /\ out = 0

(* the procedure as a state machine (one attempt, statement by statement) *)
DrawRegion == /\ Stepwise /\ stage = "config" /\ \E x \in 1..A : a' = x /\ reg' = PickRegion(x)
              /\ stage' = "region" /\ UNCHANGED <<R, Bnd, b, u, cell, out>>
DrawCell == /\ stage = "region" /\ \E y \in 1..Bm : b' = y /\ cell' = PickCell(reg, y)
            /\ stage' = "cell" /\ UNCHANGED <<R, Bnd, a, u, reg, out>>
Coin == /\ stage = "cell" /\ \E w \in 1..L : u' = w /\ stage' = (IF Keep(reg, cell, w) THEN "kept" ELSE "done")
        /\ out' = 0 /\ UNCHANGED <<R, Bnd, a, b, reg, cell>>
BoundsTest == /\ stage = "kept" /\ out' = (IF cell \in Bnd THEN cell ELSE 0) /\ stage' = "done"
              /\ UNCHANGED <<R, Bnd, a, b, u, reg, cell>>
Next == DrawRegion \/ DrawCell \/ Coin \/ BoundsTest
Spec == Init /\ [][Next]_vars

AtConfig == stage = "config"
OnlyTheUnion == AtConfig => \A c \in Cells \ Good : Count(c) = 0
AllOfTheUnion == AtConfig => \A c \in Good : Count(c) > 0
Uniform == AtConfig => \A c1, c2 \in Good : Count(c1) = Count(c2)
ExactValue == AtConfig => \A c \in Good : Count(c) * Sum = A * Bm * L
(* the state machine and the counted function are the same procedure *)
MachineIsOutcome == stage = "done" => out = Outcome(a, b, u)
(* a cell drawn from a region lies in it: the coin never divides by zero *)
DrawnCellInRegion == stage \in {"cell", "kept"} => cell \in R[reg] /\ Inclusions(cell) >= 1
==============================================================================
