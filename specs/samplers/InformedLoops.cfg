SPECIFICATION Spec
CONSTANTS
  Kinds = {"direct", "rejection", "ordered"}
  Overloads = {"max", "minmax"}
  NSet = {1, 2, 3}
  KSet = {1, 2}
  BSet = {1, 2}
  Costs = {1, 2}
  MaxCalls = 3
  Rounding = FALSE
INVARIANTS SuccessSound DegenerateReturnsBoundaryPoints Bounded FalseOnlyExhausted FirstUsableReturned PruneRule
           OrdSound OrdSorted OrdQueueSorted OrdNothingUsableDiscarded OrdAtMostTwoBatches
           OrdFalseOnlyAfterFreshBatch OrdFreshExitOnlyDegenerate EmitDone
