SPECIFICATION Spec
CONSTANTS
  M = 3
  KMax = 2
  Variant = "correct"
  Stepwise = TRUE
INVARIANTS OnlyTheUnion AllOfTheUnion Uniform ExactValue MachineIsOutcome DrawnCellInRegion
