--------------------------- MODULE LtlContractTrace ---------------------------
(* Trace validation of executions recorded from the real Automaton, World and  *)
(* ProductGraph classes (harness/ltl.cpp record) against LtlContract.          *)
(* Report-and-advance: every line carries the call with its arguments and what *)
(* the real class answered; the abstract state advances by the call alone.  A  *)
(* line whose answer the contract does not admit is LISTED                     *)
(* ({"reject": line, "why": clause}) and validation goes on, so that one pass  *)
(* yields every refused line.  An unknown event (e.g. {"e":"Crash"}) stops the *)
(* cursor: the trace is then not accepted.                                     *)
(* Two automaton slots (a = 0, 1); the product is built over slot `co` and     *)
(* slot `sa` and the decomposition of the last Decomp line.                    *)
EXTENDS LtlContract, TraceIO

VARIABLES auts,    \* slot -> automaton
          memo,    \* answered step queries <<a, s, w, r>> since the slot was last changed
          asked,   \* slots queried (step / run) since they were created
          past,    \* slot -> the versions of the automaton that have been queried (an answer that only an
                   \* earlier version explains is listed as "stale-after-mutation": the class memoises
                   \* answers and distances and offers mutators)
          dec,     \* [nbr, lab]
          prod,    \* [co, sa, s0, V]: the product last built
          mode,    \* mode of the current execution (from its Reset line)
          l
tvars == <<auts, memo, asked, past, dec, prod, mode, l>>

Ev == Log[l]
Is(e) == l <= NLog /\ Ev.e = e /\ l' = l + 1
Rej(why) == PrintT(ToJson([reject |-> l, ev |-> Ev.e, mode |-> mode, why |-> why]))
Req(cond, why) == IF cond THEN TRUE ELSE Rej(why)
B(i) == i = 1
A0 == EmptyAut(0, 0)
NoDec == [nbr |-> <<>>, lab |-> <<>>]
NoProd == [co |-> 0, sa |-> 1, s0 |-> <<0, 0, 0>>, V |-> {}]
Touch(a) == /\ memo' = {m \in memo : m[1] # a}
            /\ UNCHANGED <<asked, past>>
Fresh(a) == /\ memo' = {m \in memo : m[1] # a}
            /\ asked' = asked \ {a}
            /\ past' = [past EXCEPT ![a] = {}]
Queried(a) == past' = [past EXCEPT ![a] = @ \cup {auts[a]}]
(* every transition / accepting flag some queried version had *)
Merged(a) == [auts[a] EXCEPT !.tr = @ \cup UNION {o.tr : o \in past[a]}]
Verdict(ok, stale, why) == IF ok THEN TRUE ELSE IF stale THEN Rej("stale-after-mutation") ELSE Rej(why)

TInit == /\ auts = [a \in {0, 1} |-> A0] /\ memo = {} /\ asked = {} /\ past = [a \in {0, 1} |-> {}]
         /\ dec = NoDec /\ prod = NoProd
         /\ mode = "none" /\ l = 1

TReset == /\ Is("Reset")
          /\ auts' = [a \in {0, 1} |-> A0] /\ memo' = {} /\ asked' = {} /\ past' = [a \in {0, 1} |-> {}]
          /\ dec' = NoDec /\ prod' = NoProd
          /\ mode' = Ev.mode

(* ------------------------------------------------------------------ building an automaton *)
TNew == /\ Is("New")
        /\ auts' = [auts EXCEPT ![Ev.a] = EmptyAut(Ev.np, Ev.ns)]
        /\ Fresh(Ev.a) /\ UNCHANGED <<dec, prod, mode>>
TAddState == /\ Is("AddState")
             /\ Req(Ev.id = auts[Ev.a].ns, "id")
             /\ auts' = [auts EXCEPT ![Ev.a] = CAddState(@, B(Ev.acc))]
             /\ Touch(Ev.a) /\ UNCHANGED <<dec, prod, mode>>
TSetAcc == /\ Is("SetAcc")
           /\ auts' = [auts EXCEPT ![Ev.a] = CSetAcc(@, Ev.s, B(Ev.v))]
           /\ Touch(Ev.a) /\ UNCHANGED <<dec, prod, mode>>
TSetStart == /\ Is("SetStart")
             /\ auts' = [auts EXCEPT ![Ev.a] = CSetStart(@, Ev.s)]
             /\ Touch(Ev.a) /\ UNCHANGED <<dec, prod, mode>>
TAddTr == /\ Is("AddTr")
          /\ auts' = [auts EXCEPT ![Ev.a] = CAddTr(@, Ev.s, Ev.g, Ev.d)]
          /\ Touch(Ev.a) /\ UNCHANGED <<dec, prod, mode>>
(* an automaton made by a factory: its structure as read through getTransitions() is adopted *)
TLoad == /\ Is("Load")
         /\ auts' = [auts EXCEPT ![Ev.a] = [np |-> Ev.np, ns |-> Ev.ns, start |-> Ev.start, acc |-> SeqToSet(Ev.acc),
                                            tr |-> {<<t[1], t[2], t[3]>> : t \in SeqToSet(Ev.tr)}]]
         /\ Fresh(Ev.a) /\ UNCHANGED <<dec, prod, mode>>

(* ------------------------------------------------------------------ observers *)
Same == UNCHANGED <<auts, dec, prod, mode>>
TStep == /\ Is("Step")
         /\ LET A == auts[Ev.a]
                old == {m \in memo : m[1] = Ev.a /\ m[2] = Ev.s /\ m[3] = Ev.w}
            IN  /\ Verdict(Ev.r \in StepSet(A, Ev.s, Ev.w), Ev.r \in StepSet(Merged(Ev.a), Ev.s, Ev.w), "admissible")
                /\ Req(\A m \in old : m[4] = Ev.r, "same-question-same-answer")
                /\ memo' = memo \cup {<<Ev.a, Ev.s, Ev.w, Ev.r>>}
         /\ asked' = asked \cup {Ev.a} /\ Queried(Ev.a)
         /\ Same
TRun == /\ Is("Run")
        /\ Verdict(RunAdmissible(auts[Ev.a], Ev.ws, B(Ev.r)), RunAdmissible(Merged(Ev.a), Ev.ws, B(Ev.r)), "run")
        /\ asked' = asked \cup {Ev.a} /\ Queried(Ev.a)
        /\ UNCHANGED memo /\ Same
TDist == /\ Is("Dist")
         /\ Verdict(Ev.d = Dist(auts[Ev.a], Ev.s), \E o \in past[Ev.a] : Ev.s < o.ns /\ Ev.d = Dist(o, Ev.s), "value")
         /\ Queried(Ev.a)
         /\ UNCHANGED <<memo, asked>> /\ Same
TIsAcc == /\ Is("IsAcc")
          /\ Req(B(Ev.v) <=> Ev.s \in auts[Ev.a].acc, "value")
          /\ UNCHANGED <<memo, asked, past>> /\ Same
(* numStates / getStartState always; the entries of the transition maps exactly only while nothing was
   asked (eval() memoises answers in the map itself), afterwards every entry must still be a consequence *)
TObs == /\ Is("Obs")
        /\ LET A == auts[Ev.a]
               Got == {<<t[1], t[2], t[3]>> : t \in SeqToSet(Ev.tr)}
           IN  /\ Req(Ev.ns = A.ns, "numStates")
               /\ Req(Ev.start = A.start, "startState")
               /\ Req(Ev.np = A.np, "numProps")
               /\ Req(Ev.a \in asked \/ Got = A.tr, "transitions")
               /\ Req(Ev.a \in asked \/ Ev.nt = Cardinality(A.tr), "numTransitions")
               /\ Verdict(\A t \in Got : t[3] \in Dests(A, t[1], t[2]),
                          \A t \in Got : t[3] \in Dests(Merged(Ev.a), t[1], t[2]), "entries-sound")
        /\ UNCHANGED <<memo, asked, past>> /\ Same

(* ------------------------------------------------------------------ Worlds *)
TWSat == /\ Is("WSat")
         /\ Req(B(Ev.r) <=> Sat(Ev.x, Ev.y), "satisfies")
         /\ UNCHANGED <<memo, asked, past>> /\ Same
TWEq == /\ Is("WEq")
        /\ Req(B(Ev.eq) <=> WEqual(Ev.x, Ev.nx, Ev.y, Ev.ny), "equality")
        /\ Req(WEqual(Ev.x, Ev.nx, Ev.y, Ev.ny) => B(Ev.heq), "equal-worlds-hash-equal")
        /\ UNCHANGED <<memo, asked, past>> /\ Same
TWGet == /\ Is("WGet")
         /\ Req(Ev.x[Ev.p + 1] = Ev.v, "value")
         /\ UNCHANGED <<memo, asked, past>> /\ Same

(* ------------------------------------------------------------------ product graph *)
(* a safety automaton: what is rejected stays rejected *)
SafetyShaped(A) == \A q \in 0..(A.ns - 1) : q \notin A.acc => Dist(A, q) = -1
TDecomp == /\ Is("Decomp")
           /\ dec' = [nbr |-> Ev.nbr, lab |-> Ev.lab]
           /\ prod' = NoProd
           /\ UNCHANGED <<auts, memo, asked, past, mode>>
TPBuild == /\ Is("PBuild")
           /\ LET Co == auts[Ev.co]
                  Sa == auts[Ev.sa]
                  V == TLCEval(PReach(dec, Co, Sa, Ev.s0))
                  n == Len(Ev.states)
              IN  /\ Req(DetOn(Co, dec) /\ DetOn(Sa, dec), "recorder: automata not deterministic on the labels")
                  /\ Req(SeqToSet(Ev.states) = V, "reachable-states")
                  /\ Req(Cardinality(SeqToSet(Ev.states)) = n, "state-initialised-once")
                  /\ Req(\A i \in 1..n : B(Ev.sol[i]) <=> Ev.states[i] \in PSol(Co, Sa, V), "isSolution")
                  /\ Req(\A i \in 1..n : Ev.cd[i] = Dist(Co, Ev.states[i][2]) /\ Ev.sd[i] = Dist(Sa, Ev.states[i][3]),
                         "automaton-distance")
                  /\ prod' = [co |-> Ev.co, sa |-> Ev.sa, s0 |-> Ev.s0, V |-> V]
           /\ asked' = asked \cup {Ev.co, Ev.sa}
           /\ UNCHANGED <<auts, memo, past, dec, mode>>
TPStep == /\ Is("PStep")
          /\ Req(Ev.v = PStep(dec, auts[prod.co], auts[prod.sa], Ev.u, Ev.r2), "getState(parent,region)")
          /\ UNCHANGED <<memo, asked, past, auts, dec, prod, mode>>
TPLead == /\ Is("PLead")
          /\ LET Co == auts[prod.co]
                 Sa == auts[prod.sa]
                 mw == PMinW(dec, Co, Sa, prod.V, Ev.from, Ev.wt)
             IN  IF Ev.ok = 0 THEN Req(mw = -1, "no-lead-although-one-exists")
                 ELSE /\ Req(mw >= 0, "lead-although-none-exists")
                      /\ Req(LeadIsPath(dec, Co, Sa, Ev.from, Ev.lead), "lead-is-path")
                      /\ Req(Len(Ev.lead) >= 1 /\ Ev.lead[Len(Ev.lead)] \in PSol(Co, Sa, prod.V), "lead-ends-in-solution")
                      /\ Req(SafetyShaped(Sa) => \A i \in 1..Len(Ev.lead) : Ev.lead[i][3] \in Sa.acc, "lead-leaves-safe-states")
                      /\ Req(LeadWeight(Ev.lead, Ev.wt) = mw, "lead-minimal")
          /\ UNCHANGED <<memo, asked, past, auts, dec, prod, mode>>

TNext == \/ TReset \/ TNew \/ TAddState \/ TSetAcc \/ TSetStart \/ TAddTr \/ TLoad
         \/ TStep \/ TRun \/ TDist \/ TIsAcc \/ TObs
         \/ TWSat \/ TWEq \/ TWGet
         \/ TDecomp \/ TPBuild \/ TPStep \/ TPLead

TSpec == TInit /\ [][TNext]_tvars
NotAccepted == l <= NLog
==============================================================================
