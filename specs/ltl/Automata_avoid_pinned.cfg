\* expected counterexample: the pinned AvoidanceAutomaton keeps a violating word alive (run() = true)
SPECIFICATION Spec
CONSTANTS
  NP = 2
  MaxLen = 3
  MaxList = 2
  Kinds = {"Avoidance"}
  SeqRepeats = FALSE
  FixedAvoid = FALSE
  CovAnyLetter = FALSE
  ShortLen = 2
  DumpOn = FALSE
INVARIANTS TypeOK LanguageEq PruneSound DistIsMinExt Deterministic RunIffAvoid
