------------------------------ MODULE LtlContract ------------------------------
(* G02 - contract (A) of the discrete layer of the LTL planner for automata    *)
(* built by hand (Automaton::addState / addTransition / setAccepting /         *)
(* setStartState), Worlds and the product graph over an arbitrary              *)
(* decomposition (regions + neighbour lists + one World per region).           *)
(*                                                                             *)
(* A World is a tuple over {0 = false, 1 = true, 2 = not assigned}.  An        *)
(* automaton is [np, ns, start, acc, tr]: tr is a set of <<src, guard, dst>>   *)
(* with at most one entry per (src, guard) - addTransition replaces.           *)
(* step(s, w) may answer with the destination of ANY entry of s whose guard w  *)
(* satisfies (the class calls itself deterministic; which entry wins when the  *)
(* user's guards overlap is not promised), -1 when there is none.              *)
EXTENDS Naturals, Integers, Sequences, FiniteSets, TLC

Sat(w, g) == \A p \in DOMAIN g : g[p] # 2 => (p \in DOMAIN w /\ w[p] = g[p])

EmptyAut(np, ns) == [np |-> np, ns |-> ns, start |-> -1, acc |-> {}, tr |-> {}]
CAddState(A, a) == [A EXCEPT !.ns = @ + 1, !.acc = IF a THEN @ \cup {A.ns} ELSE @]
CSetAcc(A, s, a) == [A EXCEPT !.acc = IF a THEN @ \cup {s} ELSE @ \ {s}]
CSetStart(A, s) == [A EXCEPT !.start = s]
CAddTr(A, s, g, d) == [A EXCEPT !.tr = {e \in @ : ~(e[1] = s /\ e[2] = g)} \cup {<<s, g, d>>}]

Dests(A, s, w) == {e[3] : e \in {e \in A.tr : e[1] = s /\ Sat(w, e[2])}}
StepSet(A, s, w) == IF s = -1 \/ Dests(A, s, w) = {} THEN {-1} ELSE Dests(A, s, w)
RECURSIVE RunSet(_, _, _)
RunSet(A, S, ws) == IF ws = <<>> THEN S
                    ELSE RunSet(A, UNION {StepSet(A, s, Head(ws)) : s \in S}, Tail(ws))
(* run(): false iff the word drives the automaton into "no transition" *)
RunAdmissible(A, ws, r) == LET F == RunSet(A, {A.start}, ws)
                           IN  IF r THEN F # {-1} ELSE -1 \in F

Succ(A, S) == {e[3] : e \in {e \in A.tr : e[1] \in S}}
RECURSIVE Bfs(_, _, _, _)
Bfs(A, frontier, seen, d) ==
    IF frontier = {} THEN -1
    ELSE IF frontier \cap A.acc # {} THEN d
    ELSE LET nxt == Succ(A, frontier) \ seen IN Bfs(A, nxt, seen \cup nxt, d + 1)
(* number of transitions on a shortest path to an accepting state, -1: none reachable *)
Dist(A, s) == Bfs(A, {s}, {s}, 0)

(* ------------------------------------------------------------------ Worlds *)
WEqual(x, nx, y, ny) == nx = ny /\ x = y

(* ------------------------------------------------------------------ product graph *)
(* D = [nbr, lab]: nbr[r + 1] = sequence of neighbours of region r, lab[r + 1] = its World *)
Elems(s) == {s[i] : i \in 1..Len(s)}
DetOn(A, D) == \A s \in 0..(A.ns - 1) : \A r \in 1..Len(D.lab) : Cardinality(Dests(A, s, D.lab[r])) <= 1
Step1(A, s, w) == CHOOSE d \in StepSet(A, s, w) : TRUE
PStep(D, Co, Sa, u, r2) == <<r2, Step1(Co, u[2], D.lab[r2 + 1]), Step1(Sa, u[3], D.lab[r2 + 1])>>
Valid(v) == v[2] # -1 /\ v[3] # -1
Succs(D, Co, Sa, u) == {v \in {PStep(D, Co, Sa, u, r2) : r2 \in Elems(D.nbr[u[1] + 1])} : Valid(v)}
RECURSIVE PClosure(_, _, _, _, _)
PClosure(D, Co, Sa, seen, frontier) ==
    IF frontier = {} THEN seen
    ELSE LET nxt == UNION {Succs(D, Co, Sa, u) : u \in frontier} \ seen
         IN  PClosure(D, Co, Sa, seen \cup nxt, nxt)
PReach(D, Co, Sa, s0) == PClosure(D, Co, Sa, {s0}, {s0})
PSol(Co, Sa, V) == {v \in V : v[2] \in Co.acc /\ v[3] \in Sa.acc}

Inf == 100000000
Min(S) == CHOOSE m \in S : \A n \in S : m <= n
RECURSIVE Relax(_, _, _, _)
Relax(E, V, Dm, n) ==
    IF n = 0 THEN Dm
    ELSE Relax(E, V, TLCEval([v \in V |-> Min({Dm[v]} \cup {Dm[e[1]] + e[3] : e \in {e \in E : e[2] = v /\ Dm[e[1]] < Inf}})]), n - 1)
(* weight of entering region r: wt[r + 1] *)
PEdges(D, Co, Sa, V, wt) == UNION {{<<u, v, wt[v[1] + 1]>> : v \in Succs(D, Co, Sa, u)} : u \in V}
PMinW(D, Co, Sa, V, from, wt) ==
    LET E == TLCEval(PEdges(D, Co, Sa, V, wt))
        Dm == Relax(E, V, TLCEval([v \in V |-> IF v = from THEN 0 ELSE Inf]), Cardinality(V))
        S == PSol(Co, Sa, V)
    IN  IF S = {} \/ Min({Dm[v] : v \in S}) >= Inf THEN -1 ELSE Min({Dm[v] : v \in S})
(* a lead: product edges from `from` to a solution state, through safe-accepting states only *)
LeadIsPath(D, Co, Sa, from, lead) ==
    /\ Len(lead) >= 1 /\ lead[1] = from
    /\ \A i \in 1..(Len(lead) - 1) : lead[i + 1] \in Succs(D, Co, Sa, lead[i])
LeadWeight(lead, wt) ==
    LET RECURSIVE Sum(_)
        Sum(i) == IF i <= 1 THEN 0 ELSE Sum(i - 1) + wt[lead[i][1] + 1]
    IN  Sum(Len(lead))
===============================================================================
