SPECIFICATION TSpec
INVARIANT NotAccepted
CHECK_DEADLOCK FALSE
