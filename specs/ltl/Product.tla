------------------------------- MODULE Product -------------------------------
(* G02 - the product graph of the LTL planner                                  *)
(* (src/ompl/control/planners/ltl/ProductGraph.h, src/ProductGraph.cpp):       *)
(* PropositionalDecomposition x co-safety automaton x safety automaton.        *)
(*                                                                             *)
(* The decomposition is a W x H grid (region y*W + x, 4-neighbourhood); every  *)
(* region carries a World (a total valuation) chosen by TLC from Labels, up to *)
(* the symmetries of the grid.  A product state is <<region, cosafe, safe>>;   *)
(* the start state is <<start region, cosafe start, safe start>> (the World of *)
(* the start region is NOT read - as documented for getState(base::State)).    *)
(*                                                                             *)
(* Contract: a LEAD from the start state is a path of product edges to a state *)
(* that is accepting for both automata (isSolution), every state on it has an  *)
(* accepting safety component ("never leaves safe states"), and its weight is  *)
(* minimal among all such paths; when several leads are minimal each of them   *)
(* is admissible.  Language level (what a user of the planner needs): the      *)
(* Worlds of the regions entered along a lead form a word of the co-safe       *)
(* language, every prefix of it is in the safe language, and no region path    *)
(* with that property is lighter.                                              *)
(*                                                                             *)
(* Two kinds of behaviour per configuration: "explore" walks the product       *)
(* forward from the start state (TLC's own search against the fixpoint Reach), *)
(* "lead" walks an optimal lead backwards from an optimal solution state along *)
(* tight edges - every behaviour of that kind is one admissible lead.          *)
EXTENDS LtlDefs, Json

CONSTANTS W, H,
          LabelCodes,    \* Worlds a region may carry, as bit codes (proposition p true = 2^(p-1))
          CosafeCodes,   \* co-safety automata: 1000 * kind index + proposition list as decimal digits
          SafeCodes,     \* safety automata, same coding (1000 = Accepting, 5003 = Avoidance <<3>>)
          Schemes,       \* subset of {"unit", "dst", "zero"}: edge weight functions
          Symmetry,      \* TRUE: one labelling per orbit of the grid's symmetry group
          PathBound,     \* region paths up to this length are enumerated for the language-level bound
          DumpOn

VARIABLES cfg,   \* [lab, start, co, sa, ws]
          P,     \* facts of the configuration (constant along a behaviour)
          mode,  \* "explore" | "lead"
          cur    \* product state <<r, c, s>>
vars == <<cfg, P, mode, cur>>

KindNames == <<"Accepting", "Coverage", "Sequence", "Disjunction", "Avoidance", "Strict">>
RECURSIVE Digits(_)
Digits(n) == IF n = 0 THEN <<>> ELSE Append(Digits(n \div 10), n % 10)
DecodeAut(code) == [kind |-> KindNames[code \div 1000], props |-> Digits(code % 1000)]
Labels == {a \in Letters : (IF NP = 1 THEN a[1] ELSE IF NP = 2 THEN a[1] + 2 * a[2] ELSE a[1] + 2 * a[2] + 4 * a[3]) \in LabelCodes}
Cosafes == {DecodeAut(c) : c \in CosafeCodes}
Safes == {DecodeAut(c) : c \in SafeCodes}

NR == W * H
Regions == 0..(NR - 1)
X(r) == r % W
Y(r) == r \div W
Reg(x, y) == y * W + x
(* neighbours in the order the harness-side decomposition reports them *)
NbrSeq(r) == SelectSeq(<<IF X(r) > 0 THEN r - 1 ELSE -1, IF X(r) < W - 1 THEN r + 1 ELSE -1,
                         IF Y(r) > 0 THEN r - W ELSE -1, IF Y(r) < H - 1 THEN r + W ELSE -1>>,
                       LAMBDA v : v >= 0)
Nbrs(r) == Elems(NbrSeq(r))

(* ------------------------------------------------------------------ symmetry of the grid *)
Img(k, r) ==
    LET t == IF k >= 4 THEN Reg(Y(r), X(r)) ELSE r      \* transpose (square grids only)
        j == k % 4
        x == IF j \in {1, 3} THEN W - 1 - X(t) ELSE X(t)
        y == IF j \in {2, 3} THEN H - 1 - Y(t) ELSE Y(t)
    IN  Reg(x, y)
Syms == IF W = H THEN 0..7 ELSE 0..3
Code(a) == IF NP = 1 THEN a[1] ELSE IF NP = 2 THEN a[1] + 2 * a[2] ELSE a[1] + 2 * a[2] + 4 * a[3]
RECURSIVE TupLess(_, _, _)
TupLess(a, b, i) == IF i > Len(a) THEN FALSE
                    ELSE IF a[i] < b[i] THEN TRUE ELSE IF a[i] > b[i] THEN FALSE ELSE TupLess(a, b, i + 1)
Flat(lab, st) == [i \in 1..(NR + 1) |-> IF i <= NR THEN Code(lab[i - 1]) ELSE st]
Canonical(lab, st) ==
    \A k \in Syms :
        LET lab2 == [r \in Regions |-> lab[Img(k, r)]]
            st2 == CHOOSE r \in Regions : Img(k, r) = st
        IN  ~TupLess(Flat(lab2, st2), Flat(lab, st), 1)

(* ------------------------------------------------------------------ the product *)
Inf == 1000000
AutCo(c) == AutOf(c.co, FALSE)
AutSa(c) == AutOf(c.sa, FALSE)
Step1(A, s, w) == CHOOSE d \in StepSet(A, s, w) : TRUE   \* deterministic: Labels keep Coverage's assumption
PStep(c, u, r2) == <<r2, Step1(AutCo(c), u[2], c.lab[r2]), Step1(AutSa(c), u[3], c.lab[r2])>>
Valid(v) == v[2] # -1 /\ v[3] # -1
Start(c) == <<c.start, AutCo(c).start, AutSa(c).start>>
Succs(c, u) == {v \in {PStep(c, u, r2) : r2 \in Nbrs(u[1])} : Valid(v)}

RECURSIVE Closure(_, _, _)
Closure(c, seen, frontier) ==
    IF frontier = {} THEN seen
    ELSE LET nxt == UNION {Succs(c, u) : u \in frontier} \ seen IN Closure(c, seen \cup nxt, nxt)
Reach(c) == Closure(c, {Start(c)}, {Start(c)})

NTrue(a) == Cardinality({p \in Props : a[p] = 1})
Wt(c, u, v) == CASE c.ws = "unit" -> 1
                 [] c.ws = "dst" -> 1 + Code(c.lab[v[1]])
                 [] c.ws = "zero" -> IF NTrue(c.lab[v[1]]) = 0 THEN 0 ELSE 1

Min(S) == CHOOSE m \in S : \A n \in S : m <= n
(* shortest distances from the start state: |V| rounds of relaxation (TLCEval: TLC would otherwise keep
   the function unevaluated and recompute it at every application) *)
RECURSIVE Relax(_, _, _, _)
Relax(E, V, D, n) ==
    IF n = 0 THEN D
    ELSE Relax(E, V, TLCEval([v \in V |-> Min({D[v]} \cup {D[e[1]] + e[3] : e \in {e \in E : e[2] = v /\ D[e[1]] < Inf}})]), n - 1)

FactsOf(c) ==
    LET V == TLCEval(Reach(c))
        E == TLCEval(UNION {{<<u, v, Wt(c, u, v)>> : v \in Succs(c, u)} : u \in V})
        S == {v \in V : v[2] \in AutCo(c).acc /\ v[3] \in AutSa(c).acc}
        D == Relax(E, V, TLCEval([v \in V |-> IF v = Start(c) THEN 0 ELSE Inf]), Cardinality(V))
        mw == IF S = {} THEN -1 ELSE Min({D[v] : v \in S})
        \* weight of a lightest path from each state to some solution state: the same relaxation backwards
        B == Relax({<<e[2], e[1], e[3]>> : e \in E}, V, TLCEval([v \in V |-> IF v \in S THEN 0 ELSE Inf]), Cardinality(V))
    IN  [reach |-> V, edges |-> E, sol |-> S, dist |-> D, minw |-> mw, tosol |-> B,
         dead |-> UNION {{<<u, r2>> : r2 \in {r2 \in Nbrs(u[1]) : ~Valid(PStep(c, u, r2))}} : u \in V}]

Opt == {v \in P.sol : P.dist[v] = P.minw}
TightPreds(v) == {e[1] : e \in {e \in P.edges : e[2] = v /\ P.dist[e[1]] + e[3] = P.dist[v]}}
RECURSIVE BackClosure(_, _)
BackClosure(seen, frontier) ==
    IF frontier = {} THEN seen
    ELSE LET nxt == UNION {TightPreds(v) : v \in frontier} \ seen IN BackClosure(seen \cup nxt, nxt)
OnOpt == BackClosure(Opt, Opt)
Ties == Cardinality(Opt) > 1 \/ \E v \in OnOpt : v # Start(cfg) /\ Cardinality(TightPreds(v)) > 1

(* ------------------------------------------------------------------ behaviours *)
Labellings == [Regions -> Labels]
Configs == {c \in [lab : Labellings, start : Regions, co : Cosafes, sa : Safes, ws : Schemes] :
                ~Symmetry \/ Canonical(c.lab, c.start)}

Init == /\ cfg \in Configs
        /\ P = FactsOf(cfg)
        /\ mode \in {"explore", "lead"}
        /\ cur \in (IF mode = "explore" THEN {Start(cfg)} ELSE Opt)

Forward == /\ mode = "explore"
           /\ cur' \in Succs(cfg, cur)
           /\ UNCHANGED <<cfg, P, mode>>
Back == /\ mode = "lead"
        /\ cur' \in TightPreds(cur)
        /\ UNCHANGED <<cfg, P, mode>>
Next == Forward \/ Back
Spec == Init /\ [][Next]_vars

(* ------------------------------------------------------------------ what TLC checks *)
AccCo(v) == v[2] \in AutCo(cfg).acc
AccSa(v) == v[3] \in AutSa(cfg).acc
(* TLC's own forward search never leaves the fixpoint; the fixpoint is closed *)
ExploreInReach == mode = "explore" => cur \in P.reach /\ Succs(cfg, cur) \subseteq P.reach
(* isSolution: accepting co-safe component and accepting (non-rejecting) safe component, nothing else *)
SolutionDef == (cur \in P.sol) <=> (AccCo(cur) /\ AccSa(cur))
(* the distance labelling is a certificate: feasible potential, tight somewhere, start at 0 *)
DistCertificate ==
    (mode = "explore" /\ cur = Start(cfg)) =>
        /\ P.dist[Start(cfg)] = 0
        /\ \A e \in P.edges : P.dist[e[2]] <= P.dist[e[1]] + e[3]
        /\ \A v \in P.reach : v # Start(cfg) => P.dist[v] < Inf /\ TightPreds(v) # {}
(* the same certificate for the weight of a lightest lead from ANY reachable state (computeLead takes the
   initial state as a parameter): 0 exactly on solution states, feasible, tight along some edge *)
ToSolCertificate ==
    (mode = "explore" /\ cur = Start(cfg)) =>
        /\ \A v \in P.reach : (P.tosol[v] = 0 /\ cfg.ws # "zero") => v \in P.sol
        /\ \A v \in P.sol : P.tosol[v] = 0
        /\ \A e \in P.edges : P.tosol[e[1]] <= P.tosol[e[2]] + e[3] \/ P.tosol[e[2]] >= Inf
        /\ \A v \in P.reach \ P.sol : P.tosol[v] < Inf =>
               \E e \in P.edges : e[1] = v /\ P.tosol[v] = P.tosol[e[2]] + e[3]
        /\ (P.minw >= 0 => P.tosol[Start(cfg)] = P.minw) /\ (P.minw < 0 => P.tosol[Start(cfg)] >= Inf)
(* a lead: product edges only (by construction of Back), from an optimal solution state ... *)
LeadNeverLeavesSafe == mode = "lead" => cur \in P.reach /\ AccSa(cur)
LeadWordSafe ==   \* language level: no region entered along the lead shows an avoided proposition
    (mode = "lead" /\ cfg.sa.kind = "Avoidance" /\ cur # Start(cfg)) =>
        \A p \in Elems(cfg.sa.props) : ~Holds(cfg.lab[cur[1]], p)
(* ... back to the start state without ever getting stuck, with the weight adding up to minw *)
LeadReachesStart == mode = "lead" =>
        /\ P.dist[cur] <= P.minw
        /\ (cur # Start(cfg) => TightPreds(cur) # {})
        /\ (P.dist[cur] = 0 /\ TightPreds(cur) = {} => cur = Start(cfg))
LeadWeight == [][mode = "lead" =>
                   \E e \in P.edges : e[1] = cur' /\ e[2] = cur /\ P.dist[cur'] + e[3] = P.dist[cur]]_vars

(* language level: no accepted region path (up to PathBound regions entered) is lighter than minw, and
   when minw = -1 none is accepted at all *)
RECURSIVE RegionPaths(_)
RegionPaths(k) ==   \* sequences of k + 1 regions, the first one is the start region
    IF k = 0 THEN {<<cfg.start>>}
    ELSE UNION {{Append(p, r) : r \in Nbrs(Last(p))} : p \in RegionPaths(k - 1)}
WordOf(p) == [i \in 1..(Len(p) - 1) |-> cfg.lab[p[i + 1]]]
RECURSIVE PathWt(_, _)
PathWt(p, i) ==   \* the schemes depend on the region entered only
    IF i <= 1 THEN 0 ELSE PathWt(p, i - 1) + Wt(cfg, <<p[i - 1], 0, 0>>, <<p[i], 0, 0>>)
Prefixes(w) == {SubSeq(w, 1, j) : j \in 0..Len(w)}
AcceptedPath(p) == /\ InLang(cfg.co.kind, cfg.co.props, WordOf(p))
                   /\ \A v \in Prefixes(WordOf(p)) : InLang(cfg.sa.kind, cfg.sa.props, v)
LanguageBound ==
    (mode = "explore" /\ cur = Start(cfg) /\ PathBound > 0) =>
        \A k \in 0..PathBound : \A p \in RegionPaths(k) :
            AcceptedPath(p) => (P.minw >= 0 /\ PathWt(p, Len(p)) >= P.minw)
(* and the other direction on the same level: the lightest accepted region path within the bound weighs
   exactly minw whenever the product's optimal lead is short enough to be among them *)
LanguageTight ==
    (mode = "explore" /\ cur = Start(cfg) /\ PathBound > 0 /\ P.minw >= 0 /\ P.minw < PathBound /\ cfg.ws # "zero") =>
        \E k \in 0..PathBound : \E p \in RegionPaths(k) : AcceptedPath(p) /\ PathWt(p, Len(p)) = P.minw

(* ------------------------------------------------------------------ export *)
Header == (DumpOn /\ mode = "explore" /\ cur = Start(cfg)) =>
    PrintT(ToJson([W |-> W, H |-> H, np |-> NP, lab |-> [i \in 1..NR |-> cfg.lab[i - 1]], start |-> cfg.start,
                   co |-> cfg.co, sa |-> cfg.sa, ws |-> cfg.ws, nbr |-> [i \in 1..NR |-> NbrSeq(i - 1)],
                   s0 |-> Start(cfg),
                   info |-> {<<v, DistCode(AutCo(cfg), v[2]), DistCode(AutSa(cfg), v[3]),
                               IF v \in P.sol THEN 1 ELSE 0, IF P.dist[v] >= Inf THEN -1 ELSE P.dist[v],
                               IF P.tosol[v] >= Inf THEN -1 ELSE P.tosol[v]>> : v \in P.reach},
                   edges |-> P.edges, dead |-> P.dead, minw |-> P.minw,
                   ties |-> IF P.minw >= 0 /\ Ties THEN 1 ELSE 0]))
===============================================================================
