\* a stand-alone configuration (tools/checks/g02.py generates the ones it runs): 2x2 grid, 3 propositions,
\* codes: 1000*kind + proposition list; kinds 1 Accepting 2 Coverage 3 Sequence 4 Disjunction 5 Avoidance 6 Strict
SPECIFICATION Spec
CONSTANTS
  NP = 3
  W = 2
  H = 2
  LabelCodes = {0, 1, 2, 4}
  CosafeCodes = {2012, 3012, 3021, 4012, 6012}
  SafeCodes = {1000, 5003}
  Schemes = {"unit", "dst", "zero"}
  Symmetry = TRUE
  PathBound = 5
  DumpOn = FALSE
INVARIANTS ExploreInReach SolutionDef DistCertificate LeadNeverLeavesSafe LeadWordSafe LeadReachesStart LanguageBound LanguageTight ToSolCertificate
PROPERTY LeadWeight
