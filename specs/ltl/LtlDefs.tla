------------------------------- MODULE LtlDefs -------------------------------
(* G02 - shared definitions for the LTL planner's discrete layer: Worlds, the  *)
(* declared languages (contract), the transcribed factories of Automaton.cpp,  *)
(* TransitionMap::eval / step and distFromAccepting (implementation-shaped).   *)
(* Propositions are 1..NP here (0..NP-1 in the code).  A World is a tuple over *)
(* {0 = false, 1 = true, 2 = not assigned}.                                    *)
EXTENDS Naturals, Integers, Sequences, FiniteSets, TLC

CONSTANT NP      \* propositions declared for the automata (1..3)

AllKinds == {"Accepting", "Coverage", "Sequence", "Disjunction", "Avoidance", "Strict"}
Props == 1..NP
Letters == [Props -> {0, 1}]
XLetters == {a \in Letters : Cardinality({p \in Props : a[p] = 1}) <= 1}
Unset == [p \in Props |-> 2]
Lit(p, v) == [q \in Props |-> IF q = p THEN v ELSE 2]
(* World::satisfies: every proposition assigned in g is assigned in w with the same value *)
Satisfies(w, g) == \A p \in Props : g[p] # 2 => w[p] = g[p]
Holds(a, p) == a[p] = 1
Elems(s) == {s[i] : i \in 1..Len(s)}
Last(s) == s[Len(s)]

SeqsUpTo(S, n) == UNION {[1..k -> S] : k \in 0..n}
Distinct(s) == \A i, j \in 1..Len(s) : i # j => s[i] # s[j]
(* ------------------------------------------------------------------ contract: languages *)
RECURSIVE SeqIn(_, _)
SeqIn(ps, w) ==   \* ps[1] holds somewhere, the rest in order strictly after it (one letter serves one step)
    IF ps = <<>> THEN TRUE
    ELSE \E j \in 1..Len(w) : Holds(w[j], ps[1]) /\ SeqIn(Tail(ps), SubSeq(w, j + 1, Len(w)))

Idle(a, all) == \A p \in Elems(all) : ~Holds(a, p)
RECURSIVE StrictIn(_, _, _)
StrictIn(ps, all, w) ==  \* as SeqIn, but until the last one became true no listed proposition holds out of turn
    IF ps = <<>> THEN TRUE
    ELSE \E j \in 1..Len(w) : /\ Holds(w[j], ps[1])
                              /\ \A i \in 1..(j - 1) : Idle(w[i], all)
                              /\ StrictIn(Tail(ps), all, SubSeq(w, j + 1, Len(w)))

InLang(kind, ps, w) ==
    CASE kind = "Accepting" -> TRUE
      [] kind = "Coverage" -> \A p \in Elems(ps) : \E j \in 1..Len(w) : Holds(w[j], p)
      [] kind = "Sequence" -> SeqIn(ps, w)
      [] kind = "Disjunction" -> \E p \in Elems(ps) : \E j \in 1..Len(w) : Holds(w[j], p)
      [] kind = "Avoidance" -> \A p \in Elems(ps) : \A j \in 1..Len(w) : ~Holds(w[j], p)
      [] kind = "Strict" -> StrictIn(ps, ps, w)

(* shortest extension over alphabet AL that brings w into the language; -1: none of length <= |ps| *)
ExtBy(c, w, j, AL) == \E v \in [1..j -> AL] : InLang(c.kind, c.props, w \o v)
RECURSIVE MinExtFrom(_, _, _, _)
MinExtFrom(c, w, j, AL) == IF j > Len(c.props) THEN -1
                           ELSE IF ExtBy(c, w, j, AL) THEN j ELSE MinExtFrom(c, w, j + 1, AL)
MinExt(c, w) == MinExtFrom(c, w, 0, XLetters)
Facts(c, w) == LET d == MinExt(c, w)
               IN  <<IF d = 0 THEN 1 ELSE 0, IF d >= 0 THEN 1 ELSE 0, d>>

(* ------------------------------------------------------------------ transcription of the factories *)
RECURSIVE Pow2(_)
Pow2(k) == IF k = 0 THEN 1 ELSE 2 * Pow2(k - 1)
Bit(x, i) == (x \div Pow2(i)) % 2
Mk(ns, acc, tr) == [ns |-> ns, start |-> 0, acc |-> acc, tr |-> tr]   \* tr: set of <<src, guard, dst>>
AllFalse(S) == [q \in Props |-> IF q \in S THEN 0 ELSE 2]

AccAut == Mk(1, {0}, {<<0, Unset, 0>>})
CovAut(cov) ==
    LET k == Len(cov)
        ns == Pow2(k)
        Unc(src) == {i \in 1..k : Bit(src, i - 1) = 0}
    IN  Mk(ns, {ns - 1},
           UNION {{<<src, Lit(cov[i], 1), src + Pow2(i - 1)>> : i \in Unc(src)}
                  \cup {<<src, AllFalse({cov[i] : i \in Unc(src)}), src>>} : src \in 0..(ns - 1)})
SeqAut(sq) ==
    LET k == Len(sq)
    IN  Mk(k + 1, {k},
           UNION {{<<i - 1, Lit(sq[i], 0), i - 1>>, <<i - 1, Lit(sq[i], 1), i>>} : i \in 1..k}
           \cup {<<k, Unset, k>>})
DisjTr(dj) == {<<0, Lit(dj[i], 1), 1>> : i \in 1..Len(dj)} \cup {<<0, AllFalse(Elems(dj)), 0>>, <<1, Unset, 1>>}
DisjAut(dj) == Mk(2, {1}, DisjTr(dj))
AvoidAut(av, fixed) == IF fixed THEN Mk(2, {0}, {<<0, AllFalse(Elems(av)), 0>>})
                ELSE Mk(2, {0}, DisjTr(av))
(* a user-built automaton (addState / addTransition / setAccepting / setStartState): strict order *)
StrictAut(ps) ==
    LET k == Len(ps)
    IN  Mk(k + 1, {k},
           UNION {{<<i - 1, Lit(ps[i], 1), i>>, <<i - 1, AllFalse(Elems(ps)), i - 1>>} : i \in 1..k}
           \cup {<<k, Unset, k>>})

AutOf(c, fixed) == CASE c.kind = "Accepting" -> AccAut
              [] c.kind = "Coverage" -> CovAut(c.props)
              [] c.kind = "Sequence" -> SeqAut(c.props)
              [] c.kind = "Disjunction" -> DisjAut(c.props)
              [] c.kind = "Avoidance" -> AvoidAut(c.props, fixed)
              [] c.kind = "Strict" -> StrictAut(c.props)

(* TransitionMap::eval: the destination of an entry whose World the letter satisfies; which one
   is not determined when several match (unordered_map order), -1 when none does *)
Dests(A, s, w) == {e[3] : e \in {e \in A.tr : e[1] = s /\ Satisfies(w, e[2])}}
StepSet(A, s, w) == IF s = -1 \/ Dests(A, s, w) = {} THEN {-1} ELSE Dests(A, s, w)

(* distFromAccepting: breadth-first search from s, first accepting state dequeued; -1 stands for
   std::numeric_limits<unsigned>::max() *)
Succ(A, S) == {e[3] : e \in {e \in A.tr : e[1] \in S}}
RECURSIVE Bfs(_, _, _, _)
Bfs(A, frontier, seen, d) ==
    IF frontier = {} THEN -1
    ELSE IF frontier \cap A.acc # {} THEN d
    ELSE LET nxt == Succ(A, frontier) \ seen IN Bfs(A, nxt, seen \cup nxt, d + 1)
DistCode(A, s) == Bfs(A, {s}, {s}, 0)

(* the same, declaratively: length of a shortest path in the transition graph *)
Arcs(A) == {<<e[1], e[3]>> : e \in A.tr}
HasPath(A, s, d) == \E p \in [0..d -> 0..(A.ns - 1)] :
                        p[0] = s /\ p[d] \in A.acc /\ \A i \in 0..(d - 1) : <<p[i], p[i + 1]>> \in Arcs(A)
RECURSIVE PathDistFrom(_, _, _)
PathDistFrom(A, s, d) == IF d >= A.ns THEN -1 ELSE IF HasPath(A, s, d) THEN d ELSE PathDistFrom(A, s, d + 1)
PathDist(A, s) == PathDistFrom(A, s, 0)
===============================================================================
