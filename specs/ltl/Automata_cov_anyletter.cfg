\* expected counterexample: CoverageAutomaton needs its documented assumption (mutually exclusive
\* propositions): a letter with two uncovered propositions matches two entries of the transition map
SPECIFICATION Spec
CONSTANTS
  NP = 2
  MaxLen = 2
  MaxList = 2
  Kinds = {"Coverage"}
  SeqRepeats = FALSE
  FixedAvoid = FALSE
  CovAnyLetter = TRUE
  ShortLen = 0
  DumpOn = FALSE
INVARIANTS TypeOK Deterministic
