\* the repaired shape: a violating letter has no transition, run() = false
SPECIFICATION Spec
CONSTANTS
  NP = 2
  MaxLen = 3
  MaxList = 2
  Kinds = {"Avoidance"}
  SeqRepeats = FALSE
  FixedAvoid = TRUE
  CovAnyLetter = FALSE
  ShortLen = 2
  DumpOn = FALSE
INVARIANTS TypeOK LanguageEq PruneSound DistIsMinExt Deterministic RunIffAvoid
