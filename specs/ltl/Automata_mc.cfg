SPECIFICATION Spec
CONSTANTS
  NP = 3
  MaxLen = 4
  MaxList = 3
  Kinds = {"Accepting", "Coverage", "Sequence", "Disjunction", "Avoidance", "Strict"}
  SeqRepeats = FALSE
  FixedAvoid = FALSE
  CovAnyLetter = FALSE
  ShortLen = 2
  DumpOn = FALSE
INVARIANTS TypeOK LanguageEq RunIffCosafe PruneSound DistIsMinExt Deterministic TotalOnFactories BfsIsShortestPath AlphabetLemma
PROPERTY Closure
