------------------------------ MODULE GridDecomp ------------------------------
(* G02 - ompl::control::GridDecomposition (syclop/GridDecomposition.h, .cpp):  *)
(* Len^Dim cells over a box, region id <-> grid coordinate, neighbours,        *)
(* locateRegion on cell boundaries, cell volume.                               *)
(*                                                                             *)
(* Contract: ids 0..Len^Dim-1 are the grid coordinates in row-major order      *)
(* (first coordinate most significant); the neighbours of a cell are exactly   *)
(* the other cells whose coordinates differ by at most one in every dimension  *)
(* (each once); a point belongs to the cell whose half-open box [low, high)    *)
(* contains it, the upper face of the whole box belongs to the last cell.      *)
(* Implementation-shaped: the offset tables of getNeighbors for Dim = 1, 2, 3  *)
(* and the recursion for Dim >= 4 are transcribed and compared.                *)
(* The box is [Low, Low + Len*Cell]^Dim with integer Low and Cell, points are  *)
(* the integer lattice points of the box (so every boundary is hit exactly).   *)
EXTENDS Naturals, Integers, Sequences, FiniteSets, TLC, Json

CONSTANTS Shapes,   \* set of <<Len, Dim>> coded as 10 * Len + Dim
          Cell,     \* edge length of a cell
          LowMags,  \* lower corner tried = -m for m in LowMags (same in every dimension)
          DumpOn

VARIABLES shape, low, r
vars == <<shape, low, r>>

LenOf(s) == s \div 10
DimOf(s) == s % 10
RECURSIVE Pow(_, _)
Pow(b, e) == IF e = 0 THEN 1 ELSE b * Pow(b, e - 1)
NumRegions(s) == Pow(LenOf(s), DimOf(s))

(* regionToGridCoord / gridCoordToRegion *)
Coord(s, rid) == [i \in 1..DimOf(s) |-> (rid \div Pow(LenOf(s), DimOf(s) - i)) % LenOf(s)]
RECURSIVE RidFrom(_, _, _)
RidFrom(s, c, i) == IF i > DimOf(s) THEN 0 ELSE c[i] * Pow(LenOf(s), DimOf(s) - i) + RidFrom(s, c, i + 1)
Rid(s, c) == RidFrom(s, c, 1)
Coords(s) == [1..DimOf(s) -> 0..(LenOf(s) - 1)]

(* contract: Moore neighbourhood *)
Abs(x) == IF x < 0 THEN -x ELSE x
Adjacent(s, a, b) == a # b /\ \A i \in 1..DimOf(s) : Abs(a[i] - b[i]) <= 1
NbrsDecl(s, rid) == {Rid(s, c) : c \in {c \in Coords(s) : Adjacent(s, Coord(s, rid), c)}}

(* transcription of getNeighbors: offsets as listed in the source *)
Off2 == <<<<-1, -1>>, <<0, -1>>, <<1, -1>>, <<-1, 0>>, <<1, 0>>, <<-1, 1>>, <<0, 1>>, <<1, 1>>>>
Off3 == <<<<-1, 0, 0>>, <<1, 0, 0>>, <<0, -1, 0>>, <<0, 1, 0>>, <<-1, -1, 0>>, <<-1, 1, 0>>, <<1, -1, 0>>,
          <<1, 1, 0>>, <<-1, 0, -1>>, <<1, 0, -1>>, <<0, -1, -1>>, <<0, 1, -1>>, <<-1, -1, -1>>, <<-1, 1, -1>>,
          <<1, -1, -1>>, <<1, 1, -1>>, <<-1, 0, 1>>, <<1, 0, 1>>, <<0, -1, 1>>, <<0, 1, 1>>, <<-1, -1, 1>>,
          <<-1, 1, 1>>, <<1, -1, 1>>, <<1, 1, 1>>, <<0, 0, -1>>, <<0, 0, 1>>>>
InGrid(s, c) == \A i \in 1..DimOf(s) : c[i] >= 0 /\ c[i] < LenOf(s)
FromOffsets(s, rid, offs) ==
    LET c == Coord(s, rid)
        cand == [k \in 1..Len(offs) |-> [i \in 1..DimOf(s) |-> c[i] + offs[k][i]]]
    IN  [k \in 1..Len(offs) |-> IF InGrid(s, cand[k]) THEN Rid(s, cand[k]) ELSE -1]
(* general recursion: per dimension the cell before (if any), the same, the cell after (if any); the
   candidate equal to the cell itself is dropped *)
RECURSIVE GenSub(_, _, _, _)
GenSub(s, c, dim, cand) ==
    IF dim > DimOf(s) THEN (IF cand = c THEN <<>> ELSE <<Rid(s, cand)>>)
    ELSE (IF c[dim] >= 1 THEN GenSub(s, c, dim + 1, [cand EXCEPT ![dim] = c[dim] - 1]) ELSE <<>>)
         \o GenSub(s, c, dim + 1, [cand EXCEPT ![dim] = c[dim]])
         \o (IF c[dim] + 1 < LenOf(s) THEN GenSub(s, c, dim + 1, [cand EXCEPT ![dim] = c[dim] + 1]) ELSE <<>>)
NbrsCode(s, rid) ==
    LET raw == CASE DimOf(s) = 1 -> <<IF rid > 0 THEN rid - 1 ELSE -1, IF rid < LenOf(s) - 1 THEN rid + 1 ELSE -1>>
                 [] DimOf(s) = 2 -> FromOffsets(s, rid, Off2)
                 [] DimOf(s) = 3 -> FromOffsets(s, rid, Off3)
                 [] OTHER -> GenSub(s, Coord(s, rid), 1, Coord(s, rid))
    IN  SelectSeq(raw, LAMBDA v : v >= 0)

(* points: integer lattice of the box; the cell of a point *)
Axis(s) == 0..(LenOf(s) * Cell)             \* offsets from the lower corner
CellIndex(s, x) == IF x = LenOf(s) * Cell THEN LenOf(s) - 1 ELSE x \div Cell
Points(s) == [1..DimOf(s) -> Axis(s)]
Locate(s, p) == Rid(s, [i \in 1..DimOf(s) |-> CellIndex(s, p[i])])
BoxOf(s, rid) == [i \in 1..DimOf(s) |-> <<Coord(s, rid)[i] * Cell, (Coord(s, rid)[i] + 1) * Cell>>]
Inside(s, rid, p) == \A i \in 1..DimOf(s) :
                        /\ BoxOf(s, rid)[i][1] <= p[i]
                        /\ (p[i] < BoxOf(s, rid)[i][2] \/ (p[i] = LenOf(s) * Cell /\ BoxOf(s, rid)[i][2] = p[i]))

Init == shape \in Shapes /\ low \in {0 - m : m \in LowMags} /\ r = 0
Walk == /\ \E k \in 1..Len(NbrsCode(shape, r)) : r' = NbrsCode(shape, r)[k]
        /\ UNCHANGED <<shape, low>>
Next == Walk
Spec == Init /\ [][Next]_vars

SeqSet(q) == {q[i] : i \in 1..Len(q)}
InRange == r \in 0..(NumRegions(shape) - 1)
CoordBijection == Rid(shape, Coord(shape, r)) = r /\ Coord(shape, r) \in Coords(shape)
NeighboursAreMoore == /\ SeqSet(NbrsCode(shape, r)) = NbrsDecl(shape, r)
                      /\ Cardinality(SeqSet(NbrsCode(shape, r))) = Len(NbrsCode(shape, r))   \* each once
NeighboursSymmetric == \A q \in NbrsDecl(shape, r) : r \in NbrsDecl(shape, q)
(* every point lies in exactly one cell: the one Locate names (evaluated once per shape) *)
PartitionOK == r = 0 => \A p \in Points(shape) :
                   /\ Inside(shape, Locate(shape, p), p)
                   /\ \A q \in 0..(NumRegions(shape) - 1) : Inside(shape, q, p) => q = Locate(shape, p)

Shift(p) == [i \in 1..Len(p) |-> p[i] + low]
Emit == DumpOn =>
    /\ PrintT(ToJson([len |-> LenOf(shape), dim |-> DimOf(shape), cell |-> Cell, low |-> low, r |-> r,
                      coord |-> Coord(shape, r), nbrs |-> NbrsDecl(shape, r),
                      box |-> [i \in 1..DimOf(shape) |-> <<BoxOf(shape, r)[i][1] + low, BoxOf(shape, r)[i][2] + low>>],
                      vol |-> Pow(Cell, DimOf(shape)), n |-> NumRegions(shape)]))
    /\ (r = 0 => PrintT(ToJson([len |-> LenOf(shape), dim |-> DimOf(shape), cell |-> Cell, low |-> low,
                                pts |-> {<<Shift(p), Locate(shape, p)>> : p \in Points(shape)}])))
===============================================================================
