------------------------------- MODULE Automata -------------------------------
(* G02 - the finite automata of the LTL planner                                *)
(* (src/ompl/control/planners/ltl/Automaton.h, src/Automaton.cpp, World.h).    *)
(*                                                                             *)
(* Contract (A): the LANGUAGE each factory promises, written declaratively     *)
(* over finite words of valuations (InLang), and two notions derived from the  *)
(* language alone: a word is LIVE when some extension is in the language       *)
(* (that is what Automaton::run() documents: "false iff there does not exist   *)
(* an extension to trace that will lead it to an accepting state"), and the    *)
(* DISTANCE of a word is the length of a shortest such extension (what         *)
(* distFromAccepting() of the state reached by the word has to return,         *)
(* whatever the automaton looks like inside).                                  *)
(*                                                                             *)
(* Implementation-shaped part (I): a transcription of every factory of         *)
(* Automaton.cpp (states, guards as partial Worlds, accepting set), of         *)
(* TransitionMap::eval / step / run and of the breadth-first search of         *)
(* distFromAccepting.  TLC reads EVERY word up to MaxLen with the transcribed  *)
(* automaton and compares with the contract; every word of length MaxLen is    *)
(* exported with the contract's facts per prefix and replayed on the real      *)
(* Automaton / World classes (harness/ltl.cpp).                                *)
(*                                                                             *)
(* Propositions are 1..NP here (0..NP-1 in the code).  A World is a tuple over *)
(* {0 = false, 1 = true, 2 = not assigned}.                                    *)
EXTENDS LtlDefs, Json

CONSTANTS MaxLen,        \* longest word read
          MaxList,       \* longest proposition list handed to a factory
          Kinds,         \* subset of AllKinds
          SeqRepeats,    \* TRUE: SequenceAutomaton also gets lists with repeated propositions
          FixedAvoid,    \* FALSE: AvoidanceAutomaton as pinned (the rejecting state is an ordinary
                         \*        state with a self loop); TRUE: violating letters have no transition
          CovAnyLetter,  \* FALSE: CoverageAutomaton reads mutually exclusive letters only (its
                         \*        documented assumption); TRUE: every letter (determinism fails)
          ShortLen,      \* words up to this length: the restricted extension alphabet is justified
          DumpOn         \* TRUE: print header / leaf lines

VARIABLES cfg,   \* [kind, props]
          aut,   \* the transcribed automaton (constant along a behaviour)
          word,  \* letters read so far
          run,   \* automaton states visited (I): start state, then one per letter; -1 = no transition
          exp    \* contract facts per prefix (A): <<accepted, live, distance>>
vars == <<cfg, aut, word, run, exp>>

Lists(kind) ==
    CASE kind = "Accepting" -> {<<>>}
      [] kind = "Sequence" -> IF SeqRepeats THEN SeqsUpTo(Props, MaxList)
                              ELSE {s \in SeqsUpTo(Props, MaxList) : Distinct(s)}
      [] kind \in {"Disjunction", "Strict"} -> {s \in SeqsUpTo(Props, MaxList) : Distinct(s) /\ Len(s) >= 1}
      [] OTHER -> {s \in SeqsUpTo(Props, MaxList) : Distinct(s)}


(* ------------------------------------------------------------------ behaviours: read a word *)
Configs == {[kind |-> k, props |-> ps] : k \in Kinds, ps \in SeqsUpTo(Props, MaxList)}
LettersFor(c) == IF c.kind = "Coverage" /\ ~CovAnyLetter THEN XLetters ELSE Letters

Init == /\ cfg \in {c \in Configs : c.props \in Lists(c.kind)}
        /\ aut = AutOf(cfg, FixedAvoid)
        /\ word = <<>>
        /\ run = <<aut.start>>
        /\ exp = <<Facts(cfg, <<>>)>>

Read(a) == /\ Len(word) < MaxLen
           /\ \E d \in StepSet(aut, Last(run), a) : run' = Append(run, d)
           /\ word' = Append(word, a)
           /\ exp' = Append(exp, Facts(cfg, word'))
           /\ UNCHANGED <<cfg, aut>>
Next == \E a \in LettersFor(cfg) : Read(a)
Spec == Init /\ [][Next]_vars

(* ------------------------------------------------------------------ what TLC checks *)
Cur == Last(run)
Now == Last(exp)
Cosafe == cfg.kind # "Avoidance"

TypeOK == /\ Len(run) = Len(word) + 1 /\ Len(exp) = Len(run)
          /\ Cur \in -1..(aut.ns - 1)
(* the constructed automaton accepts exactly the declared language *)
LanguageEq == (Cur # -1 /\ Cur \in aut.acc) <=> (Now[1] = 1)
(* run() answers false exactly on words without an accepted extension *)
RunIffCosafe == Cosafe => ((Cur # -1) <=> (Now[2] = 1))
RunIffAvoid == ~Cosafe => ((Cur # -1) <=> (Now[2] = 1))
(* a transition is never lost early: a dead state is only entered by a word that is dead *)
PruneSound == Cur = -1 => Now[2] = 0
(* distFromAccepting of the state reached = length of a shortest accepted extension *)
DistIsMinExt == Cur # -1 => DistCode(aut, Cur) = Now[3]
(* step() is a function where the code assumes a deterministic automaton *)
Deterministic == Cur # -1 => \A a \in LettersFor(cfg) : Cardinality(Dests(aut, Cur, a)) <= 1
(* the factories build complete automata: a total valuation always finds a transition *)
TotalOnFactories == (Cur # -1 /\ cfg.kind # "Strict" /\ ~(cfg.kind = "Avoidance" /\ FixedAvoid))
                        => \A a \in LettersFor(cfg) : Dests(aut, Cur, a) # {}
(* the breadth-first search returns the true shortest path length, for every state *)
BfsIsShortestPath == Len(word) = 0 => \A s \in 0..(aut.ns - 1) : DistCode(aut, s) = PathDist(aut, s)
(* mutually exclusive letters suffice as extension alphabet (checked with all letters on short words) *)
AlphabetLemma == Len(word) <= ShortLen => MinExtFrom(cfg, word, 0, LettersFor(cfg)) = Now[3]
(* co-safe languages are closed under extension, the safe one under prefixes *)
Closure == [][IF Cosafe THEN (Now[1] = 1 => Now'[1] = 1) ELSE (Now'[1] = 1 => Now[1] = 1)]_vars

(* ------------------------------------------------------------------ export *)
Header == (DumpOn /\ Len(word) = 0) =>
              PrintT(ToJson([hdr |-> 1, k |-> cfg.kind, p |-> cfg.props, np |-> NP, ns |-> aut.ns,
                             start |-> aut.start, acc |-> aut.acc, tr |-> aut.tr,
                             excl |-> IF LettersFor(cfg) = XLetters /\ XLetters # Letters THEN 1 ELSE 0]))
Dump == (DumpOn /\ Len(word') = MaxLen) =>
              PrintT(ToJson([k |-> cfg.kind, p |-> cfg.props, w |-> word', s |-> run', x |-> exp']))
===============================================================================
