SPECIFICATION Spec
CONSTANTS
  Shapes = {11, 21, 31, 41, 12, 22, 32, 42, 13, 23, 33, 14, 24}
  Cell = 2
  LowMags = {0, 3}
  DumpOn = FALSE
INVARIANTS InRange CoordBijection NeighboursAreMoore NeighboursSymmetric PartitionOK
