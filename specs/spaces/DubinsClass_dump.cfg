SPECIFICATION Spec
INVARIANTS TypeOK WordAmongSix
ACTION_CONSTRAINT Dump
