---------------------------- MODULE ReedsSheppClass ----------------------------
(* Implementation-shaped transcription of the finite structure of                *)
(* src/ompl/base/spaces/src/ReedsSheppStateSpace.cpp (property C14):             *)
(*                                                                                *)
(*   reedsSheppPathType[18][5]            :481-501   Rows                         *)
(*   the eight base formulas 8.1 - 8.11   :79-442    Formula (word, sign          *)
(*                                                   conditions on t, u, v,       *)
(*                                                   argument assembly)           *)
(*   CSC / CCC / CCCC / CCSC / CCSCC      :115-467   Cand: the 44 candidate       *)
(*                                                   evaluations, literally: which*)
(*                                                   formula on which transformed *)
(*                                                   input (timeflip, reflect,    *)
(*                                                   backwards), which table row  *)
(*                                                   and which signed arguments   *)
(*                                                   the ReedsSheppPath is built  *)
(*                                                   from, and the family's Lmin  *)
(*                                                   offset                       *)
(*                                                                                *)
(* ::reedsShepp keeps a running minimum over the 44 candidates: its only abstract *)
(* input is WHICH candidate wins (and the sign of the unconstrained parameter).   *)
(* One behaviour = one winner = one case; the observable identity of a case is    *)
(* (table row, signs of the segment lengths): 48 of them, the 48 Reeds-Shepp      *)
(* words.  Table sanity is decided on the model: the row the code names is the    *)
(* base word under the transform, the arguments are the base arguments under the  *)
(* transform, every row alternates legally, no word has more than two cusps, the  *)
(* compared lengths are whole-path lengths, and the set of cases is closed under  *)
(* timeflip, reflection and reversal of the path (the design reason why the       *)
(* distance is symmetric).                                                        *)
EXTENDS ReedsSheppTable, TLC, Json

(* -------------------------------------------------------------------- machine *)
VARIABLES pc, win, sv
vars == <<pc, win, sv>>
Init == pc = "fold" /\ win = 0 /\ sv = [t |-> "+", u |-> "+", v |-> "+"]
(* the running minimum ends with candidate n as the last one that was strictly shorter *)
Pick(n, s) == /\ pc = "fold"
              /\ s \in Inst(Formula[Cand[n].f].sg)
              /\ win' = n /\ sv' = s /\ pc' = "done"
Next == \E n \in 1..NCand, s \in [{"t", "u", "v"} -> {"+", "-"}] : Pick(n, s)
Spec == Init /\ [][Next]_vars
Done == pc = "done"

TypeOK == pc \in {"fold", "done"} /\ win \in 0..NCand
WinnerIsARow == Done => Cand[win].row \in 0..17 /\ Len(Cand[win].args) = Len(Row(Cand[win].row))
AtMostTwoCusps == Done => Cusps(SignsOf(Cand[win], sv)) <= 2
CaseJson == [k |-> "rwin", cand |-> win, fam |-> Cand[win].fam, f |-> Cand[win].f, tr |-> Cand[win].tr, bw |-> Cand[win].bw,
             row |-> Cand[win].row, signs |-> Cat(SignsOf(Cand[win], sv)), cusps |-> Cusps(SignsOf(Cand[win], sv))]
EmitCase == Done => PrintT(ToJson(CaseJson))
Dump == PrintT(ToJson([k |-> "edge", src |-> [pc |-> pc], dst |-> [pc |-> pc', win |-> win', sv |-> sv']]))

(* ----------------------------------------------------- static sanity of the table *)
IsTurn(x) == x \in {L, R}
LegalWord(w) ==
    /\ Len(w) \in 3..5
    /\ \A n \in 1..Len(w) - 1 : ~(IsTurn(w[n]) /\ w[n] = w[n + 1])        \* consecutive arcs turn opposite ways
    /\ \A n \in 1..Len(w) : w[n] = S => n > 1 /\ n < Len(w) /\ IsTurn(w[n - 1]) /\ IsTurn(w[n + 1])
    /\ Cardinality({n \in 1..Len(w) : w[n] = S}) <= 1
ASSUME RowsLegal == \A n \in 0..17 : LegalWord(Row(n))
ASSUME RowsDistinct == \A m, n \in 0..17 : m # n => Row(m) # Row(n)
ASSUME RowsClosedUnderReflection == \A n \in 0..17 : \E m \in 0..17 : Row(m) = Map(Row(n), Flip)
ASSUME RowsClosedUnderReversal == \A n \in 0..17 : \E m \in 0..17 : Row(m) = Rev(Row(n))
(* which formula + which transform yields which row, and with which arguments *)
ASSUME RowIsBaseWordUnderTransform ==
    \A n \in 1..NCand : Row(Cand[n].row) = WordUnder(Formula[Cand[n].f].w, Cand[n].tr, Cand[n].bw)
ASSUME ArgsAreBaseArgsUnderTransform ==
    \A n \in 1..NCand : Cand[n].args = ArgsUnder(Formula[Cand[n].f].args, Cand[n].tr, Cand[n].bw)
(* every family tries all four transforms of each of its formulas (and of the backwards problem where it has one) *)
ASSUME FamiliesComplete ==
    \A n \in 1..NCand : \A tr \in {"id", "tf", "rf", "tfrf"} :
        \E m \in 1..NCand : Cand[m].fam = Cand[n].fam /\ Cand[m].f = Cand[n].f /\ Cand[m].bw = Cand[n].bw /\ Cand[m].tr = tr
(* the compared quantity is the length of the whole path: fixed pi/2 arcs are what the family subtracts, *)
(* and u counts as often as it occurs                                                                   *)
Count(s, P(_)) == Cardinality({n \in 1..Len(s) : P(s[n])})
IsH(a) == a \in {"h", "-h"}
IsU(a) == a \in {"u", "-u"}
ASSUME ComparedLengthIsPathLength ==
    \A n \in 1..NCand : /\ Count(Cand[n].args, IsH) = FamilyOffset[Cand[n].fam]
                        /\ Count(Cand[n].args, IsU) = FamilyUWeight[Cand[n].fam]
(* an arc of fixed length pi/2 is driven in the same direction as the straight segment next to it *)
ASSUME FixedArcsJoinTheStraightSmoothly ==
    \A n \in 1..NCand : \A s \in Inst(Formula[Cand[n].f].sg) :
        LET w == Row(Cand[n].row)
            sg == SignsOf(Cand[n], s)
        IN  \A k \in 1..Len(w) : IsH(Cand[n].args[k]) =>
               \E j \in {k - 1, k + 1} \cap 1..Len(w) : w[j] = S /\ sg[j] = sg[k]
(* the 48 words, closed under the three symmetries of the problem *)
MirCase(c) == [row |-> CHOOSE m \in 0..17 : Row(m) = Map(Row(c.row), Flip), signs |-> c.signs]
FlipCase(c) == [row |-> c.row, signs |-> Map(c.signs, NegS)]
RevCase(c) == [row |-> CHOOSE m \in 0..17 : Row(m) = Rev(Row(c.row)), signs |-> Map(Rev(c.signs), NegS)]
ASSUME FortyEightWords == Cardinality(Cases) = 48
ASSUME CasesClosed == \A c \in Cases : MirCase(c) \in Cases /\ FlipCase(c) \in Cases /\ RevCase(c) \in Cases
ASSUME EveryRowUsed == \A n \in 0..17 : \E c \in Cases : c.row = n

RECURSIVE Str(_)
Digit == <<"0", "1", "2", "3", "4", "5", "6", "7", "8", "9">>
Str(n) == IF n < 10 THEN Digit[n + 1] ELSE Str(n \div 10) \o Digit[(n % 10) + 1]
ASSUME EmitTables ==
    \A c \in Cases : PrintT(ToJson([k |-> "rcase", id |-> Str(c.row) \o ":" \o Cat(c.signs), row |-> c.row,
                                     cusps |-> Cusps(c.signs), word |-> Cat(Row(c.row))]))
===============================================================================
