----------------------------- MODULE CurveContract -----------------------------
(* Contract (A) of property C14: "Dubins and Reeds-Shepp distances are the       *)
(* lengths of real, optimal curves".  One named clause per sentence of the       *)
(* property, stated over ONE observation record e of one pose pair in one space  *)
(* (e.sp: "dubins" | "dubinsSym" | "rs").  All quantities are integers: lengths  *)
(* in units of 1e-8 * rho * max(1, d) (d = straight-line distance / rho),        *)
(* headings in 1e-8 rad.  Nothing here knows how the library finds its curve.    *)
(*                                                                                *)
(*   e.rep, e.repRev   distance(from, to), distance(to, from)                     *)
(*   e.sl              straight-line distance                                     *)
(*   e.arc             arc length of the densely interpolated curve               *)
(*   e.vres            largest distance between a sampled step and the best of    *)
(*                     the six unicycle primitives (left / straight / right arc   *)
(*                     of the configured radius, forwards / backwards)            *)
(*   e.cusp, e.fwd, e.back   observed changes of direction, steps driven          *)
(*                     forwards / backwards;  e.wcusp: sign changes in the word   *)
(*                     the space reports;  e.tiny: its non-zero segments shorter  *)
(*                     than 1e-6 radii                                            *)
(*   e.endPos, e.endYaw   where the integrated word ends, relative to the target  *)
(*   e.optLo, e.optHi  envelope, over the targets within the library's own        *)
(*                     resolution (2e-6 rho, 2e-6 rad) of the stated one, of the  *)
(*                     shortest of the six Dubins words computed by an            *)
(*                     independent long-double solver (both directions, minimum,  *)
(*                     for the symmetrised space)                                 *)
(*   e.pre[k], e.preLo[k], e.preHi[k]   distance(from, curve(k/8)) and the same   *)
(*                     envelope for that point                                    *)
(*   e.dubF, e.dubB    (rs) Dubins distance from -> to and to -> from             *)
(*                                                                                *)
(* Tolerance classes (constants, in units): see CurveContractTrace.cfg and the    *)
(* justification from measured error distributions in tools/checks/c14.py.        *)
EXTENDS Integers, Sequences, FiniteSets

CONSTANTS TolStep,     \* a sampled step vs an exact primitive
          TolEnd,      \* end position
          TolYaw,      \* end heading (1e-8 rad)
          TolArc,      \* arc length vs reported distance, straight-line bound
          TolShort,    \* reported distance vs shortest of six (float-precision switching functions)
          TolSym,      \* d(a,b) vs d(b,a)
          TolOrder,    \* Reeds-Shepp vs Dubins
          TolPrefix,   \* distance to the point at t vs t times the total
          Res,         \* poses closer than this are one pose for the Dubins space (its documented resolution)
          SymPrefixEquality   \* judge "t times the total" as an equality also in the symmetrised space

Abs(x) == IF x < 0 THEN 0 - x ELSE x
(* floor(k * x / 8) without leaving 32 bits (x >= 0) *)
Eighths(k, x) == (x \div 8) * k + ((x % 8) * k) \div 8

(* "the curve traced by interpolating ... follows the vehicle model (arcs of the configured turning radius and *)
(* straight segments ..."                                                                                    *)
FollowsVehicleModel(e) == e.vres <= TolStep
(* "... with reversals only for Reeds-Shepp)": a Dubins curve is driven forwards throughout; the symmetrised   *)
(* space may drive the whole curve of the opposite direction backwards, but never changes direction; a        *)
(* Reeds-Shepp curve changes direction exactly where its word does (a cusp next to a segment shorter than     *)
(* 1e-6 radii may not show in the samples), at most twice                                                     *)
ReversalsOnlyForReedsShepp(e) ==
    CASE e.sp = "dubins"    -> e.cusp = 0 /\ e.back = 0
      [] e.sp = "dubinsSym" -> e.cusp = 0 /\ (e.back = 0 \/ e.fwd = 0)
      [] e.sp = "rs"        -> e.wcusp <= 2 /\ e.cusp <= e.wcusp /\ (e.tiny = 0 => e.cusp = e.wcusp)
(* "ends exactly at the target pose" *)
EndsAtTarget(e) == e.endPos <= TolEnd /\ e.endYaw <= TolYaw
(* "and has arc length equal to the reported distance" *)
ArcLengthIsDistance(e) == Abs(e.arc - e.rep) <= TolArc
(* "which is never less than the straight-line distance" *)
NotShorterThanStraightLine(e) == e.rep >= e.sl - TolArc
(* "The Dubins distance equals the shortest of the six canonical Dubins words" *)
ShortestOfSix(e) == e.optLo - TolShort <= e.rep /\ e.rep <= e.optHi + TolShort
(* "Reeds-Shepp and symmetrised Dubins distances are symmetric" *)
Symmetric(e) == Abs(e.rep - e.repRev) <= TolSym
(* "Reeds-Shepp never exceeds Dubins in either direction"; below the Dubins space's resolution its distance is *)
(* the separation itself, which no curve realises                                                             *)
ReedsSheppNeverExceedsDubins(e) == e.sl <= Res \/ (e.rep <= e.dubF + TolOrder /\ e.rep <= e.dubB + TolOrder)
(* "a prefix of a reported shortest curve is itself shortest: the distance to its point at t is t times the    *)
(* total" (t in eighths).  Where an independent optimum exists (Dubins) both halves are judged against it: the *)
(* prefix has the optimal length for its end point and the reported distance to that point is that optimum.   *)
(* In the symmetrised space the distance to a point of a curve driven backwards can be SHORTER than the prefix *)
(* (a forward curve may reach it sooner): the equality half is judged only when SymPrefixEquality is set.      *)
PrefixOptimalAt(e, k) ==
    CASE e.sp = "rs" -> Abs(e.pre[k] - Eighths(k, e.rep)) <= TolPrefix + 1
      [] e.sp = "dubins" ->
            /\ e.preLo[k] - TolPrefix <= e.pre[k] /\ e.pre[k] <= e.preHi[k] + TolPrefix
            /\ e.preLo[k] - TolPrefix - 1 <= Eighths(k, e.rep) /\ Eighths(k, e.rep) <= e.preHi[k] + TolPrefix
      [] e.sp = "dubinsSym" ->
            /\ e.preLo[k] - TolPrefix <= e.pre[k] /\ e.pre[k] <= e.preHi[k] + TolPrefix
            /\ e.preLo[k] - TolPrefix - 1 <= Eighths(k, e.rep)
            /\ SymPrefixEquality => Eighths(k, e.rep) <= e.preHi[k] + TolPrefix
PrefixOptimal(e) == \A k \in 1..7 : PrefixOptimalAt(e, k)

(* which sentence applies to which space *)
Applies == [ dubins    |-> {"FollowsVehicleModel", "ReversalsOnlyForReedsShepp", "EndsAtTarget", "ArcLengthIsDistance",
                            "NotShorterThanStraightLine", "ShortestOfSix", "PrefixOptimal"},
             dubinsSym |-> {"FollowsVehicleModel", "ReversalsOnlyForReedsShepp", "EndsAtTarget", "ArcLengthIsDistance",
                            "NotShorterThanStraightLine", "ShortestOfSix", "Symmetric", "PrefixOptimal"},
             rs        |-> {"FollowsVehicleModel", "ReversalsOnlyForReedsShepp", "EndsAtTarget", "ArcLengthIsDistance",
                            "NotShorterThanStraightLine", "Symmetric", "ReedsSheppNeverExceedsDubins", "PrefixOptimal"} ]
Holds(c, e) == CASE c = "FollowsVehicleModel" -> FollowsVehicleModel(e)
                 [] c = "ReversalsOnlyForReedsShepp" -> ReversalsOnlyForReedsShepp(e)
                 [] c = "EndsAtTarget" -> EndsAtTarget(e)
                 [] c = "ArcLengthIsDistance" -> ArcLengthIsDistance(e)
                 [] c = "NotShorterThanStraightLine" -> NotShorterThanStraightLine(e)
                 [] c = "ShortestOfSix" -> ShortestOfSix(e)
                 [] c = "Symmetric" -> Symmetric(e)
                 [] c = "ReedsSheppNeverExceedsDubins" -> ReedsSheppNeverExceedsDubins(e)
                 [] c = "PrefixOptimal" -> PrefixOptimal(e)
(* a distance or a curve point that is not a finite number (or is out of any plausible range) breaks every sentence *)
Failed(e) == IF ~e.finite THEN {"Finite"} ELSE {c \in Applies[e.sp] : ~Holds(c, e)}
===============================================================================
