SPECIFICATION Spec
INVARIANTS TypeOK WinnerIsARow AtMostTwoCusps EmitCase
