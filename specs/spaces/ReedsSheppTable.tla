---------------------------- MODULE ReedsSheppTable ----------------------------
(* The transcribed tables of src/ompl/base/spaces/src/ReedsSheppStateSpace.cpp as pure   *)
(* data: the 18 rows of reedsSheppPathType, the eight base formulas, the 44 candidate    *)
(* evaluations of CSC / CCC / CCCC / CCSC / CCSCC and the 48 cases (row, segment signs)  *)
(* they can produce.  Used by ReedsSheppClass and by CurveContractTrace.                 *)
EXTENDS Naturals, Integers, Sequences, FiniteSets

L == "L"  R == "R"  S == "S"
(* reedsSheppPathType without the RS_NOP padding; row numbers of the code are 0-based *)
Rows == << <<L, R, L>>, <<R, L, R>>, <<L, R, L, R>>, <<R, L, R, L>>,
           <<L, R, S, L>>, <<R, L, S, R>>, <<L, S, R, L>>, <<R, S, L, R>>,
           <<L, R, S, R>>, <<R, L, S, L>>, <<R, S, R, L>>, <<L, S, L, R>>,
           <<L, S, R>>, <<R, S, L>>, <<L, S, L>>, <<R, S, R>>,
           <<L, R, S, L, R>>, <<R, L, S, R, L>> >>
Row(n) == Rows[n + 1]

(* base formulas: word, sign conditions the formula returns true under ("+": >= -ZERO, "-": <= ZERO, *)
(* "*": unconstrained), and the arguments of the ReedsSheppPath constructor in terms of t, u, v and  *)
(* h = pi/2                                                                                          *)
Formula ==
  [ LpSpLp     |-> [w |-> <<L, S, L>>,       sg |-> [t |-> "+", u |-> "+", v |-> "+"], args |-> <<"t", "u", "v">>],
    LpSpRp     |-> [w |-> <<L, S, R>>,       sg |-> [t |-> "+", u |-> "+", v |-> "+"], args |-> <<"t", "u", "v">>],
    LpRmL      |-> [w |-> <<L, R, L>>,       sg |-> [t |-> "+", u |-> "-", v |-> "*"], args |-> <<"t", "u", "v">>],
    LpRupLumRm |-> [w |-> <<L, R, L, R>>,    sg |-> [t |-> "+", u |-> "+", v |-> "-"], args |-> <<"t", "u", "-u", "v">>],
    LpRumLumRp |-> [w |-> <<L, R, L, R>>,    sg |-> [t |-> "+", u |-> "-", v |-> "+"], args |-> <<"t", "u", "u", "v">>],
    LpRmSmLm   |-> [w |-> <<L, R, S, L>>,    sg |-> [t |-> "+", u |-> "-", v |-> "-"], args |-> <<"t", "-h", "u", "v">>],
    LpRmSmRm   |-> [w |-> <<L, R, S, R>>,    sg |-> [t |-> "+", u |-> "-", v |-> "-"], args |-> <<"t", "-h", "u", "v">>],
    LpRmSLmRp  |-> [w |-> <<L, R, S, L, R>>, sg |-> [t |-> "+", u |-> "-", v |-> "+"], args |-> <<"t", "-h", "u", "-h", "v">>] ]

(* Lmin = path.length() - offset * pi/2 : what the family subtracts before comparing with |t|+|u|+|v| *)
FamilyOffset == [CSC |-> 0, CCC |-> 0, CCCC |-> 0, CCSC |-> 1, CCSCC |-> 2]
(* L = fabs(t) + k * fabs(u) + fabs(v) : the multiplicity of u in the compared length *)
FamilyUWeight == [CSC |-> 1, CCC |-> 1, CCCC |-> 2, CCSC |-> 1, CCSCC |-> 1]

C(fam, f, tr, bw, row, args) == [fam |-> fam, f |-> f, tr |-> tr, bw |-> bw, row |-> row, args |-> args]
(* the 44 candidate evaluations in the order of the source; tr: "id" | "tf" (-x, y, -phi) | "rf" (x, -y, -phi) | *)
(* "tfrf" (-x, -y, phi); bw: evaluated on (xb, yb) = the problem seen from the target                          *)
Cand == <<
  C("CSC", "LpSpLp", "id", FALSE, 14, <<"t", "u", "v">>),      C("CSC", "LpSpLp", "tf", FALSE, 14, <<"-t", "-u", "-v">>),
  C("CSC", "LpSpLp", "rf", FALSE, 15, <<"t", "u", "v">>),      C("CSC", "LpSpLp", "tfrf", FALSE, 15, <<"-t", "-u", "-v">>),
  C("CSC", "LpSpRp", "id", FALSE, 12, <<"t", "u", "v">>),      C("CSC", "LpSpRp", "tf", FALSE, 12, <<"-t", "-u", "-v">>),
  C("CSC", "LpSpRp", "rf", FALSE, 13, <<"t", "u", "v">>),      C("CSC", "LpSpRp", "tfrf", FALSE, 13, <<"-t", "-u", "-v">>),
  C("CCC", "LpRmL", "id", FALSE, 0, <<"t", "u", "v">>),        C("CCC", "LpRmL", "tf", FALSE, 0, <<"-t", "-u", "-v">>),
  C("CCC", "LpRmL", "rf", FALSE, 1, <<"t", "u", "v">>),        C("CCC", "LpRmL", "tfrf", FALSE, 1, <<"-t", "-u", "-v">>),
  C("CCC", "LpRmL", "id", TRUE, 0, <<"v", "u", "t">>),         C("CCC", "LpRmL", "tf", TRUE, 0, <<"-v", "-u", "-t">>),
  C("CCC", "LpRmL", "rf", TRUE, 1, <<"v", "u", "t">>),         C("CCC", "LpRmL", "tfrf", TRUE, 1, <<"-v", "-u", "-t">>),
  C("CCCC", "LpRupLumRm", "id", FALSE, 2, <<"t", "u", "-u", "v">>),   C("CCCC", "LpRupLumRm", "tf", FALSE, 2, <<"-t", "-u", "u", "-v">>),
  C("CCCC", "LpRupLumRm", "rf", FALSE, 3, <<"t", "u", "-u", "v">>),   C("CCCC", "LpRupLumRm", "tfrf", FALSE, 3, <<"-t", "-u", "u", "-v">>),
  C("CCCC", "LpRumLumRp", "id", FALSE, 2, <<"t", "u", "u", "v">>),    C("CCCC", "LpRumLumRp", "tf", FALSE, 2, <<"-t", "-u", "-u", "-v">>),
  C("CCCC", "LpRumLumRp", "rf", FALSE, 3, <<"t", "u", "u", "v">>),    C("CCCC", "LpRumLumRp", "tfrf", FALSE, 3, <<"-t", "-u", "-u", "-v">>),
  C("CCSC", "LpRmSmLm", "id", FALSE, 4, <<"t", "-h", "u", "v">>),     C("CCSC", "LpRmSmLm", "tf", FALSE, 4, <<"-t", "h", "-u", "-v">>),
  C("CCSC", "LpRmSmLm", "rf", FALSE, 5, <<"t", "-h", "u", "v">>),     C("CCSC", "LpRmSmLm", "tfrf", FALSE, 5, <<"-t", "h", "-u", "-v">>),
  C("CCSC", "LpRmSmRm", "id", FALSE, 8, <<"t", "-h", "u", "v">>),     C("CCSC", "LpRmSmRm", "tf", FALSE, 8, <<"-t", "h", "-u", "-v">>),
  C("CCSC", "LpRmSmRm", "rf", FALSE, 9, <<"t", "-h", "u", "v">>),     C("CCSC", "LpRmSmRm", "tfrf", FALSE, 9, <<"-t", "h", "-u", "-v">>),
  C("CCSC", "LpRmSmLm", "id", TRUE, 6, <<"v", "u", "-h", "t">>),      C("CCSC", "LpRmSmLm", "tf", TRUE, 6, <<"-v", "-u", "h", "-t">>),
  C("CCSC", "LpRmSmLm", "rf", TRUE, 7, <<"v", "u", "-h", "t">>),      C("CCSC", "LpRmSmLm", "tfrf", TRUE, 7, <<"-v", "-u", "h", "-t">>),
  C("CCSC", "LpRmSmRm", "id", TRUE, 10, <<"v", "u", "-h", "t">>),     C("CCSC", "LpRmSmRm", "tf", TRUE, 10, <<"-v", "-u", "h", "-t">>),
  C("CCSC", "LpRmSmRm", "rf", TRUE, 11, <<"v", "u", "-h", "t">>),     C("CCSC", "LpRmSmRm", "tfrf", TRUE, 11, <<"-v", "-u", "h", "-t">>),
  C("CCSCC", "LpRmSLmRp", "id", FALSE, 16, <<"t", "-h", "u", "-h", "v">>),   C("CCSCC", "LpRmSLmRp", "tf", FALSE, 16, <<"-t", "h", "-u", "h", "-v">>),
  C("CCSCC", "LpRmSLmRp", "rf", FALSE, 17, <<"t", "-h", "u", "-h", "v">>),   C("CCSCC", "LpRmSLmRp", "tfrf", FALSE, 17, <<"-t", "h", "-u", "h", "-v">>) >>
NCand == Len(Cand)

(* ------------------------------------------------------------- transformations *)
Flip(x) == IF x = L THEN R ELSE IF x = R THEN L ELSE x
Rev(s) == [n \in 1..Len(s) |-> s[Len(s) + 1 - n]]
Map(s, Op(_)) == [n \in 1..Len(s) |-> Op(s[n])]
NegTerm(a) == CASE a = "t" -> "-t" [] a = "-t" -> "t" [] a = "u" -> "-u" [] a = "-u" -> "u"
                [] a = "v" -> "-v" [] a = "-v" -> "v" [] a = "h" -> "-h" [] a = "-h" -> "h"
(* reflect: L <-> R; timeflip: the car drives every segment the other way (same word, signs negated);   *)
(* backwards: the path of the reversed problem read from its end                                        *)
WordUnder(w, tr, bw) == LET w1 == IF bw THEN Rev(w) ELSE w
                        IN  IF tr \in {"rf", "tfrf"} THEN Map(w1, Flip) ELSE w1
ArgsUnder(a, tr, bw) == LET a1 == IF bw THEN Rev(a) ELSE a
                        IN  IF tr \in {"tf", "tfrf"} THEN Map(a1, NegTerm) ELSE a1

(* sign of an argument under an instantiation sv of the signs of t, u, v *)
NegS(x) == IF x = "+" THEN "-" ELSE "+"
TermSign(a, sv) == CASE a = "t" -> sv.t [] a = "-t" -> NegS(sv.t) [] a = "u" -> sv.u [] a = "-u" -> NegS(sv.u)
                     [] a = "v" -> sv.v [] a = "-v" -> NegS(sv.v) [] a = "h" -> "+" [] a = "-h" -> "-"
Inst(sg) == {sv \in [{"t", "u", "v"} -> {"+", "-"}] : \A x \in {"t", "u", "v"} : sg[x] = "*" \/ sv[x] = sg[x]}
SignsOf(c, sv) == [n \in 1..Len(c.args) |-> TermSign(c.args[n], sv)]
RECURSIVE Cat(_)
Cat(s) == IF s = <<>> THEN "" ELSE Head(s) \o Cat(Tail(s))
Cusps(sg) == Cardinality({n \in 1..Len(sg) - 1 : sg[n] # sg[n + 1]})

CaseOf(c, sv) == [row |-> c.row, signs |-> SignsOf(c, sv)]
Cases == UNION {{CaseOf(Cand[n], s) : s \in Inst(Formula[Cand[n].f].sg)} : n \in 1..NCand}

===============================================================================
