---------------------------- MODULE CurveIntegrator ----------------------------
(* Implementation-shaped model of the segment integrators (property C14):        *)
(*                                                                                *)
(*   DubinsStateSpace::interpolate(from, path, t, state, radius)   :789-848       *)
(*       three segments, forwards, or - for the symmetrised space, when the       *)
(*       curve of the opposite direction was shorter - the segments from last to  *)
(*       first with every motion inverted (reverse_)                              *)
(*   ReedsSheppStateSpace::interpolate(from, path, t, state)       :551-594       *)
(*       up to five signed segments                                               *)
(*                                                                                *)
(* Lengths are small integers (zero-length segments included), seg = t * length   *)
(* is an integer in 0..L.  The loop `for (i = 0; i < n && seg > 0; ++i)` is run   *)
(* one iteration per step.  Checked on every word shape, every length vector and  *)
(* every seg: the pieces consumed tile [0, seg] without gap or overlap, in order, *)
(* each within its segment and with its sign, they agree with the closed form     *)
(* "which segment t falls into" (hence a longer t extends a shorter one), the     *)
(* heading at t = 1 is the start heading plus the signed turning of the word      *)
(* (minus it for a reversed Dubins word), a Dubins curve never changes its        *)
(* direction of travel, and a Reeds-Shepp curve changes it exactly where          *)
(* consecutive consumed pieces have opposite signs.                               *)
EXTENDS ReedsSheppTable, TLC, Json

CONSTANT MaxLen

DubinsWords == { <<L, S, L>>, <<R, S, R>>, <<R, S, L>>, <<L, S, R>>, <<R, L, R>>, <<L, R, L>> }
Abs(x) == IF x < 0 THEN 0 - x ELSE x
Sgn(x) == IF x < 0 THEN 0 - 1 ELSE IF x > 0 THEN 1 ELSE 0
Min(a, b) == IF a < b THEN a ELSE b
Max(a, b) == IF a > b THEN a ELSE b
RECURSIVE SumAbs(_, _)
SumAbs(s, n) == IF n = 0 THEN 0 ELSE SumAbs(s, n - 1) + Abs(s[n])
Turn(x) == IF x = L THEN 1 ELSE IF x = R THEN 0 - 1 ELSE 0

VARIABLES kind, types, lens, rev, seg0,   \* the case
          seg, i, used, head, dirs, pc    \* the loop: remaining length, index, signed pieces consumed, heading, travel directions
vars == <<kind, types, lens, rev, seg0, seg, i, used, head, dirs, pc>>
N == Len(types)
Total == SumAbs(lens, N)
(* the segment the loop looks at in iteration j (i = j - 1 in the code): path.length_[i], or path.length_[2 - i] *)
(* for a reversed Dubins word (1-based here)                                                                  *)
Ix(j) == IF rev THEN (2 - (j - 1)) + 1 ELSE j

Init == /\ \/ /\ kind = "dubins" /\ types \in DubinsWords /\ lens \in [1..3 -> 0..MaxLen] /\ rev \in BOOLEAN
           \/ /\ kind = "rs" /\ types \in {Row(n) : n \in 0..17} /\ rev = FALSE
              /\ lens \in [1..Len(types) -> (0 - 1)..1]
        /\ seg0 \in 0..SumAbs(lens, Len(types))
        /\ seg = seg0 /\ i = 1 /\ used = <<>> /\ head = 0 /\ dirs = <<>> /\ pc = "loop"

(* v = std::min(seg, len) resp. std::max(-seg, len) for a negative Reeds-Shepp segment; seg -= |v| *)
Piece(len) == IF len < 0 THEN Max(0 - seg, len) ELSE Min(seg, len)
(* LEFT: yaw = phi + v, RIGHT: yaw = phi - v; reversed Dubins: LEFT yaw = phi - v, RIGHT yaw = phi + v *)
Step == /\ pc = "loop" /\ i <= N /\ seg > 0
        /\ LET len == lens[Ix(i)]
               v == Piece(len)
           IN  /\ seg' = seg - Abs(v)
               /\ used' = Append(used, v)
               /\ head' = head + (IF rev THEN 0 - 1 ELSE 1) * Turn(types[Ix(i)]) * v
               /\ dirs' = IF v = 0 THEN dirs ELSE Append(dirs, IF rev THEN 0 - 1 ELSE Sgn(v))
        /\ i' = i + 1
        /\ UNCHANGED <<kind, types, lens, rev, seg0, pc>>
Exit == /\ pc = "loop" /\ (i > N \/ seg <= 0)
        /\ pc' = "done"
        /\ UNCHANGED <<kind, types, lens, rev, seg0, seg, i, used, head, dirs>>
Next == Step \/ Exit
Spec == Init /\ [][Next]_vars
Done == pc = "done"

(* closed form: the piece of segment j (in loop order) that lies below arc length seg0 *)
Before(j) == SumAbs([n \in 1..N |-> lens[Ix(n)]], j - 1)
Closed(j) == LET len == lens[Ix(j)]
                 a == Max(0, Min(seg0 - Before(j), Abs(len)))
             IN  Sgn(len) * a
UsedAt(j) == IF j <= Len(used) THEN used[j] ELSE 0

(* signed turning of the first n segments of the word as reported *)
RECURSIVE Turning(_)
Turning(n) == IF n = 0 THEN 0 ELSE Turning(n - 1) + Turn(types[n]) * lens[n]

TypeOK == pc \in {"loop", "done"} /\ i \in 1..(N + 1) /\ seg \in 0..Total
NoGapNoOverlap == Done => SumAbs(used, Len(used)) = seg0 /\ seg = 0
InOrderWithinSegment ==
    Done => \A j \in 1..N : /\ Abs(UsedAt(j)) <= Abs(lens[Ix(j)])
                            /\ UsedAt(j) # 0 => Sgn(UsedAt(j)) = Sgn(lens[Ix(j)])
                            /\ (j < N /\ UsedAt(j + 1) # 0) => UsedAt(j) = lens[Ix(j)]
AgreesWithClosedForm == Done => \A j \in 1..N : UsedAt(j) = Closed(j)
NoZeroLengthPieceIsLast == Done /\ seg0 > 0 => used # <<>> /\ used[Len(used)] # 0
EndHeading == (Done /\ seg0 = Total)
              => head = (IF rev THEN 0 - 1 ELSE 1) * Turning(N)
(* a reversed word is the curve of the opposite direction driven from its end: at t = 1 the pieces consumed are *)
(* the segments of the word from last to first, whole (stated without reference to the loop's indexing)         *)
ReversedReadsFromTheEnd ==
    (Done /\ seg0 = Total /\ \A n \in 1..N : lens[n] # 0)
    => used = [n \in 1..N |-> IF rev THEN lens[N + 1 - n] ELSE lens[n]]
DubinsNeverReverses == (Done /\ kind = "dubins") => \A a, b \in 1..Len(dirs) : dirs[a] = dirs[b]
DubinsForwardUnlessReversed == (Done /\ kind = "dubins") => \A a \in 1..Len(dirs) : dirs[a] = (IF rev THEN 0 - 1 ELSE 1)
Land == IF used = <<>> THEN 0 ELSE Len(used)
CaseJson == [k |-> "icase", kind |-> kind, w |-> Cat(types), rev |-> rev, land |-> Land]
EmitCase == (Done /\ Land > 0) => PrintT(ToJson(CaseJson))
Dump == PrintT(ToJson([k |-> "edge", act |-> IF pc' = "done" THEN "Exit" ELSE "Step", i |-> i, seg |-> seg, seg2 |-> seg']))
===============================================================================
