-------------------------- MODULE ConstrainedContract --------------------------
(* C16 as a contract over observations of the real constrained state spaces    *)
(* (the only oracle for verdicts; it knows nothing about Newton iterations,    *)
(* charts or loop exits).  One named clause per sentence of the property:      *)
(*                                                                             *)
(*  "In the projection-based and atlas-based constrained spaces every sampled  *)
(*   state,                                             sampleOnManifold,      *)
(*                                                      validSampleOnManifold  *)
(*   every state produced by interpolation              interpOnManifold       *)
(*   and every state on a successfully computed discrete geodesic satisfies    *)
(*   the constraint function within its tolerance,      geoStatesOnManifold    *)
(*   consecutive geodesic states are no farther apart than the configured      *)
(*   step bound,                                        geoStepBound           *)
(*   and a geodesic that reports success ends within one step size of the      *)
(*   requested target.                                  geoEndsNearTarget      *)
(*   For all three constrained spaces (including the lazy tangent-bundle       *)
(*   variant, whose intermediate geodesic states may be off-manifold) the      *)
(*   states returned by samplers and by interpolation,  (the first three, TB   *)
(*                                                       included)             *)
(*   and therefore the vertices of any solution path planned in them, satisfy  *)
(*   the constraint."                                   pathVerticesOnManifold *)
(*                                                                             *)
(* and the mechanism the last sentence rests on (anchor "motion validity =     *)
(* target satisfies the constraint and the geodesic reached it"):              *)
(*                                                      motionNeedsGeodesic    *)
(*                                                                             *)
(* Facts are established by harness/constrained.cpp with its OWN closed-form   *)
(* constraint functions (or, on the scripted lattice, its own knowledge of the *)
(* script) and arrive as 0/1 flags: position i of every sequence of one record *)
(* is the same call.  "Within its tolerance" is |f(x)|_2 <= tol (1 + 1e-9) +   *)
(* 1e-12; the step bound is lambda * delta and "one step size" is delta, both  *)
(* with a relative margin of 1e-9.  WHICH facts are required for which space   *)
(* kind and event is decided here.                                             *)
EXTENDS Naturals, Sequences, FiniteSets

SpaceKinds == {"PJ", "AT", "TB"}
(* the tangent-bundle space is lazy: its geodesics are exempt, nothing else is *)
StrictGeodesics(sp) == sp \in {"PJ", "AT"}

Flags(s) == \A i \in 1..Len(s) : s[i] \in {0, 1}
All(s) == \A i \in 1..Len(s) : s[i] = 1
Flag(x) == x \in {0, 1}

(* ---- Sample: n outputs of sampleUniform / sampleUniformNear / sampleGaussian of the sampler *)
(* obtained from allocStateSampler or allocDefaultStateSampler                                  *)
SampleClauses == {"wellFormed", "sampleOnManifold"}
SampleClause(c, r) ==
    CASE c = "wellFormed" -> r.sp \in SpaceKinds /\ Len(r.sat) >= 1 /\ Flags(r.sat)
      [] c = "sampleOnManifold" -> All(r.sat)
FailedSample(r) == {c \in SampleClauses : ~SampleClause(c, r)}

(* ---- ValidSample: calls of the space information's valid-state sampler; a state is *)
(* "returned" when the call reports success                                            *)
ValidSampleClauses == {"wellFormed", "validSampleOnManifold"}
ValidSampleClause(c, r) ==
    CASE c = "wellFormed" -> r.sp \in SpaceKinds /\ Len(r.ret) >= 1 /\ Len(r.sat) = Len(r.ret)
                                 /\ Flags(r.ret) /\ Flags(r.sat)
      [] c = "validSampleOnManifold" -> \A i \in 1..Len(r.ret) : (i <= Len(r.sat) /\ r.ret[i] = 1) => r.sat[i] = 1
FailedValidSample(r) == {c \in ValidSampleClauses : ~ValidSampleClause(c, r)}

(* ---- Interp: results of interpolate(from, to, t) for several t between two on-manifold states *)
InterpClauses == {"wellFormed", "endsOnManifold", "interpOnManifold"}
InterpClause(c, r) ==
    CASE c = "wellFormed" -> r.sp \in SpaceKinds /\ Len(r.sat) >= 1 /\ Flags(r.sat)
      [] c = "endsOnManifold" -> r.fromSat = 1 /\ r.toSat = 1       \* the quantifier: pairs of on-manifold states
      [] c = "interpOnManifold" -> All(r.sat)
FailedInterp(r) == {c \in InterpClauses : ~InterpClause(c, r)}

(* ---- Geo: one discreteGeodesic(from, to, interpolate, &states) call:                  *)
(*   ok      the call reported success        n       number of states returned          *)
(*   unsat   how many of them violate the constraint                                      *)
(*   stepOk  every consecutive pair is within lambda * delta                              *)
(*   endOk   the last state is within delta of `to`                                       *)
GeoClauses == {"wellFormed", "endsOnManifold", "geoStatesOnManifold", "geoStepBound", "geoEndsNearTarget"}
GeoClause(c, r) ==
    CASE c = "wellFormed" -> r.sp \in SpaceKinds /\ Flag(r.ok) /\ Flag(r.stepOk) /\ Flag(r.endOk)
                                 /\ r.unsat <= r.n /\ (r.ok = 1 => r.n >= 1)
      [] c = "endsOnManifold" -> r.fromSat = 1 /\ r.toSat = 1
      [] c = "geoStatesOnManifold" -> (StrictGeodesics(r.sp) /\ r.ok = 1 => r.unsat = 0)
      [] c = "geoStepBound" -> (StrictGeodesics(r.sp) /\ r.ok = 1 => r.stepOk = 1)
      [] c = "geoEndsNearTarget" -> (StrictGeodesics(r.sp) /\ r.ok = 1 => r.endOk = 1)
FailedGeo(r) == {c \in GeoClauses : ~GeoClause(c, r)}

(* ---- Motion: ConstrainedMotionValidator::checkMotion(s1, s2) next to the geodesic of the same pair *)
MotionClauses == {"wellFormed", "motionNeedsGeodesic"}
MotionClause(c, r) ==
    CASE c = "wellFormed" -> r.sp \in SpaceKinds /\ Flag(r.cm) /\ Flag(r.geoOk) /\ Flag(r.toSat)
      [] c = "motionNeedsGeodesic" -> (r.cm = 1 => r.geoOk = 1 /\ r.toSat = 1)
FailedMotion(r) == {c \in MotionClauses : ~MotionClause(c, r)}

(* ---- PlannerPath: the vertices of a solution path (exact or approximate) a planner registered *)
PathClauses == {"wellFormed", "pathVerticesOnManifold"}
PathClause(c, r) ==
    CASE c = "wellFormed" -> r.sp \in SpaceKinds /\ Flags(r.sat) /\ (r.hasPath = 1 => Len(r.sat) >= 1)
      [] c = "pathVerticesOnManifold" -> All(r.sat)
FailedPath(r) == {c \in PathClauses : ~PathClause(c, r)}

(* every clause name with the event it belongs to: used by the check to measure vacuity *)
AllClauses == [Sample |-> SampleClauses, ValidSample |-> ValidSampleClauses, Interp |-> InterpClauses,
               Geo |-> GeoClauses, Motion |-> MotionClauses, PlannerPath |-> PathClauses]
==============================================================================
