------------------------------- MODULE Geodesic -------------------------------
(* C16 - the part of "constrained spaces keep states on the manifold" that IS a *)
(* state machine: the discrete-geodesic loops and what is derived from their    *)
(* result, transcribed statement by statement:                                  *)
(*                                                                             *)
(*   PJ  ProjectedStateSpace::discreteGeodesic      (ProjectedStateSpace.cpp)  *)
(*   AT  AtlasStateSpace::discreteGeodesic          (AtlasStateSpace.cpp)      *)
(*   TB  TangentBundleStateSpace::discreteGeodesic  (TangentBundleStateSpace)  *)
(*   ConstrainedStateSpace::interpolate / geodesicInterpolate (index choice),  *)
(*   TangentBundleStateSpace::geodesicInterpolate (fix-up projection),         *)
(*   ConstrainedMotionValidator::checkMotion, both overloads.                  *)
(*                                                                             *)
(* Exact sub-domain.  The ambient space is R^n, the manifold lies on an axis-  *)
(* aligned line, and every quantity is a whole number of CELLS of a dyadic     *)
(* width h: states are cell indices, delta = D cells, lambda = L/2, so every   *)
(* distance, sum and comparison the real code makes in doubles is exact and    *)
(* this module can redo it in integers.  `from` is cell 0, `to` is cell T.     *)
(*                                                                             *)
(* Scripted environment (the only non-determinism):                            *)
(*   proj   what Constraint::project does to a state in cell c: Fail, or move  *)
(*          it k cells (k = 0: the cell is ON the manifold; k # 0: the cell is *)
(*          OFF the manifold and the projection lands k cells away, on a cell  *)
(*          that is then on the manifold).  The manifold M is the set of cells *)
(*          with proj = 0; Constraint::function is 0 on M and 1 elsewhere.     *)
(*          AT / TB evaluate function/jacobian instead of project(): there the *)
(*          script has only 0 and Fail (a cell where the function is NaN).     *)
(*   valid  what the state validity checker answers for a cell.                *)
(* Both are functions of the cell: an answer, once given, is remembered.       *)
(* harness/constrained.cpp implements this environment with its own Constraint *)
(* and StateValidityChecker subclasses and replays every finished behaviour on *)
(* the real spaces; `calls` is the expected sequence of environment queries.   *)
(*                                                                             *)
(* One behaviour = one discreteGeodesic call; at pc = "done" the invariants    *)
(* below are evaluated and the case is printed with everything derived from it *)
(* (interpolate for t = q/TDen, both checkMotion overloads).                   *)
EXTENDS Integers, Sequences, FiniteSets, TLC, Json

CONSTANTS Kinds,      \* subset of {"PJ", "AT", "TB"}
          MaxT,       \* `to` is cell T, 0 <= T <= MaxT (the harness mirrors and shifts)
          DSet,       \* delta in cells
          LSet,       \* lambda = L / 2, L >= 3 (setLambda demands lambda > 1)
          JBack, JFwd,  \* the script may move a projected state by -JBack .. JFwd cells
          RSet,       \* AT / TB: chart radius rho = rho_s in cells (exploration 0)
          MCSet,      \* AT / TB: maxChartsPerExtension
          TDen        \* interpolate is evaluated at t = q / TDen, q = 0..TDen

Jumps == (0 - JBack)..JFwd
Fail == 1000          \* script value "projection / psi does not converge"

VARIABLES kind, D, L, T, ip, R, MC,    \* configuration of the call (ip = `interpolate` argument)
          pc,
          prev,     \* PJ `previous`;           AT / TB: unused
          scr,      \* `scratch`
          tmp,      \* AT / TB `temp`
          dist,     \* PJ `dist`;               AT / TB accumulated `dist`
          total,    \* PJ `total`
          cor,      \* AT / TB origin of the current chart c
          charts,   \* AT / TB origins of all charts of the atlas
          created,  \* AT / TB chartsCreated
          done,     \* AT / TB `done`
          geo,      \* *geodesic (sequence of cells); <<>> = never touched
          ret,      \* return value
          exit,     \* ghost: which way the loop was left
          proj, valid,   \* the script, as far as it has been consulted
          calls     \* ghost: environment queries in order

cfgv == <<kind, D, L, T, ip, R, MC>>
vars == <<kind, D, L, T, ip, R, MC, pc, prev, scr, tmp, dist, total, cor, charts, created, done, geo, ret,
          exit, proj, valid, calls>>

AbsI(x) == IF x < 0 THEN -x ELSE x
Sgn(x) == IF x > 0 THEN 1 ELSE IF x < 0 THEN -1 ELSE 0
Last(s) == s[Len(s)]

(* ------------------------------------------------------------ the environment *)
(* Constraint::isSatisfied on a cell.  PJ: only cells the script has declared on the manifold; *)
(* AT / TB (flat manifold, function 0 except in the NaN cells): every cell not declared NaN    *)
OnM(c) == IF kind = "PJ" THEN c \in DOMAIN proj /\ proj[c] = 0 ELSE c \notin DOMAIN proj \/ proj[c] = 0
(* answers the script may give for project() on cell c *)
ProjOutcomes(c) ==
    IF c \in DOMAIN proj THEN {proj[c]}
    ELSE {Fail} \cup {k \in Jumps : k = 0 \/ (c + k \notin DOMAIN proj) \/ proj[c + k] = 0}
Tell(tag, c, o) ==
    /\ proj' = IF o \in {0, Fail} THEN (c :> o) @@ proj ELSE (c :> o) @@ ((c + o) :> 0) @@ proj
    /\ calls' = Append(calls, <<tag, c, o>>)
TellProj(c, o) == Tell("P", c, o)
(* psi() of the atlas charts: converges on M, fails where the function is NaN *)
PsiOutcomes(c) == IF c \in DOMAIN proj THEN {proj[c]} ELSE {0, Fail}
ValidOutcomes(c) == IF c \in DOMAIN valid THEN {valid[c]} ELSE BOOLEAN

Finish(r, how) == pc' = "done" /\ ret' = r /\ exit' = how

Init ==
    /\ kind \in Kinds /\ D \in DSet /\ L \in LSet /\ T \in 0..MaxT /\ ip \in BOOLEAN
    /\ R \in (IF kind = "PJ" THEN {0} ELSE RSet) /\ MC \in (IF kind = "PJ" THEN {0} ELSE MCSet)
    /\ pc = "start" /\ prev = 0 /\ scr = 0 /\ tmp = 0 /\ dist = 0 /\ total = 0
    /\ cor = 0 /\ charts = {0} /\ created = 0 /\ done = FALSE
    /\ geo = <<>> /\ ret = FALSE /\ exit = "" /\ calls = <<>>
    /\ proj = (0 :> 0) @@ (T :> 0)            \* both end states are on the manifold
    /\ valid = <<>>

(* =========================================================================== *)
(* PJ  ProjectedStateSpace::discreteGeodesic                                   *)
(*   geodesic = {from}; if ((dist = distance(from, to)) <= delta) return true; *)
(*   max = dist * lambda; previous = from;                                     *)
PJStart ==
    /\ kind = "PJ" /\ pc = "start"
    /\ geo' = <<0>> /\ dist' = T
    /\ IF T <= D THEN Finish(TRUE, "near") ELSE pc' = "project" /\ UNCHANGED <<ret, exit>>
    /\ UNCHANGED <<cfgv, prev, scr, tmp, total, cor, charts, created, done, proj, valid, calls>>

(*   do { WrapperStateSpace::interpolate(previous, to, delta / dist, scratch);  *)
(*        if (!constraint_->project(scratch) ...                                *)
(* dist >= delta here, so the ambient interpolant lies D cells from `previous`  *)
(* towards `to`                                                                 *)
Landing == prev + D * Sgn(T - prev)
PJProject(o) ==
    /\ kind = "PJ" /\ pc = "project"
    /\ o \in ProjOutcomes(Landing) /\ TellProj(Landing, o)
    /\ IF o = Fail
       THEN pc' = "ret" /\ exit' = "projfail" /\ scr' = Landing
       ELSE scr' = Landing + o /\ pc' = (IF ip THEN "step" ELSE "valid") /\ exit' = exit
    /\ UNCHANGED <<cfgv, prev, tmp, dist, total, cor, charts, created, done, geo, ret, valid>>

(*            || !(interpolate || svc->isValid(scratch))                        *)
PJValid(a) ==
    /\ kind = "PJ" /\ pc = "valid"
    /\ a \in ValidOutcomes(scr)
    /\ valid' = (scr :> a) @@ valid /\ calls' = Append(calls, <<"V", scr, IF a THEN 1 ELSE 0>>)
    /\ IF a THEN pc' = "step" /\ exit' = exit ELSE pc' = "ret" /\ exit' = "invalid"
    /\ UNCHANGED <<cfgv, prev, scr, tmp, dist, total, cor, charts, created, done, geo, ret, proj>>

(*            || (step = distance(previous, scratch)) > lambda * delta) break;  *)
(*        total += step; if (total > max) break;                                *)
(*        newDist = distance(scratch, to); if (newDist >= dist) break;          *)
(*        dist = newDist; previous = scratch; geodesic.push_back(scratch);      *)
(*   } while (dist >= tolerance);                                               *)
PJStep ==
    /\ kind = "PJ" /\ pc = "step"
    /\ LET step == AbsI(scr - prev)
           newDist == AbsI(T - scr)
       IN  IF 2 * step > L * D
           THEN pc' = "ret" /\ exit' = "deviated" /\ UNCHANGED <<total, dist, prev, geo>>
           ELSE /\ total' = total + step
                /\ IF 2 * (total + step) > L * T          \* max = distance(from, to) * lambda
                   THEN pc' = "ret" /\ exit' = "wandered" /\ UNCHANGED <<dist, prev, geo>>
                   ELSE IF newDist >= dist
                   THEN pc' = "ret" /\ exit' = "nocloser" /\ UNCHANGED <<dist, prev, geo>>
                   ELSE /\ dist' = newDist /\ prev' = scr /\ geo' = Append(geo, scr)
                        /\ IF newDist >= D THEN pc' = "project" /\ exit' = exit
                           ELSE pc' = "ret" /\ exit' = "arrived"
    /\ UNCHANGED <<cfgv, scr, tmp, cor, charts, created, done, ret, proj, valid, calls>>

(*   return dist <= tolerance;                                                  *)
PJRet ==
    /\ kind = "PJ" /\ pc = "ret"
    /\ pc' = "done" /\ ret' = (dist <= D)
    /\ UNCHANGED <<cfgv, prev, scr, tmp, dist, total, cor, charts, created, done, geo, exit, proj, valid, calls>>

(* =========================================================================== *)
(* AT  AtlasStateSpace::discreteGeodesic on a flat manifold: a chart is the     *)
(* line itself, phi(u) = origin + u, psi(u) = phi(u) where the function is 0,   *)
(* fails where it is NaN.  Guards that cannot hold on a flat chart are written  *)
(* down and evaluate to FALSE there: step = factor * delta < lambda * delta     *)
(* (no back-off, factor stays 1), distance(scratch, phi(u)) = 0 <= epsilon,     *)
(* delta / step = 1 >= cos(alpha), step >= epsilon_machine.                     *)
(*                                                                             *)
(* owningChart(x): nearest chart origin within rho (inclusive) whose polytope   *)
(* (|u| <= rho_s = rho, no half-spaces: separate = false) contains x            *)
Owners(x) == {c \in charts : AbsI(x - c) <= R}
Owner(x) == CHOOSE c \in Owners(x) : \A e \in Owners(x) : AbsI(x - c) <= AbsI(x - e)
(* getChart(scratch, true, &created): (new current chart, new chart set, created?) *)
Switch(x) == IF Owners(x) # {} THEN <<Owner(x), charts, 0>> ELSE <<x, charts \cup {x}, 1>>

(*   if (!isSatisfied(from) || !(interpolate || svc->isValid(from))) return false;   *)
ATStartValid(a) ==
    /\ kind = "AT" /\ pc = "start" /\ ~ip
    /\ a \in ValidOutcomes(0)
    /\ valid' = (0 :> a) @@ valid /\ calls' = Append(calls, <<"V", 0, IF a THEN 1 ELSE 0>>)
    /\ IF a THEN pc' = "start2" /\ UNCHANGED <<ret, exit>> ELSE Finish(FALSE, "badstart")
    /\ UNCHANGED <<cfgv, prev, scr, tmp, dist, total, cor, charts, created, done, geo, proj>>
(*   c = getChart(from); geodesic = {from};                                     *)
(*   if (distTo <= delta) return true; distMax = lambda * distTo; scratch = from *)
ATStart ==
    /\ kind \in {"AT", "TB"}
    /\ pc = (IF kind = "AT" /\ ~ip THEN "start2" ELSE "start")
    /\ geo' = <<0>>
    /\ IF T <= D THEN Finish(TRUE, "near") ELSE pc' = "advance" /\ UNCHANGED <<ret, exit>>
    /\ UNCHANGED <<cfgv, prev, scr, tmp, dist, total, cor, charts, created, done, proj, valid, calls>>

(*   do { if (factor < delta) break;            (factor = 1: see above)         *)
(*        u_j += factor * delta * (u_b - u_j).normalized();                     *)
(*        if (!c->psi(u_j, *temp)) break;                                       *)
Advance == scr + D * Sgn(T - scr)
ATPsi(o) ==
    /\ kind = "AT" /\ pc = "advance"
    /\ o \in PsiOutcomes(Advance) /\ TellProj(Advance, o)
    /\ tmp' = Advance
    /\ IF o = Fail THEN pc' = "ret" /\ exit' = "psifail" /\ done' = FALSE
       ELSE pc' = (IF ip THEN "accept" ELSE "valid") /\ UNCHANGED <<exit, done>>
    /\ UNCHANGED <<cfgv, prev, scr, dist, total, cor, charts, created, geo, ret, valid>>

(*        step = distance(scratch, temp); if (step < eps) break;                *)
(*        if (step >= lambda * delta) { factor *= backoff; continue; }          *)
(*        dist += step; scratch = temp;                                         *)
(*        if (!(interpolate || svc->isValid(scratch)) ...                       *)
ATValid(a) ==
    /\ kind = "AT" /\ pc = "valid"
    /\ a \in ValidOutcomes(tmp)
    /\ valid' = (tmp :> a) @@ valid /\ calls' = Append(calls, <<"V", tmp, IF a THEN 1 ELSE 0>>)
    /\ IF a THEN pc' = "accept" /\ UNCHANGED <<exit, scr, dist>>
       ELSE /\ pc' = "ret" /\ exit' = "invalid"
            /\ scr' = tmp /\ dist' = dist + AbsI(tmp - scr)     \* scratch was updated before the test
    /\ done' = FALSE
    /\ UNCHANGED <<cfgv, prev, tmp, total, cor, charts, created, geo, ret, proj>>

(*            || distance(from, scratch) > distMax || dist > distMax            *)
(*            || chartsCreated > maxChartsPerExtension_) { done = false; break; } *)
(*        if (... || !c->inPolytope(u_j)) { c = getChart(scratch, true, &created); *)
(*              chartsCreated += created; re-project u_j, u_b }                  *)
(*        done = distance(scratch, to) <= delta_; factor = 1;                    *)
(*        geodesic.push_back(scratch);                                           *)
(*   } while (!done);                                                            *)
ATAccept ==
    /\ kind = "AT" /\ pc = "accept"
    /\ LET step == AbsI(tmp - scr)
           nd == dist + step
       IN  /\ scr' = tmp /\ dist' = nd
           /\ IF 2 * AbsI(tmp) > L * T \/ 2 * nd > L * T
              THEN pc' = "ret" /\ exit' = "toofar" /\ done' = FALSE /\ UNCHANGED <<cor, charts, created, geo>>
              ELSE IF created > MC
              THEN pc' = "ret" /\ exit' = "charts" /\ done' = FALSE /\ UNCHANGED <<cor, charts, created, geo>>
              ELSE /\ IF AbsI(tmp - cor) > R
                      THEN /\ cor' = Switch(tmp)[1] /\ charts' = Switch(tmp)[2]
                           /\ created' = created + Switch(tmp)[3]
                      ELSE UNCHANGED <<cor, charts, created>>
                   /\ done' = (AbsI(T - tmp) <= D)
                   /\ geo' = Append(geo, tmp)
                   /\ IF AbsI(T - tmp) <= D THEN pc' = "ret" /\ exit' = "arrived"
                      ELSE pc' = "advance" /\ exit' = exit
    /\ UNCHANGED <<cfgv, prev, tmp, total, ret, proj, valid, calls>>

(*   ret = done && distance(to, scratch) <= delta_;                              *)
ATRet ==
    /\ kind = "AT" /\ pc = "ret"
    /\ pc' = "done" /\ ret' = (done /\ AbsI(T - scr) <= D)
    /\ UNCHANGED <<cfgv, prev, scr, tmp, dist, total, cor, charts, created, done, geo, exit, proj, valid, calls>>

(* =========================================================================== *)
(* TB  TangentBundleStateSpace::discreteGeodesic on a flat manifold.  The step  *)
(* is phi (no projection); the validity test looks at `scratch`, i.e. at the    *)
(* PREVIOUS state; psi is only applied when a chart is left or the target is    *)
(* near; the return value ignores `done`.                                       *)
(*   do { u_j += delta * (u_b - u_j).normalized(); c->phi(u_j, *temp);          *)
(*        step = distance(temp, scratch); if (step < eps) break; dist += step;  *)
(*        if (!(interpolate || svc->isValid(scratch)) ...                       *)
TBAdvance ==
    /\ kind = "TB" /\ pc = "advance"
    /\ tmp' = Advance /\ dist' = dist + AbsI(Advance - scr)
    /\ pc' = (IF ip THEN "limits" ELSE "valid")
    /\ UNCHANGED <<cfgv, prev, scr, total, cor, charts, created, done, geo, ret, exit, proj, valid, calls>>
TBValid(a) ==
    /\ kind = "TB" /\ pc = "valid"
    /\ a \in ValidOutcomes(scr)
    /\ valid' = (scr :> a) @@ valid /\ calls' = Append(calls, <<"V", scr, IF a THEN 1 ELSE 0>>)
    /\ IF a THEN pc' = "limits" /\ exit' = exit ELSE pc' = "ret" /\ exit' = "invalid"
    /\ UNCHANGED <<cfgv, prev, scr, tmp, dist, total, cor, charts, created, done, geo, ret, proj>>
(*            || distance(temp, from) > distMax || !isfinite(dist) || dist > distMax  *)
(*            || chartsCreated > maxChartsPerExtension_) break;                  *)
(*        done = (u_b - u_j).squaredNorm() <= delta^2;                           *)
(*        if (done || !c->inPolytope(u_j) || constraint_->distance(temp) > epsilon_)  *)
(*        {   if (!c->psi(u_j, *temp)) break;   ... (TBPsi)                      *)
TBLimits ==
    /\ kind = "TB" /\ pc = "limits"
    /\ IF 2 * AbsI(tmp) > L * T \/ 2 * dist > L * T
       THEN pc' = "ret" /\ exit' = "toofar" /\ UNCHANGED <<done, scr, geo>>
       ELSE IF created > MC
       THEN pc' = "ret" /\ exit' = "charts" /\ UNCHANGED <<done, scr, geo>>
       ELSE /\ done' = (AbsI(T - tmp) <= D)
            /\ pc' = (IF AbsI(T - tmp) <= D \/ AbsI(tmp - cor) > R THEN "psi" ELSE "fun")
            /\ UNCHANGED <<exit, scr, geo>>
    /\ UNCHANGED <<cfgv, prev, tmp, dist, total, cor, charts, created, ret, proj, valid, calls>>
(* third disjunct: constraint_->distance(temp) evaluates the function on the tangent-space state;  *)
(* on the flat manifold it is 0, in a NaN cell the comparison with epsilon is false: either way     *)
(* the state is stored as it is - THIS is how an off-manifold state gets into a TB geodesic          *)
(*        scratch = temp; geodesic.push_back(scratch); } while (!done);                              *)
TBFun(o) ==
    /\ kind = "TB" /\ pc = "fun"
    /\ o \in PsiOutcomes(tmp) /\ Tell("F", tmp, o)
    /\ scr' = tmp /\ geo' = Append(geo, tmp) /\ pc' = "advance"
    /\ UNCHANGED <<cfgv, prev, tmp, dist, total, cor, charts, created, done, ret, exit, valid>>
(*            scratch = temp; c = getChart(scratch, true, &created); chartsCreated += created; *)
(*            re-project u_j, u_b; done = (u_b - u_j).squaredNorm() <= delta^2; }  *)
(*        scratch = temp; geodesic.push_back(scratch);                           *)
(*   } while (!done);                                                            *)
TBPsi(o) ==
    /\ kind = "TB" /\ pc = "psi"
    /\ o \in PsiOutcomes(tmp) /\ TellProj(tmp, o)
    /\ IF o = Fail
       THEN pc' = "ret" /\ exit' = "psifail" /\ UNCHANGED <<scr, cor, charts, created, geo>>
       ELSE /\ scr' = tmp /\ geo' = Append(geo, tmp)
            /\ cor' = Switch(tmp)[1] /\ charts' = Switch(tmp)[2] /\ created' = created + Switch(tmp)[3]
            /\ IF done THEN pc' = "ret" /\ exit' = "arrived" ELSE pc' = "advance" /\ exit' = exit
    /\ UNCHANGED <<cfgv, prev, tmp, dist, total, done, ret, valid>>
(*   ret = distance(to, scratch) <= delta_;                                      *)
TBRet ==
    /\ kind = "TB" /\ pc = "ret"
    /\ pc' = "done" /\ ret' = (AbsI(T - scr) <= D)
    /\ UNCHANGED <<cfgv, prev, scr, tmp, dist, total, cor, charts, created, done, geo, exit, proj, valid, calls>>

Next ==
    \/ PJStart \/ PJStep \/ PJRet
    \/ \E o \in Jumps \cup {Fail} : PJProject(o) \/ ATPsi(o) \/ TBPsi(o) \/ TBFun(o)
    \/ \E a \in BOOLEAN : PJValid(a) \/ ATStartValid(a) \/ ATValid(a) \/ TBValid(a)
    \/ ATStart \/ ATAccept \/ ATRet
    \/ TBAdvance \/ TBLimits \/ TBRet

Spec == Init /\ [][Next]_vars

(* =========================================================================== *)
(* What the shared code of ConstrainedStateSpace derives from a geodesic.       *)
N == Len(geo)
RECURSIVE PS(_)
PS(i) == IF i <= 1 THEN 0 ELSE PS(i - 1) + AbsI(geo[i] - geo[i - 1])      \* d[i-1] of geodesicInterpolate

(* ConstrainedStateSpace::geodesicInterpolate(geodesic, t = q / TDen): 1-based index returned.  *)
(*   if (last <= eps) return geodesic[0];                                        *)
(*   i = 0; while (i < n - 1 && d[i] / last <= t) i++;   -- first state beyond t  *)
(*   t1 = (i > 0) ? t - d[i - 1] / last : 1;  t2 = d[i] / last - t;              *)
(*   return (i > 0 && (t1 < t2 || |t1 - t2| < eps)) ? geodesic[i - 1] : geodesic[i];  *)
(* (the closer of the two stored states that bracket t; as repaired in /repo -   *)
(* the pinned code compared the states i and i + 1 and so returned the first     *)
(* state beyond t, geodesic[1] for t = 0)                                        *)
(* (quotients of small integers against a dyadic t: the rounded comparison is   *)
(* the exact one)                                                               *)
Beyond(i, q) == i = N \/ PS(i) * TDen > q * PS(N)
GIndex(q) ==
    IF PS(N) = 0 THEN 1
    ELSE LET i == CHOOSE i \in 1..N : Beyond(i, q) /\ \A j \in 1..(i - 1) : ~Beyond(j, q)
             t1 == IF i > 1 THEN q * PS(N) - PS(i - 1) * TDen ELSE TDen * PS(N)
             t2 == PS(i) * TDen - q * PS(N)
         IN  IF i > 1 /\ t1 <= t2 THEN i - 1 ELSE i

(* ConstrainedStateSpace::interpolate(from, to, t): uses discreteGeodesic(from, to, true, ..)   *)
(* and returns `from` when that fails.  TangentBundleStateSpace::geodesicInterpolate projects   *)
(* the chosen state (psi, then the validity checker: cells the script never mentioned are       *)
(* valid) and falls back to geodesic[0].                                                        *)
Pick(q) == geo[GIndex(q)]
TBFix(c) == IF OnM(c) /\ (c \notin DOMAIN valid \/ valid[c]) THEN c ELSE geo[1]
InterpResult(q) == IF ~ret THEN 0 ELSE IF kind = "TB" THEN TBFix(Pick(q)) ELSE Pick(q)

(* ConstrainedMotionValidator::checkMotion(s1, s2) *)
CM1 == OnM(T) /\ ret
(* checkMotion(s1, s2, lastValid): <<result, lastValid cell or -1 = untouched, num, den>> with  *)
(* lastValid.second = num / den                                                                 *)
CM2 == IF N = 0 THEN <<FALSE, 0, 0, 1>>
       ELSE IF ret THEN <<OnM(T), -1, 0, 1>>
       ELSE <<FALSE, Last(geo), PS(N), PS(N) + AbsI(T - Last(geo))>>

(* =========================================================================== *)
(* Properties of the model (every configuration within the bounds).             *)
Finished == pc = "done"
Strict == kind \in {"PJ", "AT"}

TypeOK == pc \in {"start", "start2", "project", "valid", "step", "advance", "accept", "limits", "psi", "fun", "ret", "done"}

(* "every state on a successfully computed discrete geodesic satisfies the constraint" *)
(* (it holds for unsuccessful ones too)                                                *)
GeoOnManifold == Finished /\ Strict => \A i \in 1..N : OnM(geo[i])
(* "consecutive geodesic states are no farther apart than the configured step bound"   *)
GeoStepBound == Finished /\ Strict => \A i \in 1..(N - 1) : 2 * AbsI(geo[i + 1] - geo[i]) <= L * D
(* "a geodesic that reports success ends within one step size of the requested target" *)
GeoSuccessNear == Finished /\ ret => N >= 1 /\ AbsI(T - Last(geo)) <= D
(* TB: the LAST state of a successful geodesic is on the manifold (it was projected)   *)
TBEndOnManifold == Finished /\ kind = "TB" /\ ret /\ N > 1 => OnM(Last(geo))
(* interpolate returns one of the stored geodesic states; the last one at t = 1; the   *)
(* result satisfies the constraint in all three spaces                                 *)
InterpInRange == Finished /\ ip /\ N >= 1 => \A q \in 0..TDen : GIndex(q) \in 1..N
InterpEnd == Finished /\ ip /\ ret => GIndex(TDen) = N
InterpOnManifold == Finished /\ ip => \A q \in 0..TDen : OnM(InterpResult(q))
(* design check, NOT part of C16 (logged, never a verdict): t = 0 gives `from`         *)
InterpStartIsFrom == Finished /\ ip /\ ret => InterpResult(0) = 0
(* a motion reported valid has a successful geodesic to a target on the manifold and   *)
(* (PJ, AT) every geodesic state after `from` was accepted by the validity checker     *)
MotionNeedsGeodesic == Finished /\ ~ip /\ CM1 => ret /\ OnM(T)
MotionStatesValid == Finished /\ ~ip /\ Strict /\ CM1 =>
                         \A i \in 2..N : geo[i] \in DOMAIN valid /\ valid[geo[i]]
MotionFormsAgree == Finished /\ ~ip => CM2[1] = CM1
LastValidOnGeodesic == Finished /\ ~ip /\ ~CM2[1] /\ N >= 1 => CM2[2] = Last(geo) /\ CM2[4] > 0
(* the loops end: no geodesic is longer than the wandering bound allows *)
Bounded == N <= MaxT + 1 /\ Len(calls) <= 2 * MaxT + 4

(* ------------------------------------------------------------- scenario export *)
EmitDone == Finished =>
    PrintT(ToJson([kind |-> kind, D |-> D, L |-> L, T |-> T, ip |-> ip, R |-> R, MC |-> MC,
                   calls |-> calls, geo |-> geo, ret |-> ret, exit |-> exit,
                   created |-> created, ncharts |-> Cardinality(charts),
                   it |-> IF ip /\ N >= 1 THEN [q \in 1..(TDen + 1) |-> InterpResult(q - 1)] ELSE <<>>,
                   gi |-> IF ip /\ N >= 1 /\ ret THEN [q \in 1..(TDen + 1) |-> GIndex(q - 1)] ELSE <<>>,
                   cm1 |-> (~ip /\ CM1), cm2 |-> IF ip THEN <<>> ELSE <<IF CM2[1] THEN 1 ELSE 0, CM2[2], CM2[3], CM2[4]>>]))
==============================================================================
