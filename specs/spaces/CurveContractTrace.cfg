\* Tolerance classes in units of 1e-8 * rho * max(1, d) (justification: tools/checks/c14.py, TOLERANCES).
\* tools/checks/c14.py generates the same file without the INVARIANT: acceptance is then the printed verdict
\* (no counterexample of a few thousand states to print).
SPECIFICATION TSpec
CONSTANTS
  TolStep = 100
  TolEnd = 500
  TolYaw = 500
  TolArc = 100
  TolShort = 1000
  TolSym = 100
  TolOrder = 100
  TolPrefix = 1000
  Res = 200
  SymPrefixEquality = FALSE
INVARIANT NotAccepted
CHECK_DEADLOCK FALSE
