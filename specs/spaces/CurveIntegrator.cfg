SPECIFICATION Spec
CONSTANTS
  MaxLen = 2
INVARIANTS TypeOK NoGapNoOverlap InOrderWithinSegment AgreesWithClosedForm NoZeroLengthPieceIsLast EndHeading
  DubinsNeverReverses DubinsForwardUnlessReversed ReversedReadsFromTheEnd EmitCase
