SPECIFICATION Spec
INVARIANTS TypeOK WinnerIsARow
ACTION_CONSTRAINT Dump
