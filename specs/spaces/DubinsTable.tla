------------------------------ MODULE DubinsTable ------------------------------
(* The transcribed tables of src/ompl/base/spaces/src/DubinsStateSpace.cpp as pure data: *)
(* the 16-class decision trees of dubinsClassification, the meaning of every switching  *)
(* function, the quadrant positions of getDubinsClass, and the pure reading of the       *)
(* tables (Eval, ExhaustiveWord).  Used by DubinsClass (the machine TLC enumerates the    *)
(* branch cases of, and the sanity checks) and by CurveContractTrace (the drift metric). *)
EXTENDS Naturals, Integers, Sequences, FiniteSets

Words   == {"LSL", "RSR", "RSL", "LSR", "RLR", "LRL"}
WordSeq == <<"LSL", "RSR", "RSL", "LSR", "RLR", "LRL">>   \* DubinsStateSpace::dubinsPathType() order
ExName  == <<"lsl", "rsr", "rsl", "lsr", "rlr", "lrl">>

Leaf(w)          == [k |-> "leaf", w |-> w]
T(f, rel, y, n)  == [k |-> "test", f |-> f, rel |-> rel, y |-> y, n |-> n]
(* path = LSR; tmp = RSL; if (path.length() > tmp.length()) path = tmp;           *)
MinLR            == T("len", "lsr>rsl", Leaf("RSL"), Leaf("LSR"))

(* ------------------------------------------------------------------ the table *)
(* rel "<0": `s(d,alpha,beta) < 0.0`, ">0": `s > 0.0`, "a>b": `alpha > beta`,     *)
(* "a<b": `alpha < beta`; y = the branch taken when the comparison is true.       *)
Tree ==
  [ a11 |-> Leaf("RSL"),
    a12 |-> T("s13", "<0", T("s12", "<0", Leaf("RSR"), Leaf("RSL")), MinLR),
    a13 |-> T("s13", "<0", Leaf("RSR"), Leaf("LSR")),
    a14 |-> T("s14_1", ">0", Leaf("LSR"), T("s24", ">0", Leaf("RSL"), Leaf("RSR"))),
    a21 |-> T("s31", "<0", T("s21", "<0", Leaf("LSL"), Leaf("RSL")), MinLR),
    a22 |-> T("ab", "a>b", T("s22_1", "<0", Leaf("LSL"), Leaf("RSL")),
                           T("s22_2", "<0", Leaf("RSR"), Leaf("RSL"))),
    a23 |-> Leaf("RSR"),
    a24 |-> T("s24", "<0", Leaf("RSR"), Leaf("RSL")),
    a31 |-> T("s31", "<0", Leaf("LSL"), Leaf("LSR")),
    a32 |-> Leaf("LSL"),
    a33 |-> T("ab", "a<b", T("s33_1", "<0", Leaf("RSR"), Leaf("LSR")),
                           T("s33_2", "<0", Leaf("LSL"), Leaf("LSR"))),
    a34 |-> T("s24", "<0", T("s34", "<0", Leaf("RSR"), Leaf("LSR")), MinLR),
    a41 |-> T("s41_1", ">0", Leaf("RSL"), T("s41_2", ">0", Leaf("LSR"), Leaf("LSL"))),
    a42 |-> T("s42", "<0", Leaf("LSL"), Leaf("RSL")),
    a43 |-> T("s42", "<0", T("s43", "<0", Leaf("LSL"), Leaf("LSR")), MinLR),
    a44 |-> Leaf("LSR") ]

ClsName == << <<"a11", "a12", "a13", "a14">>, <<"a21", "a22", "a23", "a24">>,
              <<"a31", "a32", "a33", "a34">>, <<"a41", "a42", "a43", "a44">> >>
Classes == {ClsName[i][j] : i \in 1..4, j \in 1..4}

(* What each switching function IS (DubinsStateSpace.cpp:175-248): either one     *)
(* segment of one word minus pi (<<W, seg>>) or p_W1 - p_W2 - 2 (seg_W2 - pi).    *)
Def ==
  [ s12   |-> <<"RSR", "RSL", "q">>,  s22_2 |-> <<"RSR", "RSL", "q">>,
    s13   |-> <<"RSR", "t">>,         s14_1 |-> <<"RSR", "t">>,
    s21   |-> <<"LSL", "RSL", "t">>,  s22_1 |-> <<"LSL", "RSL", "t">>,
    s24   |-> <<"RSR", "q">>,
    s31   |-> <<"LSL", "q">>,         s41_2 |-> <<"LSL", "q">>,
    s33_1 |-> <<"RSR", "LSR", "t">>,  s34   |-> <<"RSR", "LSR", "t">>,
    s33_2 |-> <<"LSL", "LSR", "q">>,  s43   |-> <<"LSL", "LSR", "q">>,
    s41_1 |-> <<"LSL", "t">>,         s42   |-> <<"LSL", "t">>,
    ab    |-> <<"alpha-beta">>,       len   |-> <<"LSR-RSL">> ]
Meanings == {Def[f] : f \in DOMAIN Def}

(* ------------------------------------------------- quadrant positions (:401-445) *)
(* abstract position of an angle in [0, 2pi]: the five boundaries and the four    *)
(* open quadrants.  The if-chain of getDubinsClass, test by test.                 *)
QPos == <<"0", "q1", "h", "q2", "pi", "q3", "3h", "q4", "2pi">>
Idx(p) == CHOOSE i \in 1..9 : QPos[i] = p
Le(p, q) == Idx(p) <= Idx(q)     \* p <= q on positions
Lt(p, q) == Idx(p) < Idx(q)
RowOf(p) == IF Le("0", p) /\ Le(p, "h") THEN 1
            ELSE IF Lt("h", p) /\ Le(p, "pi") THEN 2
            ELSE IF Lt("pi", p) /\ Le(p, "3h") THEN 3
            ELSE IF Lt("3h", p) /\ Le(p, "2pi") THEN 4
            ELSE 0
(* mod2pi returns a value in [0, 2pi): the position "2pi" is not an input of the  *)
(* classification (it is covered by the totality check only).                     *)
ReachablePos == {QPos[i] : i \in 1..8}

RECURSIVE Eval(_, _)
Eval(t, os) == IF t.k = "leaf" THEN t.w
               ELSE IF os = <<>> THEN "short-trail"
               ELSE Eval(IF Head(os) THEN t.y ELSE t.n, Tail(os))
(* the word the running minimum of dubinsExhaustive ends with, given the five comparison outcomes *)
ExhaustiveWord(os) == LET won == {n \in 2..6 : os[n - 1]}
                      IN  IF won = {} THEN "LSL" ELSE WordSeq[CHOOSE n \in won : \A m \in won : m <= n]
===============================================================================
