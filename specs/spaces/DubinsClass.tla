------------------------------ MODULE DubinsClass ------------------------------
(* Implementation-shaped transcription of the DECISION STRUCTURE of               *)
(* src/ompl/base/spaces/src/DubinsStateSpace.cpp (property C14) over ABSTRACT     *)
(* inputs.  Nothing numeric is modelled: an input is the outcome of a comparison. *)
(*                                                                                *)
(*   ::dubins(d, alpha, beta)            :712-719   Triv, Long                    *)
(*   isLongPath                          :358-362   one boolean outcome           *)
(*   getDubinsClass                      :401-445   Row/Col over quadrant POSITIONS*)
(*   dubinsClassification                :447-690   Tree (16 classes), Walk, Leaf *)
(*   dubinsExhaustive                    :364-399   Ex (five running-min tests)   *)
(*   symmetric distance / interpolate    :744-747, :775-783   Sym                 *)
(*                                                                                *)
(* One behaviour = one branch case: the sequence of decisions (`trail`) and the   *)
(* word the code must pick.  TLC enumerates every combination of outcomes; every  *)
(* terminal state is printed as one case (EmitCase), every transition as one edge *)
(* (ACTION_CONSTRAINT Dump in the dump configuration).  Sanity of the table is    *)
(* decided on the model: every case ends in one of the six words, the tree is     *)
(* total and deterministic (complete prefix-free binary code), and the 16-class   *)
(* table is closed under the two symmetries of the Dubins problem (mirror image   *)
(* L<->R and path reversal), up to two sign combinations that are geometrically   *)
(* impossible (listed in Impossible with the argument).                           *)
EXTENDS DubinsTable, TLC, Json

(* ---------------------------------------------------------------- the machine *)
VARIABLES pc, node, trail, word, i,
          outs    \* the boolean outcomes consumed inside the class tree / the exhaustive fold
vars == <<pc, node, trail, word, i, outs>>

B(b) == IF b THEN "=T" ELSE "=F"

Init == pc \in {"triv", "sym"} /\ node = Leaf("none") /\ trail = <<>> /\ word = "none" /\ i = 0 /\ outs = <<>>

(* symmetrised space (:744-747 distance, :775-783 interpolate): path = dubins(from, to);         *)
(* path2 = dubins(to, from); if (path2.length() < path.length()) { path2.reverse_ = true; path = path2; } *)
(* abstract inputs: the words of the two directions and the outcome of the comparison            *)
Sym(wf, wb, b) == /\ pc = "sym"
                  /\ word' = IF b THEN wb ELSE wf
                  /\ trail' = <<"sym", "rev" \o B(b), IF b THEN wb ELSE wf>>
                  /\ pc' = "done"
                  /\ UNCHANGED <<node, i, outs>>

(* if (d < DUBINS_EPS && fabs(alpha - beta) < DUBINS_EPS) return {LSL, 0, d, 0}; *)
Triv(b) == /\ pc = "triv"
           /\ trail' = Append(trail, "triv" \o B(b))
           /\ IF b THEN pc' = "done" /\ word' = "LSL" ELSE pc' = "long" /\ UNCHANGED word
           /\ UNCHANGED <<node, i, outs>>

(* return isLongPath(d, alpha, beta) ? dubinsClassification(..) : dubinsExhaustive(..) *)
Long(b) == /\ pc = "long"
           /\ trail' = Append(trail, "long" \o B(b))
           /\ IF b THEN pc' = "class" /\ UNCHANGED <<word, i>>
              ELSE pc' = "ex" /\ word' = "LSL" /\ i' = 2
           /\ UNCHANGED <<node, outs>>

(* auto dubins_class = getDubinsClass(alpha, beta); switch (dubins_class) *)
Classify(pa, pb) == /\ pc = "class"
                    /\ LET c == ClsName[RowOf(pa)][RowOf(pb)]
                       IN  trail' = Append(trail, c) /\ node' = Tree[c]
                    /\ pc' = "tree"
                    /\ UNCHANGED <<word, i, outs>>

Walk(b) == /\ pc = "tree" /\ node.k = "test"
           /\ trail' = Append(trail, node.f \o node.rel \o B(b))
           /\ node' = IF b THEN node.y ELSE node.n
           /\ outs' = Append(outs, b)
           /\ UNCHANGED <<pc, word, i>>

AtLeaf == /\ pc = "tree" /\ node.k = "leaf"
          /\ word' = node.w /\ pc' = "done"
          /\ UNCHANGED <<node, trail, i, outs>>

(* tmp = dubinsXYZ(d, alpha, beta); if ((len = tmp.length()) < minLength) { minLength = len; path = tmp; } *)
Ex(b) == /\ pc = "ex"
         /\ trail' = Append(trail, ExName[i] \o B(b))
         /\ word' = IF b THEN WordSeq[i] ELSE word
         /\ IF i = 6 THEN pc' = "done" /\ UNCHANGED i ELSE i' = i + 1 /\ UNCHANGED pc
         /\ outs' = Append(outs, b)
         /\ UNCHANGED node

Next == \/ \E b \in BOOLEAN : Triv(b) \/ Long(b) \/ Walk(b) \/ Ex(b)
        \/ \E pa \in ReachablePos, pb \in ReachablePos : Classify(pa, pb)
        \/ AtLeaf
        \/ \E wf \in Words, wb \in Words, b \in BOOLEAN : Sym(wf, wb, b)
Spec == Init /\ [][Next]_vars

Done == pc = "done"

(* ----------------------------------------------------------------- invariants *)
TypeOK == /\ pc \in {"triv", "sym", "long", "class", "tree", "ex", "done"}
          /\ word \in Words \cup {"none"}
          /\ i \in 0..6
WordAmongSix == Done => word \in Words
(* every state that is not a finished case can take a step whatever the outcome is *)
Total == ~Done => ENABLED Next
(* the machine agrees with reading the table as a pure function of the outcomes *)
TableAgrees == (Done /\ Len(trail) >= 3 /\ trail[2] = "long=T") => word = Eval(Tree[trail[3]], outs)
ExhaustiveAgrees ==
    (Done /\ Len(trail) = 7)
    => word = ExhaustiveWord(outs)

CaseJson == [k |-> IF trail[1] = "sym" THEN "scase" ELSE "dcase", trail |-> trail, word |-> word]
EmitCase == Done => PrintT(ToJson(CaseJson))

Dump == PrintT(ToJson([k |-> "edge", src |-> [pc |-> pc, trail |-> trail], dst |-> [pc |-> pc', trail |-> trail'],
                       word |-> word']))

(* --------------------------------------------------- static sanity of the table *)
RECURSIVE Leaves(_), Depth(_), Weight(_, _), Tests(_)
Leaves(t) == IF t.k = "leaf" THEN {t.w} ELSE Leaves(t.y) \cup Leaves(t.n)
Depth(t)  == IF t.k = "leaf" THEN 0
             ELSE 1 + (IF Depth(t.y) > Depth(t.n) THEN Depth(t.y) ELSE Depth(t.n))
Pow2(n) == IF n = 0 THEN 1 ELSE IF n = 1 THEN 2 ELSE IF n = 2 THEN 4 ELSE IF n = 3 THEN 8 ELSE 16
(* Kraft sum of the leaves at depth budget D: a complete prefix-free decision code sums to 2^D *)
Weight(t, D) == IF t.k = "leaf" THEN Pow2(D) ELSE Weight(t.y, D - 1) + Weight(t.n, D - 1)
Tests(t) == IF t.k = "leaf" THEN {} ELSE {<<t.f, t.rel>>} \cup Tests(t.y) \cup Tests(t.n)

ASSUME TableWellFormed ==
    \A c \in Classes :
        /\ Leaves(Tree[c]) \subseteq {"LSL", "RSR", "RSL", "LSR"}     \* long paths: CSC words only
        /\ Depth(Tree[c]) <= 3
        /\ Weight(Tree[c], 3) = 8
        /\ \A ft \in Tests(Tree[c]) : ft[1] \in DOMAIN Def /\ ft[2] \in {"<0", ">0", "a>b", "a<b", "lsr>rsl"}
ASSUME QuadrantsTotal == \A p \in {QPos[n] : n \in 1..9} : RowOf(p) \in 1..4
ASSUME BoundariesBelongBelow == RowOf("0") = 1 /\ RowOf("h") = 1 /\ RowOf("pi") = 2 /\ RowOf("3h") = 3 /\ RowOf("2pi") = 4
ASSUME QuadrantsMonotone == \A p, q \in {QPos[n] : n \in 1..9} : Le(p, q) => RowOf(p) <= RowOf(q)

(* ---- symmetries of the Dubins problem the table has to respect ---------------- *)
(* mirror image (y -> -y): alpha -> 2pi - alpha, beta -> 2pi - beta, L <-> R       *)
(* reversal (drive the path from the target, headings turned by pi): alpha <->     *)
(* beta, first and last segment exchange their roles, and a left arc driven the    *)
(* other way round is a right arc: LSL <-> RSR, LSR and RSL stay.                  *)
MirW == [LSL |-> "RSR", RSR |-> "LSL", RSL |-> "LSR", LSR |-> "RSL"]
RevW == [LSL |-> "RSR", RSR |-> "LSL", RSL |-> "RSL", LSR |-> "LSR"]
SwapTQ(s) == IF s = "t" THEN "q" ELSE "t"
MirM(m) == IF Len(m) = 1 THEN m
           ELSE IF Len(m) = 2 THEN <<MirW[m[1]], m[2]>> ELSE <<MirW[m[1]], MirW[m[2]], m[3]>>
RevM(m) == IF Len(m) = 1 THEN m
           ELSE IF Len(m) = 2 THEN <<RevW[m[1]], SwapTQ(m[2])>> ELSE <<RevW[m[1]], RevW[m[2]], SwapTQ(m[3])>>
(* sign of a meaning in the transformed problem, given the signs sg in the original one *)
MirS(sg, m) == IF Len(m) = 1 THEN 0 - sg[m] ELSE sg[MirM(m)]          \* alpha-beta and LSR-RSL change sign
RevS(sg, m) == IF m = <<"alpha-beta">> THEN 0 - sg[m] ELSE sg[RevM(m)]  \* LSR-RSL keeps its sign

Holds(rel, s) == CASE rel = "<0" -> s < 0 [] rel = ">0" -> s > 0 [] rel = "a>b" -> s > 0
                   [] rel = "a<b" -> s < 0 [] rel = "lsr>rsl" -> s > 0
SignIn(mode, sg, m) == IF mode = "id" THEN sg[m] ELSE IF mode = "mir" THEN MirS(sg, m) ELSE RevS(sg, m)
RECURSIVE EvalS(_, _, _)
(* read tree t where the sign of the quantity with meaning m is SignIn(mode, sg, m) *)
EvalS(t, sg, mode) == IF t.k = "leaf" THEN t.w
                      ELSE EvalS(IF Holds(t.rel, SignIn(mode, sg, Def[t.f])) THEN t.y ELSE t.n, sg, mode)

(* Sign combinations that cannot occur (argument, for class a41; a14 is its mirror image):  *)
(* with alpha in the 4th and beta in the 1st quadrant, t_lsl = mod2pi(-alpha + theta) > pi    *)
(* needs theta < alpha - 2pi < 0 while q_lsl = mod2pi(beta - theta) > pi needs theta > beta > *)
(* 0, where theta is the direction of the line joining the two left circle centres.          *)
Impossible(c, sg) == \/ c = "a41" /\ sg[<<"LSL", "t">>] > 0 /\ sg[<<"LSL", "q">>] > 0
                     \/ c = "a14" /\ sg[<<"RSR", "t">>] > 0 /\ sg[<<"RSR", "q">>] > 0
Signs == [Meanings -> {-1, 1}]
ASSUME MirrorSymmetric ==
    \A r \in 1..4, c \in 1..4 : \A sg \in Signs :
        Impossible(ClsName[r][c], sg)
        \/ MirW[EvalS(Tree[ClsName[r][c]], sg, "id")] = EvalS(Tree[ClsName[5 - r][5 - c]], sg, "mir")
ASSUME ReversalSymmetric ==
    \A r \in 1..4, c \in 1..4 : \A sg \in Signs :
        Impossible(ClsName[r][c], sg)
        \/ RevW[EvalS(Tree[ClsName[r][c]], sg, "id")] = EvalS(Tree[ClsName[c][r]], sg, "rev")

(* ------------------------------------------------------------- static exports *)
RECURSIVE NodeIds(_, _)
NodeIds(c, t) == IF t.k = "leaf" THEN {} ELSE {c \o ":" \o t.f \o t.rel} \cup NodeIds(c, t.y) \cup NodeIds(c, t.n)
Nodes == UNION {NodeIds(c, Tree[c]) : c \in Classes}
         \cup {"triv", "long", "row", "col", "rsr", "rsl", "lsr", "rlr", "lrl", "sym"}
ASSUME EmitTables ==
    /\ \A c \in Classes : PrintT(ToJson([k |-> "tree", cls |-> c, tree |-> Tree[c]]))
    /\ \A n \in Nodes : PrintT(ToJson([k |-> "node", id |-> n]))
    /\ \A pa \in ReachablePos, pb \in ReachablePos :
          PrintT(ToJson([k |-> "qpos", a |-> Idx(pa) - 1, b |-> Idx(pb) - 1, cls |-> ClsName[RowOf(pa)][RowOf(pb)]]))
===============================================================================
