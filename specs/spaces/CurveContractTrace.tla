-------------------------- MODULE CurveContractTrace --------------------------
(* impl -> spec: every recorded observation of the real DubinsStateSpace          *)
(* (asymmetric and symmetrised) and ReedsSheppStateSpace must be allowed by       *)
(* CurveContract.  Report-and-advance: a Pair event some clause refuses is        *)
(* printed with the names of the failed clauses and the cursor still advances,    *)
(* so one pass judges every event.  A Crash event has no transition: the verdict  *)
(* is then never printed and the trace is not accepted.                           *)
(*                                                                                *)
(* Besides the verdict the spec keeps, from the trace alone, the vacuity          *)
(* measurements the check gates on (which branch cases of DubinsClass /           *)
(* ReedsSheppClass were hit by an interior pair, which decision nodes were        *)
(* straddled on which side, how often each clause applied) and the DRIFT metric:  *)
(* whether the word the real code picked is the word the transcribed tables       *)
(* predict for the branch the event names (never a verdict).                      *)
EXTENDS CurveContract, DubinsTable, ReedsSheppTable, TraceIO

VARIABLES l, cnt, hit, sides
tvars == <<l, cnt, hit, sides>>
Ev == Log[l]

(* ---- drift: the transcribed table read on the branch the event names *)
Predicted(e) == CASE e.kind = "triv" -> "LSL"
                  [] e.kind = "long" /\ e.cls \in DOMAIN Tree -> Eval(Tree[e.cls], e.outs)
                  [] e.kind = "short" /\ Len(e.outs) = 5 -> ExhaustiveWord(e.outs)
                  [] OTHER -> "?"
WordDrift(e) == e.sp # "rs" /\ e.lw # Predicted(e)
(* the harness walks the tree exported by the model with its own arithmetic: its prediction must be the table's *)
HarnessDisagreesWithTable(e) == e.sp # "rs" /\ e.pw # Predicted(e)
RsCaseDrift(e) == e.sp = "rs" /\ "0" \notin SeqToSet(e.sg) /\ [row |-> e.row, signs |-> e.sg] \notin Cases
(* a sample strictly inside (0, 1) lies in a segment of non-zero length *)
IntegratorDrift(e) == \E n \in 1..Len(e.isegs) : e.isegs[n] + 1 \notin 1..Len(e.nz) \/ e.nz[e.isegs[n] + 1] = 0

B(b) == IF b THEN 1 ELSE 0
Bump(c, e, failed) ==
    [c EXCEPT !.events = @ + 1,
              !.dubins = @ + B(e.sp = "dubins"), !.dubinsSym = @ + B(e.sp = "dubinsSym"), !.rs = @ + B(e.sp = "rs"),
              !.refused = @ + B(failed # {}),
              !.interior = @ + B(e.inter),
              !.shortest = @ + B("ShortestOfSix" \in Applies[e.sp] /\ e.finite),
              !.symmetric = @ + B("Symmetric" \in Applies[e.sp] /\ e.finite),
              !.order = @ + B(e.sp = "rs" /\ e.finite /\ e.sl > Res),
              !.prefix = @ + (IF e.finite THEN 7 ELSE 0),
              !.reversed = @ + B(e.sp = "dubinsSym" /\ e.rev),
              !.cusps = @ + (IF e.sp = "rs" THEN e.cusp ELSE 0),
              !.driftInterior = @ + B(e.inter /\ (WordDrift(e) \/ RsCaseDrift(e))),
              !.driftBoundary = @ + B(~e.inter /\ (WordDrift(e) \/ RsCaseDrift(e))),
              !.driftIntegrator = @ + B(e.finite /\ IntegratorDrift(e)),
              !.harnessTable = @ + B(HarnessDisagreesWithTable(e))]

TInit == /\ l = 1
         /\ cnt = [events |-> 0, dubins |-> 0, dubinsSym |-> 0, rs |-> 0, refused |-> 0, interior |-> 0, shortest |-> 0,
                   symmetric |-> 0, order |-> 0, prefix |-> 0, reversed |-> 0, cusps |-> 0, driftInterior |-> 0,
                   driftBoundary |-> 0, driftIntegrator |-> 0, harnessTable |-> 0]
         /\ hit = {} /\ sides = {}

Report(e, failed) == IF failed = {} THEN TRUE
                     ELSE PrintT(ToJson([k |-> "refused", line |-> l, sp |-> e.sp, fam |-> e.fam, br |-> e.br, failed |-> failed]))
TPair == /\ l <= NLog /\ Ev.e = "Pair"
         /\ LET failed == Failed(Ev)
            IN  /\ Report(Ev, failed)
                /\ cnt' = Bump(cnt, Ev, failed)
         /\ hit' = IF Ev.inter THEN hit \cup {Ev.br} ELSE hit
         /\ sides' = IF Ev.bnd # "" THEN sides \cup {<<Ev.bnd, IF Ev.off < 0 THEN "-" ELSE "+">>} ELSE sides
         /\ l' = l + 1
TDone == /\ l = NLog + 1
         /\ PrintT(ToJson([k |-> "verdict", lines |-> NLog, cnt |-> cnt, hit |-> hit,
                           sides |-> {s[1] \o ":" \o s[2] : s \in sides}]))
         /\ l' = l + 1
         /\ UNCHANGED <<cnt, hit, sides>>
TNext == TPair \/ TDone
TSpec == TInit /\ [][TNext]_tvars
(* accepted iff the cursor ran past the last line and the verdict was printed *)
NotAccepted == l <= NLog + 1
===============================================================================
