----------------------- MODULE ConstrainedContractTrace -----------------------
(* impl -> spec: every observation harness/constrained.cpp recorded on the real *)
(* constrained state spaces (scripted lattice replays of Geodesic.tla and real  *)
(* manifolds alike) must be allowed by ConstrainedContract.  Report-and-advance: *)
(* a record that breaks clauses is printed as {line, failed} and the cursor     *)
(* still moves on, so one pass judges the whole recording; acceptance requires  *)
(* the whole trace to be consumed.  Crash / Hang / Threw records (a child       *)
(* process died, a call threw) are never allowed; an unknown record stops the   *)
(* cursor (framework error).                                                    *)
EXTENDS ConstrainedContract, TraceIO

VARIABLE l
Ev == Log[l]

Report(failed) == IF failed = {} THEN TRUE ELSE PrintT(ToJson([line |-> l, failed |-> failed]))
On(e, failed) == l <= NLog /\ Ev.e = e /\ Report(failed) /\ l' = l + 1

TInit == l = 1
TReset == l <= NLog /\ Ev.e = "Reset" /\ l' = l + 1
TSample == On("Sample", FailedSample(Ev))
TValidSample == On("ValidSample", FailedValidSample(Ev))
TInterp == On("Interp", FailedInterp(Ev))
TGeo == On("Geo", FailedGeo(Ev))
TMotion == On("Motion", FailedMotion(Ev))
TPath == On("PlannerPath", FailedPath(Ev))
TBad == l <= NLog /\ Ev.e \in {"Crash", "Hang", "Threw"} /\ Report({Ev.e}) /\ l' = l + 1

TNext == TReset \/ TSample \/ TValidSample \/ TInterp \/ TGeo \/ TMotion \/ TPath \/ TBad
TSpec == TInit /\ [][TNext]_l
NotAccepted == l <= NLog
==============================================================================
