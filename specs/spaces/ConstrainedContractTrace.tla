----------------------- MODULE ConstrainedContractTrace -----------------------
(* impl -> spec: every observation harness/constrained.cpp recorded on the real *)
(* constrained state spaces (scripted lattice replays of Geodesic.tla and real  *)
(* manifolds alike) must be allowed by ConstrainedContract.  Report-and-advance: *)
(* a record that breaks clauses is printed as {line, failed} and the cursor     *)
(* still moves on, so one pass judges the whole recording; acceptance requires  *)
(* the whole trace to be consumed.  Crash / Hang / Threw records (a child       *)
(* process died with the constrained-space code on its stack, ran away, a call  *)
(* threw) are never allowed; PlannerDied (a planner crashed inside its own      *)
(* data structures: no path, nothing of this property to judge - the planner    *)
(* properties own that) is consumed and counted by the check; an unknown record *)
(* stops the cursor (framework error).                                          *)
EXTENDS ConstrainedContract, TraceIO

VARIABLE l
Ev == Log[l]

Report(failed) == IF failed = {} THEN TRUE ELSE PrintT(ToJson([line |-> l, failed |-> failed]))
On(e, failed) == l <= NLog /\ Ev.e = e /\ Report(failed) /\ l' = l + 1

TInit == l = 1
TReset == l <= NLog /\ Ev.e = "Reset" /\ l' = l + 1
TSample == On("Sample", FailedSample(Ev))
TValidSample == On("ValidSample", FailedValidSample(Ev))
TInterp == On("Interp", FailedInterp(Ev))
TGeo == On("Geo", FailedGeo(Ev))
TMotion == On("Motion", FailedMotion(Ev))
TPath == On("PlannerPath", FailedPath(Ev))
TPlannerDied == l <= NLog /\ Ev.e = "PlannerDied" /\ l' = l + 1
TBad == l <= NLog /\ Ev.e \in {"Crash", "Hang", "Threw"} /\ Report({Ev.e}) /\ l' = l + 1

TNext == TReset \/ TSample \/ TValidSample \/ TInterp \/ TGeo \/ TMotion \/ TPath \/ TPlannerDied \/ TBad
TSpec == TInit /\ [][TNext]_l
NotAccepted == l <= NLog
==============================================================================
