SPECIFICATION Spec
INVARIANTS TypeOK WordAmongSix Total TableAgrees ExhaustiveAgrees EmitCase
