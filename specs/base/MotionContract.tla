---------------------------- MODULE MotionContract ----------------------------
(* Contract (A) of property C05: what a motion check has to answer, stated     *)
(* over the subdivision lattice only.  A motion from s1 to s2 with segment     *)
(* count nd has the lattice points 0..nd (point j is the interpolation at      *)
(* j/nd; 0 is the start state, nd the end state).  `valid` is the set of       *)
(* lattice points in 1..nd the validity predicate accepts; point 0 is valid by *)
(* the documented precondition of checkMotion ("assumes s1 is valid").         *)
(* Nothing here mentions loops, queues or midpoints: every verdict the replay  *)
(* harness or the trace spec takes comes from these operators.                 *)
EXTENDS Integers, Sequences, FiniteSets

Untouched == -7   \* stands for "caller's storage still holds the sentinel"

Points(nd) == 1..nd
Ok(valid, j) == j = 0 \/ j \in valid

(* the verdict both forms must give *)
Verdict(nd, valid) == \A j \in Points(nd) : j \in valid

(* the last-valid contract: i is a legal report for an invalid motion *)
LastValidOk(nd, valid, i) ==
    /\ 0 <= i /\ i < nd
    /\ \A k \in 1..i : k \in valid
    /\ (i + 1) \notin valid

(* the unique index satisfying LastValidOk when the motion is invalid *)
FirstInvalid(nd, valid) == CHOOSE j \in Points(nd) : j \notin valid /\ \A k \in 1..(j - 1) : k \in valid
ExpectedLast(nd, valid) == IF Verdict(nd, valid) THEN Untouched ELSE FirstInvalid(nd, valid) - 1

(* what one call may do to the caller's storage and the two counters *)
ReportOk(nd, valid, verdict, last) ==
    /\ verdict = Verdict(nd, valid)
    /\ verdict => last = Untouched
    /\ ~verdict => LastValidOk(nd, valid, last)
CountersOk(nd, valid, dValid, dInvalid) ==
    IF Verdict(nd, valid) THEN dValid = 1 /\ dInvalid = 0 ELSE dValid = 0 /\ dInvalid = 1
ExpectedCounter(nd, valid) == IF Verdict(nd, valid) THEN "valid" ELSE "invalid"

(* only lattice points of the motion other than the start may be consulted;    *)
(* for nd = 0 the end state is the start state, point 0                        *)
Consultable(nd) == Points(nd) \cup {nd}

(* ---- explicit list of states (SpaceInformation::checkMotion(states, count)): *)
(* points 0..count-1, none of them assumed valid                                *)
ListPoints(count) == 0..(count - 1)
ListVerdict(count, valid) == \A i \in ListPoints(count) : i \in valid
ListFirstInvalidOk(count, valid, i) ==
    /\ i \in ListPoints(count) /\ i \notin valid
    /\ \A k \in 0..(i - 1) : k \in valid
ExpectedFirstInvalid(count, valid) ==
    IF ListVerdict(count, valid) THEN Untouched
    ELSE CHOOSE i \in ListPoints(count) : ListFirstInvalidOk(count, valid, i)

(* ---- getMotionStates(s1, s2, states, count, endpoints, alloc): numerators of *)
(* the fractions k/(count+1) of the states returned, in order                   *)
MotionStates(count, endpoints) ==
    IF endpoints THEN [k \in 1..(count + 2) |-> k - 1] ELSE [k \in 1..count |-> k]
MotionStatesOk(count, endpoints, s) ==
    /\ Len(s) = count + (IF endpoints THEN 2 ELSE 0)
    /\ \A k \in 1..(Len(s) - 1) : s[k + 1] = s[k] + 1               \* equally spaced
    /\ \A k \in 1..Len(s) : s[k] \in 0..(count + 1)
    /\ endpoints => s[1] = 0 /\ s[Len(s)] = count + 1
    /\ ~endpoints /\ count > 0 => s[1] = 1 /\ s[Len(s)] = count
==============================================================================
