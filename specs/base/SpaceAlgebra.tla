----------------------------- MODULE SpaceAlgebra -----------------------------
(* Exact lattice models of the OMPL state spaces (properties C06 distances and  *)
(* C07 interpolation).  Everything is integer arithmetic:                       *)
(*                                                                              *)
(*   * a coordinate / angle / time is an integer number of FINE units; a        *)
(*     lattice state sits on a multiple of F = 64 fine units, so that every     *)
(*     interpolant at t, s, u in eighths (and the re-parameterised point at     *)
(*     s + (1-s)u, in 64ths) is again an integer;                               *)
(*   * RV(n): fine unit = u/64 (u a dyadic scale); SO2(N): fine unit =          *)
(*     pi/(64 N), states in [-64N, 64N) (i.e. [-pi, pi)); SO3: the 24 Hurwitz   *)
(*     unit quaternions, written with doubled components <<2x,2y,2z,2w>>, and   *)
(*     for interpolants a point on the geodesic from q1 towards sg*q2 at an     *)
(*     angle of pos fine units of pi/384; Time / Discrete: integers;            *)
(*   * a distance is a FORMAL SUM: a sequence of terms [c, f, n] meaning        *)
(*     c[1]/c[2] * f(n) with f = "s": sqrt(n), "p": pi*n, "i": n,               *)
(*     "sp": pi*sqrt(n).  The harness evaluates the sum numerically; TLC        *)
(*     decides the laws on the integers.                                        *)
(*                                                                              *)
(*   * EmptyStateSpace is RV with n = 0 (one state, distance 0); SpaceTime is a   *)
(*     space component (R^n) and a time component on lattices of the same unit,  *)
(*     a speed limit vMax = v[1]/v[2] and weights adding up to 1: the distance   *)
(*     is the formal term "inf" when the time between the two states is less     *)
(*     than the motion needs at vMax, else the weighted sum of the two           *)
(*     component distances; it claims no triangle inequality and an infinite     *)
(*     extent.                                                                   *)
(*                                                                              *)
(* The model states the CONTRACT (what the property says a distance / an        *)
(* interpolant is: Euclidean length, shorter arc, rotation angle with q = -q,   *)
(* weighted sum; point at fraction t of a shortest geodesic, represented in     *)
(* bounds, either geodesic when two are shortest), not the code's control flow. *)
(* TLC checks the laws of C06 / C07 on the model itself for every enumerated    *)
(* case and prints each case with its expected outcome (one JSON line per       *)
(* transition from-state -> case) for replay on the real spaces.                *)
EXTENDS Integers, Sequences, FiniteSets, TLC, Json

CONSTANTS SpaceId,  \* catalogue entry (string)
          Size,     \* 1: quick lattice, 2: thorough lattice
          Prop      \* 6: pairs and triples (C06), 7: interpolation cases (C07)

VARIABLE cs

F == 64
Abs(x) == IF x < 0 THEN -x ELSE x
RECURSIVE Gcd(_, _)
Gcd(a, b) == IF b = 0 THEN a ELSE Gcd(b, a % b)
Rat(n, d) == LET g == Gcd(n, d) IN <<n \div g, d \div g>>
RMul(p, q) == Rat(p[1] * q[1], p[2] * q[2])
Exact(n, d) == IF n % d = 0 THEN n \div d
               ELSE Assert(FALSE, <<"interpolant leaves the fine lattice", n, d>>)

RECURSIVE ProdSets(_)
ProdSets(ss) == IF ss = <<>> THEN {<<>>}
                ELSE {<<h>> \o t : h \in Head(ss), t \in ProdSets(Tail(ss))}
RECURSIVE Flat(_)
Flat(ss) == IF ss = <<>> THEN <<>> ELSE Head(ss) \o Flat(Tail(ss))

(* ------------------------------ space constructors ------------------------------ *)
RV(n, lo, hi, un, ud) == [k |-> "RV", n |-> n, lo |-> lo, hi |-> hi, u |-> <<un, ud>>]
SO2(N) == [k |-> "SO2", N |-> N]
SO3 == [k |-> "SO3"]
TimeS(lo, hi, un, ud) == [k |-> "Time", lo |-> lo, hi |-> hi, u |-> <<un, ud>>]
Disc(lo, hi) == [k |-> "Disc", lo |-> lo, hi |-> hi]
Torus(N) == [k |-> "Torus", N |-> N]
Comp(real, sub, w) == [k |-> "Comp", real |-> real, sub |-> sub, w |-> w]
SE2(lo, hi, un, ud, N) == Comp("SE2", <<RV(2, lo, hi, un, ud), SO2(N)>>, <<<<1, 1>>, <<1, 2>>>>)
SE3(lo, hi, un, ud) == Comp("SE3", <<RV(3, lo, hi, un, ud), SO3>>, <<<<1, 1>>, <<1, 1>>>>)
Wrap(S) == [k |-> "Wrap", of |-> S]
(* EmptyStateSpace: a RealVectorStateSpace of dimension 0 (the harness builds the shipped class)          *)
EmptyS == [k |-> "RV", n |-> 0, lo |-> 0, hi |-> 0, u |-> <<1, 1>>, real |-> "Empty"]
(* SpaceTimeStateSpace(space, vMax, timeWeight): sub = <<R^n, time>>, w = <<1 - timeWeight, timeWeight>> *)
SpaceTime(space, time, w, v) == [k |-> "SpaceTime", sub |-> <<space, time>>, w |-> w, v |-> v]
IsComp(S) == S.k \in {"Comp", "SpaceTime"}     \* states, bounds and interpolation are the compound's
(* the shipped SE(2) / SE(3) classes after CompoundStateSpace::setSubspaceWeight(): still the real class, *)
(* other weights; the contract is the same weighted sum (and weighted sum of extents)                  *)
SE2w(lo, hi, un, ud, N, w1, w2) == Comp("SE2", <<RV(2, lo, hi, un, ud), SO2(N)>>, <<w1, w2>>)
SE3w(lo, hi, un, ud, w1, w2) == Comp("SE3", <<RV(3, lo, hi, un, ud), SO3>>, <<w1, w2>>)

(* ------------------------------ SO(3): Hurwitz lattice ------------------------------ *)
Q24 == {q \in [1..4 -> {-2, -1, 0, 1, 2}] :
           \/ \A i \in 1..4 : Abs(q[i]) = 1
           \/ \E i \in 1..4 : Abs(q[i]) = 2 /\ \A j \in (1..4) \ {i} : q[j] = 0}
D4(p, q) == p[1] * q[1] + p[2] * q[2] + p[3] * q[3] + p[4] * q[4]     \* 4 <p, q>
Ang6(p, q) == LET d == Abs(D4(p, q))                                    \* angle in units of pi/6
              IN  IF d = 4 THEN 0 ELSE IF d = 2 THEN 2 ELSE IF d = 0 THEN 3
                  ELSE Assert(FALSE, "not a Hurwitz pair")
Lat(q) == [q1 |-> q, q2 |-> q, sg |-> 1, pos |-> 0]
NegQ(q) == [i \in 1..4 |-> -q[i]]
NormG(g) == IF g.pos = 0 THEN Lat(g.q1)
            ELSE IF g.pos = F * Ang6(g.q1, g.q2) THEN Lat(IF g.sg = 1 THEN g.q2 ELSE NegQ(g.q2))
            ELSE g
SameRot(p, q) == Abs(D4(p, q)) = 4
SO3d(x, y) ==      \* in fine units of pi/(6F), on the sub-domain the laws need
    IF x.pos = 0 /\ y.pos = 0 THEN F * Ang6(x.q1, y.q1)
    ELSE IF x.pos = 0 /\ x.q1 = y.q1 THEN y.pos                       \* geodesic start to its point
    ELSE IF y.pos = 0 /\ SameRot(y.q1, x.q2) THEN F * Ang6(x.q1, x.q2) - x.pos  \* point to its target
    ELSE IF y.pos = 0 /\ y.q1 = x.q1 THEN x.pos
    ELSE Assert(FALSE, "SO3 distance outside the modelled sub-domain")
InterpSO3(x, y, tn, td) ==
    IF x.pos = 0
    THEN LET a == x.q1
             b == y.q1
             th == F * Ang6(a, b)
             d == D4(a, b)
             sgs == IF th = 0 \/ d > 0 THEN {1} ELSE IF d < 0 THEN {-1} ELSE {1, -1}
             ps == Exact(th * tn, td)
         IN  {NormG([q1 |-> a, q2 |-> b, sg |-> s, pos |-> ps]) : s \in sgs}
    ELSE IF y.q1 = x.q2
    THEN LET th == F * Ang6(x.q1, x.q2)
         IN  {NormG([x EXCEPT !.pos = x.pos + Exact((th - x.pos) * tn, td)])}
    ELSE Assert(FALSE, "SO3 interpolation outside the modelled sub-domain")

(* ------------------------------ SO(2) ------------------------------ *)
SO2d(N, a, b) == LET d == Abs(a - b) IN IF d > F * N THEN 2 * F * N - d ELSE d
WrapSO2(N, v) == ((v + F * N) % (2 * F * N)) - F * N
InterpSO2(N, a, b, tn, td) ==
    LET H == F * N
        diff == b - a
    IN  IF Abs(diff) < H THEN {WrapSO2(N, a + Exact(diff * tn, td))}
        ELSE IF Abs(diff) > H
        THEN LET short == IF diff > 0 THEN diff - 2 * H ELSE diff + 2 * H
             IN  {WrapSO2(N, a + Exact(short * tn, td))}
        ELSE {WrapSO2(N, a + Exact(diff * tn, td)), WrapSO2(N, a - Exact(diff * tn, td))}

(* ------------------------------ states ------------------------------ *)
RECURSIVE States(_)
States(S) ==
    CASE S.k = "RV" -> [1..S.n -> {F * c : c \in S.lo..S.hi}]
      [] S.k = "SO2" -> {F * c : c \in (-S.N)..(S.N - 1)}
      [] S.k = "SO3" -> {Lat(q) : q \in Q24}
      [] S.k = "Time" -> {F * c : c \in S.lo..S.hi}
      [] S.k = "Disc" -> S.lo..S.hi
      [] S.k = "Torus" -> [1..2 -> {F * c : c \in (-S.N)..(S.N - 1)}]
      [] IsComp(S) -> ProdSets([i \in 1..Len(S.sub) |-> States(S.sub[i])])
      [] S.k = "Wrap" -> States(S.of)

RECURSIVE InBounds(_, _)
InBounds(S, v) ==
    CASE S.k = "RV" -> \A i \in 1..S.n : v[i] >= F * S.lo /\ v[i] <= F * S.hi
      [] S.k = "SO2" -> v >= -F * S.N /\ v < F * S.N
      [] S.k = "SO3" -> v.pos >= 0 /\ v.pos <= F * Ang6(v.q1, v.q2)     \* a unit quaternion by construction
      [] S.k = "Time" -> v >= F * S.lo /\ v <= F * S.hi
      [] S.k = "Disc" -> v >= S.lo /\ v <= S.hi
      [] S.k = "Torus" -> \A i \in 1..2 : v[i] >= -F * S.N /\ v[i] < F * S.N
      [] IsComp(S) -> \A i \in 1..Len(S.sub) : InBounds(S.sub[i], v[i])
      [] S.k = "Wrap" -> InBounds(S.of, v)

RECURSIVE Equal(_, _, _)
Equal(S, a, b) ==
    CASE S.k = "SO3" -> NormG(a).pos = 0 /\ NormG(b).pos = 0 /\ SameRot(NormG(a).q1, NormG(b).q1)
      [] IsComp(S) -> \A i \in 1..Len(S.sub) : Equal(S.sub[i], a[i], b[i])
      [] S.k = "Wrap" -> Equal(S.of, a, b)
      [] OTHER -> a = b

HasKind(S, disc) ==   \* does the tree contain a discrete (disc = TRUE) / a continuous leaf
    LET RECURSIVE H(_)
        H(T) == CASE IsComp(T) -> \E i \in 1..Len(T.sub) : H(T.sub[i])
                  [] T.k = "Wrap" -> H(T.of)
                  [] OTHER -> (T.k = "Disc") = disc
    IN  H(S)
IsHybridOrDiscrete(S) == HasKind(S, TRUE)     \* exempt from the continuity laws, as in the library

(* ------------------------------ distance ------------------------------ *)
Term(c, f, n) == [c |-> c, f |-> f, n |-> n]
ScaleSum(w, s) == [k \in 1..Len(s) |-> Term(RMul(w, s[k].c), s[k].f, s[k].n)]
RECURSIVE SumSqFrom(_, _, _)
SumSqFrom(a, b, k) == IF k > Len(a) THEN 0 ELSE (a[k] - b[k]) * (a[k] - b[k]) + SumSqFrom(a, b, k + 1)

(* space-time: squared distance of the space component and time between the states, in fine units;     *)
(* the motion needs ds / vMax: it is not possible iff ds v[2] > dt v[1] (compared on the squares)      *)
STSpaceSq(S, a, b) == SumSqFrom(a[1], b[1], 1)
STTime(S, a, b) == Abs(a[2] - b[2])
STUnreachable(S, a, b) == STSpaceSq(S, a, b) * S.v[2] * S.v[2] > STTime(S, a, b) * STTime(S, a, b) * S.v[1] * S.v[1]
Inf == <<[c |-> <<1, 1>>, f |-> "inf", n |-> 1]>>
IsInf(s) == Len(s) = 1 /\ s[1].f = "inf"

RECURSIVE Dist(_, _, _)
Dist(S, a, b) ==
    CASE S.k = "RV" -> <<Term(Rat(S.u[1], F * S.u[2]), "s", SumSqFrom(a, b, 1))>>
      [] S.k = "SO2" -> <<Term(Rat(1, F * S.N), "p", SO2d(S.N, a, b))>>
      [] S.k = "SO3" -> <<Term(<<1, 6 * F>>, "p", SO3d(a, b))>>
      [] S.k = "Time" -> <<Term(Rat(S.u[1], F * S.u[2]), "i", Abs(a - b))>>
      [] S.k = "Disc" -> <<Term(<<1, 1>>, "i", Abs(a - b))>>
      [] S.k = "Torus" -> LET x == SO2d(S.N, a[1], b[1])
                              y == SO2d(S.N, a[2], b[2])
                          IN  <<Term(Rat(1, F * S.N), "sp", x * x + y * y)>>
      [] S.k = "Comp" -> Flat([i \in 1..Len(S.sub) |-> ScaleSum(S.w[i], Dist(S.sub[i], a[i], b[i]))])
      [] S.k = "SpaceTime" -> IF STUnreachable(S, a, b) THEN Inf
                              ELSE Flat([i \in 1..2 |-> ScaleSum(S.w[i], Dist(S.sub[i], a[i], b[i]))])
      [] S.k = "Wrap" -> Dist(S.of, a, b)

(* SpaceTimeStateSpace::timeToCoverDistance: the distance of the space component over vMax *)
TimeToCover(S, a, b) == ScaleSum(<<S.v[2], S.v[1]>>, Dist(S.sub[1], a[1], b[1]))

(* the same distance, computed top-down: every leaf term carries the product of the   *)
(* weights on its path (second formulation used by the law CompoundIsWeightedSum)     *)
RECURSIVE LeafTerms(_, _, _, _)
LeafTerms(S, a, b, w) ==
    CASE S.k = "Comp" -> Flat([i \in 1..Len(S.sub) |-> LeafTerms(S.sub[i], a[i], b[i], RMul(w, S.w[i]))])
      [] S.k = "Wrap" -> LeafTerms(S.of, a, b, w)
      [] OTHER -> ScaleSum(w, Dist(S, a, b))

RECURSIVE Ext(_)
Ext(S) ==
    CASE S.k = "RV" -> <<Term(Rat(S.u[1], F * S.u[2]), "s", S.n * (F * (S.hi - S.lo)) * (F * (S.hi - S.lo)))>>
      [] S.k = "SO2" -> <<Term(Rat(1, F * S.N), "p", F * S.N)>>
      [] S.k = "SO3" -> <<Term(<<1, 6 * F>>, "p", 3 * F)>>
      [] S.k = "Time" -> <<Term(Rat(S.u[1], F * S.u[2]), "i", F * (S.hi - S.lo))>>
      [] S.k = "Disc" -> <<Term(<<1, 1>>, "i", S.hi - S.lo)>>
      [] S.k = "Torus" -> <<Term(Rat(1, F * S.N), "sp", 2 * (F * S.N) * (F * S.N))>>
      [] S.k = "Comp" -> Flat([i \in 1..Len(S.sub) |-> ScaleSum(S.w[i], Ext(S.sub[i]))])
      [] S.k = "SpaceTime" -> Inf       \* "maximum extent is infinite, as the distance can be infinite even with bounded time"
      [] S.k = "Wrap" -> Ext(S.of)

Zero(s) == \A k \in 1..Len(s) : s[k].n = 0
(* sqrt(A) + sqrt(B) >= sqrt(C), decided on the integers *)
SqrtGe(A, B, C) == LET r == C - A - B IN r <= 0 \/ 4 * A * B >= r * r

RECURSIVE TriOK(_, _, _, _)
TriOK(S, a, b, c) ==       \* d(a,c) <= d(a,b) + d(b,c); lattice states only
    CASE S.k = "RV" -> SqrtGe(SumSqFrom(a, b, 1) \div (F * F), SumSqFrom(b, c, 1) \div (F * F),
                              SumSqFrom(a, c, 1) \div (F * F))
      [] S.k = "SO2" -> SO2d(S.N, a, c) <= SO2d(S.N, a, b) + SO2d(S.N, b, c)
      [] S.k = "SO3" -> SO3d(a, c) <= SO3d(a, b) + SO3d(b, c)
      [] S.k = "Torus" -> LET Q(p, q) == (SO2d(S.N, p[1], q[1]) * SO2d(S.N, p[1], q[1])
                                          + SO2d(S.N, p[2], q[2]) * SO2d(S.N, p[2], q[2])) \div (F * F)
                          IN  SqrtGe(Q(a, b), Q(b, c), Q(a, c))
      [] S.k = "Comp" -> \A i \in 1..Len(S.sub) : TriOK(S.sub[i], a[i], b[i], c[i])   \* weights > 0
      [] S.k = "Wrap" -> TriOK(S.of, a, b, c)
      [] OTHER -> Abs(a - c) <= Abs(a - b) + Abs(b - c)

(* ------------------------------ interpolation ------------------------------ *)
RECURSIVE Interp(_, _, _, _, _)
Interp(S, a, b, tn, td) ==     \* the SET of admissible results (two when two geodesics are shortest)
    CASE S.k = "RV" -> {[k \in 1..S.n |-> a[k] + Exact((b[k] - a[k]) * tn, td)]}
      [] S.k = "SO2" -> InterpSO2(S.N, a, b, tn, td)
      [] S.k = "SO3" -> InterpSO3(a, b, tn, td)
      [] S.k = "Time" -> {a + Exact((b - a) * tn, td)}
      [] S.k = "Disc" -> IF tn = 0 THEN {a} ELSE IF tn = td THEN {b} ELSE S.lo..S.hi
      [] S.k = "Torus" -> {<<x, y>> : x \in InterpSO2(S.N, a[1], b[1], tn, td),
                                      y \in InterpSO2(S.N, a[2], b[2], tn, td)}
      [] IsComp(S) -> ProdSets([i \in 1..Len(S.sub) |-> Interp(S.sub[i], a[i], b[i], tn, td)])
      [] S.k = "Wrap" -> Interp(S.of, a, b, tn, td)

(* dp = (i/8) d, term by term *)
ScaledBy(dp, d, i) ==
    /\ Len(dp) = Len(d)
    /\ \A k \in 1..Len(d) :
          /\ dp[k].c = d[k].c /\ dp[k].f = d[k].f
          /\ IF d[k].f \in {"s", "sp"} THEN 64 * dp[k].n = i * i * d[k].n ELSE 8 * dp[k].n = i * d[k].n

(* ------------------------------ case classes (which case split a case hits) ------------------------------ *)
RECURSIVE Cls(_, _, _)
Cls(S, a, b) ==
    CASE S.k = "RV" -> IF a = b THEN {"rv:coincident"}
                       ELSE IF \A i \in 1..S.n : Abs(a[i] - b[i]) = F * (S.hi - S.lo) THEN {"rv:extent"}
                       ELSE {"rv:generic"}
      [] S.k = "SO2" -> (IF a = b THEN {"so2:coincident"}
                         ELSE IF Abs(a - b) = F * S.N THEN {"so2:antipodal"}
                         ELSE IF Abs(a - b) > F * S.N THEN {"so2:seam"} ELSE {"so2:direct"})
                        \cup (IF a = -F * S.N \/ b = -F * S.N THEN {"so2:minus-pi"} ELSE {})
      [] S.k = "SO3" -> LET d == D4(a.q1, b.q1)
                        IN  IF d = 4 THEN {"so3:coincident"} ELSE IF d = -4 THEN {"so3:negated"}
                            ELSE IF d = 2 THEN {"so3:near"} ELSE IF d = -2 THEN {"so3:long-way"}
                            ELSE {"so3:orthogonal"}
      [] S.k = "Time" -> IF a = b THEN {"time:coincident"}
                         ELSE IF Abs(a - b) = F * (S.hi - S.lo) THEN {"time:extent"} ELSE {"time:generic"}
      [] S.k = "Disc" -> IF a = b THEN {"disc:coincident"}
                         ELSE IF Abs(a - b) = S.hi - S.lo THEN {"disc:extent"} ELSE {"disc:generic"}
      [] S.k = "Torus" -> Cls(SO2(S.N), a[1], b[1]) \cup Cls(SO2(S.N), a[2], b[2])
      [] S.k = "Comp" -> UNION {Cls(S.sub[i], a[i], b[i]) : i \in 1..Len(S.sub)}
      [] S.k = "SpaceTime" -> UNION {Cls(S.sub[i], a[i], b[i]) : i \in 1..2}
                              \cup (IF STUnreachable(S, a, b) THEN {"spacetime:unreachable"}
                                    ELSE IF STSpaceSq(S, a, b) * S.v[2] * S.v[2] = STTime(S, a, b) * STTime(S, a, b) * S.v[1] * S.v[1]
                                              /\ a # b
                                    THEN {"spacetime:on-the-light-cone"} ELSE {"spacetime:reachable-generic"})
      [] S.k = "Wrap" -> Cls(S.of, a, b)

(* ------------------------------ catalogue ------------------------------ *)
W(n, d) == <<n, d>>
Nest == Comp("Compound",
             <<SE2(0, 1, 1, 1, 2), TimeS(0, 1, 1, 2),
               Comp("Compound", <<SO2(2), RV(1, 0, 1, 2, 1)>>, <<W(1, 4), W(4, 1)>>)>>,
             <<W(2, 1), W(1, 2), W(1, 1)>>)
Hybrid == Comp("Compound", <<RV(1, -1, 1, 1, 1), Disc(0, 2), SO2(2)>>, <<W(1, 1), W(2, 1), W(1, 2)>>)
Rot3 == Comp("Compound", <<SO3, SO2(2), Torus(1)>>, <<W(3, 2), W(1, 1), W(1, 4)>>)

Sp == CASE SpaceId = "rv1" -> RV(1, -2, 2, 1, 1)
        [] SpaceId = "rv2" -> IF Size = 1 THEN RV(2, -1, 1, 1, 2) ELSE RV(2, -2, 2, 1, 2)
        [] SpaceId = "rv3" -> IF Size = 1 THEN RV(3, 0, 1, 4, 1) ELSE RV(3, 0, 2, 4, 1)
        [] SpaceId = "so2" -> IF Size = 1 THEN SO2(8) ELSE SO2(16)
        [] SpaceId = "so3" -> SO3
        [] SpaceId = "time" -> TimeS(-1, 3, 1, 2)
        [] SpaceId = "disc" -> Disc(-1, 2)
        [] SpaceId = "torus" -> IF Size = 1 THEN Torus(2) ELSE Torus(4)
        [] SpaceId = "se2" -> IF Size = 1 THEN SE2(0, 1, 1, 1, 4) ELSE SE2(-1, 1, 1, 1, 8)
        [] SpaceId = "se3" -> SE3(0, 1, 2, 1)
        [] SpaceId = "nest" -> Nest
        [] SpaceId = "hybrid" -> Hybrid
        [] SpaceId = "rot3" -> Rot3
        [] SpaceId = "se2w" -> IF Size = 1 THEN SE2w(0, 1, 1, 1, 4, W(3, 1), W(2, 1))
                               ELSE SE2w(-1, 1, 1, 1, 4, W(3, 1), W(2, 1))
        [] SpaceId = "se3w" -> SE3w(0, 1, 2, 1, W(1, 1), W(1, 16))
        [] SpaceId = "nest-se2w" -> Comp("Compound", <<SE2w(0, 1, 1, 1, 2, W(1, 4), W(1, 1)), TimeS(0, 1, 1, 2)>>,
                                         <<W(3, 2), W(1, 2)>>)
        [] SpaceId = "nest-se3w" -> Comp("Compound", <<SE3w(0, 1, 1, 1, W(2, 1), W(1, 2)), SO2(1)>>, <<W(1, 2), W(3, 1)>>)
        [] SpaceId = "wrap-se2w" -> Wrap(SE2w(0, 1, 1, 1, 2, W(1, 1), W(1, 16)))
        [] SpaceId = "wrap-se2" -> Wrap(SE2(0, 1, 1, 1, 4))
        [] SpaceId = "wrap-so3" -> Wrap(SO3)
        [] SpaceId = "empty" -> EmptyS
        [] SpaceId = "spacetime" -> SpaceTime(RV(1, -2, 2, 1, 1), TimeS(0, 3, 1, 1), <<W(1, 2), W(1, 2)>>, <<1, 1>>)
        [] SpaceId = "spacetime2" -> SpaceTime(RV(2, -1, 1, 1, 1), TimeS(0, 2, 1, 1), <<W(3, 4), W(1, 4)>>, <<2, 1>>)
        [] SpaceId = "wrap-nest" -> Wrap(Comp("Compound", <<Wrap(SO2(4)), RV(1, 0, 2, 1, 4)>>, <<W(3, 4), W(2, 1)>>))

Exempt == IsHybridOrDiscrete(Sp)
All == States(Sp)

(* deterministic thinning of big lattices: keep every m-th state of a fixed enumeration *)
RECURSIVE Code(_, _)
Code(S, v) ==       \* an integer code of a lattice state (not injective; only used for thinning)
    CASE S.k = "RV" -> SumSqFrom(v, [i \in 1..S.n |-> -3 * F * i], 1) \div (F * F)
      [] S.k = "SO2" -> (v \div F) + S.N
      [] S.k = "SO3" -> 27 * (v.q1[1] + 2) + 9 * (v.q1[2] + 2) + 3 * (v.q1[3] + 2) + v.q1[4] + 2
      [] S.k = "Time" -> v \div F - S.lo
      [] S.k = "Disc" -> v - S.lo
      [] S.k = "Torus" -> 5 * ((v[1] \div F) + S.N) + (v[2] \div F) + S.N
      [] IsComp(S) -> LET RECURSIVE Acc(_)
                             Acc(i) == IF i > Len(S.sub) THEN 0 ELSE (2 * i + 1) * Code(S.sub[i], v[i]) + Acc(i + 1)
                         IN  Acc(1)
      [] S.k = "Wrap" -> Code(S.of, v)
Thin(set, m) == IF m <= 1 THEN set ELSE {v \in set : Code(Sp, v) % m = 0}

(* how much of the lattice each kind of case uses: <<pairs-from, triples, interp-from>> moduli *)
Mods == CASE SpaceId \in {"se3", "se3w"} -> IF Size = 1 THEN <<4, 12, 32>> ELSE <<1, 5, 16>>
          [] SpaceId \in {"nest"} -> IF Size = 1 THEN <<4, 16, 32>> ELSE <<1, 7, 24>>
          [] SpaceId \in {"rot3", "nest-se3w"} -> IF Size = 1 THEN <<8, 24, 96>> ELSE <<1, 12, 48>>
          [] SpaceId \in {"se2", "se2w"} -> IF Size = 1 THEN <<1, 2, 2>> ELSE <<1, 4, 8>>
          [] SpaceId \in {"wrap-se2"} -> IF Size = 1 THEN <<2, 4, 4>> ELSE <<1, 1, 1>>
          [] SpaceId \in {"torus"} -> IF Size = 1 THEN <<1, 1, 1>> ELSE <<1, 2, 2>>
          [] SpaceId \in {"hybrid"} -> IF Size = 1 THEN <<1, 3, 1>> ELSE <<1, 1, 1>>
          [] SpaceId \in {"wrap-so3"} -> IF Size = 1 THEN <<2, 3, 3>> ELSE <<1, 1, 1>>
          [] SpaceId \in {"wrap-nest"} -> IF Size = 1 THEN <<1, 2, 2>> ELSE <<1, 1, 1>>
          [] OTHER -> <<1, 1, 1>>

PairFrom == Thin(All, Mods[1])
TriSet == Thin(All, Mods[2])
IFrom == Thin(All, Mods[3])
SVals == 0..8
UVals == IF Size = 1 THEN {0, 3, 8} ELSE 0..8

(* A case carries everything the laws and the export need, computed once when the case is    *)
(* generated.  The state graph has two levels (root -> from-state a -> cases starting at a) *)
(* so that TLC's workers share the enumeration.                                             *)
PairCase(a, b) == [kind |-> "pair", a |-> a, b |-> b, d |-> Dist(Sp, a, b), r |-> Dist(Sp, b, a),
                   lt |-> LeafTerms(Sp, a, b, <<1, 1>>), eq |-> Equal(Sp, a, b)]
TriCase(a, b, c) == [kind |-> "tri", a |-> a, b |-> b, c |-> c,
                     dab |-> Dist(Sp, a, b), dbc |-> Dist(Sp, b, c), dac |-> Dist(Sp, a, c)]
InterpCase(a, b, i, j) ==
    LET p1s == Interp(Sp, a, b, i, 8)
    IN  [kind |-> "interp", a |-> a, b |-> b, i |-> i, j |-> j,
         \* admissible (first interpolant, second interpolant) pairs; exempt spaces: first only
         pq |-> IF Exempt THEN {<<p, p>> : p \in p1s}
                ELSE UNION {{<<p, q>> : q \in Interp(Sp, p, b, j, 8)} : p \in p1s},
         tt |-> IF Exempt THEN {} ELSE Interp(Sp, a, b, 8 * i + (8 - i) * j, 64),
         d |-> Dist(Sp, a, b)]

FromSet == IF Prop = 6 THEN PairFrom \cup TriSet ELSE IFrom
CasesFrom(a) ==
    IF Prop = 6
    THEN (IF a \in PairFrom THEN {PairCase(a, b) : b \in All} ELSE {})
         \cup (IF a \in TriSet THEN {TriCase(a, b, c) : b \in TriSet, c \in TriSet} ELSE {})
    ELSE IF Exempt THEN {InterpCase(a, b, i, 0) : b \in All, i \in SVals}
    ELSE {InterpCase(a, b, i, j) : b \in All, i \in SVals, j \in UVals}

Init == cs = [kind |-> "root"]
Next == \/ cs.kind = "root" /\ cs' \in {[kind |-> "from", a |-> a] : a \in FromSet}
        \/ cs.kind = "from" /\ cs' \in CasesFrom(cs.a)
Spec == Init /\ [][Next]_cs

(* ------------------------------ the laws, on the model itself ------------------------------ *)
WeightsPositive ==
    LET RECURSIVE P(_)
        P(T) == CASE IsComp(T) -> \A i \in 1..Len(T.sub) : T.w[i][1] > 0 /\ T.w[i][2] > 0 /\ P(T.sub[i])
                  [] T.k = "Wrap" -> P(T.of)
                  [] OTHER -> TRUE
    IN  P(Sp)
ASSUME WeightsPositive
(* space-time: R^n and time on lattices of the same unit, weights (1 - timeWeight, timeWeight), vMax > 0 *)
ASSUME Sp.k = "SpaceTime" => /\ Sp.sub[1].k = "RV" /\ Sp.sub[2].k = "Time" /\ Sp.sub[1].u = Sp.sub[2].u
                             /\ Sp.w[1][2] = Sp.w[2][2] /\ Sp.w[1][1] + Sp.w[2][1] = Sp.w[1][2]
                             /\ Sp.v[1] > 0 /\ Sp.v[2] > 0
ExtSp == Ext(Sp)
ClaimsMetric == Sp.k # "SpaceTime"     \* "no metric state space, as the triangle inequality is not satisfied"

IsPair == cs.kind = "pair"
NonNegative == IsPair => \A k \in 1..Len(cs.d) : cs.d[k].n >= 0 /\ cs.d[k].c[1] > 0 /\ cs.d[k].c[2] > 0
Identity == IsPair => (cs.eq => Zero(cs.d))
Positivity == IsPair => (~cs.eq => ~Zero(cs.d))
Symmetry == IsPair => cs.d = cs.r
ExtentBound == IsPair => \/ IsInf(ExtSp)
                         \/ /\ Len(cs.d) = Len(ExtSp)
                            /\ \A k \in 1..Len(cs.d) : /\ cs.d[k].c = ExtSp[k].c /\ cs.d[k].f = ExtSp[k].f
                                                        /\ cs.d[k].n <= ExtSp[k].n
CompoundIsWeightedSum == IsPair => cs.d = cs.lt
Triangle == (cs.kind = "tri" /\ ClaimsMetric) => TriOK(Sp, cs.a, cs.b, cs.c)
(* space-time: infinite iff the time between the states is less than timeToCoverDistance (compared on the    *)
(* squares, the latter read off its own formal term); a finite distance is the weighted sum of the parts      *)
SpaceTimeLaw == (IsPair /\ Sp.k = "SpaceTime") =>
    LET need == TimeToCover(Sp, cs.a, cs.b)[1]          \* c[1]/c[2] * sqrt(n) lattice units (c carries the unit)
        have == STTime(Sp, cs.a, cs.b)
        u == Sp.sub[2].u
    IN  /\ IsInf(cs.d) <=> need.c[1] * need.c[1] * need.n * (F * u[2]) * (F * u[2])
                              > have * have * need.c[2] * need.c[2] * u[1] * u[1]
        /\ ~IsInf(cs.d) => cs.d = LeafTerms([Sp EXCEPT !.k = "Comp"], cs.a, cs.b, <<1, 1>>)

IsInterp == cs.kind = "interp"
Endpoints == IsInterp => /\ cs.i = 0 => \A x \in cs.pq : Equal(Sp, x[1], cs.a)
                         /\ cs.i = 8 => \A x \in cs.pq : Equal(Sp, x[1], cs.b)
StaysInBounds == IsInterp => \A x \in cs.pq : InBounds(Sp, x[1]) /\ InBounds(Sp, x[2])
Reparameterisation == (IsInterp /\ ~Exempt) => \A x \in cs.pq : x[2] \in cs.tt
Proportionality == (IsInterp /\ ~Exempt /\ ~IsInf(cs.d)) => \A x \in cs.pq : ScaledBy(Dist(Sp, cs.a, x[1]), cs.d, cs.i)

(* ------------------------------ export (M3) ------------------------------ *)
RECURSIVE JS(_, _)
JS(S, v) ==      \* JSON-friendly projection of a model value
    CASE S.k = "SO3" -> IF v.pos = 0 THEN v.q1 ELSE v
      [] IsComp(S) -> [i \in 1..Len(S.sub) |-> JS(S.sub[i], v[i])]
      [] S.k = "Wrap" -> JS(S.of, v)
      [] OTHER -> v

RECURSIVE Exp07(_, _, _, _, _)
Exp07(S, a, b, i, j) ==
    CASE IsComp(S) -> [sub |-> [m \in 1..Len(S.sub) |-> Exp07(S.sub[m], a[m], b[m], i, j)]]
      [] S.k = "Wrap" -> Exp07(S.of, a, b, i, j)
      [] OTHER -> [alts |-> IF Exempt THEN {<<JS(S, p)>> : p \in Interp(S, a, b, i, 8)}
                            ELSE UNION {{<<JS(S, p), JS(S, q)>> : q \in Interp(S, p, b, j, 8)} :
                                        p \in Interp(S, a, b, i, 8)}]

TCls(i, j) == (IF i = 0 THEN {"t:0"} ELSE IF i = 8 THEN {"t:1"} ELSE {})
              \cup (IF j = 8 THEN {"u:1"} ELSE {})
LandsOnSeam(c) ==     \* an interpolant of an SO2 leaf is exactly -pi
    LET RECURSIVE L(_, _)
        L(S, v) == CASE S.k = "SO2" -> v = -F * S.N
                     [] S.k = "Torus" -> v[1] = -F * S.N \/ v[2] = -F * S.N
                     [] IsComp(S) -> \E m \in 1..Len(S.sub) : L(S.sub[m], v[m])
                     [] S.k = "Wrap" -> L(S.of, v)
                     [] OTHER -> FALSE
    IN  \E x \in c.pq : L(Sp, x[1])

Header == [k |-> "space", id |-> SpaceId, sp |-> Sp, ext |-> Ext(Sp), metric |-> ClaimsMetric, sym |-> TRUE,
           exempt |-> Exempt, states |-> Cardinality(All), prop |-> Prop]
ASSUME PrintT(ToJson(Header))

Out(c) ==
    CASE c.kind = "pair" -> [k |-> "pair", a |-> JS(Sp, c.a), b |-> JS(Sp, c.b), d |-> c.d,
                             eq |-> c.eq, cls |-> Cls(Sp, c.a, c.b),
                             ttc |-> IF Sp.k = "SpaceTime" THEN TimeToCover(Sp, c.a, c.b) ELSE <<>>]
      [] c.kind = "tri" -> [k |-> "tri", a |-> JS(Sp, c.a), b |-> JS(Sp, c.b), c |-> JS(Sp, c.c),
                            dab |-> c.dab, dbc |-> c.dbc, dac |-> c.dac,
                            cls |-> Cls(Sp, c.a, c.b) \cup Cls(Sp, c.b, c.c) \cup Cls(Sp, c.a, c.c)]
      [] c.kind = "interp" ->
            LET x == CHOOSE y \in c.pq : TRUE
            IN  [k |-> "interp", a |-> JS(Sp, c.a), b |-> JS(Sp, c.b), i |-> c.i, j |-> c.j,
                 exp |-> Exp07(Sp, c.a, c.b, c.i, c.j),
                 d |-> c.d,
                 dp |-> IF Exempt THEN <<>> ELSE Dist(Sp, c.a, x[1]),
                 cls |-> Cls(Sp, c.a, c.b) \cup TCls(c.i, c.j)
                         \cup (IF LandsOnSeam(c) THEN {"so2:lands-on-minus-pi"} ELSE {})]
      [] OTHER -> [k |-> "from"]
Dump == cs'.kind = "from" \/ PrintT(ToJson(Out(cs')))
===============================================================================
