SPECIFICATION FairSpec
CONSTANTS
  Periods = {0, 1, 2, 3}
  Durations = {1, 2, 4}
  Variant = "code"
INVARIANTS TypeOK NoPredicateCallOnCallerThread ThreadRunsUntilAsked
PROPERTIES DirectExact LagBound TerminateSticky FalseBefore TrueAfter NeverReverts ThreadStops JoinReturns
