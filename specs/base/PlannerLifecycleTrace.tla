------------------------ MODULE PlannerLifecycleTrace ------------------------
(* impl -> spec for C03: recorded planner life cycles are replayed through the *)
(* actions of PlannerLifecycle (so an execution that breaks the documented     *)
(* protocol is not consumed - a framework error, never a verdict), and every   *)
(* solve / getPlannerData / destroy report is judged by named contract         *)
(* clauses.  Failed clauses are printed; the cursor always advances.           *)
EXTENDS PlannerLifecycle, PlannerContract, TraceIO

VARIABLES l,      \* cursor
          nsol,   \* [Pdefs -> Nat]: number of solutions each definition held after its last report
          B,      \* bound on termination-condition evaluations after the k-th (per planner class)
          gpd     \* getPlannerData() was called in this execution
tvars == <<vars, l, nsol, B, gpd>>

Ev == Log[l]
Is(e) == l <= NLog /\ Ev.e = e /\ l' = l + 1
Norm(r) == [r EXCEPT !.obst = SeqToSet(r.obst)]
Report(failed) == IF failed = {} THEN TRUE ELSE PrintT(ToJson([line |-> l, failed |-> failed]))

Fresh == (holds \cup roadmap) = {}
Resumed == bound # "none" /\ Cur(bound) \in holds

(* ranking used by the problem definition: exact before approximate, smaller difference, shorter *)
Worse(a, b) ==   \* a strictly worse than b, beyond tolerance
    \/ (a.approx /\ ~b.approx)
    \/ (a.approx /\ b.approx /\ a.diff > b.diff + Tol)
    \/ (~a.approx /\ ~b.approx /\ a.len > b.len + Tol)

SolveClauses == {"knownStatus", "solutionCount", "solutionStatusHasPath",
                 "exactStatusHoldsExact", "nonSolutionAddsNothing", "noSolutionLost", "topNotWorse",
                 "invalidStartOnlyIfInvalid", "invalidGoalOnlyIfInvalid", "exactOnlyIfReachable",
                 "noSolutionFromInvalidStart", "boundedReturn", "freshForgetsOldQueries"}

SolveClause(c, r) ==
    CASE c = "knownStatus" -> r.status \in SolutionStatuses \cup NonSolutionStatuses
      [] c = "solutionCount" -> Len(r.sols) = r.nAfter
      [] c = "solutionStatusHasPath" -> (r.status \in SolutionStatuses => r.nAfter >= 1)
      [] c = "exactStatusHoldsExact" -> (r.status = "EXACT" => r.hasExact)
      [] c = "nonSolutionAddsNothing" -> (r.status \notin SolutionStatuses => r.nAfter = r.nBefore)
      [] c = "noSolutionLost" -> r.nAfter >= r.nBefore
      [] c = "topNotWorse" -> (r.hadTop /\ r.nAfter >= 1 => ~Worse(r.topAfter, r.topBefore))
      [] c = "invalidStartOnlyIfInvalid" -> (r.status = "INVALID_START" => ValidStartCells(r) = {})
      [] c = "invalidGoalOnlyIfInvalid" ->
             (* (a planner interrupted while it was still looking for a valid goal state may say INVALID_GOAL: *)
             (*  the condition had fired - budget used up, or "stop on exact" with an exact solution at entry) *)
             (r.status = "INVALID_GOAL" /\ ((r.kval < 0 /\ ~r.firedAtEntry) \/ (r.kval >= 0 /\ r.evals <= r.kval))
                  => GoalCells(r) \subseteq r.obst)
      [] c = "exactOnlyIfReachable" ->
             (r.status = "EXACT" /\ r.thr = "tiny" /\ (\E i \in 1..Len(r.sols) : r.sols[i].added /\ ~r.sols[i].approx)
                  => GoalCells(r) \cap ReachAny(r) # {})
      [] c = "noSolutionFromInvalidStart" ->
             (ValidStartCells(r) = {} => \A i \in 1..Len(r.sols) : ~r.sols[i].added)
      [] c = "boundedReturn" -> (r.kval >= 0 => r.evals <= r.kval + B)
      [] c = "freshForgetsOldQueries" ->
             (Fresh => \A i \in 1..Len(r.sols) : r.sols[i].added => r.sols[i].stale = 0)

FailedSolve(r) ==
    {c \in SolveClauses : ~SolveClause(c, r)}
        \cup UNION {IF r.sols[i].added THEN FailedSol(r, r.sols[i]) ELSE {} : i \in 1..Len(r.sols)}

TInit == Init /\ l = 1 /\ nsol = [p \in Pdefs |-> 0] /\ B = 0 /\ gpd = FALSE

TReset == /\ Is("Reset")
          /\ bound' = "none" /\ qid' = [p \in Pdefs |-> 0] /\ holds' = {} /\ roadmap' = {}
          /\ needsClear' = FALSE /\ solved' = [p \in Pdefs |-> FALSE] /\ alive' = TRUE
          /\ lastAct' = [act |-> "Init", args |-> <<>>]
          /\ nsol' = [p \in Pdefs |-> 0] /\ B' = Ev.B /\ gpd' = FALSE
TSetPdef == Is("SetPdef") /\ SetPdef(Ev.p) /\ UNCHANGED <<nsol, B, gpd>>
TNewQuery == Is("NewQuery") /\ NewQuery(Ev.p) /\ nsol' = [nsol EXCEPT ![Ev.p] = 0] /\ UNCHANGED <<B, gpd>>
TSetup == Is("Setup") /\ Setup /\ UNCHANGED <<nsol, B, gpd>>
TSolve == /\ Is("Solve") /\ Solve(Ev.k)
          /\ Report(FailedSolve(Norm(Ev)))
          /\ nsol' = [nsol EXCEPT ![bound] = Ev.nAfter] /\ UNCHANGED <<B, gpd>>
TClear == Is("Clear") /\ Clear /\ UNCHANGED <<nsol, B, gpd>>
TClearQuery == Is("ClearQuery") /\ ClearQuery /\ UNCHANGED <<nsol, B, gpd>>
TGetData == /\ Is("GetPlannerData") /\ GetPlannerData
            /\ Report(IF roadmap = {} /\ (\A h \in holds : h = Cur(bound)) /\ Ev.stale # 0
                      THEN {"plannerDataForgetsOldQueries"} ELSE {})
            /\ gpd' = TRUE /\ UNCHANGED <<nsol, B>>
TDestroy == /\ Is("Destroy") /\ Destroy
            /\ Report((IF Ev.live # 0 THEN {IF gpd THEN "noLeakAfterGetPlannerData" ELSE "noLeak"} ELSE {})
                          \cup (IF Ev.badFrees # 0 THEN {"noDoubleFree"} ELSE {}))
            /\ UNCHANGED <<nsol, B, gpd>>
TBad == /\ l <= NLog /\ Ev.e \in {"Hang", "Crash"} /\ l' = l + 1
        /\ Report({Ev.e}) /\ UNCHANGED <<vars, nsol, B, gpd>>

TNext == TReset \/ TSetPdef \/ TNewQuery \/ TSetup \/ TSolve \/ TClear \/ TClearQuery \/ TGetData
         \/ TDestroy \/ TBad
TSpec == TInit /\ [][TNext]_tvars
NotAccepted == l <= NLog
==============================================================================
