------------------------------- MODULE RngStream -------------------------------
(* One ompl::RNG object (property C20: "a generator given a local seed          *)
(* reproduces its stream after being reseeded with it").  The engine is         *)
(* abstracted by the history of draws since it was last seeded; the distribution*)
(* objects that keep a spare value between calls (the normal distribution used  *)
(* by gaussian draws, and the normal distribution inside each per-dimension     *)
(* sphere sampler) are explicit cache flags.  setLocalSeed transcribes the code:*)
(* reseed the engine and reset every distribution (ResetCaches = TRUE); with    *)
(* ResetCaches = FALSE TLC exhibits the stale-cache stream.                     *)
EXTENDS Naturals, Sequences, TLC, Json

CONSTANTS Kinds,        \* draw kinds, e.g. {"u01", "int", "gauss", "quat", "sphere2", "sphere3", "ball3"}
          MaxPre, MaxPost, ResetCaches

UsesNormal(k) == k \in {"gauss", "halfnormal"}
SphereDim(k) == IF k \in {"sphere2"} THEN 2 ELSE IF k \in {"sphere3", "ball3"} THEN 3 ELSE 0

VARIABLES seed, drawn, normalSpare, sphereSpare, phase, pre, post, outs
vars == <<seed, drawn, normalSpare, sphereSpare, phase, pre, post, outs>>
(* a fresh RNG(s) *)
FreshNormal == FALSE
FreshSphere == [d \in {2, 3} |-> FALSE]

Init == /\ seed = 1 /\ drawn = <<>> /\ normalSpare = FreshNormal /\ sphereSpare = FreshSphere
        /\ phase = "pre" /\ pre = <<>> /\ post = <<>> /\ outs = <<>>

(* the value a draw returns is a function of everything that determines the engine position *)
(* and the spare values: seed, draws since seeding, and the cache flags                      *)
OutId(k) == [seed |-> seed, after |-> drawn, k |-> k, nspare |-> normalSpare, sspare |-> sphereSpare]

Draw(k) ==
    /\ \/ phase = "pre" /\ Len(pre) < MaxPre /\ pre' = Append(pre, k) /\ UNCHANGED <<post, outs>>
       \/ phase = "post" /\ Len(post) < MaxPost /\ post' = Append(post, k) /\ outs' = Append(outs, OutId(k))
                         /\ UNCHANGED pre
    /\ drawn' = Append(drawn, k)
    /\ normalSpare' = IF UsesNormal(k) THEN ~normalSpare ELSE normalSpare
    /\ sphereSpare' = IF SphereDim(k) # 0
                      THEN [sphereSpare EXCEPT ![SphereDim(k)] = IF SphereDim(k) = 3 THEN ~@ ELSE @]
                      ELSE sphereSpare
    /\ UNCHANGED <<seed, phase>>

Reseed ==
    /\ phase = "pre" /\ phase' = "post"
    /\ seed' = 7 /\ drawn' = <<>>
    /\ IF ResetCaches THEN normalSpare' = FreshNormal /\ sphereSpare' = FreshSphere
       ELSE UNCHANGED <<normalSpare, sphereSpare>>
    /\ UNCHANGED <<pre, post, outs>>

Next == (\E k \in Kinds : Draw(k)) \/ Reseed
Spec == Init /\ [][Next]_vars

(* what a fresh RNG(7) would return for the same post-sequence *)
RECURSIVE FreshOuts(_, _, _, _)
FreshOuts(ks, dr, ns, ss) ==
    IF ks = <<>> THEN <<>>
    ELSE LET k == Head(ks) IN
         <<[seed |-> 7, after |-> dr, k |-> k, nspare |-> ns, sspare |-> ss]>> \o
         FreshOuts(Tail(ks), Append(dr, k),
                   IF UsesNormal(k) THEN ~ns ELSE ns,
                   IF SphereDim(k) # 0 THEN [ss EXCEPT ![SphereDim(k)] = IF SphereDim(k) = 3 THEN ~@ ELSE @] ELSE ss)
ReseedReproduces == phase = "post" => outs = FreshOuts(post, <<>>, FreshNormal, FreshSphere)

Emit == (phase = "post" /\ Len(post) = MaxPost) => PrintT(ToJson([pre |-> pre, post |-> post]))
================================================================================
