------------------------------- MODULE PTCTrace -------------------------------
(* Trace validation (impl -> spec) of histories recorded from REAL termination  *)
(* condition objects against module PTC: the harness picks a term, builds it    *)
(* from the library's factory functions, drives it with a random history and    *)
(* logs what every eval() returned and how often each user predicate was        *)
(* invoked by it.  One line per operation; {"e":"Reset"} starts a new history.  *)
(*   {"e":"Choose","t":code}          {"e":"Flip","p":1|2}                      *)
(*   {"e":"AddSol","approx":b}        {"e":"ClearSol"}                          *)
(*   {"e":"Eval","n":node,"r":b,"c":[c1,c2]}   {"e":"Terminate","n":node}       *)
EXTENDS PTC, TraceIO

VARIABLE l
tvars == <<vars, l>>

Ev == Log[l]
Is(e) == l <= NLog /\ Ev.e = e /\ l' = l + 1
Quiet == lastAct' = lastAct /\ steps' = steps

TInit == Init /\ l = 1

TReset == /\ Is("Reset")
          /\ tid' = NoTerm /\ tab' = NoTab /\ pv' = <<FALSE, FALSE>>
          /\ sol' = [ap |-> FALSE, ex |-> FALSE]
          /\ term' = [n \in 1..NN |-> FALSE] /\ cnt' = [n \in 1..NN |-> 0]
          /\ Quiet

TChoose == /\ Is("Choose") /\ tid = NoTerm
           /\ Ev.t \in (0..(136 + 2 * 136 * 136 - 1)) \cup DagIds
           /\ tid' = Ev.t /\ tab' = Tab(Ev.t)
           /\ UNCHANGED <<pv, sol, term, cnt>> /\ Quiet

TFlip == /\ Is("Flip") /\ tid # NoTerm /\ Ev.p \in 1..2
         /\ pv' = [pv EXCEPT ![Ev.p] = ~@]
         /\ UNCHANGED <<tid, tab, sol, term, cnt>> /\ Quiet

TAddSol == /\ Is("AddSol") /\ tid # NoTerm
           /\ sol' = IF Ev.approx THEN [sol EXCEPT !.ap = TRUE] ELSE [sol EXCEPT !.ex = TRUE]
           /\ UNCHANGED <<tid, tab, pv, term, cnt>> /\ Quiet

TClearSol == /\ Is("ClearSol") /\ tid # NoTerm
             /\ sol' = [ap |-> FALSE, ex |-> FALSE]
             /\ UNCHANGED <<tid, tab, pv, term, cnt>> /\ Quiet

(* the recorded result and the recorded predicate invocations must be the model's *)
TEval == /\ Is("Eval") /\ tid # NoTerm /\ Ev.n \in Live(T)
         /\ LET res == Run(T, Ev.n, St0)
            IN  /\ res.r = Ev.r
                /\ res.st.calls = Ev.c
                /\ cnt' = res.st.cnt
         /\ UNCHANGED <<tid, tab, pv, sol, term>> /\ Quiet

(* terminate() may be repeated: it stays requested *)
TTerminate == /\ Is("Terminate") /\ tid # NoTerm /\ Ev.n \in Live(T)
              /\ term' = [term EXCEPT ![Ev.n] = TRUE]
              /\ UNCHANGED <<tid, tab, pv, sol, cnt>> /\ Quiet

TNext == TReset \/ TChoose \/ TFlip \/ TAddSol \/ TClearSol \/ TEval \/ TTerminate
TSpec == TInit /\ [][TNext]_tvars
NotAccepted == l <= NLog
===============================================================================
