--------------------------- MODULE SamplerContract ---------------------------
(* C08 as a contract over observations of the real code (the only oracle for   *)
(* recorded executions; it knows nothing about clamping, fmod or loops).       *)
(* The harness reports booleans as 0 / 1, batched per configuration class:     *)
(* position i of every sequence of one record is the same call.                *)
(*                                                                             *)
(*  enforceBounds on one input state s:                                        *)
(*     inb0   satisfiesBounds(s) before                                        *)
(*     same1  enforceBounds(s) left s unchanged                                *)
(*     inb1   satisfiesBounds afterwards                                       *)
(*     same2  a second enforceBounds changed nothing                           *)
(*     match  (lattice inputs only) the result is the state BoundsAlgebra      *)
(*            computes and satisfiesBounds agrees with the lattice InBounds    *)
(*  state sampler output:       in    satisfiesBounds(output)                  *)
(*  valid-state sampler call:   ret   the call reported success                *)
(*                              inb   satisfiesBounds(output state)            *)
(*                              val   the harness's own copy of the validity   *)
(*                                    predicate accepts the output state       *)
EXTENDS Naturals, Sequences

Flags(s) == \A i \in 1..Len(s) : s[i] \in {0, 1}
All(s) == \A i \in 1..Len(s) : s[i] = 1

(* "leaves an in-bounds state unchanged, turns any finite state into one that   *)
(*  satisfies the bounds, and is idempotent"                                    *)
EnforceLaws(inb0, same1, inb1, same2) ==
    /\ Len(inb0) > 0
    /\ Len(same1) = Len(inb0) /\ Len(inb1) = Len(inb0) /\ Len(same2) = Len(inb0)
    /\ Flags(inb0) /\ Flags(same1) /\ Flags(inb1) /\ Flags(same2)
    /\ \A i \in 1..Len(inb0) :
          /\ inb0[i] = 1 => same1[i] = 1        \* NoOpInBounds
          /\ inb1[i] = 1                        \* ResultInBounds
          /\ same2[i] = 1                       \* Idempotent

(* the result is the one the lattice model defines (nearest point / same angle / *)
(* same rotation)                                                                *)
EnforceMatches(match, n) == Len(match) = n /\ Flags(match) /\ All(match)

(* "every state produced by uniform, near and Gaussian sampling ... satisfies    *)
(*  the bounds"                                                                  *)
SamplesInBounds(in) == Len(in) > 0 /\ Flags(in) /\ All(in)

(* "every state that a valid-state sampler returns with success is both in       *)
(*  bounds and valid"                                                            *)
ValidSamplerOk(ret, inb, val) ==
    /\ Len(ret) > 0 /\ Len(inb) = Len(ret) /\ Len(val) = Len(ret)
    /\ Flags(ret) /\ Flags(inb) /\ Flags(val)
    /\ \A i \in 1..Len(ret) : ret[i] = 1 => inb[i] = 1 /\ val[i] = 1
==============================================================================
