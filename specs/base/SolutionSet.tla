------------------------------ MODULE SolutionSet ------------------------------
(* The solution set of a problem definition (property C04, ranking half).      *)
(* `Lt` transcribes PlannerSolution::operator< (ProblemDefinition.cpp); `Better`*)
(* states the documented ranking independently: exact before approximate; among *)
(* approximate solutions the smaller goal difference; among exact ones the      *)
(* objective-satisfying first, then the lower cost.  TLC checks that Lt is a    *)
(* strict weak order that coincides with Better on homogeneous sets (all        *)
(* solutions carry the same objective, or none does), explores every add/clear  *)
(* history over a small record domain and exports the graph for replay on the   *)
(* real ProblemDefinition.                                                      *)
EXTENDS Naturals, Integers, Sequences, FiniteSets, TLC, Json

CONSTANTS Diffs,     \* goal differences of approximate solutions, e.g. {1, 2}
          Costs,     \* costs / lengths, e.g. {1, 2, 3}
          MaxSols

Recs == [approx : {TRUE}, diff : Diffs, opt : BOOLEAN, cost : Costs]
          \cup [approx : {FALSE}, diff : {0}, opt : BOOLEAN, cost : Costs]

(* transcription of operator< : `this` = a *)
Lt(a, b) ==
    IF ~a.approx /\ b.approx THEN TRUE
    ELSE IF a.approx /\ ~b.approx THEN FALSE
    ELSE IF a.approx /\ b.approx THEN a.diff < b.diff
    ELSE IF a.opt /\ ~b.opt THEN TRUE
    ELSE IF ~a.opt /\ b.opt THEN FALSE
    ELSE a.cost < b.cost

(* the documented ranking, stated as a key to be compared lexicographically *)
Key(r) == IF r.approx THEN <<1, r.diff, 0>> ELSE <<0, IF r.opt THEN 0 ELSE 1, r.cost>>
LexLt(x, y) == \/ x[1] < y[1]
               \/ x[1] = y[1] /\ x[2] < y[2]
               \/ x[1] = y[1] /\ x[2] = y[2] /\ x[3] < y[3]
Better(a, b) == LexLt(Key(a), Key(b))
Equiv(a, b) == ~Better(a, b) /\ ~Better(b, a)

ComparatorIsRanking == \A a, b \in Recs : Lt(a, b) <=> Better(a, b)
StrictWeakOrder ==
    /\ \A a \in Recs : ~Lt(a, a)
    /\ \A a, b \in Recs : Lt(a, b) => ~Lt(b, a)
    /\ \A a, b, c \in Recs : Lt(a, b) /\ Lt(b, c) => Lt(a, c)
    /\ \A a, b, c \in Recs : (~Lt(a, b) /\ ~Lt(b, a) /\ ~Lt(b, c) /\ ~Lt(c, b)) => (~Lt(a, c) /\ ~Lt(c, a))
ASSUME ComparatorIsRanking /\ StrictWeakOrder

VARIABLES sols,     \* sequence of records, ranked (ties in insertion order: one admissible outcome)
          lastAct
vars == <<sols, lastAct>>

RECURSIVE InsertRanked(_, _)
InsertRanked(s, r) ==
    IF s = <<>> THEN <<r>>
    ELSE IF Lt(r, Head(s)) THEN <<r>> \o s
    ELSE <<Head(s)>> \o InsertRanked(Tail(s), r)

Init == sols = <<>> /\ lastAct = [act |-> "Init", args |-> <<>>]
Add(r) == /\ Len(sols) < MaxSols
          /\ sols' = InsertRanked(sols, r)
          /\ lastAct' = [act |-> "Add", args |-> r]
Clear == sols' = <<>> /\ lastAct' = [act |-> "Clear", args |-> <<>>]
Next == (\E r \in Recs : Add(r)) \/ Clear
Spec == Init /\ [][Next]_vars

(* --- contract observations of a state --- *)
Sorted == \A i \in 1..Len(sols) - 1 : ~Better(sols[i + 1], sols[i])
TopIsBest == Len(sols) > 0 => \A i \in 1..Len(sols) : ~Better(sols[i], sols[1])
Keys(s) == [i \in 1..Len(s) |-> Key(s[i])]
Exp(s) == [n |-> Len(s),
           hasExact |-> (Len(s) > 0 /\ ~s[1].approx),
           hasApprox |-> (Len(s) > 0 /\ s[1].approx),
           hasOptimized |-> (Len(s) > 0 /\ ~s[1].approx /\ s[1].opt),
           topKey |-> IF Len(s) > 0 THEN Key(s[1]) ELSE <<9, 9, 9>>,
           diff |-> IF Len(s) > 0 THEN s[1].diff ELSE -1,
           keys |-> Keys(s)]

(* the state graph is exported over the multiset of keys: ties are interchangeable *)
View == Keys(sols)
Dump == PrintT(ToJson([src |-> Keys(sols), dst |-> Keys(sols'), act |-> lastAct'.act,
                       args |-> lastAct'.args, exp |-> Exp(sols')]))
================================================================================
