------------------------------ MODULE GridWorld ------------------------------
(* The abstract configuration space of the planner-level checks: a W x H cell *)
(* map with obstacle cells, a start cell and a goal cell.  Free space is      *)
(* 8-connected: with a validity-checking resolution far below the cell size   *)
(* a discretely validated motion can clip a corner between two diagonally     *)
(* adjacent free cells, but it can never cross an obstacle cell (width 1), so *)
(* 8-reachability is a sound over-approximation of what a correct planner     *)
(* can connect.                                                               *)
EXTENDS Naturals, Integers, FiniteSets, Sequences

CellsOf(W, H) == 0..(W * H - 1)
XOf(W, c) == c % W
YOf(W, c) == c \div W
Abs(x) == IF x < 0 THEN -x ELSE x
Adj8(W, a, b) == /\ a # b
                 /\ Abs(XOf(W, a) - XOf(W, b)) <= 1
                 /\ Abs(YOf(W, a) - YOf(W, b)) <= 1

RECURSIVE Grow(_, _, _, _)
Grow(W, free, seen, frontier) ==
    IF frontier = {} THEN seen
    ELSE LET nxt == {c \in free \ seen : \E f \in frontier : Adj8(W, f, c)}
         IN  Grow(W, free, seen \cup nxt, nxt)

(* cells 8-reachable from cell s through free cells (empty if s is an obstacle) *)
Reach(W, H, obst, s) ==
    LET free == CellsOf(W, H) \ obst
    IN  IF s \in free THEN Grow(W, free, {s}, {s}) ELSE {}

(* a walk through free cells: consecutive entries equal or 8-adjacent *)
IsFreeWalk(W, H, obst, cells) ==
    /\ \A i \in 1..Len(cells) : cells[i] \in CellsOf(W, H) \ obst
    /\ \A i \in 1..Len(cells) - 1 : cells[i] = cells[i + 1] \/ Adj8(W, cells[i], cells[i + 1])

(* ---- dihedral symmetries of the square map, to enumerate layouts up to symmetry ---- *)
Img(W, H, k, c) ==
    LET x == XOf(W, c)  y == YOf(W, c)
    IN  CASE k = 0 -> c
          [] k = 1 -> y * W + (W - 1 - x)              \* mirror x
          [] k = 2 -> (H - 1 - y) * W + x              \* mirror y
          [] k = 3 -> (H - 1 - y) * W + (W - 1 - x)    \* rotate 180
          [] k = 4 -> x * W + y                        \* transpose (square maps only)
          [] k = 5 -> x * W + (W - 1 - y)
          [] k = 6 -> (W - 1 - x) * W + y
          [] k = 7 -> (W - 1 - x) * W + (W - 1 - y)
==============================================================================
