------------------------------ MODULE Determinism ------------------------------
(* Reproducibility as a property of SEVERAL recorded executions (C20): every    *)
(* observation is a pair (key, value) where the key names what the model says   *)
(* must be determined (seed-generator output <<seed, i>>; the complete outcome  *)
(* of a planner run identified by planner, problem, seed and evaluation budget) *)
(* and the value is what a real process produced (bit patterns, as strings).    *)
(* Observations with the same key - made in different processes - must carry    *)
(* the same value.  Mismatches are printed; the cursor always advances.         *)
EXTENDS Naturals, Sequences, TLC, TraceIO

VARIABLES l, seen
Ev == Log[l]
TInit == l = 1 /\ seen = <<>>
Known(k) == k \in DOMAIN seen
TObs == /\ l <= NLog /\ Ev.e = "Obs" /\ l' = l + 1
        /\ IF Known(Ev.key)
           THEN /\ (IF seen[Ev.key] = Ev.val THEN TRUE
                    ELSE PrintT(ToJson([line |-> l, failed |-> {"sameKeySameValue"}, key |-> Ev.key])))
                /\ UNCHANGED seen
           ELSE seen' = seen @@ (Ev.key :> Ev.val)
TBad == /\ l <= NLog /\ Ev.e \in {"Hang", "Crash"} /\ l' = l + 1
        /\ PrintT(ToJson([line |-> l, failed |-> {Ev.e}, key |-> "-"])) /\ UNCHANGED seen
TNext == TObs \/ TBad
TSpec == TInit /\ [][TNext]_<<l, seen>>
NotAccepted == l <= NLog
================================================================================
