SPECIFICATION TSpec
INVARIANT NotAccepted
CHECK_DEADLOCK FALSE
CONSTANTS
  MaxV = 8
  MaxE = 64
  MaxMarks = 16
  AllowTag = TRUE
  SelfLoops = TRUE
  GoalListSorted = TRUE
