----------------------------- MODULE PTCPeriodic -----------------------------
(* The time-dependent forms of PlannerTerminationCondition                      *)
(* (src/ompl/base/src/PlannerTerminationCondition.cpp):                         *)
(*   period = 0  the direct form: eval() = terminate_ \/ fn()                   *)
(*   period > 0  the periodically evaluated form: a thread created by the       *)
(*               constructor runs                                               *)
(*                   while (!terminate_ && !stop) {                             *)
(*                       evalValue_ = fn();                                     *)
(*                       for (i = 0; i < count; ++i) {                          *)
(*                           if (terminate_ || stop) break;                     *)
(*                           sleep_for(period / count); } }                     *)
(*               and eval() = terminate_ \/ evalValue_ on the caller's thread.  *)
(*               The destructor sets stop and joins the thread.                 *)
(* fn is either a user predicate reading a flag the environment flips (kind     *)
(* "flag") or the timed condition `now > creation + d` (kind "timed").          *)
(* timedPlannerTerminationCondition(d, interval) clamps interval to d.          *)
(*                                                                              *)
(* The predicate call is NOT atomic with the loop test nor with the store of its *)
(* result: the evaluator goes  test (TLoop) -> call fn (TCall) -> store (TStore), *)
(* and the caller's terminate() / eval() may land between any two of them - in   *)
(* particular while the predicate is in flight.  TerminateSticky is checked on   *)
(* every eval() result in all these interleavings.                               *)
(* CONSTANT Variant selects the transcription: "code" is the library; "lost" is  *)
(* a seeded variant (eval() of the periodic form reads only the cached value,    *)
(* terminate() additionally sets the cached value, the evaluator still stores    *)
(* unconditionally) in which a terminate() that lands while the predicate is in  *)
(* flight is overwritten - TLC must reject it (vacuity gate of the check).       *)
(*                                                                              *)
(* Time is a discrete clock advanced by Tick; a sleeping quantum lasts one      *)
(* tick, the thread's own statements take no time (Tick waits for a runnable    *)
(* thread).  All timers saturate, so the state space is finite without a        *)
(* state constraint and liveness can be checked under fairness.                 *)
EXTENDS Naturals, TLC

CONSTANTS Periods,    \* periods explored (ticks); 0 = direct form
          Durations,  \* durations d of the timed kind (ticks)
          Variant     \* "code" (the library) | "lost" (seeded lost-update variant, must be rejected)

VARIABLES kind, P, D,      \* configuration chosen by Init, constant afterwards
          pv,              \* flag read by the user predicate
          age,             \* ticks since the flag last changed (saturating)
          el,              \* ticks since the condition was created (saturating)
          cached,          \* evalValue_
          term, stop,      \* terminate_, signalThreadStop_
          tpc, qi, zz,     \* evaluator thread: program counter, quanta slept, quantum pending
          tv,              \* evaluator thread: value the in-flight predicate call returned
          cpc,             \* caller: "live" | "joining" | "dead"
          callerCalled,    \* ghost: fn was invoked on the caller's thread
          seenTrue,        \* ghost: some eval() already returned true
          lastAct          \* ghost: [act, r]

vars == <<kind, P, D, pv, age, el, cached, term, stop, tpc, qi, zz, tv, cpc, callerCalled, seenTrue, lastAct>>

MaxP == CHOOSE m \in Periods : \A q \in Periods : q <= m
MaxD == CHOOSE m \in Durations : \A q \in Durations : q <= m
AgeCap == MaxP + 2
ElCap == MaxD + MaxP + 3
Min(a, b) == IF a < b THEN a ELSE b

PredVal == IF kind = "flag" THEN pv ELSE el > D

Init == /\ kind \in {"flag", "timed"}
        /\ \E p \in Periods, d \in Durations :
              /\ D = (IF kind = "timed" THEN d ELSE 0)
              /\ P = (IF kind = "timed" /\ p > d THEN d ELSE p)   \* interval clamped to duration
        /\ pv \in (IF kind = "flag" THEN BOOLEAN ELSE {FALSE})
        /\ age = 0 /\ el = 0
        /\ cached = FALSE /\ term = FALSE /\ stop = FALSE
        /\ tpc = (IF P > 0 THEN "loop" ELSE "none") /\ qi = 0 /\ zz = FALSE /\ tv = FALSE
        /\ cpc = "live" /\ callerCalled = FALSE /\ seenTrue = FALSE
        /\ lastAct = [act |-> "Init", r |-> FALSE]

Cfg == <<kind, P, D>>
Note(a, r) == lastAct' = [act |-> a, r |-> r]

(* ------------------------------ evaluator thread ------------------------------ *)
TLoop == /\ tpc = "loop"                       \* while (!terminate_ && !signalThreadStop_)
         /\ tpc' = (IF term \/ stop THEN "done" ELSE "call")
         /\ Note("TLoop", FALSE)
         /\ UNCHANGED <<Cfg, pv, age, el, cached, term, stop, qi, zz, tv, cpc, callerCalled, seenTrue>>

TCall == /\ tpc = "call"                       \* fn_() runs on the evaluator thread ...
         /\ tv' = PredVal /\ tpc' = "store"
         /\ Note("TCall", FALSE)
         /\ UNCHANGED <<Cfg, pv, age, el, cached, term, stop, qi, zz, cpc, callerCalled, seenTrue>>

TStore == /\ tpc = "store"                     \* ... and only then evalValue_ = <its result>
          /\ cached' = tv /\ qi' = 0 /\ tpc' = "chk"
          /\ Note("TStore", FALSE)
          /\ UNCHANGED <<Cfg, pv, age, el, term, stop, zz, tv, cpc, callerCalled, seenTrue>>

TChk == /\ tpc = "chk"
        /\ IF qi = P \/ term \/ stop
           THEN tpc' = "loop" /\ zz' = zz
           ELSE tpc' = "sleep" /\ zz' = TRUE
        /\ Note("TChk", FALSE)
        /\ UNCHANGED <<Cfg, pv, age, el, cached, term, stop, qi, tv, cpc, callerCalled, seenTrue>>

TWake == /\ tpc = "sleep" /\ ~zz
         /\ qi' = qi + 1 /\ tpc' = "chk"
         /\ Note("TWake", FALSE)
         /\ UNCHANGED <<Cfg, pv, age, el, cached, term, stop, zz, tv, cpc, callerCalled, seenTrue>>

Thread == TLoop \/ TCall \/ TStore \/ TChk \/ TWake

(* ------------------------------ time ------------------------------ *)
Tick == /\ tpc \in {"none", "done"} \/ (tpc = "sleep" /\ zz)
        /\ zz' = FALSE
        /\ age' = Min(age + 1, AgeCap) /\ el' = Min(el + 1, ElCap)
        /\ Note("Tick", FALSE)
        /\ UNCHANGED <<Cfg, pv, cached, term, stop, tpc, qi, tv, cpc, callerCalled, seenTrue>>

(* ------------------------------ environment and caller ------------------------------ *)
Flip == /\ kind = "flag"
        /\ pv' = ~pv /\ age' = 0
        /\ Note("Flip", FALSE)
        /\ UNCHANGED <<Cfg, el, cached, term, stop, tpc, qi, zz, tv, cpc, callerCalled, seenTrue>>

CEval == /\ cpc = "live"
         /\ LET r == IF Variant = "lost" /\ P > 0 THEN cached
                     ELSE term \/ (IF P > 0 THEN cached ELSE PredVal)
            IN  /\ Note("Eval", r)
                /\ seenTrue' = (seenTrue \/ r)
         /\ callerCalled' = (callerCalled \/ (P = 0 /\ ~term))
         /\ UNCHANGED <<Cfg, pv, age, el, cached, term, stop, tpc, qi, zz, tv, cpc>>

CTerminate == /\ cpc = "live" /\ ~term
              /\ term' = TRUE
              /\ cached' = (IF Variant = "lost" /\ P > 0 THEN TRUE ELSE cached)
              /\ Note("Terminate", FALSE)
              /\ UNCHANGED <<Cfg, pv, age, el, stop, tpc, qi, zz, tv, cpc, callerCalled, seenTrue>>

(* last reference dropped: ~Impl() sets the stop flag and joins the thread *)
CDestroy == /\ cpc = "live"
            /\ stop' = TRUE
            /\ cpc' = (IF tpc = "none" THEN "dead" ELSE "joining")
            /\ Note("Destroy", FALSE)
            /\ UNCHANGED <<Cfg, pv, age, el, cached, term, tpc, qi, zz, tv, callerCalled, seenTrue>>

CJoin == /\ cpc = "joining" /\ tpc = "done"
         /\ cpc' = "dead"
         /\ Note("Join", FALSE)
         /\ UNCHANGED <<Cfg, pv, age, el, cached, term, stop, tpc, qi, zz, tv, callerCalled, seenTrue>>

Next == Thread \/ Tick \/ Flip \/ CEval \/ CTerminate \/ CDestroy \/ CJoin

Spec == Init /\ [][Next]_vars
FairSpec == Spec /\ WF_vars(Thread) /\ WF_vars(Tick) /\ WF_vars(CJoin)

(* ------------------------------ properties ------------------------------ *)
IsEval == lastAct'.act = "Eval"
R == lastAct'.r

TypeOK == /\ P \in 0..MaxP /\ D \in 0..MaxD /\ qi \in 0..P
          /\ tpc \in {"none", "loop", "call", "store", "chk", "sleep", "done"}
          /\ (P = 0) = (tpc = "none")
          /\ cpc \in {"live", "joining", "dead"}

(* periodic form: the predicate is never called by eval() itself *)
NoPredicateCallOnCallerThread == P > 0 => ~callerCalled

(* the evaluator thread runs until it is asked to stop *)
ThreadRunsUntilAsked == tpc = "done" => term \/ stop

(* direct form: true exactly when the predicate is (or terminate was requested) *)
DirectExact == [][ (IsEval /\ P = 0) => R = (term \/ PredVal) ]_vars

(* periodic form over a flag: once the flag has kept its value for one period (plus the *)
(* polling instant) eval() reports exactly that value                                   *)
LagBound == [][ (IsEval /\ P > 0 /\ kind = "flag" /\ ~term /\ age >= P + 1) => R = pv ]_vars

(* once terminate() has returned every eval() is true - whatever the evaluator thread was *)
(* doing when it landed (before the loop test, inside the predicate, before the store)    *)
TerminateSticky == [][ /\ term => term'
                       /\ (IsEval /\ term) => R ]_vars

(* timed conditions: false before the duration has elapsed, true afterwards, never revert *)
FalseBefore == [][ (IsEval /\ kind = "timed" /\ ~term /\ el <= D) => ~R ]_vars
TrueAfter == [][ (IsEval /\ kind = "timed" /\
                    ((P = 0 /\ el > D) \/ (P > 0 /\ el >= D + P + 1))) => R ]_vars
NeverReverts == [][ (IsEval /\ kind = "timed" /\ seenTrue) => R ]_vars

(* liveness: after terminate() or destruction the evaluator loop exits, and the join returns *)
ThreadStops == (P > 0 /\ (term \/ stop)) ~> (tpc = "done")
JoinReturns == (cpc = "joining") ~> (cpc = "dead")
===============================================================================
