------------------------ MODULE PlannerContractTrace ------------------------
(* impl -> spec: every recorded solve report must be allowed by the contract. *)
(* A report that is not allowed is printed (with the names of the failed      *)
(* clauses) and the cursor still advances, so one pass judges every report;   *)
(* Hang / Crash events are never allowed.                                     *)
EXTENDS PlannerContract, TraceIO

VARIABLE l
Ev == Log[l]

TInit == l = 1
Norm(r) == [r EXCEPT !.obst = SeqToSet(r.obst)]
Report(failed) == IF failed = {} THEN TRUE ELSE PrintT(ToJson([line |-> l, failed |-> failed]))
TSolve == /\ l <= NLog /\ Ev.e = "Solve"
          /\ Report(FailedFirstSolve(Norm(Ev)))
          /\ l' = l + 1
TBad == /\ l <= NLog /\ Ev.e \in {"Hang", "Crash"}
        /\ Report({Ev.e})
        /\ l' = l + 1
TNext == TSolve \/ TBad
TSpec == TInit /\ [][TNext]_l
NotAccepted == l <= NLog
==============================================================================
