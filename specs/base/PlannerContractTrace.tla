------------------------ MODULE PlannerContractTrace ------------------------
(* impl -> spec: every recorded solve report must be allowed by the contract. *)
EXTENDS PlannerContract, TraceIO

VARIABLE l
Ev == Log[l]

TInit == l = 1
Norm(r) == [r EXCEPT !.obst = SeqToSet(r.obst)]
TSolve == /\ l <= NLog /\ Ev.e = "Solve"
          /\ FirstSolveOK(Norm(Ev))
          /\ l' = l + 1
TNext == TSolve
TSpec == TInit /\ [][TNext]_l
NotAccepted == l <= NLog
==============================================================================
