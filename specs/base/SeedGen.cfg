SPECIFICATION Spec
CONSTANTS Seeds = {0, 1, 2}
 MaxLen = 5
INVARIANTS IthSeedDependsOnlyOnSeedAndI ReportedSeedIsTheSeed Emit
