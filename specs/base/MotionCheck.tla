------------------------------ MODULE MotionCheck ------------------------------
(* Implementation-shaped specification (I) of the motion checks of property    *)
(* C05, checked against the contract in MotionContract.                        *)
(*                                                                             *)
(*   Linear      DiscreteMotionValidator::checkMotion(s1, s2, lastValid)       *)
(*               (DiscreteMotionValidator.cpp:48-91; the Dubins and            *)
(*               Reeds-Shepp validators repeat it with a cached curve)         *)
(*   Bisect      DiscreteMotionValidator::checkMotion(s1, s2)   (:93-145)      *)
(*   ListBisect  SpaceInformation::checkMotion(states, count)   (:297-335)     *)
(*   ListFirst   SpaceInformation::checkMotion(states, count, firstInvalid)    *)
(*                                                                             *)
(* One behaviour = one case.  TLC enumerates EVERY case as an initial state:   *)
(* every segment count n in 0..N with every validity predicate on its lattice  *)
(* (kind "motion": valid \subseteq 1..n, point 0 valid by precondition; kind   *)
(* "list": n states, valid \subseteq 0..n-1).  The machines then run one       *)
(* after the other, one consulted state per step, appending to the ghost       *)
(* `visited`; finished machines leave a record in `out`.  At pc = "done" the   *)
(* contract invariants are evaluated and the case is printed as JSON, with the *)
(* expectation computed by the CONTRACT operators, for the replay harness.     *)
EXTENDS MotionContract, TLC, Json

CONSTANT N      \* largest segment count / list length enumerated

VARIABLES kind,     \* "motion" | "list"
          n,        \* nd of the motion, or count of the list
          valid,    \* the validity predicate, as the set of accepted lattice points
          pc,
          j,        \* loop variable of the linear scans
          queue,    \* std::queue<std::pair<int,int>> pos
          result,   \* local `result`
          last,     \* lastValid.second * nd  /  firstInvalidStateIndex  (Untouched = not written)
          cv, ci,   \* valid_ / invalid_ increments made by the running call
          visited,  \* ghost: lattice points handed to isValid, in order
          out       \* records of the calls that have returned

vars == <<kind, n, valid, pc, j, queue, result, last, cv, ci, visited, out>>
case == <<kind, n, valid>>

(* si_->isValid(lattice point i) *)
V(i) == IF kind = "motion" THEN Ok(valid, i) ELSE i \in valid

Rec(form, r, l, v, i, vis) ==
    [form |-> form, verdict |-> r, last |-> l, cv |-> v, ci |-> i, visited |-> vis]

Fresh == /\ j' = 1 /\ queue' = <<>> /\ result' = TRUE /\ last' = Untouched
         /\ cv' = 0 /\ ci' = 0 /\ visited' = <<>>

Init ==
    /\ \/ kind = "motion" /\ n \in 0..N /\ valid \in SUBSET (1..n) /\ pc = "lin"
       \/ kind = "list" /\ n \in 0..N /\ valid \in SUBSET (0..(n - 1)) /\ pc = "lst"
    /\ j = 1 /\ queue = <<>> /\ result = TRUE /\ last = Untouched
    /\ cv = 0 /\ ci = 0 /\ visited = <<>> /\ out = <<>>

(* ------------------------------------------------------------------ Linear *)
(* for (j = 1; j < nd; ++j) { interpolate(j/nd); if (!isValid) {lastValid = (j-1)/nd; break;} } *)
LinScan ==
    /\ pc = "lin" /\ j < n
    /\ visited' = Append(visited, j)
    /\ IF V(j) THEN j' = j + 1 /\ UNCHANGED <<pc, result, last>>
       ELSE last' = j - 1 /\ result' = FALSE /\ pc' = "lin_cnt" /\ UNCHANGED j
    /\ UNCHANGED <<case, queue, cv, ci, out>>

(* if (result) if (!isValid(s2)) { lastValid = (nd-1)/nd; result = false; } *)
LinEnd ==
    /\ pc = "lin" /\ j >= n
    /\ visited' = Append(visited, n)
    /\ IF V(n) THEN UNCHANGED <<result, last>> ELSE last' = n - 1 /\ result' = FALSE
    /\ pc' = "lin_cnt"
    /\ UNCHANGED <<case, j, queue, cv, ci, out>>

(* if (result) valid_++; else invalid_++; return result; *)
LinCount ==
    /\ pc = "lin_cnt"
    /\ out' = Append(out, Rec("lin", result, last, IF result THEN cv + 1 ELSE cv,
                              IF result THEN ci ELSE ci + 1, visited))
    /\ Fresh /\ pc' = "bis_end"
    /\ UNCHANGED case

(* ------------------------------------------------------------------ Bisect *)
(* if (!isValid(s2)) { invalid_++; return false; }  then pos = {(1, nd-1)} when nd >= 2 *)
BisEnd ==
    /\ pc = "bis_end"
    /\ IF V(n)
       THEN /\ visited' = Append(visited, n)
            /\ queue' = IF n >= 2 THEN << <<1, n - 1>> >> ELSE <<>>
            /\ pc' = "bis"
            /\ UNCHANGED <<j, result, last, cv, ci, out>>
       ELSE /\ out' = Append(out, Rec("bis", FALSE, Untouched, cv, ci + 1, Append(visited, n)))
            /\ Fresh /\ pc' = "done"
    /\ UNCHANGED case

(* x = pos.front(); mid = (x.first + x.second) / 2; check mid; pop; push the two halves *)
BisStep ==
    /\ pc = "bis" /\ queue # <<>>
    /\ LET first == Head(queue)[1]
           lst   == Head(queue)[2]
           mid   == (first + lst) \div 2
       IN  /\ visited' = Append(visited, mid)
           /\ IF V(mid)
              THEN /\ queue' = Tail(queue)
                                \o (IF first < mid THEN << <<first, mid - 1>> >> ELSE <<>>)
                                \o (IF lst > mid THEN << <<mid + 1, lst>> >> ELSE <<>>)
                   /\ UNCHANGED <<pc, result>>
              ELSE result' = FALSE /\ pc' = "bis_cnt" /\ UNCHANGED queue
    /\ UNCHANGED <<case, j, last, cv, ci, out>>

BisCount ==
    /\ pc = "bis_cnt" \/ (pc = "bis" /\ queue = <<>>)
    /\ out' = Append(out, Rec("bis", result, Untouched, IF result THEN cv + 1 ELSE cv,
                              IF result THEN ci ELSE ci + 1, visited))
    /\ Fresh /\ pc' = "done"
    /\ UNCHANGED case

(* -------------------------------------------------------------- ListBisect *)
(* count == 0: true;  count == 1: isValid(front);  else front, states[count-1], then the queue *)
LstSmall ==
    /\ pc = "lst" /\ n <= 1
    /\ IF n = 0 THEN UNCHANGED <<visited, result>>
       ELSE visited' = <<0>> /\ result' = V(0)
    /\ pc' = "lst_ret"
    /\ UNCHANGED <<case, j, queue, last, cv, ci, out>>

LstFront ==
    /\ pc = "lst" /\ n > 1
    /\ visited' = Append(visited, 0)
    /\ IF V(0) THEN pc' = "lst_back" /\ UNCHANGED result ELSE result' = FALSE /\ pc' = "lst_ret"
    /\ UNCHANGED <<case, j, queue, last, cv, ci, out>>

LstBack ==
    /\ pc = "lst_back"
    /\ visited' = Append(visited, n - 1)
    /\ IF V(n - 1)
       THEN /\ queue' = IF n > 2 THEN << <<0, n - 1>> >> ELSE <<>>
            /\ pc' = "lst_q" /\ UNCHANGED result
       ELSE result' = FALSE /\ pc' = "lst_ret" /\ UNCHANGED queue
    /\ UNCHANGED <<case, j, last, cv, ci, out>>

(* both ends of (first, last) are known valid: if (first < mid-1) push(first, mid); if (last > mid+1) push(mid, last) *)
LstStep ==
    /\ pc = "lst_q" /\ queue # <<>>
    /\ LET first == Head(queue)[1]
           lst   == Head(queue)[2]
           mid   == (first + lst) \div 2
       IN  /\ visited' = Append(visited, mid)
           /\ IF V(mid)
              THEN /\ queue' = Tail(queue)
                                \o (IF first < mid - 1 THEN << <<first, mid>> >> ELSE <<>>)
                                \o (IF lst > mid + 1 THEN << <<mid, lst>> >> ELSE <<>>)
                   /\ UNCHANGED <<pc, result>>
              ELSE result' = FALSE /\ pc' = "lst_ret" /\ UNCHANGED queue
    /\ UNCHANGED <<case, j, last, cv, ci, out>>

LstRet ==
    /\ pc = "lst_ret" \/ (pc = "lst_q" /\ queue = <<>>)
    /\ out' = Append(out, Rec("lst", result, Untouched, cv, ci, visited))
    /\ Fresh /\ pc' = "lfi"
    /\ UNCHANGED case

(* --------------------------------------------------------------- ListFirst *)
(* for (i = 0; i < count; ++i) if (!isValid(states[i])) { firstInvalidStateIndex = i; return false; } *)
LfiScan ==
    /\ pc = "lfi" /\ j - 1 < n
    /\ visited' = Append(visited, j - 1)
    /\ IF V(j - 1) THEN j' = j + 1 /\ UNCHANGED <<pc, result, last>>
       ELSE last' = j - 1 /\ result' = FALSE /\ pc' = "lfi_ret" /\ UNCHANGED j
    /\ UNCHANGED <<case, queue, cv, ci, out>>

LfiRet ==
    /\ pc = "lfi_ret" \/ (pc = "lfi" /\ j - 1 >= n)
    /\ out' = Append(out, Rec("lfi", result, last, cv, ci, visited))
    /\ Fresh /\ pc' = "done"
    /\ UNCHANGED case

Next == \/ LinScan \/ LinEnd \/ LinCount \/ BisEnd \/ BisStep \/ BisCount
        \/ LstSmall \/ LstFront \/ LstBack \/ LstStep \/ LstRet \/ LfiScan \/ LfiRet

Spec == Init /\ [][Next]_vars

(* ------------------------------ properties ------------------------------ *)
SeqSet(s) == {s[k] : k \in 1..Len(s)}
NoDup(s) == \A a, b \in 1..Len(s) : a # b => s[a] # s[b]
Domain == IF kind = "motion" THEN Consultable(n) ELSE ListPoints(n)
Done == pc = "done"
IsMotion == Done /\ kind = "motion"
IsList == Done /\ kind = "list"

(* at every step: nothing but lattice points of this motion is ever consulted, none twice *)
NoIndexOutside ==
    /\ SeqSet(visited) \subseteq Domain
    /\ \A r \in 1..Len(out) : SeqSet(out[r].visited) \subseteq Domain
NeverTwice == NoDup(visited) /\ \A r \in 1..Len(out) : NoDup(out[r].visited)

Shape == Done => Len(out) = 2 /\ out[1].form = (IF kind = "motion" THEN "lin" ELSE "lst")
                             /\ out[2].form = (IF kind = "motion" THEN "bis" ELSE "lfi")

FormsAgree == Done => out[1].verdict = out[2].verdict
VerdictCorrect == IsMotion => out[1].verdict = Verdict(n, valid) /\ out[2].verdict = Verdict(n, valid)
LastValidCorrect == IsMotion => /\ ReportOk(n, valid, out[1].verdict, out[1].last)
                                /\ out[1].last = ExpectedLast(n, valid)
                                /\ out[2].last = Untouched
CountersCorrect == IsMotion => /\ CountersOk(n, valid, out[1].cv, out[1].ci)
                               /\ CountersOk(n, valid, out[2].cv, out[2].ci)
(* a valid motion costs exactly one validity query per lattice point, in both forms *)
BisectVisitsEachOnce == IsMotion /\ Verdict(n, valid) =>
                            /\ SeqSet(out[2].visited) = Consultable(n)
                            /\ Len(out[2].visited) = Cardinality(Consultable(n))
LinearVisitsInOrder == IsMotion /\ Verdict(n, valid) =>
                            out[1].visited = (IF n = 0 THEN <<0>> ELSE [k \in 1..n |-> k])
(* the linear form stops at the first invalid point: it has seen exactly 1..last+1 *)
LinearStopsAtFirst == IsMotion /\ ~Verdict(n, valid) =>
                            out[1].visited = [k \in 1..(out[1].last + 1) |-> k]

ListCorrect == IsList => /\ out[1].verdict = ListVerdict(n, valid)
                         /\ out[2].verdict = ListVerdict(n, valid)
                         /\ out[2].last = ExpectedFirstInvalid(n, valid)
                         /\ out[1].last = Untouched
                         /\ ~ListVerdict(n, valid) => ListFirstInvalidOk(n, valid, out[2].last)
ListVisitsEachOnce == IsList /\ ListVerdict(n, valid) =>
                         /\ SeqSet(out[1].visited) = ListPoints(n) /\ Len(out[1].visited) = n
                         /\ out[2].visited = [k \in 1..n |-> k - 1]
ListNoCounters == IsList => \A r \in 1..2 : out[r].cv = 0 /\ out[r].ci = 0

(* the extracted-state lattice of getMotionStates, every count and both flags *)
ASSUME \A c \in 0..N, e \in BOOLEAN : MotionStatesOk(c, e, MotionStates(c, e))

(* ------------------------------ case export (M3) ------------------------------ *)
(* expectation = contract operators only; lin/bis/lst/lfi = the model's query order,  *)
(* used by the harness as a drift metric, never for a verdict                          *)
J(x) == IF x = Untouched THEN -1 ELSE x
CaseJson ==
    IF kind = "motion"
    THEN [k |-> "motion", nd |-> n, valid |-> valid,
          exp |-> [verdict |-> Verdict(n, valid), last |-> J(ExpectedLast(n, valid)),
                   ctr |-> ExpectedCounter(n, valid)],
          lin |-> out[1].visited, bis |-> out[2].visited]
    ELSE [k |-> "list", nd |-> n, valid |-> valid,
          exp |-> [verdict |-> ListVerdict(n, valid), first |-> J(ExpectedFirstInvalid(n, valid))],
          lst |-> out[1].visited, lfi |-> out[2].visited]
EmitCase == Done => PrintT(ToJson(CaseJson))

StatesJson(c, e) == [k |-> "states", count |-> c, endpoints |-> e, den |-> c + 1,
                     num |-> MotionStates(c, e)]
EmitStates == \A c \in 0..N, e \in BOOLEAN : PrintT(ToJson(StatesJson(c, e)))
ASSUME EmitStates
===============================================================================
