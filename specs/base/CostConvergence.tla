--------------------------- MODULE CostConvergence ---------------------------
(* CostConvergenceTerminationCondition::processNewSolution                       *)
(* (src/ompl/base/terminationconditions/src/CostConvergenceTerminationCondition  *)
(* .cpp), transcribed with exact rational arithmetic:                            *)
(*                                                                              *)
(*     ++solutions_;                                                            *)
(*     m       = min(solutions_, window)                                        *)
(*     newCost = ((m - 1) * average + cost) / m                                 *)
(*     lo = (1 - eps) * average;  hi = (1 + eps) * average                      *)
(*     average = newCost                                                        *)
(*     if (m == window && average > lo && average < hi) terminate();            *)
(*                                                                              *)
(* `average` is the arithmetic mean of all costs while fewer than `window`      *)
(* solutions were reported; from then on every report moves it by 1/window of   *)
(* its distance to the new cost (the library calls it the cumulative moving     *)
(* average).  The condition is a never-terminating one whose terminate flag is  *)
(* set by the report that satisfies the rule, so it stays true afterwards.      *)
(*                                                                              *)
(* Rationals are pairs <<num, den>> with den > 0; eps = 1/ed.                   *)
EXTENDS Naturals, Sequences, TLC, Json

CONSTANTS Costs,      \* reported solution costs
          Windows,    \* solutionsWindow values
          EpsDens,    \* epsilon = 1/ed for ed in EpsDens
          MaxLen      \* longest cost sequence

VARIABLES w, ed,      \* configuration, chosen by Init
          seq,        \* costs reported so far
          avg,        \* <<num, den>>: averageCost_
          fired,      \* terminate() has been called
          firedAt,    \* index of the first report that called terminate(), 0 = none
          exactAt,    \* index of the first report (window full) whose new average equals a
                      \* threshold exactly, 0 = none: doubles may round either way from there on
          hist        \* what operator() returns after each report

vars == <<w, ed, seq, avg, fired, firedAt, exactAt, hist>>

Min(a, b) == IF a < b THEN a ELSE b
RECURSIVE Gcd(_, _)
Gcd(a, b) == IF b = 0 THEN a ELSE Gcd(b, a % b)
Norm(q) == LET g == Gcd(q[1], q[2]) IN IF g = 0 THEN <<0, 1>> ELSE <<q[1] \div g, q[2] \div g>>
RLt(p, q) == p[1] * q[2] < q[1] * p[2]
REq(p, q) == p[1] * q[2] = q[1] * p[2]
RMulInt(p, n, d) == <<p[1] * n, p[2] * d>>      \* p * n/d

(* one update of the average: m = number of solutions that count *)
NewAvg(a, m, c) == Norm(<<(m - 1) * a[1] + c * a[2], a[2] * m>>)
Lo(a, e) == RMulInt(a, e - 1, e)
Hi(a, e) == RMulInt(a, e + 1, e)
Within(old, new, e) == RLt(Lo(old, e), new) /\ RLt(new, Hi(old, e))
OnThreshold(old, new, e) == REq(Lo(old, e), new) \/ REq(new, Hi(old, e))

Init == /\ w \in Windows /\ ed \in EpsDens
        /\ seq = <<>> /\ avg = <<0, 1>>
        /\ fired = FALSE /\ firedAt = 0 /\ exactAt = 0 /\ hist = <<>>

Report(c) ==
    /\ Len(seq) < MaxLen
    /\ LET k == Len(seq) + 1
           m == Min(k, w)
           new == NewAvg(avg, m, c)
           hit == m = w /\ Within(avg, new, ed)
           edge == m = w /\ OnThreshold(avg, new, ed)
       IN  /\ seq' = Append(seq, c)
           /\ avg' = new
           /\ fired' = (fired \/ hit)
           /\ firedAt' = (IF firedAt = 0 /\ hit THEN k ELSE firedAt)
           /\ exactAt' = (IF exactAt = 0 /\ edge THEN k ELSE exactAt)
           /\ hist' = Append(hist, fired \/ hit)
    /\ UNCHANGED <<w, ed>>

Next == \E c \in Costs : Report(c)
Spec == Init /\ [][Next]_vars

(* ------------------------------ the contract ------------------------------ *)
(* the moving average after i reports, as a function of the whole sequence *)
RECURSIVE AvgAfter(_, _, _)
AvgAfter(s, i, win) == IF i = 0 THEN <<0, 1>>
                       ELSE NewAvg(AvgAfter(s, i - 1, win), Min(i, win), s[i])

Converged(s, i, win, e) == i >= win /\ Within(AvgAfter(s, i - 1, win), AvgAfter(s, i, win), e)
FirstIndex(S) == IF S = {} THEN 0 ELSE CHOOSE i \in S : \A j \in S : i <= j

(* fires at precisely the first report at which the window is full and the new moving *)
(* average is strictly within (1 -+ eps) of the previous one, and stays fired         *)
FiresExactlyAt ==
    /\ firedAt = FirstIndex({i \in 1..Len(seq) : Converged(seq, i, w, ed)})
    /\ fired = (firedAt # 0)
    /\ Len(hist) = Len(seq)
    /\ \A i \in 1..Len(seq) : hist[i] = (firedAt # 0 /\ i >= firedAt)

(* while the window is not full, and whenever window = 1, the average is the plain mean *)
RECURSIVE Sum(_, _, _)
Sum(s, a, b) == IF a > b THEN 0 ELSE s[a] + Sum(s, a + 1, b)
MeanWhileFilling ==
    Len(seq) <= w /\ Len(seq) > 0 => REq(avg, <<Sum(seq, 1, Len(seq)), Len(seq)>>)

(* the literal reading of the property text: arithmetic mean of the LAST n costs.  Not a *)
(* verdict - exported so that the check can report on how many sequences the two         *)
(* readings place the firing point differently.                                          *)
SlidingMean(s, i, win) == <<Sum(s, i - win + 1, i), win>>
SlidingConverged(s, i, win, e) ==
    /\ i >= win
    /\ LET old == IF i - 1 >= win THEN SlidingMean(s, i - 1, win)
                  ELSE IF i = 1 THEN <<0, 1>> ELSE <<Sum(s, 1, i - 1), i - 1>>
       IN  Within(old, SlidingMean(s, i, win), e)
SlidingAt == FirstIndex({i \in 1..Len(seq) : SlidingConverged(seq, i, w, ed)})

(* ------------------------------ scenario export ------------------------------ *)
Emit == Len(seq) = MaxLen =>
            PrintT(ToJson([w |-> w, ed |-> ed, costs |-> seq, fired |-> hist, firedAt |-> firedAt,
                           exactAt |-> exactAt, slidingAt |-> SlidingAt]))
===============================================================================
