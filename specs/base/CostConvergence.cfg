SPECIFICATION Spec
CONSTANTS
  Costs = {1, 2, 4, 8}
  Windows = {1, 2, 4}
  EpsDens = {8, 2}
  MaxLen = 6
INVARIANTS FiresExactlyAt MeanWhileFilling Emit
