----------------------------- MODULE InputStates -----------------------------
(* The input-state iterator of a planner: ompl::base::PlannerInputStates       *)
(* (src/ompl/base/Planner.h, src/ompl/base/src/Planner.cpp), part of property  *)
(* C03: it is what makes a resumed solve() consume every start state once and  *)
(* find the goal states.                                                       *)
(*                                                                             *)
(* Implementation-shaped part: the variables mirror the members (pdef_,        *)
(* addedStartStates_, sampledGoalsCount_, tempState_) plus what they read      *)
(* (the problem definition's start list, the goal, GoalStates' sampling        *)
(* cursor); every action transcribes the member function of the same name.    *)
(* Contract part: the ghost variables seenS / retG / skipG remember what the   *)
(* user was handed since the last restart, and the invariants / the action     *)
(* property StepContract say what the class documents.  Verdicts on the real   *)
(* class are taken from contract observations of the replayed transitions      *)
(* (harness/inputstates.cpp), never from the layout.                           *)
(*                                                                             *)
(* World: problem definition "A" is built and changed by the user through the  *)
(* documented allowed changes (start states appended, goal states appended to  *)
(* a GoalStates / GoalLazySamples whose thread is not running); definition     *)
(* "B" is fixed (starts <<inv, ok>>, one valid goal state) and only serves to  *)
(* exercise re-binding.  Every state carries a flag scripted by the scenario:  *)
(*   "ok"  in bounds and valid,  "inv" in bounds but rejected by the user's    *)
(*   StateValidityChecker,  "oob" outside the bounds of the space (the         *)
(*   checker would accept it, so only the bounds test can reject it).          *)
EXTENDS Naturals, Sequences, FiniteSets, TLC, Json

CONSTANTS MaxStarts,    \* longest start list of definition A
          MaxGoals,     \* longest goal list of definition A
          StartFlags,   \* subset of {"ok", "inv", "oob"}
          GoalFlags,
          GoalKinds,    \* subset of {"states", "region"}: kinds SetGoal may install in A
          Budgets,      \* attempt budgets m of nextGoal(ptc): ptc fires once m samples were drawn
          Rebind        \* TRUE: second definition B, planner-side definition pointer, Use/Update

ASSUME MaxGoals >= 0 /\ MaxStarts >= 0

VARIABLES starts,   \* Seq(flag): start states of definition A
          gkind,    \* "none" | "region" (not sampleable) | "states" (GoalStates / idle GoalLazySamples)
          goals,    \* Seq(flag): goal states of A (gkind = "states")
          gpos,     \* GoalStates::samplePosition_ of A's goal (0..size: rolled over before use)
          ppdef,    \* what planner_->getProblemDefinition() returns: "none" | "A" | "B"
          bound,    \* pdef_: "none" | "A" | "B"
          added,    \* addedStartStates_
          sampled,  \* sampledGoalsCount_
          temp,     \* tempState_ # nullptr
          seenS,    \* ghost: indices of the starts returned since the last restart / clear / re-bind
          retG,     \* ghost: number of goals returned since then
          skipG,    \* ghost: number of goal samples discarded since then
          drawnG,   \* ghost: indices of the goal states drawn since then
          lastAct   \* ghost: [act, args, ret] of the step that produced this state
vars == <<starts, gkind, goals, gpos, ppdef, bound, added, sampled, temp, seenS, retG, skipG, drawnG, lastAct>>
view == <<starts, gkind, goals, gpos, ppdef, bound, added, sampled, temp, seenS, retG, skipG, drawnG>>

StartsB == <<"inv", "ok">>
GoalsB == <<"ok">>
Starts(p) == IF p = "A" THEN starts ELSE IF p = "B" THEN StartsB ELSE <<>>
Kind(p) == IF p = "A" THEN gkind ELSE IF p = "B" THEN "states" ELSE "none"
Goals(p) == IF p = "A" THEN goals ELSE IF p = "B" THEN GoalsB ELSE <<>>
(* GoalSampleableRegion::maxSampleCount / canSample / couldSample of the bound goal *)
MaxSample(p) == IF Kind(p) = "states" THEN Len(Goals(p)) ELSE 0

Act(a, args, ret) == lastAct' = [act |-> a, args |-> args, ret |-> ret]
ResetGhost == seenS' = {} /\ retG' = 0 /\ skipG' = 0 /\ drawnG' = {}
KeepGhost == UNCHANGED <<seenS, retG, skipG, drawnG>>
KeepPdef == UNCHANGED <<starts, gkind, goals>>

Init == /\ starts = <<>> /\ gkind = "none" /\ goals = <<>> /\ gpos = 0
        /\ ppdef = "none" /\ bound = "none"
        /\ added = 0 /\ sampled = 0 /\ temp = FALSE
        /\ seenS = {} /\ retG = 0 /\ skipG = 0 /\ drawnG = {}
        /\ lastAct = [act |-> "Init", args |-> <<>>, ret |-> 0]

(* ------------------------- the user edits definition A ------------------------- *)
(* ProblemDefinition::addStartState: the documented allowed change between solves  *)
AddStart(f) ==
    /\ Len(starts) < MaxStarts
    /\ starts' = Append(starts, f)
    /\ UNCHANGED <<gkind, goals, gpos, ppdef, bound, added, sampled, temp>> /\ KeepGhost
    /\ Act("AddStart", [flag |-> f], 0)

SetGoal(k) ==
    /\ gkind = "none"
    /\ gkind' = k
    /\ UNCHANGED <<starts, goals, gpos, ppdef, bound, added, sampled, temp>> /\ KeepGhost
    /\ Act("SetGoal", [kind |-> k], 0)

(* GoalStates::addState: the other allowed change *)
AddGoal(f) ==
    /\ gkind = "states" /\ Len(goals) < MaxGoals
    /\ goals' = Append(goals, f)
    /\ UNCHANGED <<starts, gkind, gpos, ppdef, bound, added, sampled, temp>> /\ KeepGhost
    /\ Act("AddGoal", [flag |-> f], 0)

(* the planner is handed another definition (Planner::pdef_ assigned; update() not yet called) *)
SetPlannerPdef(p) ==
    /\ Rebind /\ p # ppdef
    /\ ppdef' = p
    /\ KeepPdef /\ UNCHANGED <<gpos, bound, added, sampled, temp>> /\ KeepGhost
    /\ Act("SetPlannerPdef", [p |-> p], 0)

(* ------------------------------ PlannerInputStates ------------------------------ *)
(* clear(): free tempState_, zero the counters, drop pdef_ and si_ *)
Clear ==
    /\ temp' = FALSE /\ added' = 0 /\ sampled' = 0 /\ bound' = "none"
    /\ ResetGhost
    /\ KeepPdef /\ UNCHANGED <<gpos, ppdef>>
    /\ Act("Clear", <<>>, 0)

(* restart(): forget the two counters, nothing else *)
Restart ==
    /\ added' = 0 /\ sampled' = 0
    /\ ResetGhost
    /\ KeepPdef /\ UNCHANGED <<gpos, ppdef, bound, temp>>
    /\ Act("Restart", <<>>, 0)

(* use(pdef): a different, non-null definition => clear() and bind; returns whether it did *)
UseBody(p, name, args) ==
    IF p # "none" /\ p # bound
    THEN /\ temp' = FALSE /\ added' = 0 /\ sampled' = 0 /\ bound' = p
         /\ ResetGhost
         /\ Act(name, args, 1)
    ELSE /\ UNCHANGED <<temp, added, sampled, bound>> /\ KeepGhost
         /\ Act(name, args, 0)

Use(p) ==
    /\ (Rebind \/ p = "A")
    /\ UseBody(p, "Use", [p |-> p])
    /\ KeepPdef /\ UNCHANGED <<gpos, ppdef>>

(* update(): use(planner_->getProblemDefinition()) *)
Update ==
    /\ Rebind
    /\ UseBody(ppdef, "Update", <<>>)
    /\ KeepPdef /\ UNCHANGED <<gpos, ppdef>>

(* nextStart(): while (added < count) { st = start[added]; ++added; if in bounds and valid return st } return null *)
RECURSIVE ScanStart(_, _)
ScanStart(ss, a) ==
    IF a < Len(ss)
    THEN IF ss[a + 1] = "ok" THEN [ret |-> a + 1, added |-> a + 1] ELSE ScanStart(ss, a + 1)
    ELSE [ret |-> 0, added |-> a]

NextStart ==
    /\ bound # "none"
    /\ LET r == ScanStart(Starts(bound), added)
       IN  /\ added' = r.added
           /\ seenS' = IF r.ret # 0 THEN seenS \cup {r.ret} ELSE seenS
           /\ Act("NextStart", <<>>, r.ret)
    /\ KeepPdef /\ UNCHANGED <<gpos, ppdef, bound, sampled, temp, retG, skipG, drawnG>>

(* nextGoal(ptc) for a sampleable goal, with the termination condition scripted as          *)
(* "true once m samples were drawn in this call, or once the goal is exhausted" (so the     *)
(* sequential model never enters the waiting branch: that one is GoalLazy.tla).  m = 0 is   *)
(* nextGoal(): plannerAlwaysTerminatingCondition, i.e. exactly one attempt.                 *)
(*   if (sampled < max && canSample) { alloc temp;                                          *)
(*       do { sampleGoal(temp); ++sampled; if ok return temp; } while (!ptc && sampled < max && canSample) } *)
(* GoalStates::sampleGoal: pos = pos % size (stored); copy states[pos]; ++pos               *)
RECURSIVE Draw(_, _, _, _, _)
Draw(gs, pos, cnt, drawn, m) ==
    LET idx == (pos % Len(gs)) + 1      \* samplePosition_ = samplePosition_ % states_.size()
        pos2 == (pos % Len(gs)) + 1     \* (the rolled-over value is stored), then ++samplePosition_
    IN  IF gs[idx] = "ok" THEN [ret |-> idx, pos |-> pos2, cnt |-> cnt + 1, skipped |-> drawn, idxs |-> {idx}]
        ELSE IF drawn + 1 < m /\ cnt + 1 < Len(gs)
             THEN LET r == Draw(gs, pos2, cnt + 1, drawn + 1, m) IN [r EXCEPT !.idxs = @ \cup {idx}]
        ELSE [ret |-> 0, pos |-> pos2, cnt |-> cnt + 1, skipped |-> drawn + 1, idxs |-> {idx}]

NextGoal(m) ==
    /\ bound # "none"
    /\ LET n == MaxSample(bound)
           eff == IF m = 0 THEN 1 ELSE m
           cursor == IF bound = "A" THEN gpos ELSE 0
       IN  IF sampled < n
           THEN LET r == Draw(Goals(bound), cursor, sampled, 0, eff)
                IN  /\ temp' = TRUE
                    /\ sampled' = r.cnt
                    /\ gpos' = IF bound = "A" THEN r.pos ELSE gpos
                    /\ retG' = IF r.ret # 0 THEN retG + 1 ELSE retG
                    /\ skipG' = skipG + r.skipped
                    /\ drawnG' = drawnG \cup r.idxs
                    /\ Act("NextGoal", [m |-> m], r.ret)
           ELSE /\ UNCHANGED <<temp, sampled, gpos, retG, skipG, drawnG>>
                /\ Act("NextGoal", [m |-> m], 0)
    /\ KeepPdef /\ UNCHANGED <<ppdef, bound, added, seenS>>

Next ==
    \/ \E f \in StartFlags : AddStart(f)
    \/ \E k \in GoalKinds : SetGoal(k)
    \/ \E f \in GoalFlags : AddGoal(f)
    \/ \E p \in {"A", "B"} : SetPlannerPdef(p)
    \/ \E p \in {"none", "A", "B"} : Use(p)
    \/ Update \/ Clear \/ Restart \/ NextStart
    \/ \E m \in Budgets : NextGoal(m)

Spec == Init /\ [][Next]_vars

(* ---------------------------------- observers ---------------------------------- *)
(* haveMoreStartStates(), haveMoreGoalStates(), checkValidity() as functions of the state *)
HaveMoreStart == bound # "none" /\ added < Len(Starts(bound))
HaveMoreGoal == bound # "none" /\ Kind(bound) = "states" /\ sampled < MaxSample(bound)
ValidityOk == bound # "none" /\ Len(Starts(bound)) > 0 /\ Kind(bound) # "none"

(* ---------------------------------- contract ---------------------------------- *)
OkIdx(ss, upto) == {i \in 1..upto : ss[i] = "ok"}

TypeOK == /\ added \in 0..(MaxStarts + 2) /\ sampled \in 0..MaxGoals + 1 /\ gpos \in 0..MaxGoals + 1
          /\ bound \in {"none", "A", "B"} /\ ppdef \in {"none", "A", "B"}

(* every valid in-bounds start seen so far was returned, exactly those (never an invalid one) *)
StartsExactlyOnce == bound # "none" => seenS = OkIdx(Starts(bound), added)
(* the counters equal the number of states consumed: returned + discarded *)
CountersExact ==
    /\ bound # "none" => added = Cardinality(seenS) + Cardinality({i \in 1..added : Starts(bound)[i] # "ok"})
    /\ sampled = retG + skipG
    /\ bound = "none" => added = 0 /\ sampled = 0
(* never more goals than the goal can provide *)
GoalBound == sampled <= MaxSample(bound) /\ retG <= MaxSample(bound)
(* the scratch state is owned only while bound (clear() frees it) *)
TempOwned == temp => bound # "none"

StepContract ==
    [][ LET a == lastAct'.act
            r == lastAct'.ret
            ss == Starts(bound)
            gs == Goals(bound)
        IN  /\ a = "NextStart" =>
                 /\ r # 0 => /\ r \in 1..Len(ss) /\ ss[r] = "ok"      \* only valid in-bounds starts
                             /\ r \notin seenS                         \* never twice between restarts
                             /\ OkIdx(ss, r - 1) \subseteq seenS       \* in order, none jumped over
                             /\ added' = r
                 /\ r = 0 => OkIdx(ss, Len(ss)) \subseteq seenS /\ added' = Len(ss)
                 /\ ~HaveMoreStart => r = 0                            \* after the end: null, again and again
            /\ a = "NextGoal" =>
                 /\ r # 0 => r \in 1..Len(gs) /\ gs[r] = "ok" /\ temp'
                 /\ ~HaveMoreGoal => r = 0 /\ sampled' = sampled
                 /\ retG' <= MaxSample(bound)
                 /\ sampled' - sampled <= (IF lastAct'.args.m = 0 THEN 1 ELSE lastAct'.args.m)
            /\ a \in {"Clear", "Restart"} => added' = 0 /\ sampled' = 0
            /\ a \in {"Use", "Update"} => (r = 1) = (bound' # bound)
            (* a start appended later is reachable without re-reading the earlier ones *)
            /\ a = "AddStart" /\ bound = "A" => added' = added /\ seenS' = seenS /\ HaveMoreStart'
      ]_vars

(* A question the documentation leaves open, checked separately (not a verdict): once the   *)
(* goal is exhausted (sampled = maxSampleCount), was every goal state drawn?  It is not,    *)
(* when restart() happened after a partial sweep and the list grew afterwards: GoalStates'  *)
(* cursor and the iterator's counter then disagree about which states are new.              *)
GoalSweepComplete ==
    (bound = "A" /\ gkind = "states" /\ sampled = Len(goals) /\ Len(goals) > 0)
        => drawnG = 1..Len(goals)

(* ------------------------------- scenario export ------------------------------- *)
Dump == PrintT(ToJson([src |-> ToString(view), dst |-> ToString(view'), act |-> lastAct'.act,
                       args |-> lastAct'.args,
                       exp |-> [ret |-> lastAct'.ret,
                                seen |-> added', sampled |-> sampled',
                                moreS |-> HaveMoreStart', moreG |-> HaveMoreGoal',
                                valid |-> ValidityOk', temp |-> temp', bound |-> bound',
                                maxG |-> MaxSample(bound')]]))
==============================================================================
