SPECIFICATION TSpec
INVARIANT NoBad
INVARIANT NoSoftBad
INVARIANT NotAccepted
CHECK_DEADLOCK FALSE
