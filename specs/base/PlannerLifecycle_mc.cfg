SPECIFICATION Spec
CONSTANTS
  Pdefs = {"A", "B"}
  Budgets = {"k0", "k5", "inf"}
  MaxQueries = 2
INVARIANT TypeOK
PROPERTY NoStaleQuery
VIEW view
