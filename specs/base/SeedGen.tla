-------------------------------- MODULE SeedGen --------------------------------
(* The process-global seed generator behind ompl::RNG (property C20, first      *)
(* half).  `SetSeed` transcribes RNGSeedGenerator::setSeed; a local seed handed *)
(* out by `NewRNG` is abstracted as the pair <<seed the generator was last      *)
(* seeded with, number of local seeds drawn since>> (the real value is an       *)
(* uninterpreted injective function of that pair); "time" stands for the        *)
(* wall-clock seed of a process that never called setSeed.                      *)
EXTENDS Naturals, Sequences, TLC, Json

CONSTANTS Seeds,     \* user seeds tried, e.g. {0, 1, 2}
          MaxLen

VARIABLES first,     \* what RNG::getSeed() reports
          genSeed,   \* seed the generator was last seeded with
          genIdx,    \* local seeds handed out since
          started,   \* someSeedsGenerated_
          hist       \* ghost: the calls made, with the abstract value each returned
vars == <<first, genSeed, genIdx, started, hist>>

Init == first = "time" /\ genSeed = "time" /\ genIdx = 0 /\ started = FALSE /\ hist = <<>>

SetSeed(s) ==
    /\ Len(hist) < MaxLen
    /\ IF s > 0
       THEN /\ first' = IF started THEN first ELSE s     \* error logged when started; first kept
            /\ genSeed' = s /\ genIdx' = 0
       ELSE IF started
            THEN UNCHANGED <<first, genSeed, genIdx>>    \* warning, ignored
            ELSE /\ UNCHANGED first                      \* warning, 1 used (first seed not updated)
                 /\ genSeed' = 1 /\ genIdx' = 0
    /\ UNCHANGED started
    /\ hist' = Append(hist, [op |-> "SetSeed", arg |-> s, ret |-> <<"-", 0>>])

NewRNG ==
    /\ Len(hist) < MaxLen
    /\ started' = TRUE
    /\ genIdx' = genIdx + 1
    /\ UNCHANGED <<first, genSeed>>
    /\ hist' = Append(hist, [op |-> "NewRNG", arg |-> 0, ret |-> <<ToString(genSeed), genIdx>>])

GetSeed ==
    /\ Len(hist) < MaxLen
    /\ UNCHANGED <<first, genSeed, genIdx, started>>
    /\ hist' = Append(hist, [op |-> "GetSeed", arg |-> 0, ret |-> <<ToString(first), 0>>])

Next == (\E s \in Seeds : SetSeed(s)) \/ NewRNG \/ GetSeed
Spec == Init /\ [][Next]_vars

(* The property's premise: the seed is set (s > 0) before any generator is created.  Then the *)
(* i-th generator created depends only on the seed and on i, whatever else happened before.   *)
RECURSIVE CountNew(_)
CountNew(h) == IF h = <<>> THEN 0 ELSE (IF Head(h).op = "NewRNG" THEN 1 ELSE 0) + CountNew(Tail(h))
PremiseHolds(h) == \E i \in 1..Len(h) :
                      /\ h[i].op = "SetSeed" /\ h[i].arg > 0
                      /\ \A j \in 1..i - 1 : h[j].op # "NewRNG"
                      /\ \A j \in i + 1..Len(h) : h[j].op # "SetSeed"
SeedOf(h) == LET i == CHOOSE i \in 1..Len(h) : h[i].op = "SetSeed" /\ h[i].arg > 0
                                                  /\ \A j \in i + 1..Len(h) : h[j].op # "SetSeed"
             IN h[i].arg
IthSeedDependsOnlyOnSeedAndI ==
    PremiseHolds(hist) =>
        \A i \in 1..Len(hist) :
            hist[i].op = "NewRNG" => hist[i].ret = <<ToString(SeedOf(hist)), CountNew(SubSeq(hist, 1, i - 1))>>
LastSet(h) == CHOOSE i \in 1..Len(h) : h[i].op = "SetSeed" /\ h[i].arg > 0
                                         /\ \A j \in i + 1..Len(h) : h[j].op # "SetSeed"
ReportedSeedIsTheSeed ==
    PremiseHolds(hist) => \A i \in 1..Len(hist) :
        (hist[i].op = "GetSeed" /\ i > LastSet(hist)) => hist[i].ret[1] = ToString(SeedOf(hist))

(* scenario export: every maximal history *)
Emit == Len(hist) = MaxLen => PrintT(ToJson([hist |-> hist, premise |-> PremiseHolds(hist)]))
================================================================================
