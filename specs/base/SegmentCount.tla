----------------------------- MODULE SegmentCount -----------------------------
(* The segment-count rule of property C05 on an integer lattice:               *)
(*   StateSpace::validSegmentCount          = factor * ceil(distance / longest) *)
(*   CompoundStateSpace::validSegmentCount  = max over the components' counts   *)
(* (StateSpace.cpp:851-854, 1091-1103).  d = distance, L = longest valid        *)
(* segment length, f = segment count factor; all positive integers here (the    *)
(* harness realizes them exactly in R^1 with dyadic fractions).                 *)
(* TLC enumerates every (d, L, f) and every pair of components as initial       *)
(* states, checks what the count is FOR (no lattice segment longer than L / f,  *)
(* fewest segments that achieve it) and prints each case for the harness.       *)
EXTENDS Integers, Sequences, FiniteSets, TLC, Json

CONSTANTS MaxD,     \* distances 0..MaxD
          MaxL,     \* longest valid segment 1..MaxL
          MaxF,     \* count factor 1..MaxF
          MaxDC     \* distances 0..MaxDC per component of the compound cases

VARIABLES kind, a, b     \* kind "single": component a; kind "compound": components a and b

vars == <<kind, a, b>>

(* the implementation's formula: ceil of a quotient of non-negative integers *)
CeilDiv(d, L) == (d + L - 1) \div L
Count(c) == c.f * CeilDiv(c.d, c.L)
Max(x, y) == IF x >= y THEN x ELSE y
CompoundCount(c1, c2) == Max(Count(c1), Count(c2))

Comp(D) == [d : 0..D, L : 1..MaxL, f : 1..MaxF]
None == [d |-> 0, L |-> 1, f |-> 1]

Init == \/ kind = "single" /\ a \in Comp(MaxD) /\ b = None
        \/ kind = "compound" /\ a \in Comp(MaxDC) /\ b \in Comp(MaxDC)
Next == UNCHANGED vars
Spec == Init /\ [][Next]_vars

(* ------------------------------ contract ------------------------------ *)
(* k = ceil(d / L): the least number of pieces of length <= L that cover d *)
IsCeil(k, d, L) == k * L >= d /\ (k = 0 \/ (k - 1) * L < d)
(* with nd segments every lattice step of component c is at most L / f long *)
StepShortEnough(nd, c) == c.d * c.f <= nd * c.L

SingleOk == kind = "single" =>
    /\ IsCeil(CeilDiv(a.d, a.L), a.d, a.L)
    /\ Count(a) = 0 <=> a.d = 0                       \* identical states: no segment
    /\ StepShortEnough(Count(a), a)
    /\ Count(a) % a.f = 0
CompoundOk == kind = "compound" =>
    LET nd == CompoundCount(a, b)
    IN  /\ nd >= Count(a) /\ nd >= Count(b) /\ nd \in {Count(a), Count(b)}
        /\ StepShortEnough(nd, a) /\ StepShortEnough(nd, b)   \* fine enough for every component
        /\ nd = 0 <=> (a.d = 0 /\ b.d = 0)

(* ------------------------------ case export (M3) ------------------------------ *)
CaseJson == IF kind = "single"
            THEN [k |-> "single", a |-> a, exp |-> Count(a)]
            ELSE [k |-> "compound", a |-> a, b |-> b, exp |-> CompoundCount(a, b)]
EmitCase == PrintT(ToJson(CaseJson))
===============================================================================
