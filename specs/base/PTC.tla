--------------------------------- MODULE PTC ---------------------------------
(* Termination conditions of ompl::base (PlannerTerminationCondition.{h,cpp},   *)
(* terminationconditions/IterationTerminationCondition.cpp).                    *)
(*                                                                              *)
(* A TERM is a small graph of condition NODES.  Every node stands for one       *)
(* PlannerTerminationConditionImpl object: it owns a `terminate_` flag (term)   *)
(* and a function.  The combinators plannerOr/AndTerminationCondition capture   *)
(* COPIES of their operands, and a copy of a PlannerTerminationCondition shares *)
(* the impl object (shared_ptr) - so a combinator node points at its operand    *)
(* nodes: Terminate(operand) is seen when the combination is evaluated, whereas *)
(* Terminate(combination) touches only the combination's own flag.  The         *)
(* iteration counter lives in the lambda stored in the impl object, hence one   *)
(* counter per node, advanced by every evaluation that reaches the node (direct *)
(* or through any combination) and by no other.                                 *)
(*                                                                              *)
(* Eval(n) = term[n] \/ value(n); value follows the C++ evaluation order        *)
(* (c1() || c2(), c1() && c2(): left first, right only when needed).            *)
(* The declarative operator Truth is the contract the operational Run is        *)
(* checked against.                                                             *)
EXTENDS Naturals, Sequences, FiniteSets, TLC, Json

CONSTANTS TermIds,   \* set of encoded terms explored (see Tab)
          MaxTerm,   \* at most this many nodes are ever terminated in one behaviour
          CntCap,    \* iteration counters saturate here (3 is exact for Iter(0..2))
          MaxLen     \* 0: unbounded behaviours; > 0: behaviours of at most MaxLen steps after Choose

VARIABLES tid,     \* NoTerm before Choose, afterwards the code of the term under test
          tab,     \* the node table of that term: <<[k, a, l, r], ...>>, node 1 is the root
          pv,      \* [1..2 -> BOOLEAN]: what the user predicate p returns right now
          sol,     \* [ap, ex]: the problem definition holds an approximate / an exact solution
          term,    \* [1..NN -> BOOLEAN]: terminate() was called on node n
          cnt,     \* [1..NN -> 0..CntCap]: times the function of Iter node n was invoked
          steps,   \* number of steps taken (only counted when MaxLen > 0)
          lastAct  \* ghost: label of the step that produced this state (hidden by VIEW)

vars == <<tid, tab, pv, sol, term, cnt, steps, lastAct>>

NN == 7
NoTerm == 99999
None == [k |-> "none", a |-> 0, l |-> 0, r |-> 0]
Leaf(kind, arg) == [k |-> kind, a |-> arg, l |-> 0, r |-> 0]
Bin(kind, lft, rgt) == [k |-> kind, a |-> 0, l |-> lft, r |-> rgt]

(* ------------------------------ term encoding ------------------------------ *)
(* leaves 0..7: P1 P2 Always Never Iter0 Iter1 Iter2 Exact                       *)
(* depth <= 1: 0..7 and 8 + op*64 + l*8 + r   (op 0 = or, 1 = and)    -> 0..135  *)
(* depth 2:    136 + op*136*136 + x*136 + y   with x, y codes of depth <= 1      *)
(* 50001..:    hand-written graphs in which an operand object is used twice      *)
LeafRec(c) == CASE c = 0 -> Leaf("pred", 1)
                [] c = 1 -> Leaf("pred", 2)
                [] c = 2 -> Leaf("always", 0)
                [] c = 3 -> Leaf("never", 0)
                [] c \in 4..6 -> Leaf("iter", c - 4)
                [] c = 7 -> Leaf("exact", 0)
OpName(o) == IF o = 0 THEN "or" ELSE "and"
IsLeafCode(c) == c < 8
Op1(c) == (c - 8) \div 64
L1(c) == ((c - 8) % 64) \div 8
R1(c) == (c - 8) % 8
Head1(c, pos) == IF IsLeafCode(c) THEN LeafRec(c) ELSE Bin(OpName(Op1(c)), 2 * pos, 2 * pos + 1)

TreeTab(t) ==
    IF t < 136
    THEN IF IsLeafCode(t) THEN <<LeafRec(t), None, None, None, None, None, None>>
         ELSE <<Head1(t, 1), LeafRec(L1(t)), LeafRec(R1(t)), None, None, None, None>>
    ELSE LET u == t - 136
             o == u \div (136 * 136)
             x == (u % (136 * 136)) \div 136
             y == u % 136
         IN  <<Bin(OpName(o), 2, 3), Head1(x, 2), Head1(y, 3),
               IF IsLeafCode(x) THEN None ELSE LeafRec(L1(x)),
               IF IsLeafCode(x) THEN None ELSE LeafRec(R1(x)),
               IF IsLeafCode(y) THEN None ELSE LeafRec(L1(y)),
               IF IsLeafCode(y) THEN None ELSE LeafRec(R1(y))>>

(* graphs with a shared operand object (same C++ object passed twice)           *)
DagTab(t) ==
    CASE t = 50001 -> <<Bin("or", 2, 2), Leaf("iter", 1), None, None, None, None, None>>
      [] t = 50002 -> <<Bin("and", 2, 2), Leaf("iter", 0), None, None, None, None, None>>
      [] t = 50003 -> <<Bin("and", 2, 3), Bin("or", 4, 5), Bin("or", 6, 5), Leaf("pred", 1),
                        Leaf("iter", 2), Leaf("pred", 2), None>>
      [] t = 50004 -> <<Bin("or", 2, 3), Bin("and", 3, 4), Leaf("pred", 1), Leaf("pred", 2),
                        None, None, None>>
      [] t = 50005 -> <<Bin("and", 2, 3), Leaf("pred", 1), Bin("or", 2, 4), Leaf("iter", 1),
                        None, None, None>>
      [] t = 50006 -> <<Bin("or", 2, 3), Bin("and", 4, 5), Bin("and", 5, 4), Leaf("iter", 1),
                        Leaf("exact", 0), None, None>>
DagIds == 50001..50006
IsTree(t) == t < 50000

Tab(t) == IF IsTree(t) THEN TreeTab(t) ELSE DagTab(t)
(* every tree of depth exactly 2 (at least one operand is itself a combination) *)
AllDepth2 == {136 + o * 136 * 136 + x * 136 + y : o \in 0..1, x \in 0..135, y \in 0..135}
             \ {136 + o * 136 * 136 + x * 136 + y : o \in 0..1, x \in 0..7, y \in 0..7}
NoTab == <<None, None, None, None, None, None, None>>
T == tab

Live(tb) == {n \in 1..NN : tb[n].k # "none"}
PredsIn(tb) == {tb[n].a : n \in {m \in 1..NN : tb[m].k = "pred"}}
HasExactNode(tb) == \E n \in 1..NN : tb[n].k = "exact"
Terminated == {n \in 1..NN : term[n]}

(* ------------------------------ evaluation ------------------------------ *)
Min(a, b) == IF a < b THEN a ELSE b
St0 == [cnt |-> cnt, calls |-> <<0, 0>>]

(* operational: what the C++ call chain does, left to right with short-circuit; returns *)
(* the result and the counters / predicate invocations it caused                      *)
RECURSIVE Run(_, _, _)
Run(tb, n, st) ==
    IF term[n] THEN [r |-> TRUE, st |-> st]      \* `if (terminate_) return true;` - fn_ not called
    ELSE LET nd == tb[n]
         IN  CASE nd.k = "pred" -> [r |-> pv[nd.a], st |-> [st EXCEPT !.calls[nd.a] = @ + 1]]
               [] nd.k = "always" -> [r |-> TRUE, st |-> st]
               [] nd.k = "never" -> [r |-> FALSE, st |-> st]
               [] nd.k = "exact" -> [r |-> sol.ex, st |-> st]
               [] nd.k = "iter" -> LET c == Min(st.cnt[n] + 1, CntCap)
                                   IN  [r |-> c > nd.a, st |-> [st EXCEPT !.cnt[n] = c]]
               [] nd.k = "or" -> LET a == Run(tb, nd.l, st)
                                 IN  IF a.r THEN a ELSE Run(tb, nd.r, a.st)
               [] nd.k = "and" -> LET a == Run(tb, nd.l, st)
                                  IN  IF ~a.r THEN a ELSE Run(tb, nd.r, a.st)

(* declarative (the contract): truth of a node in the current state.  For a tree the     *)
(* operands of a combination own disjoint counters, so the truth of the right operand    *)
(* does not depend on whether the left one was evaluated.                                *)
RECURSIVE Truth(_, _)
Truth(tb, n) ==
    \/ term[n]
    \/ LET nd == tb[n]
       IN  CASE nd.k = "pred" -> pv[nd.a]
             [] nd.k = "always" -> TRUE
             [] nd.k = "never" -> FALSE
             [] nd.k = "exact" -> sol.ex
             [] nd.k = "iter" -> cnt[n] + 1 > nd.a
             [] nd.k = "or" -> Truth(tb, nd.l) \/ Truth(tb, nd.r)
             [] nd.k = "and" -> Truth(tb, nd.l) /\ Truth(tb, nd.r)

(* ------------------------------ actions ------------------------------ *)
Act(name, args, exp) == lastAct' = [act |-> name, args |-> args, exp |-> exp]
Step == steps' = IF MaxLen > 0 THEN steps + 1 ELSE steps
NoExp == [none |-> TRUE]

Init == /\ tid = NoTerm
        /\ tab = NoTab
        /\ pv = <<FALSE, FALSE>>
        /\ sol = [ap |-> FALSE, ex |-> FALSE]
        /\ term = [n \in 1..NN |-> FALSE]
        /\ cnt = [n \in 1..NN |-> 0]
        /\ steps = 0
        /\ lastAct = [act |-> "Init", args |-> NoExp, exp |-> NoExp]

Choose(t) ==
    /\ tid = NoTerm
    /\ tid' = t /\ tab' = Tab(t)
    /\ UNCHANGED <<pv, sol, term, cnt, steps>>
    /\ Act("Choose", [t |-> t, nodes |-> Tab(t)], NoExp)

FlipPred(p) ==
    /\ tid # NoTerm /\ p \in PredsIn(T)
    /\ pv' = [pv EXCEPT ![p] = ~@]
    /\ UNCHANGED <<tid, tab, sol, term, cnt>> /\ Step
    /\ Act("FlipPred", [p |-> p, v |-> ~pv[p]], NoExp)

(* the solution set of the problem definition: exact solutions rank before approximate *)
(* ones, so "holds an exact solution" = an exact one was added since the last clear    *)
AddSol(approx) ==
    /\ tid # NoTerm /\ HasExactNode(T)
    /\ IF approx THEN ~sol.ap /\ sol' = [sol EXCEPT !.ap = TRUE]
                 ELSE ~sol.ex /\ sol' = [sol EXCEPT !.ex = TRUE]
    /\ UNCHANGED <<tid, tab, pv, term, cnt>> /\ Step
    /\ Act("AddSol", [approx |-> approx], NoExp)

ClearSol ==
    /\ tid # NoTerm /\ HasExactNode(T) /\ (sol.ap \/ sol.ex)
    /\ sol' = [ap |-> FALSE, ex |-> FALSE]
    /\ UNCHANGED <<tid, tab, pv, term, cnt>> /\ Step
    /\ Act("ClearSol", NoExp, NoExp)

Eval(n) ==
    /\ tid # NoTerm /\ n \in Live(T)
    /\ LET res == Run(T, n, St0)
       IN  /\ cnt' = res.st.cnt
           /\ Act("Eval", [n |-> n], [r |-> res.r, calls |-> res.st.calls])
    /\ UNCHANGED <<tid, tab, pv, sol, term>> /\ Step

Terminate(n) ==
    /\ tid # NoTerm /\ n \in Live(T) /\ ~term[n]
    /\ Cardinality(Terminated) < MaxTerm
    /\ term' = [term EXCEPT ![n] = TRUE]
    /\ UNCHANGED <<tid, tab, pv, sol, cnt>> /\ Step
    /\ Act("Terminate", [n |-> n], NoExp)

Next ==
    /\ (MaxLen > 0 => steps < MaxLen)
    /\ \/ (tid = NoTerm /\ \E t \in TermIds : Choose(t))   \* guard first: TermIds can be large
       \/ \E p \in 1..2 : FlipPred(p)
       \/ \E b \in BOOLEAN : AddSol(b)
       \/ ClearSol
       \/ \E n \in 1..NN : Eval(n)
       \/ \E n \in 1..NN : Terminate(n)

Spec == Init /\ [][Next]_vars

(* ------------------------------ properties ------------------------------ *)
IsEval == lastAct'.act = "Eval"
EvN == lastAct'.args.n
EvR == lastAct'.exp.r

TypeOK == /\ tid \in Nat
          /\ \A n \in 1..NN : cnt[n] \in 0..CntCap
          /\ (tid # NoTerm => tab = Tab(tid))
          /\ (tid # NoTerm => \A n \in 1..NN : (term[n] \/ cnt[n] > 0) => n \in Live(T))

(* once terminate() has been requested the condition reports true forever *)
TerminateSticky ==
    [][ /\ \A n \in 1..NN : term[n] => term'[n]
        /\ (IsEval /\ term[EvN]) => EvR ]_vars

(* every evaluation returns the declarative truth of the node: or = either operand,      *)
(* and = both operands, terminate flags of operands seen through the combination, the    *)
(* combination's own flag not seen through the operands (Truth(tb, operand) ignores it)  *)
OrAndTruth ==
    [][ (IsEval /\ IsTree(tid)) => EvR = Truth(T, EvN) ]_vars

Constants ==
    [][ IsEval => /\ T[EvN].k = "always" => EvR
                  /\ T[EvN].k = "never" => (EvR = term[EvN]) ]_vars

(* evaluation number i of a fresh Iter(k) is true iff i > k.  cnt[n] is the number of     *)
(* evaluations that reached node n so far (exact while below CntCap); a direct           *)
(* evaluation of an un-terminated Iter node is evaluation number cnt[n] + 1.             *)
IterThreshold ==
    [][ /\ (IsEval /\ T[EvN].k = "iter" /\ ~term[EvN]) =>
               /\ cnt'[EvN] = Min(cnt[EvN] + 1, CntCap)
               /\ EvR = (cnt'[EvN] > T[EvN].a)
        /\ (IsEval /\ T[EvN].k = "iter" /\ term[EvN]) => cnt' = cnt
        /\ \A n \in 1..NN : cnt'[n] >= cnt[n]
        /\ ~IsEval => cnt' = cnt ]_vars

(* the exact-solution condition mirrors the problem definition *)
ExactMirrors ==
    [][ (IsEval /\ T[EvN].k = "exact" /\ ~term[EvN]) => (EvR = sol.ex) ]_vars

(* a user predicate is invoked exactly once by a direct evaluation, never when terminated *)
PredDirect ==
    [][ (IsEval /\ T[EvN].k = "pred") =>
            /\ EvR = (term[EvN] \/ pv[T[EvN].a])
            /\ lastAct'.exp.calls[T[EvN].a] = IF term[EvN] THEN 0 ELSE 1 ]_vars

(* ------------------------------ scenario export ------------------------------ *)
View == <<tid, pv, sol, term, cnt, steps>>
Dump == PrintT(ToJson([src |-> <<tid, pv, sol.ap, sol.ex, term, cnt>>,
                       dst |-> <<tid', pv', sol'.ap, sol'.ex, term', cnt'>>,
                       act |-> lastAct'.act, args |-> lastAct'.args, exp |-> lastAct'.exp]))
===============================================================================
