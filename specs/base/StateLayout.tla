------------------------------ MODULE StateLayout ------------------------------
(* Shapes of ompl state spaces and everything C09 says about them that is      *)
(* discrete: the signature vector (StateSpace::computeSignature), the layout   *)
(* of a serialized state (CompoundStateSpace::serialize writes the component   *)
(* images one after the other at running offsets), the order in which the      *)
(* doubles of a nested state are enumerated (getValueLocations / copyToReals / *)
(* copyFromReals / ScopedState::reals) and which components a partial copy     *)
(* between two related spaces transfers (copyStateData, operator<< and >>).    *)
(*                                                                             *)
(* A shape is a tree.  Leaves: RV(n), SO2, SO3, Time, Discrete(lo,hi).         *)
(* Inner nodes: Compound (type tag "C"), SE2 and SE3 (compounds with a fixed   *)
(* definition and their own type code).  A wrapper ("W", WrapperStateSpace)    *)
(* may sit at the root only: the library's wrapper hides getName()/getType()   *)
(* non-virtually, so it cannot be used as a component (scope, DESIGN 6).       *)
(*                                                                             *)
(* There is no behaviour here: TLC enumerates every shape of a bounded family  *)
(* (and every ordered pair of a smaller family), checks the invariants below   *)
(* on each and prints, per shape, what the real space must report.  The        *)
(* harness (harness/storage.cpp, sub-command layout) builds each shape as a    *)
(* real ompl state space and compares.                                         *)
EXTENDS Integers, Sequences, FiniteSets, TLC, Json

CONSTANTS KindsA, NodesA,   \* family A: every tree with <= NodesA nodes over leaf kinds KindsA
          KindsB, NodesB,   \* family B: deeper trees over fewer leaf kinds
          KindsP, NodesP,   \* pair family (partial copies); only name-unique shapes are used
          MaxDepth,         \* nesting bound for all families
          VarNodes          \* variants (other weights / bounds / wrapped) of family-A shapes up to this size

VARIABLES a, b   \* the shape under examination (and, in pair mode, the source shape)
vars == <<a, b>>

(* ------------------------------------------------------------------ shapes *)
Leaf(k, n, lo, hi) == [k |-> k, n |-> n, lo |-> lo, hi |-> hi, ch |-> <<>>, w |-> <<>>]
Node(k, ch, w) == [k |-> k, n |-> 0, lo |-> 0, hi |-> 0, ch |-> ch, w |-> w]

\* weights are kept in halves (TLC has no reals): 2 means weight 1.0
DefaultW(n) == IF n = 0 THEN <<>> ELSE [i \in 1..n |-> 2 * i]
MkC(ch) == Node("C", ch, DefaultW(Len(ch)))
RV(n) == Leaf("RV", n, 0, 0)      \* lo/hi of an RV leaf select the bounds variant, not part of the structure
SO2 == Leaf("SO2", 0, 0, 0)
SO3 == Leaf("SO3", 0, 0, 0)
TimeS == Leaf("T", 0, 0, 0)
Disc(lo, hi) == Leaf("D", 0, lo, hi)
SE2 == Node("SE2", <<RV(2), SO2>>, <<2, 1>>)     \* SE2StateSpace: R^2 (1.0) + SO(2) (0.5)
SE3 == Node("SE3", <<RV(3), SO3>>, <<2, 2>>)     \* SE3StateSpace: R^3 (1.0) + SO(3) (1.0)
Wrap(s) == Node("W", <<s>>, <<>>)

Atom(x) == CASE x = "RV0" -> RV(0) [] x = "RV1" -> RV(1) [] x = "RV2" -> RV(2) [] x = "RV3" -> RV(3)
             [] x = "SO2" -> SO2 [] x = "SO3" -> SO3 [] x = "T" -> TimeS
             [] x = "D02" -> Disc(0, 2) [] x = "D11" -> Disc(1, 1) [] x = "Dm13" -> Disc(-1, 3)
             [] x = "SE2" -> SE2 [] x = "SE3" -> SE3

IsComp(s) == s.k \in {"C", "SE2", "SE3"}
IsWrap(s) == s.k = "W"

RECURSIVE Depth(_)
Depth(s) == IF s.ch = <<>> THEN 0
            ELSE 1 + (CHOOSE d \in {Depth(s.ch[i]) : i \in 1..Len(s.ch)} :
                          \A i \in 1..Len(s.ch) : Depth(s.ch[i]) <= d)

(* every tree with exactly n enumeration nodes (an SE2/SE3 atom counts as one), at most three
   children per compound, leaves drawn from K; the empty compound is a one-node tree *)
RECURSIVE Trees(_, _)
Trees(K, n) ==
    IF n = 1 THEN {Atom(x) : x \in K} \cup {MkC(<<>>)}
    ELSE LET m == n - 1
         IN  {MkC(<<x>>) : x \in Trees(K, m)}
             \cup UNION {{MkC(<<x, y>>) : x \in Trees(K, i), y \in Trees(K, m - i)} : i \in 1..(m - 1)}
             \cup UNION {{MkC(<<x, y, z>>) : x \in Trees(K, p[1]), y \in Trees(K, p[2]), z \in Trees(K, m - p[1] - p[2])} :
                         p \in {q \in (1..m) \X (1..m) : q[1] + q[2] < m}}

Family(K, n) == {s \in UNION {Trees(K, i) : i \in 1..n} : Depth(s) <= MaxDepth}

(* variants with the same structure: other weights, other bounds - and the wrapped space *)
RECURSIVE Rebound(_)
Rebound(s) == IF s.k = "D" THEN Disc(s.lo - 1, s.hi + 2)
              ELSE IF s.k = "RV" THEN Leaf("RV", s.n, 1, 2)
              ELSE IF s.ch = <<>> THEN s
              ELSE [s EXCEPT !.ch = [i \in 1..Len(s.ch) |-> Rebound(s.ch[i])]]
Reweight(s) == IF s.k = "C" /\ s.ch # <<>> THEN [s EXCEPT !.w = [i \in 1..Len(s.ch) |-> 7]] ELSE s

BaseShapes == Family(KindsA, NodesA) \cup Family(KindsB, NodesB)
VarBase == Family(KindsA, VarNodes)
Variants == {Rebound(s) : s \in VarBase} \cup {Reweight(s) : s \in VarBase} \cup {Wrap(s) : s \in VarBase}

(* --------------------------------------------------------------- signature *)
\* StateSpaceTypes.h
TypeCode(s) == CASE s.k = "C" -> 0 [] s.k = "RV" -> 1 [] s.k = "SO2" -> 2 [] s.k = "SO3" -> 3
                 [] s.k = "SE2" -> 4 [] s.k = "SE3" -> 5 [] s.k = "T" -> 6 [] s.k = "D" -> 7

RECURSIVE Dim(_), SumDim(_, _)
Dim(s) == CASE s.k = "RV" -> s.n [] s.k = "SO2" -> 1 [] s.k = "SO3" -> 3 [] s.k = "T" -> 1 [] s.k = "D" -> 1
            [] s.k = "W" -> Dim(s.ch[1])
            [] OTHER -> SumDim(s.ch, 1)
SumDim(ch, i) == IF i > Len(ch) THEN 0 ELSE Dim(ch[i]) + SumDim(ch, i + 1)

(* computeStateSpaceSignatureHelper: type, dimension, then the components in order; the
   wrapper forwards computeSignature() to the wrapped space *)
RECURSIVE SigBody(_), SigKids(_, _)
SigBody(s) == IF IsWrap(s) THEN SigBody(s.ch[1])
              ELSE <<TypeCode(s), Dim(s)>> \o (IF IsComp(s) THEN SigKids(s.ch, 1) ELSE <<>>)
SigKids(ch, i) == IF i > Len(ch) THEN <<>> ELSE SigBody(ch[i]) \o SigKids(ch, i + 1)
\* computeSignature: the body, preceded by its own length
Signature(s) == <<Len(SigBody(s))>> \o SigBody(s)

(* ------------------------------------------------------ serialization layout *)
RECURSIVE SerLen(_), SumLen(_, _)
SerLen(s) == CASE s.k = "RV" -> 8 * s.n [] s.k = "SO2" -> 8 [] s.k = "SO3" -> 32 [] s.k = "T" -> 8 [] s.k = "D" -> 4
               [] s.k = "W" -> SerLen(s.ch[1])
               [] OTHER -> SumLen(s.ch, 1)
SumLen(ch, i) == IF i > Len(ch) THEN 0 ELSE SerLen(ch[i]) + SumLen(ch, i + 1)

\* how many doubles a state of this shape holds (a discrete component holds an int, no double)
RECURSIVE NumValues(_), SumVals(_, _)
NumValues(s) == CASE s.k = "RV" -> s.n [] s.k = "SO2" -> 1 [] s.k = "SO3" -> 4 [] s.k = "T" -> 1 [] s.k = "D" -> 0
                  [] s.k = "W" -> NumValues(s.ch[1])
                  [] OTHER -> SumVals(s.ch, 1)
SumVals(ch, i) == IF i > Len(ch) THEN 0 ELSE NumValues(ch[i]) + SumVals(ch, i + 1)

(* names: a node is named after its structure, so that equal names mean equal subtrees with
   equal names below - the library's assumption "spaces are identified by their names" *)
RECURSIVE Name(_), NameKids(_, _)
Name(s) == CASE s.k = "RV" -> "RV" \o ToString(s.n) \o (IF s.lo = 0 /\ s.hi = 0 THEN "" ELSE "b" \o ToString(s.lo) \o "_" \o ToString(s.hi))
             [] s.k = "D" -> "D" \o ToString(s.lo) \o "_" \o ToString(s.hi)
             [] s.k \in {"SO2", "SO3", "T"} -> s.k
             [] OTHER -> s.k \o "[" \o NameKids(s, 1) \o "]"
NameKids(s, i) == IF i > Len(s.ch) THEN ""
                  ELSE (IF i > 1 THEN "," ELSE "") \o Name(s.ch[i])
                       \o (IF s.w = <<>> THEN "" ELSE ":" \o ToString(s.w[i])) \o NameKids(s, i + 1)

(* All nodes in depth-first pre-order with, for each, where its image starts in the serialized
   state of the root and which value indices it covers.  The running offset is advanced by the
   serialization length of each component (CompoundStateSpace::serialize / deserialize).  The
   path is the chain of component indices (0-based, as in SubstateLocation::chain); a wrapper
   does not add a level. *)
RECURSIVE NodesFrom(_, _, _, _), KidsFrom(_, _, _, _, _)
NodesFrom(s, path, off, v0) ==
    IF IsWrap(s) THEN NodesFrom(s.ch[1], path, off, v0)
    ELSE <<[path |-> path, name |-> Name(s), k |-> s.k, off |-> off, len |-> SerLen(s), v0 |-> v0,
            nv |-> NumValues(s), leaf |-> ~IsComp(s), lo |-> s.lo, hi |-> s.hi]>>
         \o (IF IsComp(s) THEN KidsFrom(s, 1, path, off, v0) ELSE <<>>)
KidsFrom(s, i, path, off, v0) ==
    IF i > Len(s.ch) THEN <<>>
    ELSE NodesFrom(s.ch[i], Append(path, i - 1), off, v0)
         \o KidsFrom(s, i + 1, path, off + SerLen(s.ch[i]), v0 + NumValues(s.ch[i]))

Nodes(s) == NodesFrom(s, <<>>, 0, 0)
Leaves(s) == SelectSeq(Nodes(s), LAMBDA x : x.leaf)

(* value-location order (computeLocationsHelper): depth first; a non-compound node contributes
   its doubles 0..nv-1 in order, a compound node contributes nothing itself *)
RECURSIVE ValueOrderFrom(_, _), ValueOrderKids(_, _, _)
LeafValues(path, nv, i) == [j \in 1..nv |-> [path |-> path, idx |-> j - 1]]
ValueOrderFrom(s, path) ==
    IF IsWrap(s) THEN ValueOrderFrom(s.ch[1], path)
    ELSE IF IsComp(s) THEN ValueOrderKids(s, 1, path)
    ELSE IF NumValues(s) = 0 THEN <<>> ELSE LeafValues(path, NumValues(s), 0)
ValueOrderKids(s, i, path) ==
    IF i > Len(s.ch) THEN <<>> ELSE ValueOrderFrom(s.ch[i], Append(path, i - 1)) \o ValueOrderKids(s, i + 1, path)
ValueOrder(s) == ValueOrderFrom(s, <<>>)

(* ------------------------------------------------------------ invariants (one shape) *)
RECURSIVE PrefixLen(_, _)
PrefixLen(L, i) == IF i = 0 THEN 0 ELSE L[i].len + PrefixLen(L, i - 1)

\* the leaf images tile [0, length) in order, without gap or overlap
LayoutIsPartition ==
    LET L == Leaves(a)
    IN  /\ \A i \in 1..Len(L) : L[i].off = PrefixLen(L, i - 1)
        /\ PrefixLen(L, Len(L)) = SerLen(a)
        /\ \A i, j \in 1..Len(L) : i < j => L[i].off + L[i].len <= L[j].off
        \* every node's image is exactly the concatenation of its descendants' images
        /\ \A x \in {Nodes(a)[i] : i \in 1..Len(Nodes(a))} :
               \A i \in 1..Len(L) :
                   (Len(L[i].path) >= Len(x.path) /\ SubSeq(L[i].path, 1, Len(x.path)) = x.path)
                       => (x.off <= L[i].off /\ L[i].off + L[i].len <= x.off + x.len)

\* the value order names every double of every leaf exactly once, and the m-th value is the
\* double stored at byte offset leaf.off + 8 * idx; doubles and discrete ints together fill the image
ValueOrderCoversAll ==
    LET L == Leaves(a)
        V == ValueOrder(a)
        ByteOf(m) == LET lf == CHOOSE x \in {L[i] : i \in 1..Len(L)} : x.path = V[m].path
                     IN  lf.off + 8 * V[m].idx
    IN  /\ Len(V) = NumValues(a)
        /\ {<<V[m].path, V[m].idx>> : m \in 1..Len(V)} = UNION {{<<L[i].path, j>> : j \in 0..(L[i].nv - 1)} : i \in 1..Len(L)}
        /\ \A m, n \in 1..Len(V) : m # n => <<V[m].path, V[m].idx>> # <<V[n].path, V[n].idx>>
        /\ \A m \in 1..Len(V) :
               LET lf == CHOOSE x \in {L[i] : i \in 1..Len(L)} : x.path = V[m].path
               IN  m - 1 = lf.v0 + V[m].idx /\ 8 * (V[m].idx + 1) <= lf.len
        /\ \A m, n \in 1..Len(V) : m < n => ByteOf(m) + 8 <= ByteOf(n)
        /\ 8 * Len(V) + 4 * Cardinality({i \in 1..Len(L) : L[i].k = "D"}) = SerLen(a)

\* sanity of the signature: its first entry is the length of the rest, two entries per node
SignatureWellFormed ==
    LET S == Signature(a)
        N == IF IsWrap(a) THEN Nodes(a.ch[1]) ELSE Nodes(a)
    IN  S[1] = Len(S) - 1 /\ Len(S) = 1 + 2 * Len(N) /\ S[3] = Dim(a)

(* -------------------------------------------------------- pairs: partial copies *)
SeqSet(q) == {q[i] : i \in 1..Len(q)}
NamesIn(N) == {N[i].name : i \in 1..Len(N)}
NameSet(s) == NamesIn(Nodes(s))
NameUnique(s) == LET N == Nodes(s) IN Cardinality(NamesIn(N)) = Len(N)
IsPrefix(p, q) == Len(p) <= Len(q) /\ SubSeq(q, 1, Len(p)) = p
Named(N, nm) == CHOOSE x \in SeqSet(N) : x.name = nm

PairShapes == {s \in Family(KindsP, NodesP) : NameUnique(s)}
AllShapes == BaseShapes \cup Variants \cup PairShapes
\* node tables of the pair family, computed once
PN == [s \in PairShapes |-> Nodes(s)]

\* one answer getCommonSubspaces() may give: the common subspaces not contained in another common one
\* (a compound with a single component and that component cover each other: either may be listed)
MaximalCommonN(ND, NS) ==
    LET C == NamesIn(ND) \cap NamesIn(NS)
    IN  {nm \in C : ~\E other \in C : other # nm /\ IsPrefix(Named(ND, other).path, Named(ND, nm).path)}

(* which leaf of src each leaf of dst is filled from (contract of copyStateData / operator<<):
   a destination leaf is written iff it lies in a subspace whose name also occurs in the source,
   and it then receives the corresponding leaf of that source subspace *)
SourcesOfN(ND, NS, lf) ==
    {Named(NS, x.name).path \o SubSeq(lf.path, Len(x.path) + 1, Len(lf.path)) :
        x \in {y \in SeqSet(ND) : IsPrefix(y.path, lf.path) /\ y.name \in NamesIn(NS)}}
TransferN(ND, NS) ==
    LET Hit == SelectSeq(ND, LAMBDA lf : lf.leaf /\ SourcesOfN(ND, NS, lf) # {})
    IN  [i \in 1..Len(Hit) |-> [to |-> Hit[i].path, from |-> CHOOSE p \in SourcesOfN(ND, NS, Hit[i]) : TRUE]]

\* ALL_DATA_COPIED (2) / SOME_DATA_COPIED (1) / NO_DATA_COPIED (0): how much of the source found a place
RECURSIVE CopyResult(_, _), CopyKids(_, _, _)
CopyResult(dstNames, s) ==
    IF Name(s) \in dstNames THEN 2
    ELSE IF ~IsComp(s) THEN 0
    ELSE LET R == CopyKids(dstNames, s.ch, 1)
         IN  IF R \subseteq {2} THEN 2 ELSE IF R \subseteq {0} THEN 0 ELSE 1
CopyKids(dstNames, ch, i) == IF i > Len(ch) THEN {} ELSE {CopyResult(dstNames, ch[i])} \cup CopyKids(dstNames, ch, i + 1)

\* the source leaf is the same whichever enclosing common subspace one goes through,
\* it exists in the source and has the same kind
TransferWellDefined ==
    LET ND == PN[a]
        NS == PN[b]
    IN  \A lf \in {x \in SeqSet(ND) : x.leaf} :
            LET S == SourcesOfN(ND, NS, lf)
            IN  /\ Cardinality(S) <= 1
                /\ \A p \in S : \E y \in SeqSet(NS) : y.leaf /\ y.path = p /\ y.k = lf.k /\ y.len = lf.len
CommonIsSymmetric == MaximalCommonN(PN[a], PN[b]) = MaximalCommonN(PN[b], PN[a])
\* everything of the source arrives iff the result says so
AllMeansAll ==
    LET ND == PN[a]
        NS == PN[b]
    IN  (CopyResult(NamesIn(ND), b) = 2) <=>
            \A lf \in {y \in SeqSet(NS) : y.leaf} : \E x \in SeqSet(NS) : IsPrefix(x.path, lf.path) /\ x.name \in NamesIn(ND)
\* equal signatures mean byte-compatible images (why the archive check may rely on the signature)
ByteImageN(N) == SelectSeq([i \in 1..Len(N) |-> [off |-> N[i].off, len |-> N[i].len, int |-> N[i].k = "D", leaf |-> N[i].leaf]],
                           LAMBDA x : x.leaf /\ x.len > 0)
SignatureDeterminesImage == Signature(a) = Signature(b) => ByteImageN(Nodes(a)) = ByteImageN(Nodes(b))

(* ------------------------------------------------------------------ enumeration *)
InitShapes == a \in AllShapes /\ b = a
InitPairs == a \in PairShapes /\ b \in PairShapes
Next == UNCHANGED vars

ShapeRow(s) == [id |-> Name(s), shape |-> s, wrapped |-> IsWrap(s), sig |-> Signature(s), len |-> SerLen(s),
                nvals |-> NumValues(s), dim |-> Dim(s), nodes |-> Nodes(s), vorder |-> ValueOrder(s),
                unique |-> NameUnique(s), pair |-> s \in PairShapes]
PairRow(dst, src) == [dst |-> Name(dst), src |-> Name(src), common |-> MaximalCommonN(PN[dst], PN[src]),
                      allcommon |-> NamesIn(PN[dst]) \cap NamesIn(PN[src]),
                      ret |-> CopyResult(NamesIn(PN[dst]), src), xfer |-> TransferN(PN[dst], PN[src])]
EmitShape == PrintT(ToJson(ShapeRow(a)))
EmitPair == PrintT(ToJson(PairRow(a, b)))
===============================================================================
