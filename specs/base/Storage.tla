------------------------------- MODULE Storage -------------------------------
(* Persisted data: ompl::base::StateStorage ("SS"), base::PlannerDataStorage   *)
(* ("PD") and control::PlannerDataStorage ("PDC").  An archive is a sequence   *)
(* of typed fields                                                             *)
(*     <<hdr, marker, counts, sig, item1 ... item1, item2 ... item2>>          *)
(* hdr is Boost's archive preamble (one opaque field), item1 are the states /  *)
(* vertices, item2 the edges.  A stream is an archive of which only a prefix   *)
(* may be present: `full` whole fields, then possibly a part of the next one.  *)
(*                                                                             *)
(* Contract (C09): storing and loading back with a space of the same signature *)
(* returns equal data; a truncated stream, a wrong marker (patched marker or   *)
(* an archive of another kind) and a space with a different signature are      *)
(* rejected AND reported, never accepted, never a crash.  A space with the     *)
(* same signature but other bounds / weights is accepted (DESIGN section 6).   *)
(*                                                                             *)
(* Two switches reproduce what the implementation does differently from the    *)
(* contract, so that TLC exhibits the consequence:                             *)
(*   OneTypePerVertex    the archive keeps ONE type per vertex (standard /     *)
(*                       start / goal): a vertex that is both loses a mark     *)
(*   MarkerCheckedFirst  FALSE: the whole header, including a length-prefixed  *)
(*                       signature vector, is parsed before the marker is      *)
(*                       looked at; with an archive of another kind the length *)
(*                       is garbage and the allocation may fail uncaught       *)
EXTENDS Integers, Sequences, FiniteSets, TLC, Json

CONSTANTS MaxItems,            \* most vertices / states in the stored data
          OneTypePerVertex,    \* TRUE = as implemented (defect D8), FALSE = contract
          MarkerCheckedFirst   \* TRUE = contract, FALSE = as implemented

VARIABLES phase,    \* "new" -> "stored" -> ("faulted") -> "loaded"
          kind,     \* which storage class wrote the archive
          shape,    \* the space it was written with
          data,     \* what was stored
          stream,   \* [fields, full, partial]
          fault,    \* [t, field, partial]: the corruption applied, t = "none" if none
          lkind, lshape,   \* who loads, into which space
          result    \* outcome of the load

vars == <<phase, kind, shape, data, stream, fault, lkind, lshape, result>>

Kinds == {"SS", "PD", "PDC"}
Marker(k) == CASE k = "SS" -> "OMPL" [] k = "PD" -> "PDAM" [] k = "PDC" -> "PDCM"
\* three spaces: A and A2 have the same structure (other bounds / weights), B differs
Shapes == {"A", "A2", "B"}
Sig(s) == IF s = "B" THEN 2 ELSE 1

Flags == {[s |-> x, g |-> y] : x \in BOOLEAN, y \in BOOLEAN}
NoFlags == [s |-> FALSE, g |-> FALSE]
\* the data sets: n states, or n vertices with any start/goal marks and 0..1 edges
DataOf(k) ==
    IF k = "SS" THEN {[verts |-> [i \in 1..n |-> NoFlags], edges |-> 0] : n \in 0..MaxItems}
    ELSE UNION {{[verts |-> v, edges |-> e] : v \in [1..n -> Flags], e \in (IF n = 0 THEN {0} ELSE {0, 1})} : n \in 0..MaxItems}

(* ------------------------------------------------------------------ store *)
TypeOf(f) == IF f.s THEN "START" ELSE IF f.g THEN "GOAL" ELSE "STANDARD"
EncodeVertex(i, f) == IF OneTypePerVertex THEN [t |-> "item1", id |-> i, type |-> TypeOf(f)]
                      ELSE [t |-> "item1", id |-> i, s |-> f.s, g |-> f.g]
DecodeVertex(x) == IF OneTypePerVertex THEN [s |-> x.type = "START", g |-> x.type = "GOAL"]
                   ELSE [s |-> x.s, g |-> x.g]
Archive(k, sh, d) ==
    <<[t |-> "hdr"], [t |-> "marker", v |-> Marker(k)],
      [t |-> "counts", n1 |-> Len(d.verts), n2 |-> d.edges], [t |-> "sig", v |-> Sig(sh)]>>
    \o [i \in 1..Len(d.verts) |-> EncodeVertex(i, d.verts[i])]
    \o [i \in 1..d.edges |-> [t |-> "item2", id |-> i]]

(* ------------------------------------------------------------------- load *)
Reject(why, n) == [t |-> "Reject", why |-> why, reported |-> TRUE, loaded |-> n]
Accept(d) == [t |-> "Accept", data |-> d]
Crash == [t |-> "Crash"]

\* number of whole item fields present
WholeItems(st) == IF st.full > 4 THEN st.full - 4 ELSE 0

LoadOwn(st, lk, ls) ==   \* the archive is of the loader's kind
    LET F == st.fields
    IN  IF st.full < 4 THEN Reject("truncated", 0)                  \* header incomplete
        ELSE IF F[2].v # Marker(lk) THEN Reject("marker", 0)
        ELSE IF F[4].v # Sig(ls) THEN Reject("signature", 0)
        ELSE IF st.full < Len(F) THEN Reject("truncated", WholeItems(st))
        ELSE Accept([verts |-> [i \in 1..F[3].n1 |-> DecodeVertex(F[4 + i])], edges |-> F[3].n2])

Init ==
    /\ phase = "new" /\ kind \in Kinds /\ shape \in {"A", "B"} /\ data \in DataOf(kind)
    /\ stream = [fields |-> <<>>, full |-> 0, partial |-> FALSE]
    /\ fault = [t |-> "none", field |-> "", partial |-> FALSE]
    /\ lkind = kind /\ lshape = shape /\ result = [t |-> "none"]

Store ==
    /\ phase = "new" /\ phase' = "stored"
    /\ LET A == Archive(kind, shape, data) IN stream' = [fields |-> A, full |-> Len(A), partial |-> FALSE]
    /\ UNCHANGED <<kind, shape, data, fault, lkind, lshape, result>>

\* keep `f` whole fields and, if p, some but not all bytes of the next one
Truncate(f, p) ==
    /\ phase = "stored" /\ phase' = "faulted"
    /\ f \in 0..(Len(stream.fields) - 1)
    /\ stream' = [stream EXCEPT !.full = f, !.partial = p]
    /\ fault' = [t |-> "truncate", field |-> stream.fields[f + 1].t, partial |-> p]
    /\ UNCHANGED <<kind, shape, data, lkind, lshape, result>>

\* the marker bytes are overwritten, everything else is intact
WrongMarker ==
    /\ phase = "stored" /\ phase' = "faulted"
    /\ stream' = [stream EXCEPT !.fields[2].v = "????"]
    /\ fault' = [t |-> "marker", field |-> "marker", partial |-> FALSE]
    /\ UNCHANGED <<kind, shape, data, lkind, lshape, result>>

\* the stream is handed to the loader of another archive kind
ForeignArchive(k) ==
    /\ phase = "stored" /\ phase' = "faulted" /\ k # kind
    /\ lkind' = k
    /\ fault' = [t |-> "foreign", field |-> "marker", partial |-> FALSE]
    /\ UNCHANGED <<kind, shape, data, stream, lshape, result>>

\* the loader's space is another one (same or different signature)
SubstituteSpace(s) ==
    /\ phase = "stored" /\ phase' = "faulted" /\ s # shape
    /\ lshape' = s
    /\ fault' = [t |-> "space", field |-> "sig", partial |-> FALSE]
    /\ UNCHANGED <<kind, shape, data, stream, lkind, result>>

Load ==
    /\ phase \in {"stored", "faulted"} /\ phase' = "loaded"
    /\ UNCHANGED <<kind, shape, data, stream, fault, lkind, lshape>>
    /\ IF lkind = kind THEN result' = LoadOwn(stream, lkind, lshape)
       ELSE IF MarkerCheckedFirst THEN result' = Reject("marker", 0)
       \* as implemented: the foreign header is parsed field by field first; what the length
       \* prefix of the signature vector then holds is arbitrary
       ELSE result' \in {Reject("marker", 0), Reject("truncated", 0), Crash}

Next == Store \/ Load \/ WrongMarker
        \/ (\E f \in 0..(MaxItems + 5), p \in BOOLEAN : Truncate(f, p))
        \/ (\E k \in Kinds : ForeignArchive(k)) \/ (\E s \in Shapes : SubstituteSpace(s))
Spec == Init /\ [][Next]_vars

(* ------------------------------------------------------------- invariants *)
Loaded == phase = "loaded"
SameSig == Sig(lshape) = Sig(shape)

\* no fault, a space of the same signature: the data comes back, marks included
RoundTrip == (Loaded /\ fault.t \in {"none", "space"} /\ SameSig) => result = Accept(data)

\* any truncation, wrong marker, foreign archive, different signature: rejected and reported;
\* what a StateStorage holds afterwards is a strict prefix of what was stored
FaultsRejected ==
    (Loaded /\ (fault.t \in {"truncate", "marker", "foreign"} \/ ~SameSig)) =>
        /\ result.t = "Reject" /\ result.reported
        /\ result.loaded <= Len(data.verts) + data.edges
        /\ (Len(data.verts) + data.edges > 0 /\ fault.t = "truncate") => result.loaded < Len(data.verts) + data.edges

NeverCrashes == Loaded => result.t # "Crash"
\* whatever is accepted is what was stored
NeverSilentlyDifferent == (Loaded /\ result.t = "Accept") => result.data = data

(* ------------------------------------------------------- scenario export *)
\* one line per load: which kind, which fault (for truncations: inside which field type, at its
\* start or in its middle), whether the signatures agree, and the required outcome
Dump == IF phase' = "loaded"
        THEN PrintT(ToJson([kind |-> kind, fault |-> fault.t, field |-> fault.field, partial |-> fault.partial,
                            samesig |-> SameSig, n |-> Len(data.verts) + data.edges,
                            both |-> \E i \in 1..Len(data.verts) : data.verts[i].s /\ data.verts[i].g,
                            expect |-> result'.t,
                            why |-> IF result'.t = "Reject" THEN result'.why ELSE "",
                            loaded |-> IF result'.t = "Reject" THEN result'.loaded ELSE Len(data.verts) + data.edges]))
        ELSE TRUE
===============================================================================
