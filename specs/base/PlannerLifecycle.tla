--------------------------- MODULE PlannerLifecycle ---------------------------
(* Life cycle of a planner object as its user sees it (property C03):         *)
(* binding problem definitions, changing queries, solve(k) under a            *)
(* termination condition that first fires at evaluation k, clear(),           *)
(* clearQuery(), getPlannerData(), destruction.                                *)
(*                                                                             *)
(* The model tracks what the planner MAY still remember (`holds`: the set of  *)
(* queries whose states can be in its data structures) and which calls are    *)
(* legal next (documented protocol: after the query of the bound definition   *)
(* changed, or another definition was bound while search data exist, clear()  *)
(* or clearQuery() must precede the next solve()).  TLC checks that this      *)
(* protocol is sufficient for NoStaleQuery and exports the state graph; the   *)
(* histories executed on the real planners are walks through that graph, and  *)
(* the recorded executions are judged by PlannerLifecycleTrace.               *)
EXTENDS Naturals, Sequences, FiniteSets, TLC, Json

CONSTANTS Pdefs,      \* e.g. {"A", "B"}
          Budgets,    \* abstract termination indices, e.g. {"k0", "k1", "small", "mid", "inf"}
          MaxQueries  \* bound on query changes per definition

VARIABLES bound,       \* definition the planner is bound to, or "none"
          qid,         \* [Pdefs -> Nat]: current query number of each definition
          holds,       \* set of <<pdef, qid>>: queries whose states the search data may contain
          roadmap,     \* set of <<pdef, qid>>: queries whose states survive only as a roadmap
                       \* (kept by clearQuery(): allowed in planner data, never as a path end)
          needsClear,  \* the documented protocol requires clear()/clearQuery() before solve()
          solved,      \* [Pdefs -> BOOLEAN]: some solve() ran on the current query of that definition
          alive,       \* planner object exists
          lastAct
vars == <<bound, qid, holds, roadmap, needsClear, solved, alive, lastAct>>
view == <<bound, qid, holds, roadmap, needsClear, solved, alive>>

Cur(p) == <<p, qid[p]>>

Init == /\ bound = "none"
        /\ qid = [p \in Pdefs |-> 0]
        /\ holds = {} /\ roadmap = {}
        /\ needsClear = FALSE
        /\ solved = [p \in Pdefs |-> FALSE]
        /\ alive = TRUE
        /\ lastAct = [act |-> "Init", args |-> <<>>]

SetPdef(p) ==
    /\ alive
    /\ bound' = p
    /\ needsClear' = (needsClear \/ (p # bound /\ (holds \cup roadmap) # {}))
    /\ UNCHANGED <<qid, holds, roadmap, solved, alive>>
    /\ lastAct' = [act |-> "SetPdef", args |-> [p |-> p]]

NewQuery(p) ==
    /\ alive /\ qid[p] < MaxQueries
    /\ qid' = [qid EXCEPT ![p] = @ + 1]
    /\ solved' = [solved EXCEPT ![p] = FALSE]     \* the user clears the definition's solutions too
    /\ needsClear' = (needsClear \/ (p = bound /\ (holds \cup roadmap) # {}))
    /\ UNCHANGED <<bound, holds, roadmap, alive>>
    /\ lastAct' = [act |-> "NewQuery", args |-> [p |-> p]]

Solve(k) ==
    /\ alive /\ bound # "none" /\ ~needsClear
    /\ holds' = holds \cup {Cur(bound)}
    /\ solved' = [solved EXCEPT ![bound] = TRUE]
    /\ UNCHANGED <<bound, qid, roadmap, needsClear, alive>>
    /\ lastAct' = [act |-> "Solve", args |-> [k |-> k]]

Clear ==
    /\ alive
    /\ holds' = {} /\ roadmap' = {} /\ needsClear' = FALSE
    /\ UNCHANGED <<bound, qid, solved, alive>>
    /\ lastAct' = [act |-> "Clear", args |-> <<>>]

ClearQuery ==
    /\ alive
    /\ roadmap' = roadmap \cup holds /\ holds' = {} /\ needsClear' = FALSE
    /\ UNCHANGED <<bound, qid, solved, alive>>
    /\ lastAct' = [act |-> "ClearQuery", args |-> <<>>]

GetPlannerData ==
    /\ alive /\ bound # "none"
    /\ UNCHANGED <<bound, qid, holds, roadmap, needsClear, solved, alive>>
    /\ lastAct' = [act |-> "GetPlannerData", args |-> <<>>]

(* setup() needs the problem definition: several planners configure themselves from it and *)
(* already read its start and goal states, so afterwards they may hold the current query   *)
Setup ==
    /\ alive /\ bound # "none" /\ ~needsClear
    /\ holds' = holds \cup {Cur(bound)}
    /\ UNCHANGED <<bound, qid, roadmap, needsClear, solved, alive>>
    /\ lastAct' = [act |-> "Setup", args |-> <<>>]

Destroy ==
    /\ alive
    /\ alive' = FALSE /\ holds' = {} /\ roadmap' = {}
    /\ UNCHANGED <<bound, qid, needsClear, solved>>
    /\ lastAct' = [act |-> "Destroy", args |-> <<>>]

Next == \/ \E p \in Pdefs : SetPdef(p) \/ NewQuery(p)
        \/ \E k \in Budgets : Solve(k)
        \/ Clear \/ ClearQuery \/ GetPlannerData \/ Setup \/ Destroy

Spec == Init /\ [][Next]_vars

(* --- what the documented protocol guarantees --- *)
(* when solve() runs, everything the search data may contain belongs to the current query *)
NoStaleQuery == [][lastAct'.act = "Solve" => \A h \in holds : h = Cur(bound)]_vars
TypeOK == /\ bound \in Pdefs \cup {"none"}
          /\ holds \subseteq (Pdefs \X (0..MaxQueries))
          /\ roadmap \subseteq (Pdefs \X (0..MaxQueries))

(* --- export (M3') --- *)
StateKey == [bound |-> bound, qid |-> qid, holds |-> holds, roadmap |-> roadmap,
             needsClear |-> needsClear, solved |-> solved, alive |-> alive]
Dump == PrintT(ToJson([src |-> ToString(view), dst |-> ToString(view'),
                       act |-> lastAct'.act, args |-> lastAct'.args,
                       exp |-> [fresh |-> (holds \cup roadmap) = {},
                                resumed |-> (lastAct'.act = "Solve" /\ bound # "none" /\ Cur(bound) \in holds)]]))
==============================================================================
