SPECIFICATION TSpec
INVARIANT NoBad
INVARIANT NotAccepted
CHECK_DEADLOCK FALSE
