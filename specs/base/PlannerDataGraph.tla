--------------------------- MODULE PlannerDataGraph ---------------------------
(* ompl::base::PlannerData (and control::PlannerData, whose edges additionally *)
(* carry a control and a duration) as its public interface describes it: a     *)
(* sequence of vertices - the index of a vertex IS its position -, each with   *)
(* the state it stands for and an integer tag; a set of start and a set of     *)
(* goal indices; directed edges with a weight, at most one per ordered pair.   *)
(* Removing a vertex shifts every larger index down by one, everywhere.        *)
(*                                                                             *)
(* Abstract = implementation-shaped here (A = I), with two mirrors of what the *)
(* code keeps redundantly, so that TLC checks their upkeep:                    *)
(*   idx    stateIndexMap_ : state -> index                                    *)
(*   glist  goalVertexIndices_ as a list; isGoalVertex() is a binary search    *)
(*          over it (GoalListSorted = FALSE reproduces the defect D3 of the    *)
(*          pinned tree: markGoalState sorted the start list instead)          *)
(* States are identified by small integers (sid); the replay harness owns one  *)
(* real ompl state per sid.  Weights and tags are functions of the sids, so a  *)
(* mix-up of vertices or edges after renumbering is visible.                   *)
EXTENDS Integers, Sequences, FiniteSets, TLC, Json

CONSTANTS MaxV,            \* most vertices alive at a time (= number of sids)
          MaxE,            \* most edges alive at a time
          MaxMarks,        \* bound on |starts| + |goals|
          AllowTag,        \* Tag action enabled
          SelfLoops,       \* edges i -> i allowed
          GoalListSorted   \* TRUE: markGoalState keeps the goal list sorted (the repaired code)

VARIABLES g,        \* [verts, starts, goals, edges]: the abstract graph
          idx,      \* [sid -> index or 0]
          glist,    \* goal index list as the implementation keeps it
          lastAct   \* ghost: the step that led here

vars == <<g, idx, glist, lastAct>>
Sids == 1..MaxV

(* ------------------------------------------------------------ pure operators *)
Empty == [verts |-> <<>>, starts |-> {}, goals |-> {}, edges |-> {}]
N(x) == Len(x.verts)
SidsOf(x) == {x.verts[i].sid : i \in 1..N(x)}
IndexOf(x, sid) == IF sid \in SidsOf(x) THEN CHOOSE i \in 1..N(x) : x.verts[i].sid = sid ELSE 0
HasEdge(x, i, j) == \E e \in x.edges : e.i = i /\ e.j = j
EdgeW(x, i, j) == (CHOOSE e \in x.edges : e.i = i /\ e.j = j).w

AddV(x, sid, tag) == IF sid \in SidsOf(x) THEN x     \* duplicates are not added
                     ELSE [x EXCEPT !.verts = Append(@, [sid |-> sid, tag |-> tag])]
MarkS(x, i) == [x EXCEPT !.starts = @ \cup {i}]
MarkG(x, i) == [x EXCEPT !.goals = @ \cup {i}]
SetTag(x, i, t) == [x EXCEPT !.verts[i].tag = t]
AddE(x, i, j, w) == IF HasEdge(x, i, j) THEN x ELSE [x EXCEPT !.edges = @ \cup {[i |-> i, j |-> j, w |-> w]}]
RemE(x, i, j) == [x EXCEPT !.edges = {e \in @ : ~(e.i = i /\ e.j = j)}]
Ren(i, k) == IF k > i THEN k - 1 ELSE k
RemV(x, i) ==
    [verts |-> SubSeq(x.verts, 1, i - 1) \o SubSeq(x.verts, i + 1, N(x)),
     starts |-> {Ren(i, k) : k \in x.starts \ {i}},
     goals |-> {Ren(i, k) : k \in x.goals \ {i}},
     edges |-> {[i |-> Ren(i, e.i), j |-> Ren(i, e.j), w |-> e.w] : e \in {f \in x.edges : f.i # i /\ f.j # i}}]

(* ------------------------------------------- implementation mirrors (I side) *)
RECURSIVE LowerBound(_, _, _, _)
LowerBound(s, v, first, len) ==
    IF len = 0 THEN first
    ELSE LET half == len \div 2
             mid == first + half
         IN  IF s[mid] < v THEN LowerBound(s, v, mid + 1, len - half - 1) ELSE LowerBound(s, v, first, half)
BinarySearch(s, v) == LET p == LowerBound(s, v, 1, Len(s)) IN p <= Len(s) /\ ~(v < s[p])

RECURSIVE InsSorted(_, _)
InsSorted(s, v) == IF s = <<>> THEN <<v>> ELSE IF v <= Head(s) THEN <<v>> \o s ELSE <<Head(s)>> \o InsSorted(Tail(s), v)
RECURSIVE SortedSeq(_)
SortedSeq(s) == IF s = <<>> THEN <<>> ELSE InsSorted(SortedSeq(Tail(s)), Head(s))

GMark(l, i) == IF BinarySearch(l, i) THEN l
               ELSE IF GoalListSorted THEN SortedSeq(Append(l, i)) ELSE Append(l, i)
\* removeVertex: erase the first occurrence of i, then decrement everything above i
GRemove(l, i) ==
    LET pos == IF \E p \in 1..Len(l) : l[p] = i THEN CHOOSE p \in 1..Len(l) : l[p] = i /\ \A q \in 1..(p - 1) : l[q] # i ELSE 0
        cut == IF pos = 0 THEN l ELSE SubSeq(l, 1, pos - 1) \o SubSeq(l, pos + 1, Len(l))
    IN  [p \in 1..Len(cut) |-> Ren(i, cut[p])]

IdxAdd(m, sid, n) == IF m[sid] # 0 THEN m ELSE [m EXCEPT ![sid] = n + 1]
IdxRemove(m, sid) == [s \in Sids |-> IF s = sid THEN 0 ELSE IF m[s] > m[sid] THEN m[s] - 1 ELSE m[s]]

(* ------------------------------------------------------------------ actions *)
\* the next unused sid (states are interchangeable: symmetry reduction by construction)
NextSid == CHOOSE s \in Sids \ SidsOf(g) : \A t \in Sids \ SidsOf(g) : s <= t
BaseTag(sid) == sid
Weight(si, sj) == 10 * si + sj
Marks == Cardinality(g.starts) + Cardinality(g.goals)

Act(name, args, ret) == lastAct' = [act |-> name, args |-> args, ret |-> ret]

Init == g = Empty /\ idx = [s \in Sids |-> 0] /\ glist = <<>> /\ lastAct = [act |-> "Init", args |-> <<>>, ret |-> 0]

AddVertex ==
    /\ N(g) < MaxV
    /\ LET sid == NextSid
       IN  /\ g' = AddV(g, sid, BaseTag(sid))
           /\ idx' = IdxAdd(idx, sid, N(g))
           /\ Act("AddVertex", [sid |-> sid, tag |-> BaseTag(sid)], N(g))
    /\ UNCHANGED glist

AddStart ==
    /\ N(g) < MaxV /\ Marks < MaxMarks
    /\ LET sid == NextSid
       IN  /\ g' = MarkS(AddV(g, sid, BaseTag(sid)), N(g) + 1)
           /\ idx' = IdxAdd(idx, sid, N(g))
           /\ Act("AddStart", [sid |-> sid, tag |-> BaseTag(sid)], N(g))
    /\ UNCHANGED glist

AddGoal ==
    /\ N(g) < MaxV /\ Marks < MaxMarks
    /\ LET sid == NextSid
       IN  /\ g' = MarkG(AddV(g, sid, BaseTag(sid)), N(g) + 1)
           /\ idx' = IdxAdd(idx, sid, N(g))
           /\ glist' = GMark(glist, N(g) + 1)
           /\ Act("AddGoal", [sid |-> sid, tag |-> BaseTag(sid)], N(g))

\* adding a vertex whose state is already present returns the existing index and changes nothing
AddDup(i) ==
    /\ i \in 1..N(g)
    /\ g' = AddV(g, g.verts[i].sid, 999) /\ UNCHANGED <<idx, glist>>
    /\ Act("AddDup", [sid |-> g.verts[i].sid, tag |-> 999], i - 1)

MarkStart(i) ==
    /\ i \in 1..N(g) /\ (i \in g.starts \/ Marks < MaxMarks)
    /\ g' = MarkS(g, i) /\ UNCHANGED <<idx, glist>>
    /\ Act("MarkStart", [v |-> i - 1], 1)

MarkGoal(i) ==
    /\ i \in 1..N(g) /\ (i \in g.goals \/ Marks < MaxMarks)
    /\ g' = MarkG(g, i) /\ glist' = GMark(glist, i) /\ UNCHANGED idx
    /\ Act("MarkGoal", [v |-> i - 1], 1)

Tag(i) ==
    /\ AllowTag /\ i \in 1..N(g)
    /\ LET sid == g.verts[i].sid
           t == IF g.verts[i].tag = BaseTag(sid) THEN BaseTag(sid) + 100 ELSE BaseTag(sid)
       IN  g' = SetTag(g, i, t) /\ Act("Tag", [v |-> i - 1, tag |-> t], 1)
    /\ UNCHANGED <<idx, glist>>

AddEdge(i, j) ==
    /\ i \in 1..N(g) /\ j \in 1..N(g) /\ (SelfLoops \/ i # j)
    /\ ~HasEdge(g, i, j) /\ Cardinality(g.edges) < MaxE
    /\ LET w == Weight(g.verts[i].sid, g.verts[j].sid)
       IN  g' = AddE(g, i, j, w) /\ Act("AddEdge", [v1 |-> i - 1, v2 |-> j - 1, w |-> w], 1)
    /\ UNCHANGED <<idx, glist>>

\* a second edge for the same ordered pair is refused, the first one keeps its weight
AddEdgeDup(i, j) ==
    /\ HasEdge(g, i, j)
    /\ g' = AddE(g, i, j, 777) /\ Act("AddEdgeDup", [v1 |-> i - 1, v2 |-> j - 1, w |-> 777], 0)
    /\ UNCHANGED <<idx, glist>>

RemoveEdge(i, j) ==
    /\ HasEdge(g, i, j)
    /\ g' = RemE(g, i, j) /\ Act("RemoveEdge", [v1 |-> i - 1, v2 |-> j - 1], 1)
    /\ UNCHANGED <<idx, glist>>

RemoveVertex(i) ==
    /\ i \in 1..N(g)
    /\ g' = RemV(g, i)
    /\ idx' = IdxRemove(idx, g.verts[i].sid)
    /\ glist' = GRemove(glist, i)
    /\ Act("RemoveVertex", [v |-> i - 1, sid |-> g.verts[i].sid], 1)

Clear ==
    /\ g' = Empty /\ idx' = [s \in Sids |-> 0] /\ glist' = <<>>
    /\ Act("Clear", <<>>, 0)

Next ==
    \/ AddVertex \/ AddStart \/ AddGoal
    \/ \E i \in 1..N(g) : AddDup(i) \/ MarkStart(i) \/ MarkGoal(i) \/ Tag(i) \/ RemoveVertex(i)
    \/ \E i \in 1..N(g), j \in 1..N(g) : AddEdge(i, j) \/ AddEdgeDup(i, j) \/ RemoveEdge(i, j)
    \/ Clear

Spec == Init /\ [][Next]_vars

(* ------------------------------------------------------------------ observers *)
\* what the public interface reports, computed from the abstract graph (0-based, as the API)
NumVertices(x) == N(x)
NumEdges(x) == Cardinality(x.edges)
VertexIndex(x, sid) == IndexOf(x, sid) - 1            \* -1 stands for INVALID_INDEX
IsStartVertex(x, i) == (i + 1) \in x.starts
IsGoalVertex(x, i) == (i + 1) \in x.goals
GetEdges(x, i) == {e.j - 1 : e \in {f \in x.edges : f.i = i + 1}}
GetIncomingEdges(x, i) == {e.i - 1 : e \in {f \in x.edges : f.j = i + 1}}
Observers(x) == [n |-> NumVertices(x), ne |-> NumEdges(x),
                 verts |-> [i \in 1..N(x) |-> <<x.verts[i].sid, x.verts[i].tag>>],
                 starts |-> {i - 1 : i \in x.starts}, goals |-> {i - 1 : i \in x.goals},
                 edges |-> {<<e.i - 1, e.j - 1, e.w>> : e \in x.edges}]

(* ------------------------------------------------------------------ invariants *)
TypeOK ==
    /\ N(g) <= MaxV /\ Cardinality(SidsOf(g)) = N(g)
    /\ g.starts \subseteq 1..N(g) /\ g.goals \subseteq 1..N(g)

\* stateIndexMap_ agrees with the positions
IndexMapConsistent == \A s \in Sids : idx[s] = IndexOf(g, s)

\* isStartVertex / isGoalVertex answer exactly the marks; the goal list holds each mark once
StartGoalFlagsExact ==
    /\ \A i \in 1..N(g) : BinarySearch(glist, i) <=> i \in g.goals
    /\ {glist[p] : p \in 1..Len(glist)} = g.goals
    /\ Len(glist) = Cardinality(g.goals)

EdgesWellFormed ==
    /\ \A e \in g.edges : e.i \in 1..N(g) /\ e.j \in 1..N(g)
    /\ \A e, f \in g.edges : (e.i = f.i /\ e.j = f.j) => e = f
    /\ \A e \in g.edges : e.w = Weight(g.verts[e.i].sid, g.verts[e.j].sid)   \* the weight stays with its endpoints
    /\ \A i \in 1..N(g) : g.verts[i].tag \in {BaseTag(g.verts[i].sid), BaseTag(g.verts[i].sid) + 100}

(* removal renumbers consistently: what was said about vertex k > i is afterwards said about k - 1 *)
RemovalRenumbers ==
    [][lastAct'.act = "RemoveVertex" =>
          LET i == lastAct'.args.v + 1
          IN  /\ N(g') = N(g) - 1
              /\ \A k \in 1..N(g) : k # i =>
                     /\ g'.verts[Ren(i, k)] = g.verts[k]
                     /\ (Ren(i, k) \in g'.starts <=> k \in g.starts)
                     /\ (Ren(i, k) \in g'.goals <=> k \in g.goals)
                     /\ \A m \in 1..N(g) : m # i =>
                            (HasEdge(g', Ren(i, k), Ren(i, m)) <=> HasEdge(g, k, m))
              /\ Cardinality(g'.edges) = Cardinality({e \in g.edges : e.i # i /\ e.j # i})
      ]_vars

(* ------------------------------------------------------------------ scenario export *)
View == <<g, glist>>
Dump == PrintT(ToJson([src |-> <<g, glist>>, dst |-> <<g', glist'>>, act |-> lastAct'.act, args |-> lastAct'.args,
                       exp |-> [ret |-> lastAct'.ret, obs |-> Observers(g')]]))
===============================================================================
