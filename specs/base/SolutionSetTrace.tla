--------------------------- MODULE SolutionSetTrace ---------------------------
(* impl -> spec for the ranking half of C04: after every recorded add / clear   *)
(* the solutions handed out by the real ProblemDefinition must be a ranked      *)
(* permutation of everything added since the last clear (ties in any order),    *)
(* and the scalar observers must describe the first one.                        *)
EXTENDS Naturals, Integers, Sequences, FiniteSets, TLC, TraceIO

VARIABLES l, bag      \* bag: function key -> multiplicity of the keys added since the last clear
Ev == Log[l]
Is(e) == l <= NLog /\ Ev.e = e /\ l' = l + 1

KeyR(r) == IF r.approx THEN <<1, r.diff, 0>> ELSE <<0, IF r.opt THEN 0 ELSE 1, r.cost>>
LexLt(x, y) == \/ x[1] < y[1]
               \/ x[1] = y[1] /\ x[2] < y[2]
               \/ x[1] = y[1] /\ x[2] = y[2] /\ x[3] < y[3]
Mult(b, k) == IF k \in DOMAIN b THEN b[k] ELSE 0
CountIn(s, k) == Cardinality({i \in 1..Len(s) : s[i] = k})

Observed(b) ==
    LET ks == Ev.keys IN
    /\ Ev.n = Len(ks)
    /\ \A i \in 1..Len(ks) : CountIn(ks, ks[i]) = Mult(b, ks[i])            \* nothing invented
    /\ \A k \in DOMAIN b : CountIn(ks, k) = b[k]                             \* nothing lost
    /\ \A i \in 1..Len(ks) - 1 : ~LexLt(ks[i + 1], ks[i])                    \* best first
    /\ Ev.hasExact = (Len(ks) > 0 /\ ks[1][1] = 0)
    /\ Ev.hasApprox = (Len(ks) > 0 /\ ks[1][1] = 1)
    /\ (Len(ks) = 0 \/ ks[1][1] = 0 => Ev.hasOptimized = (Len(ks) > 0 /\ ks[1][2] = 0))
    /\ (Len(ks) = 0 => Ev.diffTop = -1)
    /\ (Len(ks) > 0 /\ ks[1][1] = 1 => Ev.diffTop = ks[1][2])

TInit == l = 1 /\ bag = <<>>
TReset == Is("Reset") /\ bag' = <<>>
TAdd == /\ Is("Add")
        /\ LET k == KeyR(Ev.r) IN
             bag' = IF k \in DOMAIN bag THEN [bag EXCEPT ![k] = @ + 1] ELSE bag @@ (k :> 1)
        /\ Observed(bag')
TClear == Is("Clear") /\ bag' = <<>> /\ Observed(bag')
TNext == TReset \/ TAdd \/ TClear
TSpec == TInit /\ [][TNext]_<<l, bag>>
NotAccepted == l <= NLog
===============================================================================
