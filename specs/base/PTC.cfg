\* every term of depth <= 1 (codes 0..135) and the shared-operand graphs; tools/checks/c18.py
\* generates the configurations it runs (sampled depth-2 terms, bounded behaviours, Dump)
SPECIFICATION Spec
CONSTANTS
  TermIds = {0, 1, 2, 3, 4, 5, 6, 7, 8, 9, 10, 11, 12, 13, 14, 15, 16, 17, 18, 19, 20, 21, 22, 23, 24, 25, 26, 27, 28, 29, 30, 31, 32, 33, 34, 35, 36, 37, 38, 39, 40, 41, 42, 43, 44, 45, 46, 47, 48, 49, 50, 51, 52, 53, 54, 55, 56, 57, 58, 59, 60, 61, 62, 63, 64, 65, 66, 67, 68, 69, 70, 71, 72, 73, 74, 75, 76, 77, 78, 79, 80, 81, 82, 83, 84, 85, 86, 87, 88, 89, 90, 91, 92, 93, 94, 95, 96, 97, 98, 99, 100, 101, 102, 103, 104, 105, 106, 107, 108, 109, 110, 111, 112, 113, 114, 115, 116, 117, 118, 119, 120, 121, 122, 123, 124, 125, 126, 127, 128, 129, 130, 131, 132, 133, 134, 135, 50001, 50002, 50003, 50004, 50005, 50006}
  MaxTerm = 7
  CntCap = 3
  MaxLen = 0
VIEW View
INVARIANT TypeOK
PROPERTIES TerminateSticky OrAndTruth Constants IterThreshold ExactMirrors PredDirect
