\* default configuration (the check generates its own under .work): full product of
\* <= 2 starts x <= 2 goal states, all flags, re-binding
SPECIFICATION Spec
CONSTANTS
  MaxStarts = 2
  MaxGoals = 2
  StartFlags = {"ok", "inv", "oob"}
  GoalFlags = {"ok", "inv", "oob"}
  GoalKinds = {"states", "region"}
  Budgets = {0, 2}
  Rebind = TRUE
VIEW view
INVARIANTS TypeOK StartsExactlyOnce CountersExact GoalBound TempOwned
PROPERTY StepContract
