SPECIFICATION Spec
CONSTANTS
  Pdefs = {"A", "B"}
  Budgets = {"k"}
  MaxQueries = 2
VIEW view
ACTION_CONSTRAINT Dump
