---------------------------- MODULE GridWorldEnum ----------------------------
(* M3: TLC enumerates every planning configuration of the W x H world        *)
(* (obstacle layout x start cell x goal cell), up to the symmetries of the    *)
(* square, and emits each with the facts the model determines: whether the    *)
(* start / goal cell is free and whether the goal is reachable.               *)
EXTENDS GridWorld, TLC, Json

CONSTANTS W, H, MaxObst

VARIABLES obst, start, goal
vars == <<obst, start, goal>>

Cells == CellsOf(W, H)
Code(o, s, g) == <<[c \in Cells |-> IF c \in o THEN 1 ELSE 0], s, g>>

RECURSIVE SeqLess(_, _, _)
SeqLess(a, b, i) == IF i > Len(a) THEN FALSE
                    ELSE IF a[i] < b[i] THEN TRUE
                    ELSE IF a[i] > b[i] THEN FALSE
                    ELSE SeqLess(a, b, i + 1)
Flat(o, s, g) == [i \in 1..(W * H + 2) |->
                    IF i <= W * H THEN (IF (i - 1) \in o THEN 1 ELSE 0)
                    ELSE IF i = W * H + 1 THEN s ELSE g]
Syms == IF W = H THEN 0..7 ELSE 0..3
Canonical(o, s, g) ==
    \A k \in Syms :
        LET o2 == {Img(W, H, k, c) : c \in o}
        IN  ~SeqLess(Flat(o2, Img(W, H, k, s), Img(W, H, k, g)), Flat(o, s, g), 1)

Init == /\ obst \in {o \in SUBSET Cells : Cardinality(o) <= MaxObst}
        /\ start \in Cells
        /\ goal \in Cells
        /\ Canonical(obst, start, goal)
Next == UNCHANGED vars
Spec == Init /\ [][Next]_vars

ReachSet == Reach(W, H, obst, start)
(* consistency of the model itself *)
ReachSound == /\ ReachSet \subseteq Cells \ obst
              /\ (start \notin obst => start \in ReachSet)
              /\ \A c \in ReachSet : \A d \in Cells \ obst : Adj8(W, c, d) => d \in ReachSet
Emit == PrintT(ToJson([W |-> W, H |-> H, obst |-> obst, start |-> start, goal |-> goal,
                       startFree |-> start \notin obst, goalFree |-> goal \notin obst,
                       reachable |-> goal \in ReachSet, same |-> start = goal]))
==============================================================================
