----------------------------- MODULE SamplerTrace -----------------------------
(* Trace validation (impl -> spec) of what harness/bounds.cpp observed on the   *)
(* real state spaces and samplers, against SamplerContract.  One line per       *)
(* configuration class:                                                         *)
(*   Enforce     lattice inputs of one BoundsAlgebra setting, replayed           *)
(*   EnforceOff  off-lattice inputs (sampler outputs pushed far out of range)    *)
(*   Sample      outputs of sampleUniform / sampleUniformNear / sampleGaussian   *)
(*               for one (space, sampler, mode, centre class, distance class)    *)
(*   Valid       calls of one valid-state sampler (scripted validity from        *)
(*               AttemptLoops, or grid-world predicates)                         *)
(* A sampler that threw, or a crash, is logged as Threw / Crash: no action       *)
(* accepts those, so the trace is rejected there.                                *)
EXTENDS SamplerContract, TraceIO

VARIABLE l
tvars == <<l>>

Ev == Log[l]
Is(e) == l <= NLog /\ Ev.e = e /\ l' = l + 1

TInit == l = 1
TReset == Is("Reset")
TEnforce == /\ Is("Enforce")
            /\ EnforceLaws(Ev.inb0, Ev.same1, Ev.inb1, Ev.same2)
            /\ EnforceMatches(Ev.match, Len(Ev.inb0))
TEnforceOff == Is("EnforceOff") /\ EnforceLaws(Ev.inb0, Ev.same1, Ev.inb1, Ev.same2)
TSample == Is("Sample") /\ SamplesInBounds(Ev.in)
TValid == Is("Valid") /\ ValidSamplerOk(Ev.ret, Ev.inb, Ev.val)

TNext == TReset \/ TEnforce \/ TEnforceOff \/ TSample \/ TValid
TSpec == TInit /\ [][TNext]_tvars
NotAccepted == l <= NLog
==============================================================================
