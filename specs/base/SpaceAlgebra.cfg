\* Sample configuration (the checks generate one per space / size / property under .work/cfg-c06, cfg-c07):
\* SO(2) on the pi/8 lattice, interpolation cases (C07), laws checked on the model, cases printed.
SPECIFICATION Spec
CONSTANTS
  SpaceId = "so2"
  Size = 1
  Prop = 7
INVARIANTS Endpoints StaysInBounds Reparameterisation Proportionality
ACTION_CONSTRAINT Dump
