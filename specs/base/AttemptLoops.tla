---------------------------- MODULE AttemptLoops -----------------------------
(* C08, last clause: "every state that a valid-state sampler (uniform,         *)
(* Gaussian, obstacle-based, bridge-test, clearance-based) returns with        *)
(* success is both in bounds and valid."                                       *)
(*                                                                             *)
(* The attempt loops of src/ompl/base/samplers/src/*ValidStateSampler.cpp as   *)
(* state machines.  The only non-determinism of those loops is what the user's *)
(* validity checker answers for each state it is asked about, so every         *)
(* `isValid` call is a step that picks an outcome o = [v, c] (valid?,          *)
(* clearance).  `script` is the sequence of answers so far; states are named   *)
(* by the index of the query that asked about them:                            *)
(*     cur  the query whose state is now in the caller's output `state`        *)
(*     tmp  ... in the sampler's scratch state (temp / endpoint / work_)       *)
(* TLC enumerates every answer sequence up to the attempt limit; each complete *)
(* run is dumped with the expected return flag and the index of the returned   *)
(* state.  harness/bounds.cpp replays the script through its own               *)
(* StateValidityChecker on the real samplers (no hook: the checker is user     *)
(* code) and records which queried state came back.                            *)
(*                                                                             *)
(* kinds: uniform    UniformValidStateSampler::sample / sampleNear             *)
(*        gaussian   GaussianValidStateSampler                                 *)
(*        obstacle   ObstacleBasedValidStateSampler (+ the lastValid form of   *)
(*                   DiscreteMotionValidator::checkMotion over nd segments)    *)
(*        bridge     BridgeTestValidStateSampler                               *)
(*        maxclear   MaximizeClearanceValidStateSampler (imp improve attempts) *)
(*        minclear   MinimumClearanceValidStateSampler (threshold MinClr)      *)
EXTENDS Integers, Sequences, FiniteSets, TLC, Json

CONSTANTS Kinds,        \* which samplers to enumerate
          AttemptsSet,  \* values of attempts_ (setNrAttempts)
          NDSet,        \* values of validSegmentCount (obstacle only)
          ImproveSet,   \* values of improveAttempts_ (maxclear only)
          Clearances,   \* clearance values the checker may report (clearance samplers)
          MinClr        \* clearance_ of the minimum-clearance sampler

VARIABLES kind, A, nd, imp,   \* configuration, fixed per behaviour
          pc, script, att, cur, tmp, last, j, v1, dist, ret,
          path                \* ghost: names of the actions taken (vacuity is measured on the dump)

vars == <<kind, A, nd, imp, pc, script, att, cur, tmp, last, j, v1, dist, ret, path>>
cfgv == <<kind, A, nd, imp>>

UsesClearance(k) == k \in {"maxclear", "minclear"}
Outcomes == [v : BOOLEAN, c : IF UsesClearance(kind) THEN Clearances ELSE {0}]
Q == Len(script) + 1                       \* index of the query being made
Ask(o) == script' = Append(script, o)
Done(r) == pc' = "done" /\ ret' = r
Step(name) == path' = Append(path, name)

Init ==
    /\ kind \in Kinds
    /\ A \in AttemptsSet
    /\ nd \in (IF kind = "obstacle" THEN NDSet ELSE {0})
    /\ imp \in (IF kind = "maxclear" THEN ImproveSet ELSE {0})
    /\ pc = "draw" /\ script = <<>> /\ att = 0 /\ cur = 0 /\ tmp = 0 /\ last = 0 /\ j = 0
    /\ v1 = FALSE /\ dist = 0 /\ ret = FALSE /\ path = <<>>

(* ---- UniformValidStateSampler.cpp: do { sample; valid = isValid; ++attempts }   *)
(*      while (!valid && attempts < attempts_); return valid;                       *)
(* MinimumClearanceValidStateSampler.cpp: same, valid &&= dist >= clearance_        *)
UniformDraw(o) ==
    /\ Step("UniformDraw")
    /\ kind \in {"uniform", "minclear"} /\ pc = "draw"
    /\ Ask(o) /\ cur' = Q /\ att' = att + 1
    /\ LET valid == o.v /\ (kind = "minclear" => o.c >= MinClr)
       IN  IF ~valid /\ att + 1 < A THEN pc' = "draw" /\ ret' = ret ELSE Done(valid)
    /\ UNCHANGED <<cfgv, tmp, last, j, v1, dist>>

(* ---- GaussianValidStateSampler.cpp: uniform sample into state, Gaussian sample  *)
(*      around it into temp; success iff exactly one of the two is valid; the valid *)
(*      one is returned                                                             *)
GaussFirst(o) ==
    /\ Step("GaussFirst")
    /\ kind = "gaussian" /\ pc = "draw"
    /\ Ask(o) /\ cur' = Q /\ v1' = o.v /\ pc' = "second"
    /\ UNCHANGED <<cfgv, att, tmp, last, j, dist, ret>>
GaussSecond(o) ==
    /\ Step("GaussSecond")
    /\ kind = "gaussian" /\ pc = "second"
    /\ Ask(o) /\ tmp' = Q /\ att' = att + 1
    /\ LET result == v1 # o.v
       IN  /\ cur' = IF result /\ o.v THEN Q ELSE cur       \* copyState(state, temp)
           /\ IF ~result /\ att + 1 < A THEN pc' = "draw" /\ ret' = ret ELSE Done(result)
    /\ UNCHANGED <<cfgv, last, j, v1, dist>>

(* ---- BridgeTestValidStateSampler.cpp: state invalid, Gaussian endpoint invalid,  *)
(*      midpoint (written into state) valid                                         *)
BridgeNext(valid) == IF ~valid /\ att + 1 < A THEN pc' = "draw" /\ ret' = ret ELSE Done(valid)
BridgeFirst(o) ==
    /\ Step("BridgeFirst")
    /\ kind = "bridge" /\ pc = "draw"
    /\ Ask(o) /\ cur' = Q
    /\ IF o.v THEN att' = att + 1 /\ BridgeNext(FALSE)
       ELSE att' = att /\ pc' = "endpoint" /\ ret' = ret
    /\ UNCHANGED <<cfgv, tmp, last, j, v1, dist>>
BridgeEndpoint(o) ==
    /\ Step("BridgeEndpoint")
    /\ kind = "bridge" /\ pc = "endpoint"
    /\ Ask(o) /\ tmp' = Q
    /\ IF o.v THEN att' = att + 1 /\ BridgeNext(FALSE)
       ELSE att' = att /\ pc' = "mid" /\ ret' = ret
    /\ UNCHANGED <<cfgv, cur, last, j, v1, dist>>
BridgeMid(o) ==
    /\ Step("BridgeMid")
    /\ kind = "bridge" /\ pc = "mid"
    /\ Ask(o) /\ cur' = Q /\ att' = att + 1      \* interpolate(endpoint, state, 0.5, state)
    /\ BridgeNext(o.v)
    /\ UNCHANGED <<cfgv, tmp, last, j, v1, dist>>

(* ---- ObstacleBasedValidStateSampler.cpp: find an invalid state, find a valid one *)
(*      (temp), then keep the last valid state of the motion temp -> state.         *)
ObstFindInvalid(o) ==
    /\ Step("ObstFindInvalid")
    /\ kind = "obstacle" /\ pc = "draw"
    /\ Ask(o) /\ cur' = Q
    /\ IF o.v /\ att + 1 < A THEN pc' = "draw" /\ att' = att + 1 /\ ret' = ret
       ELSE IF o.v THEN att' = att + 1 /\ Done(FALSE)
       ELSE pc' = "findvalid" /\ att' = 0 /\ ret' = ret
    /\ UNCHANGED <<cfgv, tmp, last, j, v1, dist>>
ObstFindValid(o) ==
    /\ Step("ObstFindValid")
    /\ kind = "obstacle" /\ pc = "findvalid"
    /\ Ask(o) /\ tmp' = Q
    /\ IF ~o.v /\ att + 1 < A THEN pc' = "findvalid" /\ att' = att + 1 /\ ret' = ret /\ UNCHANGED <<last, j>>
       ELSE IF ~o.v THEN att' = att + 1 /\ Done(FALSE) /\ UNCHANGED <<last, j>>
       ELSE pc' = "motion" /\ att' = att + 1 /\ ret' = ret /\ last' = Q /\ j' = 1
    /\ UNCHANGED <<cfgv, cur, v1, dist>>
(* DiscreteMotionValidator::checkMotion(temp, state, lastValid = (state, .)):       *)
(* interior points j = 1 .. nd-1 in order; the first invalid one ends the scan and   *)
(* the previous point (temp for j = 1) is written to state.  If all are valid the    *)
(* end point `state` is asked about again: it was invalid before and the predicate   *)
(* is a function of the state, so that is not a fresh answer.                        *)
ObstMotionInterior(o) ==
    /\ Step("ObstMotionInterior")
    /\ kind = "obstacle" /\ pc = "motion" /\ j < nd
    /\ Ask(o)
    /\ IF o.v THEN last' = Q /\ j' = j + 1 /\ pc' = "motion" /\ ret' = ret /\ cur' = cur
       ELSE cur' = last /\ Done(TRUE) /\ UNCHANGED <<last, j>>
    /\ UNCHANGED <<cfgv, att, tmp, v1, dist>>
ObstMotionEnd ==
    /\ Step("ObstMotionEnd")
    /\ kind = "obstacle" /\ pc = "motion" /\ j >= nd
    /\ cur' = last /\ Done(TRUE)
    /\ UNCHANGED <<cfgv, script, att, tmp, last, j, v1, dist>>

(* ---- MaximizeClearanceValidStateSampler.cpp: first loop as uniform (remembering  *)
(*      the clearance), then improveAttempts_ more samples into work_, each taken    *)
(*      iff valid and strictly clearer                                               *)
MaxDraw(o) ==
    /\ Step("MaxDraw")
    /\ kind = "maxclear" /\ pc = "draw"
    /\ Ask(o) /\ cur' = Q /\ dist' = o.c
    /\ IF ~o.v /\ att + 1 < A THEN pc' = "draw" /\ att' = att + 1 /\ ret' = ret
       ELSE IF ~o.v THEN att' = att + 1 /\ Done(FALSE)
       ELSE IF imp = 0 THEN att' = 0 /\ Done(TRUE)
       ELSE pc' = "improve" /\ att' = 0 /\ ret' = ret
    /\ UNCHANGED <<cfgv, tmp, last, j, v1>>
MaxImprove(o) ==
    /\ Step("MaxImprove")
    /\ kind = "maxclear" /\ pc = "improve"
    /\ Ask(o) /\ tmp' = Q /\ att' = att + 1
    /\ IF o.v /\ o.c > dist THEN dist' = o.c /\ cur' = Q ELSE UNCHANGED <<dist, cur>>
    /\ IF att + 1 < imp THEN pc' = "improve" /\ ret' = ret ELSE Done(TRUE)
    /\ UNCHANGED <<cfgv, last, j, v1>>

Next ==
    \/ \E o \in Outcomes :
          \/ UniformDraw(o) \/ GaussFirst(o) \/ GaussSecond(o)
          \/ BridgeFirst(o) \/ BridgeEndpoint(o) \/ BridgeMid(o)
          \/ ObstFindInvalid(o) \/ ObstFindValid(o) \/ ObstMotionInterior(o)
          \/ MaxDraw(o) \/ MaxImprove(o)
    \/ ObstMotionEnd

Spec == Init /\ [][Next]_vars

(* ------------------------------------------------------------------ properties *)
Finished == pc = "done"
ValidAt(i) == i \in 1..Len(script) /\ script[i].v
AnyValid == \E i \in 1..Len(script) : script[i].v

(* the property itself, on the model: success => the returned state was answered valid *)
SuccessIsValid == Finished /\ ret => ValidAt(cur) /\ (kind = "minclear" => script[cur].c >= MinClr)
(* every call ends within the number of validity queries its limits allow *)
MaxQueries == CASE kind \in {"uniform", "minclear"} -> A
                [] kind = "gaussian" -> 2 * A
                [] kind = "bridge"   -> 3 * A
                [] kind = "obstacle" -> 2 * A + nd - 1
                [] kind = "maxclear" -> A + imp
Bounded == Len(script) <= MaxQueries /\ (Len(script) = MaxQueries => Finished \/ ENABLED ObstMotionEnd)
(* what each loop promises beyond the property (design-level checks of the transcription) *)
UniformRule == Finished /\ kind = "uniform" => /\ ret = AnyValid
                                                /\ cur = Len(script)
                                                /\ ret => \A i \in 1..Len(script) - 1 : ~script[i].v
GaussianRule == Finished /\ kind = "gaussian" /\ ret =>
                    LET n == Len(script) IN cur \in {n - 1, n} /\ script[n - 1].v # script[n].v
BridgeRule == Finished /\ kind = "bridge" /\ ret =>
                  cur = Len(script) /\ cur >= 3 /\ ~script[cur - 1].v /\ ~script[cur - 2].v
ObstacleRule == Finished /\ kind = "obstacle" /\ ret =>
                    /\ \E i \in 1..Len(script) : ~script[i].v          \* an obstacle was seen
                    /\ (cur < Len(script) => ~script[cur + 1].v)    \* next point on the motion is blocked
MaxClearRule == Finished /\ kind = "maxclear" /\ ret =>
                    LET first == CHOOSE i \in 1..Len(script) : script[i].v /\ \A k \in 1..i - 1 : ~script[k].v
                    IN  \A i \in first..Len(script) : script[i].v => script[i].c <= script[cur].c
MinClearRule == Finished /\ kind = "minclear" =>
                    ret = (\E i \in 1..Len(script) : script[i].v /\ script[i].c >= MinClr)

(* ------------------------------------------------------------- scenario export *)
EmitDone == Finished => PrintT(ToJson([kind |-> kind, A |-> A, nd |-> nd, imp |-> imp, minclr |-> MinClr,
                                       script |-> script, ret |-> ret, idx |-> cur, path |-> path]))
==============================================================================
