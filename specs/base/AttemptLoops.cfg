SPECIFICATION Spec
CONSTANTS
  Kinds = {"uniform", "gaussian", "obstacle", "bridge", "maxclear", "minclear"}
  AttemptsSet = {1, 2, 3}
  NDSet = {1, 2, 3}
  ImproveSet = {0, 1, 2}
  Clearances = {1, 2, 3}
  MinClr = 2
INVARIANTS SuccessIsValid Bounded UniformRule GaussianRule BridgeRule ObstacleRule MaxClearRule MinClearRule EmitDone
