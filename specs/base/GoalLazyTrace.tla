---------------------------- MODULE GoalLazyTrace ----------------------------
(* Trace validation of executions recorded from the real GoalLazySamples +      *)
(* PlannerInputStates::nextGoal(ptc) (harness/inputstates.cpp, mode `lazy`):    *)
(* a sampling thread (thr 1) running a scripted sample function, a planner      *)
(* thread (thr 2) calling nextGoal(ptc), optionally a user thread (thr 3)       *)
(* calling stopSampling(), the main thread (thr 0).  Every event carries its    *)
(* thread and a per-thread sequence number; the file order is the order in      *)
(* which the threads took the log mutex, so "earlier in the file" implies       *)
(* "not later in real time".  No time stamps are used.                          *)
(*                                                                               *)
(* The observable contract of the two-process model GoalLazy.tla is judged:     *)
(*   different  the goal list never holds two states within minDist             *)
(*   added      after the sample function returned true with a valid candidate  *)
(*              the list is the old list plus that candidate iff it is          *)
(*              different; otherwise the list is unchanged (grow-only)          *)
(*   produced   a returned goal was sampled (valid, "more") earlier in the log  *)
(*   repeat     no goal is handed out twice (no restart in these executions)    *)
(*   maxsample  goals returned / samples counted never exceed maxSampleCount()  *)
(*   counter    getSampledGoalsCount() = goals consumed                         *)
(*   valid      a returned goal satisfies the validity checker                  *)
(*   null       null only if ptc fired or sampling is over                      *)
(*   wait       the call polls on after the sampler ended only in the           *)
(*              documented case (non-empty list, every goal consumed)           *)
(*   stopjoin   after stopSampling() returned: not sampling, no further call    *)
(*              of the sample function                                          *)
(*   aftermore  the sample function is not called again after it returned false *)
(*   attempts   samplingAttemptsCount() = calls that returned true              *)
(*   lock       every access to the state list held lock_ (measured lockset)    *)
(*   seq        per-thread sequence numbers are consecutive (log integrity)     *)
(* Every event is consumed; failed clauses are reported as JSON lines.           *)
EXTENDS TraceIO, FiniteSets

VARIABLES l, md, pend, cands, retd, stopped, ended, nmore, seqs
tvars == <<l, md, pend, cands, retd, stopped, ended, nmore, seqs>>

Ev == Log[l]
Is(e) == l <= NLog /\ Ev.e = e /\ l' = l + 1
Report(failed) == IF failed = {} THEN TRUE ELSE PrintT(ToJson([line |-> l, failed |-> failed, ev |-> Ev.e]))
If(c, name) == IF c THEN {name} ELSE {}

Abs(x, y) == IF x >= y THEN x - y ELSE y - x
Far(list, id) == \A i \in 1..Len(list) : Abs(list[i], id) > md
PairwiseFar(list) == \A i, j \in 1..Len(list) : i # j => Abs(list[i], list[j]) > md
(* the list the contract predicts after the pending candidate was processed *)
Expected == IF pend = <<>> THEN <<>>
            ELSE IF pend.more /\ pend.valid /\ Far(pend.list, pend.id) THEN Append(pend.list, pend.id)
            ELSE pend.list
ListClauses(list) == If(~PairwiseFar(list), "different") \cup If(PairwiseFar(list) /\ list # Expected, "added")
SeqClause == If(Ev.seq # seqs[Ev.thr] + 1, "seq")
Bump == seqs' = [seqs EXCEPT ![Ev.thr] = Ev.seq]

TInit == /\ l = 1 /\ md = 0 /\ pend = <<>> /\ cands = {} /\ retd = <<>>
         /\ stopped = FALSE /\ ended = FALSE /\ nmore = 0 /\ seqs = [t \in 0..3 |-> 0]

TReset == /\ Is("Reset")
          /\ md' = Ev.minDist /\ pend' = <<>> /\ cands' = {} /\ retd' = <<>>
          /\ stopped' = FALSE /\ ended' = FALSE /\ nmore' = 0
          /\ seqs' = [t \in 0..3 |-> IF t = Ev.thr THEN Ev.seq ELSE 0]

TPlain == /\ (Is("Start") \/ Is("Call") \/ Is("StopCall"))
          /\ Report(SeqClause) /\ Bump
          /\ UNCHANGED <<md, pend, cands, retd, stopped, ended, nmore>>

TSample == /\ Is("Sample")
           /\ Report(SeqClause \cup ListClauses(Ev.list) \cup If(stopped, "stopjoin") \cup If(ended, "aftermore"))
           /\ pend' = [id |-> Ev.id, valid |-> Ev.valid, more |-> Ev.more, list |-> Ev.list]
           /\ cands' = IF Ev.valid /\ Ev.more THEN cands \cup {Ev.id} ELSE cands
           /\ ended' = ~Ev.more
           /\ nmore' = IF Ev.more THEN nmore + 1 ELSE nmore
           /\ Bump /\ UNCHANGED <<md, retd, stopped>>

TRet == /\ Is("Ret")
        /\ LET got == Ev.id # 0
               k == Len(retd) + (IF got THEN 1 ELSE 0)
           IN  /\ Report(SeqClause
                    \cup If(got /\ Ev.id \notin cands, "produced")
                    \cup If(got /\ ~Ev.ok, "valid")
                    \cup If(got /\ Ev.id \in SeqToSet(retd), "repeat")
                    \cup If(Ev.count > Ev.n \/ k > Ev.n, "maxsample")
                    \cup If(Ev.count # k, "counter")
                    \cup If(~got /\ ~Ev.ptc /\ Ev.sampling, "null")
                    \cup If(Ev.wd /\ ~(Ev.n > 0 /\ Ev.count >= Ev.n), "wait"))
               /\ retd' = IF got THEN Append(retd, Ev.id) ELSE retd
        /\ Bump /\ UNCHANGED <<md, pend, cands, stopped, ended, nmore>>

TStopRet == /\ Is("StopRet")
            /\ Report(SeqClause \cup ListClauses(Ev.list) \cup If(Ev.sampling, "stopjoin"))
            /\ stopped' = TRUE
            /\ Bump /\ UNCHANGED <<md, pend, cands, retd, ended, nmore>>

TEnd == /\ Is("End")
        /\ Report(SeqClause \cup ListClauses(Ev.list) \cup If(Ev.sampling, "stopjoin")
                  \cup If(Ev.attempts # nmore, "attempts")
                  \cup If(Ev.unlocked # 0, "lock")
                  \cup If(~(SeqToSet(retd) \subseteq SeqToSet(Ev.list)), "produced"))
        /\ Bump /\ UNCHANGED <<md, pend, cands, retd, stopped, ended, nmore>>

TCrash == /\ Is("Crash") /\ Report({"crash"})
          /\ UNCHANGED <<md, pend, cands, retd, stopped, ended, nmore, seqs>>

TNext == TReset \/ TPlain \/ TSample \/ TRet \/ TStopRet \/ TEnd \/ TCrash
TSpec == TInit /\ [][TNext]_tvars
NotAccepted == l <= NLog
==============================================================================
