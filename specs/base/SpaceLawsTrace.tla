--------------------------- MODULE SpaceLawsTrace ---------------------------
(* Validation of recorded observations of the real state spaces against the     *)
(* laws of SpaceLaws (properties C06 and C07).  The trace (ndjson, environment  *)
(* variable TRACE) is a sequence of blocks: a Space event (the claims the space *)
(* makes through isMetricSpace / hasSymmetricDistance, its reported extent, the *)
(* tolerance that applies to it, whether it is bounded / discrete or hybrid /   *)
(* geodesic) followed by Triple events (C06) or Interp events (C07).  Spaces    *)
(* with laws of their own (Space.fam = "airplane" / "spacetime" / "constrained") *)
(* add fields to those events or come with their own: STPair (C06, ordered      *)
(* pairs of a space-time space), InterpBasic (C07, a space-time pair no motion  *)
(* within the speed limit joins), CInterp (C07, constrained spaces).            *)
(*                                                                              *)
(* The spec does not stop at the first broken law: every law is decided on      *)
(* every event, broken ones are accumulated in `viol` keyed by (space, law,     *)
(* case-split tag) with the first offending line, and the whole verdict is      *)
(* printed when the cursor has run past the last line.  A crash of the harness  *)
(* leaves a Crash event, for which there is no transition: the trace is then    *)
(* not accepted.  Counters in `cnt` say how often each conditional law actually *)
(* applied (vacuity).                                                           *)
EXTENDS SpaceLaws, TraceIO, TLC

VARIABLES l,      \* cursor into Log
          ctx,    \* the Space event of the current block
          viol,   \* <<space, law, tag>> -> [n, line]
          cnt     \* applicability counters
tvars == <<l, ctx, viol, cnt>>

Ev == Log[l]
Is(e) == l <= NLog /\ Ev.e = e /\ l' = l + 1
S(seq) == SeqToSet(seq)

(* which case split a failing case sits on (for the violation key); in a float-precision    *)
(* space a broken triangle inequality is keyed "float" whatever the inputs look like          *)
TriTag(f) == IF "seam" \in f THEN "seam" ELSE IF "near" \in f THEN "near"
             ELSE IF "antipodal" \in f THEN "antipodal" ELSE IF "bound" \in f THEN "bound" ELSE "generic"
PairTag(f) == IF "bound" \in f THEN "bound" ELSE IF "seam" \in f THEN "seam"
              ELSE IF "antipodal" \in f THEN "antipodal" ELSE IF "near" \in f THEN "near" ELSE "generic"

(* positivity is required of a pair the space itself calls unequal and whose largest      *)
(* coordinate separation (nano-units) exceeds the resolution logged for the space (0 for  *)
(* the exact double-precision spaces; the Dubins / Reeds-Shepp shortcut, the quaternion   *)
(* threshold and the float sphere are coarser)                                            *)
PosRequired(c, sep) == sep > c.res

TripleFails(c, e) ==
    LET ds == <<e.dab, e.dba, e.dbc, e.dcb, e.dac, e.dca, e.daa, e.dbb, e.dcc>>
        tol == c.tol
        all == S(e.fab) \cup S(e.fbc) \cup S(e.fac)
        PosFail(eq, pos, sep) == ~Positive(eq, pos) /\ PosRequired(c, sep)
    IN  IF e.nan THEN {<<"finite", "">>}
        ELSE (IF NonNegative(ds, e.neg) THEN {} ELSE {<<"non-negative", "">>})
             \cup (IF Identity(e.daa, tol) /\ Identity(e.dbb, tol) /\ Identity(e.dcc, tol) THEN {} ELSE {<<"identity", "">>})
             \cup (IF PosFail(e.eqab, e.posab, e.sab) THEN {<<"positivity", PairTag(S(e.fab))>>} ELSE {})
             \cup (IF PosFail(e.eqbc, e.posbc, e.sbc) THEN {<<"positivity", PairTag(S(e.fbc))>>} ELSE {})
             \cup (IF PosFail(e.eqac, e.posac, e.sac) THEN {<<"positivity", PairTag(S(e.fac))>>} ELSE {})
             \cup (IF c.sym /\ ~(Symmetric(e.dab, e.dba, tol) /\ Symmetric(e.dbc, e.dcb, tol) /\ Symmetric(e.dac, e.dca, tol))
                   THEN {<<"symmetry", "">>} ELSE {})
             \cup (IF c.metric /\ ~(Triangle(e.dac, e.dab, e.dbc, tol) /\ Triangle(e.dab, e.dac, e.dcb, tol)
                                    /\ Triangle(e.dbc, e.dba, e.dac, tol))
                   THEN {<<"triangle", IF c.prec = "float" THEN "float" ELSE TriTag(all)>>} ELSE {})
             \cup (IF c.extChecked /\ \E i \in 1..Len(ds) : ~WithinExtent(ds[i], c.ext, tol)
                   THEN {<<"extent", "">>} ELSE {})
             \cup (IF c.plain /\ ~WeightedSum(e.dab, e.parts, c.w, 16, tol) THEN {<<"compound-sum", "">>} ELSE {})
             \cup (IF c.fam = "airplane"
                      /\ ~(AtLeastStraightLine(e.dab, e.eab, tol) /\ AtLeastStraightLine(e.dba, e.eab, tol)
                           /\ AtLeastStraightLine(e.dbc, e.ebc, tol) /\ AtLeastStraightLine(e.dcb, e.ebc, tol)
                           /\ AtLeastStraightLine(e.dac, e.eac, tol) /\ AtLeastStraightLine(e.dca, e.eac, tol))
                   THEN {<<"shorter-than-straight-line", "">>} ELSE {})

(* space-time: one ordered pair (a, b) with the reverse distance *)
STPairFails(c, e) ==
    LET tol == c.tol
    IN  IF e.nan THEN {<<"finite", "">>}
        ELSE (IF ~e.neg /\ e.dab >= 0 /\ e.dba >= 0 THEN {} ELSE {<<"non-negative", "">>})
             \cup (IF Identity(e.daa, tol) /\ Identity(e.dbb, tol) THEN {} ELSE {<<"identity", "">>})
             \cup (IF ~Positive(e.eq, e.pos) /\ PosRequired(c, e.sep) THEN {<<"positivity", PairTag(S(e.fab))>>} ELSE {})
             \cup (IF c.sym /\ ~(e.iab = e.iba /\ Symmetric(e.dab, e.dba, tol) /\ Symmetric(e.ttc, e.ttcr, tol))
                   THEN {<<"symmetry", "">>} ELSE {})
             \cup (IF InfiniteIffUnreachable(e.iab, e.ttc, e.dt, c.margin) /\ InfiniteIffUnreachable(e.iba, e.ttcr, e.dt, c.margin)
                   THEN {} ELSE {<<"infinite-iff-unreachable", IF e.iab \/ e.iba THEN "infinite" ELSE "finite">>})
             \cup (IF TimeToCoverIsDistanceOverVMax(e.ttc, e.ds, c.vmax, tol) THEN {} ELSE {<<"time-to-cover", "">>})
             \cup (IF ~e.iab /\ ~WeightedSum(e.dab, <<e.ds, e.dt>>, c.w, 16, tol) THEN {<<"finite-is-weighted-sum", "">>} ELSE {})

InterpFails(c, e) ==
    LET tol == c.tol
    IN  IF e.nan THEN {<<"finite", "">>}
        ELSE (IF Endpoint(e.d0, tol) THEN {} ELSE {<<"endpoint-0", "">>})
             \* (airplane spaces: when getPath() finds no path interpolate() returns `from` for every t - own tag)
             \cup (IF Endpoint(e.d1, tol) THEN {} ELSE {<<"endpoint-1", IF c.fam = "airplane" /\ e.nopath THEN "no-path" ELSE "">>})
             \cup (IF c.fam = "airplane"
                   THEN (IF e.nopath \/ IsPathLength(e.dab, e.plen, tol) THEN {} ELSE {<<"distance-is-path-length", "">>})
                        \cup (IF AllSet(e.sameP) THEN {} ELSE {<<"point-of-computed-path", "">>})
                        \* (big: a path of more than 1000 units - the products would leave TLC's 32-bit integers)
                        \cup (IF e.nopath \/ e.big \/ NoJumps(e.cks, e.chord3, e.dab3, c.lip, c.tol3) THEN {} ELSE {<<"no-jumps", "">>})
                        \cup (IF AllSet(e.yin) THEN {} ELSE {<<"heading-in-range", "">>})
                        \* (own tags for a pitch a hair beyond the range and one far beyond it: more than a milliradian)
                        \cup (IF PitchInRange(e.pex, c.res) THEN {}
                              ELSE {<<"pitch-in-range", IF PitchInRange(e.pex, 1000000) THEN "slight" ELSE "gross">>})
                   ELSE {})
             \cup (IF AllSet(e.inb) /\ e.inbS /\ e.inbR THEN {}
                   ELSE IF e.plusPi THEN {<<"in-bounds-plus-pi", "">>} ELSE {<<"in-bounds", "">>})
             \cup (IF AllSet(e.alF) THEN {} ELSE {<<"alias-from", "">>})
             \cup (IF AllSet(e.alT) THEN {} ELSE {<<"alias-to", "">>})
             \cup (IF ~c.exempt /\ c.geo /\ ~Reparameterised(e.rep, tol) THEN {<<"reparameterisation", "">>} ELSE {})
             \cup (IF ~c.exempt /\ c.geo /\ \E i \in 1..Len(e.ks) : ~Proportional(e.dat[i], e.ks[i], e.dab, tol)
                   THEN {<<"proportionality", "">>} ELSE {})

(* endpoints, bounds, aliasing only *)
InterpBasicFails(c, e) ==
    IF e.nan THEN {<<"finite", "">>}
    ELSE (IF Endpoint(e.d0, c.tol) THEN {} ELSE {<<"endpoint-0", "">>})
         \cup (IF Endpoint(e.d1, c.tol) THEN {} ELSE {<<"endpoint-1", "">>})
         \cup (IF AllSet(e.inb) THEN {} ELSE {<<"in-bounds", "">>})
         \cup (IF AllSet(e.alF) THEN {} ELSE {<<"alias-from", "">>})
         \cup (IF AllSet(e.alT) THEN {} ELSE {<<"alias-to", "">>})

(* constrained spaces; position i of ks / dfrom / dto / alFd / alTd is the same t = ks[i]/64; ks[1] = 0, ks[2] = 64 *)
CInterpFails(c, e) ==
    IF e.nan THEN {<<"finite", "">>}
    ELSE (IF e.ks[1] = 0 /\ StartsAtFrom(e.dfrom[1], c.tol0) THEN {} ELSE {<<"endpoint-0", "">>})
         \cup (IF e.ks[2] = 64 /\ EndsAtToOrStays(e.dto[2], e.dfrom[2], e.ok1, e.ok2, c.delta, c.tol0) THEN {}
               ELSE {<<"endpoint-1", IF e.ok1 /\ e.ok2 THEN "geodesic-succeeded" ELSE "geodesic-failed">>})
         \cup (IF StaysWhenGeodesicFails(e.dfrom, e.ok1, e.ok2, c.tol0) THEN {} ELSE {<<"from-when-geodesic-fails", "">>})
         \cup (IF AllSet(e.inb) THEN {} ELSE {<<"in-bounds", "">>})
         \cup (IF AllWithin(e.alFd, c.aliasTol) THEN {} ELSE {<<"alias-from", "">>})
         \cup (IF AllWithin(e.alTd, c.aliasTol) THEN {} ELSE {<<"alias-to", "">>})

Record(fails) ==
    LET keys == {<<ctx.name, f[1], f[2]>> : f \in fails}
    IN  viol' = [k \in DOMAIN viol \cup keys |->
                    IF k \in keys
                    THEN IF k \in DOMAIN viol THEN [n |-> viol[k].n + 1, line |-> viol[k].line]
                         ELSE [n |-> 1, line |-> l]
                    ELSE viol[k]]

B(b) == IF b THEN 1 ELSE 0
TInit == l = 1 /\ ctx = [name |-> "none"] /\ viol = <<>>
         /\ cnt = [spaces |-> 0, triples |-> 0, interps |-> 0, triangle |-> 0, symmetry |-> 0, extent |-> 0,
                   compound |-> 0, unequal |-> 0, reparam |-> 0, proportional |-> 0, metricSpaces |-> 0,
                   straightLine |-> 0, stPairs |-> 0, stInfinite |-> 0, stFinite |-> 0, noJumps |-> 0, noPath |-> 0,
                   interpBasic |-> 0, cInterps |-> 0, cReached |-> 0, cFailed |-> 0]

TSpace == /\ Is("Space")
          /\ Ev.tol >= 0 /\ Ev.ext >= 0 /\ Ev.res >= 0
          /\ Ev.fam \in {"std", "airplane", "spacetime", "constrained"}
          /\ Ev.lip[1] >= Ev.lip[2] /\ Ev.lip[2] > 0 /\ Ev.vmax[1] > 0 /\ Ev.vmax[2] > 0
          /\ Ev.margin >= 0 /\ Ev.delta >= 0 /\ Ev.tol0 >= 0 /\ Ev.aliasTol >= 0 /\ Ev.tol3 >= 0
          /\ ctx' = Ev
          /\ cnt' = [cnt EXCEPT !.spaces = @ + 1, !.metricSpaces = @ + B(Ev.metric)]
          /\ UNCHANGED viol

TTriple == /\ Is("Triple") /\ ctx.name # "none"
           /\ Record(TripleFails(ctx, Ev))
           /\ cnt' = [cnt EXCEPT !.triples = @ + 1, !.triangle = @ + B(ctx.metric), !.symmetry = @ + B(ctx.sym),
                                 !.extent = @ + B(ctx.extChecked), !.compound = @ + B(ctx.plain),
                                 !.unequal = @ + B(~Ev.eqab) + B(~Ev.eqbc) + B(~Ev.eqac),
                                 !.straightLine = @ + B(ctx.fam = "airplane")]
           /\ UNCHANGED ctx

TSTPair == /\ Is("STPair") /\ ctx.fam = "spacetime"
           /\ Record(STPairFails(ctx, Ev))
           /\ cnt' = [cnt EXCEPT !.stPairs = @ + 1, !.stInfinite = @ + B(Ev.iab), !.stFinite = @ + B(~Ev.iab),
                                 !.symmetry = @ + B(ctx.sym), !.unequal = @ + B(~Ev.eq)]
           /\ UNCHANGED ctx

TInterp == /\ Is("Interp") /\ ctx.name # "none"
           /\ Record(InterpFails(ctx, Ev))
           /\ cnt' = [cnt EXCEPT !.interps = @ + 1, !.reparam = @ + B(~ctx.exempt /\ ctx.geo),
                                 !.proportional = @ + B(~ctx.exempt /\ ctx.geo),
                                 !.noJumps = @ + B(ctx.fam = "airplane" /\ ~Ev.nopath /\ ~Ev.big),
                                 !.noPath = @ + B(ctx.fam = "airplane" /\ Ev.nopath)]
           /\ UNCHANGED ctx

TInterpBasic == /\ Is("InterpBasic") /\ ctx.name # "none"
                /\ Record(InterpBasicFails(ctx, Ev))
                /\ cnt' = [cnt EXCEPT !.interpBasic = @ + 1]
                /\ UNCHANGED ctx

TCInterp == /\ Is("CInterp") /\ ctx.fam = "constrained"
            /\ Record(CInterpFails(ctx, Ev))
            /\ cnt' = [cnt EXCEPT !.cInterps = @ + 1, !.cReached = @ + B(Ev.ok1 /\ Ev.ok2), !.cFailed = @ + B(~Ev.ok1 /\ ~Ev.ok2)]
            /\ UNCHANGED ctx

Verdict == [k |-> "verdict",
            viol |-> {[space |-> k[1], law |-> k[2], tag |-> k[3], n |-> viol[k].n, line |-> viol[k].line] : k \in DOMAIN viol},
            cnt |-> cnt, lines |-> NLog]
TDone == /\ l = NLog + 1
         /\ PrintT(ToJson(Verdict))
         /\ l' = l + 1
         /\ UNCHANGED <<ctx, viol, cnt>>

TNext == TSpace \/ TTriple \/ TInterp \/ TSTPair \/ TInterpBasic \/ TCInterp \/ TDone
TSpec == TInit /\ [][TNext]_tvars
(* accepted iff the cursor ran past the last line and the verdict was printed *)
NotAccepted == l <= NLog + 1
==============================================================================
