--------------------------- MODULE SpaceLawsTrace ---------------------------
(* Validation of recorded observations of the real state spaces against the     *)
(* laws of SpaceLaws (properties C06 and C07).  The trace (ndjson, environment  *)
(* variable TRACE) is a sequence of blocks: a Space event (the claims the space *)
(* makes through isMetricSpace / hasSymmetricDistance, its reported extent, the *)
(* tolerance that applies to it, whether it is bounded / discrete or hybrid /   *)
(* geodesic) followed by Triple events (C06) or Interp events (C07).            *)
(*                                                                              *)
(* The spec does not stop at the first broken law: every law is decided on      *)
(* every event, broken ones are accumulated in `viol` keyed by (space, law,     *)
(* case-split tag) with the first offending line, and the whole verdict is      *)
(* printed when the cursor has run past the last line.  A crash of the harness  *)
(* leaves a Crash event, for which there is no transition: the trace is then    *)
(* not accepted.  Counters in `cnt` say how often each conditional law actually *)
(* applied (vacuity).                                                           *)
EXTENDS SpaceLaws, TraceIO, TLC

VARIABLES l,      \* cursor into Log
          ctx,    \* the Space event of the current block
          viol,   \* <<space, law, tag>> -> [n, line]
          cnt     \* applicability counters
tvars == <<l, ctx, viol, cnt>>

Ev == Log[l]
Is(e) == l <= NLog /\ Ev.e = e /\ l' = l + 1
S(seq) == SeqToSet(seq)

(* which case split a failing case sits on (for the violation key); in a float-precision    *)
(* space a broken triangle inequality is keyed "float" whatever the inputs look like          *)
TriTag(f) == IF "seam" \in f THEN "seam" ELSE IF "near" \in f THEN "near"
             ELSE IF "antipodal" \in f THEN "antipodal" ELSE IF "bound" \in f THEN "bound" ELSE "generic"
PairTag(f) == IF "bound" \in f THEN "bound" ELSE IF "seam" \in f THEN "seam"
              ELSE IF "antipodal" \in f THEN "antipodal" ELSE IF "near" \in f THEN "near" ELSE "generic"

(* positivity is required of a pair the space itself calls unequal and whose largest      *)
(* coordinate separation (nano-units) exceeds the resolution logged for the space (0 for  *)
(* the exact double-precision spaces; the Dubins / Reeds-Shepp shortcut, the quaternion   *)
(* threshold and the float sphere are coarser)                                            *)
PosRequired(c, sep) == sep > c.res

TripleFails(c, e) ==
    LET ds == <<e.dab, e.dba, e.dbc, e.dcb, e.dac, e.dca, e.daa, e.dbb, e.dcc>>
        tol == c.tol
        all == S(e.fab) \cup S(e.fbc) \cup S(e.fac)
        PosFail(eq, pos, sep) == ~Positive(eq, pos) /\ PosRequired(c, sep)
    IN  IF e.nan THEN {<<"finite", "">>}
        ELSE (IF NonNegative(ds, e.neg) THEN {} ELSE {<<"non-negative", "">>})
             \cup (IF Identity(e.daa, tol) /\ Identity(e.dbb, tol) /\ Identity(e.dcc, tol) THEN {} ELSE {<<"identity", "">>})
             \cup (IF PosFail(e.eqab, e.posab, e.sab) THEN {<<"positivity", PairTag(S(e.fab))>>} ELSE {})
             \cup (IF PosFail(e.eqbc, e.posbc, e.sbc) THEN {<<"positivity", PairTag(S(e.fbc))>>} ELSE {})
             \cup (IF PosFail(e.eqac, e.posac, e.sac) THEN {<<"positivity", PairTag(S(e.fac))>>} ELSE {})
             \cup (IF c.sym /\ ~(Symmetric(e.dab, e.dba, tol) /\ Symmetric(e.dbc, e.dcb, tol) /\ Symmetric(e.dac, e.dca, tol))
                   THEN {<<"symmetry", "">>} ELSE {})
             \cup (IF c.metric /\ ~(Triangle(e.dac, e.dab, e.dbc, tol) /\ Triangle(e.dab, e.dac, e.dcb, tol)
                                    /\ Triangle(e.dbc, e.dba, e.dac, tol))
                   THEN {<<"triangle", IF c.prec = "float" THEN "float" ELSE TriTag(all)>>} ELSE {})
             \cup (IF c.extChecked /\ \E i \in 1..Len(ds) : ~WithinExtent(ds[i], c.ext, tol)
                   THEN {<<"extent", "">>} ELSE {})
             \cup (IF c.plain /\ ~WeightedSum(e.dab, e.parts, c.w, 16, tol) THEN {<<"compound-sum", "">>} ELSE {})

InterpFails(c, e) ==
    LET tol == c.tol
    IN  IF e.nan THEN {<<"finite", "">>}
        ELSE (IF Endpoint(e.d0, tol) THEN {} ELSE {<<"endpoint-0", "">>})
             \cup (IF Endpoint(e.d1, tol) THEN {} ELSE {<<"endpoint-1", "">>})
             \cup (IF AllSet(e.inb) /\ e.inbS /\ e.inbR THEN {}
                   ELSE IF e.plusPi THEN {<<"in-bounds-plus-pi", "">>} ELSE {<<"in-bounds", "">>})
             \cup (IF AllSet(e.alF) THEN {} ELSE {<<"alias-from", "">>})
             \cup (IF AllSet(e.alT) THEN {} ELSE {<<"alias-to", "">>})
             \cup (IF ~c.exempt /\ c.geo /\ ~Reparameterised(e.rep, tol) THEN {<<"reparameterisation", "">>} ELSE {})
             \cup (IF ~c.exempt /\ c.geo /\ \E i \in 1..Len(e.ks) : ~Proportional(e.dat[i], e.ks[i], e.dab, tol)
                   THEN {<<"proportionality", "">>} ELSE {})

Record(fails) ==
    LET keys == {<<ctx.name, f[1], f[2]>> : f \in fails}
    IN  viol' = [k \in DOMAIN viol \cup keys |->
                    IF k \in keys
                    THEN IF k \in DOMAIN viol THEN [n |-> viol[k].n + 1, line |-> viol[k].line]
                         ELSE [n |-> 1, line |-> l]
                    ELSE viol[k]]

B(b) == IF b THEN 1 ELSE 0
TInit == l = 1 /\ ctx = [name |-> "none"] /\ viol = <<>>
         /\ cnt = [spaces |-> 0, triples |-> 0, interps |-> 0, triangle |-> 0, symmetry |-> 0, extent |-> 0,
                   compound |-> 0, unequal |-> 0, reparam |-> 0, proportional |-> 0, metricSpaces |-> 0]

TSpace == /\ Is("Space")
          /\ Ev.tol >= 0 /\ Ev.ext >= 0 /\ Ev.res >= 0
          /\ ctx' = Ev
          /\ cnt' = [cnt EXCEPT !.spaces = @ + 1, !.metricSpaces = @ + B(Ev.metric)]
          /\ UNCHANGED viol

TTriple == /\ Is("Triple") /\ ctx.name # "none"
           /\ Record(TripleFails(ctx, Ev))
           /\ cnt' = [cnt EXCEPT !.triples = @ + 1, !.triangle = @ + B(ctx.metric), !.symmetry = @ + B(ctx.sym),
                                 !.extent = @ + B(ctx.extChecked), !.compound = @ + B(ctx.plain),
                                 !.unequal = @ + B(~Ev.eqab) + B(~Ev.eqbc) + B(~Ev.eqac)]
           /\ UNCHANGED ctx

TInterp == /\ Is("Interp") /\ ctx.name # "none"
           /\ Record(InterpFails(ctx, Ev))
           /\ cnt' = [cnt EXCEPT !.interps = @ + 1, !.reparam = @ + B(~ctx.exempt /\ ctx.geo),
                                 !.proportional = @ + B(~ctx.exempt /\ ctx.geo)]
           /\ UNCHANGED ctx

Verdict == [k |-> "verdict",
            viol |-> {[space |-> k[1], law |-> k[2], tag |-> k[3], n |-> viol[k].n, line |-> viol[k].line] : k \in DOMAIN viol},
            cnt |-> cnt, lines |-> NLog]
TDone == /\ l = NLog + 1
         /\ PrintT(ToJson(Verdict))
         /\ l' = l + 1
         /\ UNCHANGED <<ctx, viol, cnt>>

TNext == TSpace \/ TTriple \/ TInterp \/ TDone
TSpec == TInit /\ [][TNext]_tvars
(* accepted iff the cursor ran past the last line and the verdict was printed *)
NotAccepted == l <= NLog + 1
==============================================================================
