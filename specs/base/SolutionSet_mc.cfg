SPECIFICATION Spec
CONSTANTS Diffs = {1, 2}
 Costs = {1, 2, 3}
 MaxSols = 4
INVARIANTS Sorted TopIsBest
VIEW View
