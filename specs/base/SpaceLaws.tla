------------------------------ MODULE SpaceLaws ------------------------------
(* The laws of properties C06 (distances) and C07 (interpolation), stated       *)
(* relationally over OBSERVED values.  Nothing here knows how a space computes  *)
(* its distance: the operators take the numbers a harness observed (fixed       *)
(* point, micro-units, 32-bit) and the tolerance logged with the space, and say *)
(* whether the law holds.  Used by SpaceLawsTrace on recorded observations of   *)
(* the spaces that have no exact lattice model (Moebius, Klein bottle, sphere,  *)
(* Dubins, Reeds-Shepp) and of all spaces on random / nearly coincident /       *)
(* seam-crossing / antipodal states.                                            *)
(*                                                                              *)
(* A law is REQUIRED only where the property requires it:                       *)
(*   non-negativity, identity, positivity (between states the space itself      *)
(*   calls unequal), extent bound (bounded spaces, in-bounds states): always;   *)
(*   symmetry: iff hasSymmetricDistance(); triangle: iff isMetricSpace();       *)
(*   weighted sum: spaces whose distance is CompoundStateSpace::distance;       *)
(*   interpolation endpoints, in-bounds, aliasing: always; re-parameterisation  *)
(*   and proportionality: the spaces whose interpolation follows their geodesic *)
(*   (R^n, SO(2), SO(3), SE(2), SE(3), time, torus, weighted compounds of them) *)
(*   and that are not discrete / hybrid.  Positivity is required of pairs the   *)
(*   space calls unequal and that are further apart than the space's own        *)
(*   resolution (logged).                                                       *)
(* Spaces with laws of their own (Space.fam): the 3-D Dubins airplane spaces,   *)
(* space-time and the constrained spaces - stated at the end of this module.    *)
EXTENDS Integers, Sequences

Abs(x) == IF x < 0 THEN -x ELSE x
Within(x, y, tol) == Abs(x - y) <= tol

(* ------------------------------ C06 ------------------------------ *)
NonNegative(ds, sawNegative) == ~sawNegative /\ \A i \in 1..Len(ds) : ds[i] >= 0
Identity(dxx, tol) == dxx >= 0 /\ dxx <= tol
(* eq: the space's own equalStates(x, y); pos: the raw distance (both directions) is > 0 *)
Positive(eq, pos) == eq \/ pos
Symmetric(dxy, dyx, tol) == Within(dxy, dyx, tol)
Triangle(dxz, dxy, dyz, tol) == dxz <= dxy + dyz + tol
WithinExtent(d, ext, tol) == d <= ext + tol
(* d = sum_i (w[i][1] / w[i][2]) * parts[i], all denominators equal to den; each observed *)
(* value is rounded to a micro-unit, hence the tolerance scales with the coefficients     *)
RECURSIVE WSum(_, _, _)
WSum(w, parts, i) == IF i > Len(parts) THEN 0 ELSE w[i][1] * parts[i] + WSum(w, parts, i + 1)
RECURSIVE CoefSum(_, _)
CoefSum(w, i) == IF i > Len(w) THEN 0 ELSE w[i][1] + CoefSum(w, i + 1)
WeightedSum(d, parts, w, den, tol) ==
    /\ Len(parts) = Len(w)
    /\ \A i \in 1..Len(w) : w[i][1] > 0 /\ w[i][2] = den
    /\ Abs(den * d - WSum(w, parts, 1)) <= tol * (den + CoefSum(w, 1))

(* ------------------------------ C07 ------------------------------ *)
Endpoint(d, tol) == d >= 0 /\ d <= tol               \* distance between I(a,b,0|1) and a|b
AllSet(flags) == \A i \in 1..Len(flags) : flags[i] = 1
(* t = k/64: d(a, I(a,b,t)) = t d(a,b) *)
Proportional(dat, k, dab, tol) == Abs(64 * dat - k * dab) <= 64 * tol
(* rep: distance between I(I(a,b,s),b,u) and I(a,b,s+(1-s)u) *)
Reparameterised(rep, tol) == rep >= 0 /\ rep <= tol

(* --------------- 3-D Dubins airplane spaces (Owen, Vana, Vana-Owen) --------------- *)
(* "Distance is measured by the length of a Dubins airplane curve": no flight path is   *)
(* shorter than the straight line between the two positions (e: Euclidean distance of   *)
(* the positions), distance() is the length of the path getPath() returns, and          *)
(* interpolate() follows that path: it is the point at t of the SAME computed path      *)
(* (flags from the overload that takes the path) and the curve has no jumps - the chord *)
(* between the interpolants at t = k1/64 < k2/64 is at most lip x (k2-k1)/64 x the path *)
(* length, lip = lip[1]/lip[2] the speed bound the parameterisation has by construction *)
(* (chords and the length d3 in units of 1e-3 so that the products stay 32-bit).  The   *)
(* pitch of every interpolant stays in the pitch range (pex: excess in nano-radians)    *)
(* up to the resolution res of the underlying planar Dubins code, its heading in        *)
(* [-pi, pi) (flags; the position may leave its box, as planar Dubins curves do: that   *)
(* is the general in-bounds law).                                                       *)
AtLeastStraightLine(d, e, tol) == d + tol >= e
IsPathLength(d, plen, tol) == Within(d, plen, tol)
NoJumps(cks, chord, d3, lip, tol3) ==
    /\ Len(chord) = Len(cks) - 1
    /\ \A i \in 1..Len(chord) :
          /\ cks[i + 1] > cks[i]
          /\ chord[i] >= 0
          /\ chord[i] * 64 * lip[2] <= (cks[i + 1] - cks[i]) * d3 * lip[1] + 64 * lip[2] * tol3
PitchInRange(pex, res) == \A i \in 1..Len(pex) : pex[i] >= 0 /\ pex[i] <= res

(* --------------- space-time (SpaceTimeStateSpace) --------------- *)
(* "The distance may be infinite", "direction independent", "the time to get from       *)
(* state1 to state2 with respect to vMax": the distance is infinite iff the time between *)
(* the two states (dt) is less than the time the motion needs at vMax (ttc, the          *)
(* library's own timeToCoverDistance) - observations closer to that boundary than        *)
(* `margin` may fall on either side; ttc x vMax is the distance of the space component   *)
(* (ds); a finite distance is the weighted sum of ds and dt.  v = <<num, den>> = vMax.   *)
InfiniteIffUnreachable(inf, ttc, dt, margin) == /\ inf => ttc + margin > dt
                                                /\ ~inf => ttc <= dt + margin
TimeToCoverIsDistanceOverVMax(ttc, ds, v, tol) == Abs(ttc * v[1] - ds * v[2]) <= tol * (v[1] + v[2])

(* --------------- constrained spaces (projected, atlas, tangent bundle) --------------- *)
(* interpolate(from, to, t) is the state of the discrete geodesic closest to t; it       *)
(* "defaults to returning from if traversal fails".  d0 = d(I(0), from); d1 = d(I(1), to);*)
(* s1 = d(from, I(1)).  ok1 / ok2: discreteGeodesic(from, to) succeeded when asked       *)
(* before / after the interpolation calls.  The geodesic ends within delta of `to`.      *)
StartsAtFrom(d0, tol0) == d0 >= 0 /\ d0 <= tol0
EndsAtToOrStays(d1, s1, ok1, ok2, delta, tol0) ==
    /\ (ok1 /\ ok2) => d1 <= delta + tol0                  \* reached: the last geodesic state
    /\ (~ok1 /\ ~ok2) => s1 <= tol0                        \* failed: from
    /\ d1 <= delta + tol0 \/ s1 <= tol0                     \* in any case one of the two
StaysWhenGeodesicFails(dfrom, ok1, ok2, tol0) == (~ok1 /\ ~ok2) => \A i \in 1..Len(dfrom) : dfrom[i] <= tol0
AllWithin(ds, tol) == \A i \in 1..Len(ds) : ds[i] >= 0 /\ ds[i] <= tol
==============================================================================
