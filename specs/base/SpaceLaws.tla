------------------------------ MODULE SpaceLaws ------------------------------
(* The laws of properties C06 (distances) and C07 (interpolation), stated       *)
(* relationally over OBSERVED values.  Nothing here knows how a space computes  *)
(* its distance: the operators take the numbers a harness observed (fixed       *)
(* point, micro-units, 32-bit) and the tolerance logged with the space, and say *)
(* whether the law holds.  Used by SpaceLawsTrace on recorded observations of   *)
(* the spaces that have no exact lattice model (Moebius, Klein bottle, sphere,  *)
(* Dubins, Reeds-Shepp) and of all spaces on random / nearly coincident /       *)
(* seam-crossing / antipodal states.                                            *)
(*                                                                              *)
(* A law is REQUIRED only where the property requires it:                       *)
(*   non-negativity, identity, positivity (between states the space itself      *)
(*   calls unequal), extent bound (bounded spaces, in-bounds states): always;   *)
(*   symmetry: iff hasSymmetricDistance(); triangle: iff isMetricSpace();       *)
(*   weighted sum: spaces whose distance is CompoundStateSpace::distance;       *)
(*   interpolation endpoints, in-bounds, aliasing: always; re-parameterisation  *)
(*   and proportionality: the spaces whose interpolation follows their geodesic *)
(*   (R^n, SO(2), SO(3), SE(2), SE(3), time, torus, weighted compounds of them) *)
(*   and that are not discrete / hybrid.  Positivity is required of pairs the   *)
(*   space calls unequal and that are further apart than the space's own        *)
(*   resolution (logged).                                                       *)
EXTENDS Integers, Sequences

Abs(x) == IF x < 0 THEN -x ELSE x
Within(x, y, tol) == Abs(x - y) <= tol

(* ------------------------------ C06 ------------------------------ *)
NonNegative(ds, sawNegative) == ~sawNegative /\ \A i \in 1..Len(ds) : ds[i] >= 0
Identity(dxx, tol) == dxx >= 0 /\ dxx <= tol
(* eq: the space's own equalStates(x, y); pos: the raw distance (both directions) is > 0 *)
Positive(eq, pos) == eq \/ pos
Symmetric(dxy, dyx, tol) == Within(dxy, dyx, tol)
Triangle(dxz, dxy, dyz, tol) == dxz <= dxy + dyz + tol
WithinExtent(d, ext, tol) == d <= ext + tol
(* d = sum_i (w[i][1] / w[i][2]) * parts[i], all denominators equal to den; each observed *)
(* value is rounded to a micro-unit, hence the tolerance scales with the coefficients     *)
RECURSIVE WSum(_, _, _)
WSum(w, parts, i) == IF i > Len(parts) THEN 0 ELSE w[i][1] * parts[i] + WSum(w, parts, i + 1)
RECURSIVE CoefSum(_, _)
CoefSum(w, i) == IF i > Len(w) THEN 0 ELSE w[i][1] + CoefSum(w, i + 1)
WeightedSum(d, parts, w, den, tol) ==
    /\ Len(parts) = Len(w)
    /\ \A i \in 1..Len(w) : w[i][1] > 0 /\ w[i][2] = den
    /\ Abs(den * d - WSum(w, parts, 1)) <= tol * (den + CoefSum(w, 1))

(* ------------------------------ C07 ------------------------------ *)
Endpoint(d, tol) == d >= 0 /\ d <= tol               \* distance between I(a,b,0|1) and a|b
AllSet(flags) == \A i \in 1..Len(flags) : flags[i] = 1
(* t = k/64: d(a, I(a,b,t)) = t d(a,b) *)
Proportional(dat, k, dab, tol) == Abs(64 * dat - k * dab) <= 64 * tol
(* rep: distance between I(I(a,b,s),b,u) and I(a,b,s+(1-s)u) *)
Reparameterised(rep, tol) == rep >= 0 /\ rep <= tol
==============================================================================
