SPECIFICATION Spec
CONSTANTS
  Ids = {1, 2}
  MinDist = 0
  MaxSamples = 3
  MaxCalls = 2
  AllowStop = TRUE
  Recheck = TRUE
  LockedReads = FALSE
INVARIANTS TypeOK OnlyDifferent MaxSampleRespected ContractKept StopJoins LockExclusive ReturnedWasProduced
