---------------------------- MODULE PTCTimedTrace ----------------------------
(* Trace validation of the time-dependent forms recorded from the real code:    *)
(*   timedPlannerTerminationCondition(d)            ("timed", iv = 0)            *)
(*   timedPlannerTerminationCondition(d, interval)  ("timed", iv > 0)            *)
(*   PlannerTerminationCondition(fn, period)        ("periodic")                 *)
(* "Race" executions are periodic ones whose predicate blocks until a second    *)
(* thread's terminate() has returned (the Terminate event is logged after that  *)
(* return) and then returns false; the evals that follow, direct and through    *)
(* or(never, c) / and(always, c) (field `via`), fall under terminate-not-sticky. *)
(* All times are integer milliseconds of ompl::time::now(); a timestamp taken   *)
(* BEFORE a call is rounded down, one taken AFTER a call is rounded up.         *)
(*                                                                              *)
(* HARD facts are one-sided: no scheduling delay, however long, can make a      *)
(* correct implementation break them (a delay only moves timestamps in the      *)
(* direction that weakens the premise or strengthens the conclusion):           *)
(*   true-before-duration   r => ta >= cs + d - 1      (cs: before creation)    *)
(*   false-after-duration   direct form: tb > ce + d + 1 => r  (ce: after it)   *)
(*   reverted               once true, true (timed; periodic over a flag that   *)
(*                          is only ever raised)                                *)
(*   terminate-not-sticky   after terminate() every eval is true                *)
(*   true-before-predicate  periodic: r => the predicate has returned true      *)
(*                          (fa = number of the first invocation that did)      *)
(*   stale-after-poll       periodic: if, before eval() began, the evaluator    *)
(*                          thread had already started an invocation AFTER the  *)
(*                          first one that returned true (cb > ft > 0), the     *)
(*                          value of that earlier invocation has been stored:   *)
(*                          eval() must be true.  The lag bound in polls.       *)
(*   predicate-on-caller    periodic: eval() never runs the predicate itself    *)
(*   thread-alive-after-destroy  no invocation after the destructor returned    *)
(* The 1 ms allowance covers the truncation of the double duration to clock     *)
(* ticks.                                                                       *)
(* SOFT facts bound the lag in wall-clock time with generous slack              *)
(* (max(10 periods, 1 s)); a starved thread can break them, so they never       *)
(* decide a verdict on their own (see tools/checks/c18.py).                     *)
(*   interval-lag   tb > ce + d + iv + Slack(iv) => r                           *)
(*   periodic-lag   tb > flip.ta + p + Slack(p) => r                            *)
(* The spec never blocks on a well-formed event: the first broken fact is       *)
(* remembered in `bad` / `softBad` and reported through the invariants.         *)
EXTENDS TraceIO, Integers

VARIABLES l, mode, d, iv, p, cs, ce, terminated, seenTrue, flipped, flipTa, bad, softBad
tvars == <<l, mode, d, iv, p, cs, ce, terminated, seenTrue, flipped, flipTa, bad, softBad>>

Ev == Log[l]
Is(e) == l <= NLog /\ Ev.e = e /\ l' = l + 1
Max(a, b) == IF a > b THEN a ELSE b
Slack(x) == Max(10 * x, 1000)
Keep(b, reason) == IF b # "" THEN b ELSE reason

TInit == /\ l = 1 /\ mode = "none" /\ d = 0 /\ iv = 0 /\ p = 0 /\ cs = 0 /\ ce = 0
         /\ terminated = FALSE /\ seenTrue = FALSE /\ flipped = FALSE /\ flipTa = 0
         /\ bad = "" /\ softBad = ""

TReset == /\ Is("Reset")
          /\ mode' = "none" /\ d' = 0 /\ iv' = 0 /\ p' = 0 /\ cs' = 0 /\ ce' = 0
          /\ terminated' = FALSE /\ seenTrue' = FALSE /\ flipped' = FALSE /\ flipTa' = 0
          /\ UNCHANGED <<bad, softBad>>

TCreateTimed == /\ Is("CreateTimed") /\ mode = "none"
                /\ Ev.d > 0 /\ Ev.iv >= 0 /\ Ev.cs <= Ev.ce
                /\ mode' = "timed" /\ d' = Ev.d /\ iv' = Ev.iv /\ cs' = Ev.cs /\ ce' = Ev.ce
                /\ UNCHANGED <<p, terminated, seenTrue, flipped, flipTa, bad, softBad>>

TCreatePeriodic == /\ Is("CreatePeriodic") /\ mode = "none"
                   /\ Ev.p > 0 /\ Ev.cs <= Ev.ce
                   /\ mode' = "periodic" /\ p' = Ev.p /\ cs' = Ev.cs /\ ce' = Ev.ce
                   /\ UNCHANGED <<d, iv, terminated, seenTrue, flipped, flipTa, bad, softBad>>

HardReason(e) ==
    CASE terminated /\ ~e.r -> "terminate-not-sticky"
      [] mode = "timed" /\ e.r /\ ~terminated /\ e.ta < cs + d - 1 -> "true-before-duration"
      [] mode = "timed" /\ iv = 0 /\ ~e.r /\ e.tb > ce + d + 1 -> "false-after-duration"
      [] mode = "periodic" /\ e.cc > 0 -> "predicate-on-caller"
      [] mode = "periodic" /\ e.r /\ ~terminated /\ e.fa = 0 -> "true-before-predicate"
      [] mode = "periodic" /\ ~e.r /\ e.ft > 0 /\ e.cb > e.ft -> "stale-after-poll"
      [] seenTrue /\ ~e.r -> "reverted"
      [] OTHER -> ""

SoftReason(e) ==
    CASE mode = "timed" /\ iv > 0 /\ ~e.r /\ e.tb > ce + d + iv + Slack(iv) -> "interval-lag"
      [] mode = "periodic" /\ flipped /\ ~e.r /\ e.tb > flipTa + p + Slack(p) -> "periodic-lag"
      [] OTHER -> ""

TEval == /\ Is("Eval") /\ mode # "none" /\ Ev.tb <= Ev.ta
         /\ bad' = Keep(bad, HardReason(Ev))
         /\ softBad' = Keep(softBad, SoftReason(Ev))
         /\ seenTrue' = (seenTrue \/ Ev.r)
         /\ UNCHANGED <<mode, d, iv, p, cs, ce, terminated, flipped, flipTa>>

TFlip == /\ Is("Flip") /\ mode = "periodic" /\ ~flipped
         /\ flipped' = TRUE /\ flipTa' = Ev.ta
         /\ UNCHANGED <<mode, d, iv, p, cs, ce, terminated, seenTrue, bad, softBad>>

TTerminate == /\ Is("Terminate") /\ mode # "none"
              /\ terminated' = TRUE
              /\ UNCHANGED <<mode, d, iv, p, cs, ce, seenTrue, flipped, flipTa, bad, softBad>>

TDestroy == /\ Is("Destroy") /\ mode = "periodic"
            /\ bad' = Keep(bad, IF Ev.c1 # Ev.c2 THEN "thread-alive-after-destroy" ELSE "")
            /\ UNCHANGED <<mode, d, iv, p, cs, ce, terminated, seenTrue, flipped, flipTa, softBad>>

TNext == TReset \/ TCreateTimed \/ TCreatePeriodic \/ TEval \/ TFlip \/ TTerminate \/ TDestroy
TSpec == TInit /\ [][TNext]_tvars

NoBad == bad = ""
NoSoftBad == softBad = ""
NotAccepted == l <= NLog
==============================================================================
