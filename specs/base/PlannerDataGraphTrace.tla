------------------------ MODULE PlannerDataGraphTrace ------------------------
(* Trace validation of recorded base::PlannerData / control::PlannerData       *)
(* executions (random histories over larger graphs than the replayed model)    *)
(* against the abstract graph of PlannerDataGraph.  Each line carries the      *)
(* operation with its arguments, the value the call returned and the complete  *)
(* observer table read back through the public interface afterwards:           *)
(*   n, ne, verts = [[sid, tag] ...] in index order, starts, goals (indices    *)
(*   for which isStartVertex / isGoalVertex answered true), sl, gl (what       *)
(*   getStartIndex / getGoalIndex enumerate), edges = [[i, j, w] ...],         *)
(*   out / inc = what getEdges / getIncomingEdges list, as [[i, j] ...]        *)
(* {"e":"Reset"} starts a new execution.  Indices are 0-based as in the API.   *)
EXTENDS PlannerDataGraph, TraceIO

VARIABLE l
tvars == <<g, l, idx, glist, lastAct>>

Ev == Log[l]
Is(e) == l <= NLog /\ Ev.e = e /\ l' = l + 1 /\ UNCHANGED <<idx, glist, lastAct>>
Bool(x) == IF x THEN 1 ELSE 0

ObsMatches(x, o) ==
    /\ o.n = N(x) /\ o.ne = Cardinality(x.edges)
    /\ Len(o.verts) = N(x)
    /\ \A i \in 1..N(x) : o.verts[i][1] = x.verts[i].sid /\ o.verts[i][2] = x.verts[i].tag
    /\ SeqToSet(o.starts) = {i - 1 : i \in x.starts} /\ Len(o.starts) = Cardinality(x.starts)
    /\ SeqToSet(o.goals) = {i - 1 : i \in x.goals} /\ Len(o.goals) = Cardinality(x.goals)
    /\ SeqToSet(o.sl) = {i - 1 : i \in x.starts} /\ Len(o.sl) = Cardinality(x.starts)
    /\ SeqToSet(o.gl) = {i - 1 : i \in x.goals} /\ Len(o.gl) = Cardinality(x.goals)
    /\ SeqToSet(o.edges) = {<<e.i - 1, e.j - 1, e.w>> : e \in x.edges} /\ Len(o.edges) = Cardinality(x.edges)
    /\ SeqToSet(o.out) = {<<e.i - 1, e.j - 1>> : e \in x.edges} /\ Len(o.out) = Cardinality(x.edges)
    /\ SeqToSet(o.inc) = {<<e.i - 1, e.j - 1>> : e \in x.edges} /\ Len(o.inc) = Cardinality(x.edges)

Step(x) == g' = x /\ ObsMatches(x, Ev.obs)

TInit == g = Empty /\ l = 1 /\ idx = <<>> /\ glist = <<>> /\ lastAct = <<>>

TReset == Is("Reset") /\ g' = Empty
\* addVertex / addStartVertex / addGoalVertex: the index of the (new or already present) vertex
TAddVertex == /\ Is("AddVertex") /\ Step(AddV(g, Ev.sid, Ev.tag))
              /\ Ev.ret = IndexOf(g', Ev.sid) - 1
TAddStart == /\ Is("AddStart") /\ Step(MarkS(AddV(g, Ev.sid, Ev.tag), IndexOf(AddV(g, Ev.sid, Ev.tag), Ev.sid)))
             /\ Ev.ret = IndexOf(g', Ev.sid) - 1
TAddGoal == /\ Is("AddGoal") /\ Step(MarkG(AddV(g, Ev.sid, Ev.tag), IndexOf(AddV(g, Ev.sid, Ev.tag), Ev.sid)))
            /\ Ev.ret = IndexOf(g', Ev.sid) - 1
\* mark / tag by state: succeed iff the state is a vertex
TMarkStart == /\ Is("MarkStart")
              /\ IF Ev.sid \in SidsOf(g) THEN Step(MarkS(g, IndexOf(g, Ev.sid))) /\ Ev.ret = 1
                 ELSE Step(g) /\ Ev.ret = 0
TMarkGoal == /\ Is("MarkGoal")
             /\ IF Ev.sid \in SidsOf(g) THEN Step(MarkG(g, IndexOf(g, Ev.sid))) /\ Ev.ret = 1
                ELSE Step(g) /\ Ev.ret = 0
TTag == /\ Is("Tag")
        /\ IF Ev.sid \in SidsOf(g) THEN Step(SetTag(g, IndexOf(g, Ev.sid), Ev.tag)) /\ Ev.ret = 1
           ELSE Step(g) /\ Ev.ret = 0
\* addEdge(v1, v2): refused for unknown vertices and for an existing edge
TAddEdge == /\ Is("AddEdge")
            /\ LET i == Ev.v1 + 1
                   j == Ev.v2 + 1
                   ok == i \in 1..N(g) /\ j \in 1..N(g) /\ ~HasEdge(g, i, j)
               IN  IF ok THEN Step(AddE(g, i, j, Ev.w)) /\ Ev.ret = 1 ELSE Step(g) /\ Ev.ret = 0
TRemoveEdge == /\ Is("RemoveEdge")
               /\ LET i == Ev.v1 + 1
                      j == Ev.v2 + 1
                  IN  IF i \in 1..N(g) /\ j \in 1..N(g) /\ HasEdge(g, i, j) THEN Step(RemE(g, i, j)) /\ Ev.ret = 1
                      ELSE Step(g) /\ Ev.ret = 0
TRemoveVertex == /\ Is("RemoveVertex")
                 /\ IF Ev.v + 1 \in 1..N(g) THEN Step(RemV(g, Ev.v + 1)) /\ Ev.ret = 1 ELSE Step(g) /\ Ev.ret = 0
TClear == Is("Clear") /\ Step(Empty)
\* store + load into a fresh instance: the observer table of the LOADED graph is recorded;
\* Ev.ret is what load() returned
TRoundTrip == Is("RoundTrip") /\ Step(g) /\ Ev.ret = 1

TNext == TReset \/ TAddVertex \/ TAddStart \/ TAddGoal \/ TMarkStart \/ TMarkGoal \/ TTag
         \/ TAddEdge \/ TRemoveEdge \/ TRemoveVertex \/ TClear \/ TRoundTrip

TSpec == TInit /\ [][TNext]_tvars
NotAccepted == l <= NLog
==============================================================================
