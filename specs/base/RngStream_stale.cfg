SPECIFICATION Spec
CONSTANTS Kinds = {"u01", "int", "gauss", "halfnormal", "quat", "sphere2", "sphere3", "ball3", "bool"}
 MaxPre = 2
 MaxPost = 2
 ResetCaches = FALSE
INVARIANTS ReseedReproduces
