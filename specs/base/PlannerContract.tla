--------------------------- MODULE PlannerContract ---------------------------
(* The contract around one solve() call of a geometric / multilevel planner   *)
(* (properties C01, and the per-call clauses of C03 and C04).  A report `r`   *)
(* is what the harness recorded: the configuration (map, query), the status,  *)
(* the solution-set size before / after, and for every solution held by the   *)
(* problem definition afterwards the facts established by an oracle that is   *)
(* independent of the planner (own validity predicate, own dense sampling     *)
(* along StateSpace::interpolate, recomputed goal distance).  TLC decides     *)
(* which combinations of facts are allowed.                                   *)
(* All real quantities are integers in micro-units.                           *)
EXTENDS GridWorld, TLC

SolutionStatuses == {"EXACT", "APPROXIMATE"}
NonSolutionStatuses == {"TIMEOUT", "INVALID_START", "INVALID_GOAL", "UNRECOGNIZED_GOAL_TYPE",
                        "UNKNOWN", "INFEASIBLE", "ABORT"}
Tol == 20    \* micro-units: rounding of two fixed-point conversions plus slack

AbsI(x) == IF x < 0 THEN -x ELSE x

(* --- facts about one solution path --- *)
PathIsReal(r, s) ==
    /\ s.n >= 1                                   \* never an empty path
    /\ s.startOk                                  \* starts at a valid, in-bounds start state
    /\ s.inBounds                                 \* every state within the bounds
    /\ s.vertsValid                               \* every vertex valid
    /\ s.run <= 2 * r.res                         \* no invalid stretch longer than 2 x resolution
    /\ (r.pairs => s.pairsOk)                     \* individually validated motions pass again
    (* model side: the cells the path runs through form a walk in the free 8-connected *)
    (* graph that starts in the start cell                                              *)
    /\ (~s.cellsTruncated =>
            /\ IsFreeWalk(r.W, r.H, r.obst, s.cells)
            /\ Len(s.cells) >= 1 /\ s.cells[1] = r.start
            /\ s.cells[Len(s.cells)] \in Reach(r.W, r.H, r.obst, r.start))

GoalFlagsAgree(r, s) ==
    /\ (~s.approx => s.endInGoal)                 \* exact solutions end inside the goal region
    /\ (s.approx =>                               \* approximate: difference describes the last state
            \/ AbsI(s.diff - s.endDist) <= Tol
            \/ AbsI(s.diff - (IF s.endDist > r.thrMicro THEN s.endDist - r.thrMicro ELSE 0)) <= Tol)
    /\ (~s.approx /\ r.thr = "tiny" /\ ~s.cellsTruncated => s.cells[Len(s.cells)] = r.goal)

SolutionOK(r, s) == PathIsReal(r, s) /\ GoalFlagsAgree(r, s)

(* --- the report of a first solve() on a fresh problem definition --- *)
FirstSolveOK(r) ==
    /\ r.status \in SolutionStatuses \cup NonSolutionStatuses
    /\ r.nBefore = 0
    /\ Len(r.sols) = r.nAfter
    /\ (r.status \in SolutionStatuses => r.nAfter >= 1)
    /\ (r.status \notin SolutionStatuses => r.nAfter = 0)        \* non-solution status adds no path
    /\ \A i \in 1..Len(r.sols) : SolutionOK(r, r.sols[i])
    (* status, approximate flag of the reported (top-ranked) solution agree *)
    /\ (r.status = "EXACT" => ~r.sols[1].approx)
    /\ (r.status = "APPROXIMATE" => r.sols[1].approx)
    (* model-determined facts *)
    /\ (r.status = "INVALID_START" => r.start \in r.obst)
    /\ (r.status = "INVALID_GOAL" => r.goal \in r.obst)
    /\ (r.status = "EXACT" /\ r.thr # "huge" => r.goal \in Reach(r.W, r.H, r.obst, r.start))
    /\ (r.start \in r.obst => r.status \notin SolutionStatuses)
==============================================================================
