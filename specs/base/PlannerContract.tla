--------------------------- MODULE PlannerContract ---------------------------
(* The contract around one solve() call of a geometric / multilevel planner   *)
(* (properties C01, and the per-call clauses of C03 and C04).  A report `r`   *)
(* is what the harness recorded: the configuration (map, query), the status,  *)
(* the solution-set size before / after, and for every solution held by the   *)
(* problem definition afterwards the facts established by an oracle that is   *)
(* independent of the planner (own validity predicate, own dense sampling     *)
(* along StateSpace::interpolate, recomputed goal distance).  TLC decides     *)
(* which combinations of facts are allowed.                                   *)
(* All real quantities are integers in micro-units.                           *)
EXTENDS GridWorld, TLC

SolutionStatuses == {"EXACT", "APPROXIMATE"}
(* EXCEPTION: solve() threw ompl::Exception (e.g. a planner rejecting a space it does not support) *)
NonSolutionStatuses == {"TIMEOUT", "INVALID_START", "INVALID_GOAL", "UNRECOGNIZED_GOAL_TYPE",
                        "UNKNOWN", "INFEASIBLE", "ABORT", "EXCEPTION"}
Tol == 20    \* micro-units: rounding of two fixed-point conversions plus slack

AbsI(x) == IF x < 0 THEN -x ELSE x

(* A query may have several start states and several goal states (xstarts / xgoals are the cells *)
(* of the additional ones; out-of-bounds starts are not listed: they are never valid).          *)
StartCells(r) == {r.start} \cup (IF "xstarts" \in DOMAIN r THEN {r.xstarts[i] : i \in 1..Len(r.xstarts)} ELSE {})
GoalCells(r) == {r.goal} \cup (IF "xgoals" \in DOMAIN r THEN {r.xgoals[i] : i \in 1..Len(r.xgoals)} ELSE {})
ValidStartCells(r) == StartCells(r) \ r.obst
ReachAny(r) == UNION {Reach(r.W, r.H, r.obst, c) : c \in StartCells(r)}

(* Every clause has a name so that a rejected report says which clause failed. *)
(* ("verticesValid" is recorded by the harness but is not a clause: an interior vertex may sit inside an   *)
(* invalid stretch that is shorter than the resolution allows - the property bounds the stretch)         *)
SolClauses == {"nonempty", "startsAtStart", "inBounds", "invalidRun",
               "pairsRecheck", "cellWalk", "exactEndsInGoal", "approxDifference", "exactEndsInGoalCell"}

(* every clause but the first presupposes a non-empty path, so an empty path fails exactly "nonempty" *)
SolClause(c, r, s) ==
    CASE c = "nonempty" -> s.n >= 1                      \* never an empty path
      [] s.n < 1 -> TRUE
      [] c = "startsAtStart" -> s.startOk                 \* starts at a valid, in-bounds start state
      [] c = "inBounds" -> s.inBounds                     \* every state within the bounds
      [] c = "verticesValid" -> s.vertsValid              \* every vertex valid
      [] c = "invalidRun" -> s.run <= 2 * r.res           \* no invalid stretch longer than 2 x resolution
      [] c = "pairsRecheck" -> (r.pairs => s.pairsOk)     \* individually validated motions pass again
      (* model side: the cells the path runs through form a walk in the free 8-connected *)
      (* graph that starts in the start cell                                              *)
      [] c = "cellWalk" -> (~s.cellsTruncated =>
                               /\ IsFreeWalk(r.W, r.H, r.obst, s.cells)
                               /\ Len(s.cells) >= 1 /\ s.cells[1] \in ValidStartCells(r)
                               /\ s.cells[Len(s.cells)] \in Reach(r.W, r.H, r.obst, s.cells[1]))
      [] c = "exactEndsInGoal" -> (~s.approx => s.endInGoal)
      (* the reported difference describes the last state: planners report either the distance to *)
      (* the goal state / centre or the distance to (a state of) the goal region, so any value    *)
      (* between "distance minus threshold" and "distance" agrees with the last state             *)
      [] c = "approxDifference" ->
             (* (with several goal states the planner may measure to one it knows already, not the nearest) *)
             (s.approx =>
                 /\ s.diff <= (IF "endDistMax" \in DOMAIN s THEN s.endDistMax ELSE s.endDist) + Tol
                 /\ s.diff >= (IF s.endDist > r.thrMicro THEN s.endDist - r.thrMicro ELSE 0) - Tol)
      [] c = "exactEndsInGoalCell" ->
             (~s.approx /\ r.thr = "tiny" /\ ~s.cellsTruncated /\ Len(s.cells) >= 1
                  => s.cells[Len(s.cells)] \in GoalCells(r))

FailedSol(r, s) == {c \in SolClauses : ~SolClause(c, r, s)}
SolutionOK(r, s) == FailedSol(r, s) = {}

(* --- the report of a first solve() on a fresh problem definition --- *)
CallClauses == {"knownStatus", "freshDefinition", "solutionCount", "solutionStatusHasPath",
                "nonSolutionAddsNothing", "exactTopNotApprox", "approxTopIsApprox",
                "invalidStartOnlyIfInvalid", "invalidGoalOnlyIfInvalid", "exactOnlyIfReachable",
                "noSolutionFromInvalidStart"}

CallClause(c, r) ==
    CASE c = "knownStatus" -> r.status \in SolutionStatuses \cup NonSolutionStatuses
      [] c = "freshDefinition" -> r.nBefore = 0
      [] c = "solutionCount" -> Len(r.sols) = r.nAfter
      [] c = "solutionStatusHasPath" -> (r.status \in SolutionStatuses => r.nAfter >= 1)
      [] c = "nonSolutionAddsNothing" -> (r.status \notin SolutionStatuses => r.nAfter = r.nBefore)
      [] c = "exactTopNotApprox" -> (r.status = "EXACT" /\ Len(r.sols) >= 1 => ~r.sols[1].approx)
      [] c = "approxTopIsApprox" -> (r.status = "APPROXIMATE" /\ Len(r.sols) >= 1 => r.sols[1].approx)
      (* model-determined facts *)
      [] c = "invalidStartOnlyIfInvalid" -> (r.status = "INVALID_START" => ValidStartCells(r) = {})
      [] c = "invalidGoalOnlyIfInvalid" -> (* (a planner interrupted while it was still looking for a valid goal state may say INVALID_GOAL) *)
             (r.status = "INVALID_GOAL" /\ ("budget" \notin DOMAIN r \/ r.evals <= r.budget) => GoalCells(r) \subseteq r.obst)
      [] c = "exactOnlyIfReachable" ->
             (* with a tiny threshold the path ends on the goal state itself (a wider goal region *)
             (* around a jittered goal may reach into neighbouring cells: covered by cellWalk)    *)
             (r.status = "EXACT" /\ r.thr = "tiny" => GoalCells(r) \cap ReachAny(r) # {})
      [] c = "noSolutionFromInvalidStart" -> (ValidStartCells(r) = {} => r.status \notin SolutionStatuses)

FailedFirstSolve(r) ==
    {c \in CallClauses : ~CallClause(c, r)}
        \cup UNION {FailedSol(r, r.sols[i]) : i \in 1..Len(r.sols)}
FirstSolveOK(r) == FailedFirstSolve(r) = {}
==============================================================================
