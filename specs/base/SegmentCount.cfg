SPECIFICATION Spec
CONSTANTS
  MaxD = 16
  MaxL = 4
  MaxF = 3
  MaxDC = 6
INVARIANTS SingleOk CompoundOk EmitCase
