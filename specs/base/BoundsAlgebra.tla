---------------------------- MODULE BoundsAlgebra ----------------------------
(* C08, first sentence: "Enforcing bounds leaves an in-bounds state unchanged, *)
(* turns any finite state into one that satisfies the bounds, and is           *)
(* idempotent."                                                                *)
(*                                                                             *)
(* enforceBounds / satisfiesBounds of every OMPL state space, transcribed on    *)
(* exact lattices (no reals in TLC):                                           *)
(*   RV    coordinates are integers in a unit un/ud (times pi when upi);       *)
(*         RealVectorStateSpace.cpp:188 clamp                                  *)
(*   SO2   angles are k * pi / N;  SO2StateSpace.cpp:81  fmod (C semantics:    *)
(*         sign of the dividend), then ONE correction; in bounds is            *)
(*         -pi <= v < pi  (SO2StateSpace.cpp:91)                               *)
(*   SO3   quaternions v * 2^e with v an integer 4-vector (the 24 Hurwitz      *)
(*         units are the doubled vectors with e = -1); SO3StateSpace.cpp:183   *)
(*         renormalise, tiny norm -> identity                                  *)
(*   Time  bounded: clamp, unbounded: no-op;  Disc  integer clamp              *)
(*   C     compound: componentwise (SE2, SE3, torus, sphere, Moebius, Klein    *)
(*         bottle and arbitrary nested compounds); W wrapper = the wrapped one *)
(*                                                                             *)
(* The state machine applies enforceBounds twice to every lattice input:       *)
(*   n = 0 --Enforce--> n = 1 --Enforce--> n = 2                               *)
(* TLC checks the three laws of the property on it plus `Faithful` (what the   *)
(* result MEANS: nearest in-bounds point / same angle / same rotation), and    *)
(* the first transition of every input is dumped with the expected result so   *)
(* that harness/bounds.cpp can replay it on the real spaces (M3).              *)
EXTENDS Integers, Sequences, FiniteSets, TLC, Json

CONSTANTS Ext,        \* how many extents beyond the bounds the dense lattices reach
          Periods,    \* how many periods beyond [-pi,pi) the dense SO2 lattice reaches
          Thorough    \* TRUE: dense lattices also inside products

VARIABLES sid,   \* index into Settings
          x,     \* the state (shape depends on the space, see above)
          n      \* how many times enforceBounds has been applied

vars == <<sid, x, n>>

Abs(a) == IF a < 0 THEN -a ELSE a
RECURSIVE Pow4(_)
Pow4(k) == IF k = 0 THEN 1 ELSE 4 * Pow4(k - 1)

(* ----------------------------------------------------------- descriptors *)
RV(lo, hi, un, ud) == [t |-> "RV", lo |-> lo, hi |-> hi, un |-> un, ud |-> ud, upi |-> FALSE]
RVpi(lo, hi, ud) == [t |-> "RV", lo |-> lo, hi |-> hi, un |-> 1, ud |-> ud, upi |-> TRUE]
SO2(N) == [t |-> "SO2", N |-> N]
SO3 == [t |-> "SO3"]
TimeB(lo, hi, un, ud) == [t |-> "Time", b |-> TRUE, lo |-> lo, hi |-> hi, un |-> un, ud |-> ud]
TimeU == [t |-> "Time", b |-> FALSE, lo |-> 0, hi |-> 0, un |-> 1, ud |-> 1]
Disc(lo, hi) == [t |-> "Disc", lo |-> lo, hi |-> hi]
Comp(kind, subs, w) == [t |-> "C", k |-> kind, subs |-> subs, w |-> w]
Wrap(s) == [t |-> "W", sub |-> s]

(* SO3 states: v * 2^e, or (u) the exact unit vector in direction v; f marks a *)
(* result that is only required to be SOME rotation (degenerate input).        *)
Q(v, e) == [v |-> v, e |-> e, u |-> FALSE, f |-> FALSE]
QIdentity(free) == [v |-> <<0, 0, 0, 1>>, e |-> 0, u |-> FALSE, f |-> free]
NormSq(v) == v[1] * v[1] + v[2] * v[2] + v[3] * v[3] + v[4] * v[4]

(* ------------------------------------------------- transcription per space *)
(* RealVectorStateSpace::enforceBounds, one coordinate *)
Clamp(lo, hi, v) == IF v > hi THEN hi ELSE IF v < lo THEN lo ELSE v

(* C fmod on integers: magnitude |k| mod m, sign of k *)
Fmod(k, m) == IF k >= 0 THEN k % m ELSE -((-k) % m)
(* SO2StateSpace::enforceBounds in units of pi/N *)
WrapSO2(N, k) ==
    LET v == Fmod(k, 2 * N)
    IN  IF v < -N THEN v + 2 * N ELSE IF v >= N THEN v - 2 * N ELSE v

(* SO3StateSpace::enforceBounds: nrmsq < 1e-6 -> identity, else scale to unit *)
TinyQ(q) == \/ NormSq(q.v) = 0
            \/ q.e <= -16
            \/ q.e < 0 /\ q.e > -16 /\ NormSq(q.v) * 1000000 < Pow4(-q.e)
UnitQ(q) == q.u \/ (q.e <= 0 /\ q.e > -16 /\ NormSq(q.v) = Pow4(-q.e))
NormaliseSO3(q) ==
    IF UnitQ(q) THEN q
    ELSE IF TinyQ(q) THEN QIdentity(TRUE)
    ELSE [v |-> q.v, e |-> 0, u |-> TRUE, f |-> FALSE]

RECURSIVE Enforce(_, _)
Enforce(sp, s) ==
    CASE sp.t = "RV"   -> [i \in 1..Len(s) |-> Clamp(sp.lo[i], sp.hi[i], s[i])]
      [] sp.t = "SO2"  -> WrapSO2(sp.N, s)
      [] sp.t = "SO3"  -> NormaliseSO3(s)
      [] sp.t = "Time" -> IF sp.b THEN Clamp(sp.lo, sp.hi, s) ELSE s
      [] sp.t = "Disc" -> Clamp(sp.lo, sp.hi, s)
      [] sp.t = "C"    -> [i \in 1..Len(s) |-> Enforce(sp.subs[i], s[i])]
      [] sp.t = "W"    -> Enforce(sp.sub, s)

(* satisfiesBounds of the same files *)
RECURSIVE InBounds(_, _)
InBounds(sp, s) ==
    CASE sp.t = "RV"   -> \A i \in 1..Len(s) : sp.lo[i] <= s[i] /\ s[i] <= sp.hi[i]
      [] sp.t = "SO2"  -> -sp.N <= s /\ s < sp.N
      [] sp.t = "SO3"  -> UnitQ(s)
      [] sp.t = "Time" -> ~sp.b \/ (sp.lo <= s /\ s <= sp.hi)
      [] sp.t = "Disc" -> sp.lo <= s /\ s <= sp.hi
      [] sp.t = "C"    -> \A i \in 1..Len(s) : InBounds(sp.subs[i], s[i])
      [] sp.t = "W"    -> InBounds(sp.sub, s)

(* What the result means (contract level, not the branch structure of the code):  *)
(* the nearest in-bounds point of an interval, the same angle modulo 2 pi, the    *)
(* same rotation (unless the input is degenerate).                                *)
Nearest(lo, hi, v, r) ==
    /\ lo <= r /\ r <= hi
    /\ Abs(v - r) <= Abs(v - lo) /\ Abs(v - r) <= Abs(v - hi)
    /\ (lo <= v /\ v <= hi) => r = v
RECURSIVE Faithful(_, _, _)
Faithful(sp, s, r) ==
    CASE sp.t = "RV"   -> \A i \in 1..Len(s) : Nearest(sp.lo[i], sp.hi[i], s[i], r[i])
      [] sp.t = "SO2"  -> (s - r) % (2 * sp.N) = 0
      [] sp.t = "SO3"  -> r.f \/ (r.v = s.v /\ (r.u \/ r = s))
      [] sp.t = "Time" -> IF sp.b THEN Nearest(sp.lo, sp.hi, s, r) ELSE r = s
      [] sp.t = "Disc" -> Nearest(sp.lo, sp.hi, s, r)
      [] sp.t = "C"    -> \A i \in 1..Len(s) : Faithful(sp.subs[i], s[i], r[i])
      [] sp.t = "W"    -> Faithful(sp.sub, s, r)

(* ------------------------------------------------------------ input lattices *)
(* lvl 0: the corners of the case analysis; 1: + far away; 2: dense + far away *)
FarMul == {Ext, 10, 1000}
Axis(lo, hi, lvl) ==
    LET w == IF hi > lo THEN hi - lo ELSE 1
        corners == {lo - 1, lo, lo + 1, (lo + hi) \div 2, hi - 1, hi, hi + 1}
        far == UNION {{lo - m * w, hi + m * w} : m \in {mm \in FarMul : w * mm <= 1000000000}}
    IN  CASE lvl = 0 -> corners
          [] lvl = 1 -> corners \cup far
          [] OTHER   -> ((lo - Ext * w)..(hi + Ext * w)) \cup far

AnglesSO2(N, lvl) ==
    LET corners == {-3 * N, -2 * N, -N - 1, -N, -N + 1, 0, N - 1, N, N + 1, 2 * N, 3 * N}
        far == {-2001 * N, -2000 * N + 1, -201 * N, -200 * N - 1, -200 * N, 200 * N, 200 * N + 1,
                201 * N, 2000 * N - 1, 2001 * N}
    IN  CASE lvl = 0 -> corners
          [] lvl = 1 -> corners \cup far \cup {-5 * N, 5 * N, 4 * N - 1, -4 * N + 1}
          [] OTHER   -> ((-(2 * Periods + 1) * N)..((2 * Periods + 1) * N)) \cup far

Signs == {-1, 1}
Hurwitz2 ==   \* the 24 Hurwitz units, doubled
    {<<2 * s, 0, 0, 0>> : s \in Signs} \cup {<<0, 2 * s, 0, 0>> : s \in Signs} \cup
    {<<0, 0, 2 * s, 0>> : s \in Signs} \cup {<<0, 0, 0, 2 * s>> : s \in Signs} \cup
    {<<a, b, c, d>> : a \in Signs, b \in Signs, c \in Signs, d \in Signs}
Quats(lvl) ==
    LET few == {<<0, 0, 0, 2>>, <<0, 0, 0, -2>>, <<2, 0, 0, 0>>, <<1, 1, 1, 1>>, <<1, -1, 1, -1>>}
        odd == {<<1, 2, 3, 4>>, <<-3, 0, 4, 0>>, <<0, 0, 0, 0>>}
    IN  CASE lvl = 0 -> {Q(v, -1) : v \in few} \cup {Q(<<2, 0, 0, 0>>, 0), Q(<<1, -1, 1, -1>>, -3),
                                                     Q(<<0, 0, 0, 0>>, 0), Q(<<1, 2, 3, 4>>, 0),
                                                     Q(<<1, 1, 1, 1>>, -12)}
          [] lvl = 1 -> {Q(v, e) : v \in few \cup odd, e \in {-12, -9, -3, -1, 0, 2}}
          [] OTHER   -> {Q(v, e) : v \in Hurwitz2 \cup odd, e \in {-12, -10, -9, -3, -2, -1, 0, 1, 3, 10}}
(* magnitudes whose squared norm leaves the range of a double: 2^-600 (underflow *)
(* to zero) and 2^600 (overflow to infinity); finite states all the same         *)
QuatsExtreme(e) == {Q(v, e) : v \in {<<0, 0, 0, 2>>, <<1, 1, 1, 1>>, <<1, 2, 3, 4>>, <<-3, 0, 4, 0>>}}

RECURSIVE Prod(_)
Prod(sets) ==
    IF Len(sets) = 0 THEN {<<>>}
    ELSE {<<h>> \o tl : h \in Head(sets), tl \in Prod(Tail(sets))}

RECURSIVE Inputs(_, _)
Inputs(sp, lvl) ==
    CASE sp.t = "RV"   -> Prod([i \in 1..Len(sp.lo) |-> Axis(sp.lo[i], sp.hi[i], lvl)])
      [] sp.t = "SO2"  -> AnglesSO2(sp.N, lvl)
      [] sp.t = "SO3"  -> IF lvl = 8 THEN QuatsExtreme(-600) ELSE IF lvl = 9 THEN QuatsExtreme(600) ELSE Quats(lvl)
      [] sp.t = "Time" -> IF sp.b THEN Axis(sp.lo, sp.hi, lvl) ELSE {-1000000, -1, 0, 1, 1000000}
      [] sp.t = "Disc" -> Axis(sp.lo, sp.hi, lvl)
      [] sp.t = "C"    -> Prod([i \in 1..Len(sp.subs) |-> Inputs(sp.subs[i], lvl)])
      [] sp.t = "W"    -> Inputs(sp.sub, lvl)

(* ------------------------------------------------------------------ settings *)
(* bounds in quarter units: normal [-2, 3], zero width, negative range, and a   *)
(* huge range in whole units                                                    *)
D == IF Thorough THEN 2 ELSE 1    \* level used inside small products
S(name, sp, lvl) == [name |-> name, sp |-> sp, lvl |-> lvl]
RV1n == RV(<<-8>>, <<12>>, 1, 4)
RV2mixed == RV(<<-8, 5>>, <<12, 5>>, 1, 4)          \* second coordinate zero width
RV3n == RV(<<-8, -28, 0>>, <<12, -12, 4>>, 1, 4)    \* second coordinate negative range
Settings == <<
    S("RV1-normal",    RV1n, 2),
    S("RV1-zerowidth", RV(<<5>>, <<5>>, 1, 4), 2),
    S("RV1-zero00",    RV(<<0>>, <<0>>, 1, 1), 2),
    S("RV1-negative",  RV(<<-28>>, <<-12>>, 1, 4), 2),
    S("RV1-huge",      RV(<<-1000000>>, <<1000000>>, 1, 1), 1),
    S("RV1-hugeoffset", RV(<<999999>>, <<1000003>>, 1, 1), 2),
    S("RV2-normal",    RV(<<-8, -4>>, <<12, 4>>, 1, 4), D),
    S("RV2-mixed",     RV2mixed, D),
    S("RV3-mixed",     RV3n, IF Thorough THEN 1 ELSE 0),
    S("SO2-8",         SO2(8), 2),
    S("SO2-6",         SO2(6), 2),
    S("SO2-1",         SO2(1), 2),
    S("SO3",           SO3, 2),
    S("SO3-underflow", SO3, 8),
    S("SO3-overflow",  SO3, 9),
    S("Time-normal",   TimeB(-8, 12, 1, 4), 2),
    S("Time-zerowidth", TimeB(3, 3, 1, 2), 2),
    S("Time-negative", TimeB(-28, -12, 1, 4), 2),
    S("Time-huge",     TimeB(-1000000, 1000000, 1, 1), 1),
    S("Time-unbounded", TimeU, 2),
    S("Disc-normal",   Disc(0, 3), 2),
    S("Disc-single",   Disc(2, 2), 2),
    S("Disc-negative", Disc(-5, -2), 2),
    S("Disc-huge",     Disc(-1000000, 1000000), 1),
    S("SE2",           Comp("SE2", <<RV(<<-8, -4>>, <<12, 4>>, 1, 4), SO2(8)>>, <<1, 1>>), IF Thorough THEN 1 ELSE 0),
    S("SE2-zerowidth", Comp("SE2", <<RV2mixed, SO2(8)>>, <<1, 1>>), 0),
    S("SE3",           Comp("SE3", <<RV3n, SO3>>, <<1, 1>>), 0),
    S("Torus",         Comp("Torus", <<SO2(8), SO2(8)>>, <<1, 1>>), D),
    S("Sphere",        Comp("Sphere", <<SO2(8), RVpi(<<0>>, <<8>>, 8)>>, <<1, 1>>), D),
    S("Mobius",        Comp("Mobius", <<SO2(8), RV(<<-4>>, <<4>>, 1, 4)>>, <<1, 1>>), D),
    S("Klein",         Comp("Klein", <<RVpi(<<0>>, <<8>>, 8), SO2(8)>>, <<1, 1>>), D),
    S("Nested",        Comp("C", <<Comp("C", <<RV1n, SO2(8)>>, <<1, 3>>), Disc(0, 3), TimeB(-28, -12, 1, 4)>>,
                            <<2, 1, 4>>), 0),
    S("Nested-SO3",    Comp("C", <<SO3, Comp("C", <<SO2(8), TimeU>>, <<1, 1>>), RV(<<5>>, <<5>>, 1, 4)>>,
                            <<1, 2, 0>>), 0),
    S("Wrapper-SE2",   Wrap(Comp("SE2", <<RV(<<-8, -4>>, <<12, 4>>, 1, 4), SO2(8)>>, <<1, 1>>)), 0),
    S("Wrapper-SO2",   Wrap(SO2(8)), 2),
    S("Wrapper-RV1",   Wrap(RV1n), 1)
>>

Sp == Settings[sid].sp

(* ------------------------------------------------------------- state machine *)
Init == /\ sid \in 1..Len(Settings)
        /\ x \in Inputs(Settings[sid].sp, Settings[sid].lvl)
        /\ n = 0

EnforceStep == /\ n < 2
               /\ x' = Enforce(Sp, x)
               /\ n' = n + 1
               /\ UNCHANGED sid

Next == EnforceStep
Spec == Init /\ [][Next]_vars

(* --------------------------------------------------------------- the property *)
ResultInBounds == n >= 1 => InBounds(Sp, x)
NoOpInBounds == [][InBounds(Sp, x) => x' = x]_vars
Idempotent == [][n >= 1 => x' = x]_vars
ResultFaithful == [][n = 0 => Faithful(Sp, x, x')]_vars

(* ------------------------------------------------------------ scenario export *)
ASSUME PrintT(ToJson([settings |-> [i \in 1..Len(Settings) |->
                                     [sid |-> i, name |-> Settings[i].name, sp |-> Settings[i].sp]]]))
Dump == n = 0 => PrintT(ToJson([sid |-> sid, x |-> x, y |-> x', inb |-> InBounds(Sp, x)]))
==============================================================================
