SPECIFICATION TSpec
CONSTANTS
  TermIds = {0}
  MaxTerm = 7
  CntCap = 3
  MaxLen = 0
INVARIANT NotAccepted
CHECK_DEADLOCK FALSE
