--------------------------- MODULE MotionCheckTrace ---------------------------
(* Trace validation (impl -> spec) of recorded motion checks against the       *)
(* contract of MotionContract.  Used for motions the exact model cannot place  *)
(* on an integer lattice: random curved Dubins / Reeds-Shepp pose pairs (and   *)
(* random SE(2) pairs) under random validity predicates.  One line per motion: *)
(*   nd      the space's validSegmentCount for the pair                        *)
(*   valid   the lattice points in 1..nd the recorded predicate accepts        *)
(*   lin     checkMotion(s1,s2,lastValid): r verdict, q lattice points handed  *)
(*           to the validity checker in order (-1 = a state that is not a      *)
(*           lattice point), last = lastValid.second * nd (-1 untouched, -2 not *)
(*           a lattice fraction), st = 0 storage untouched / 1 equals the      *)
(*           interpolation at the reported fraction / 2 anything else          *)
(*   bis     checkMotion(s1,s2): r, q                                          *)
(* The projection (nearest lattice point of a queried state) is the harness's; *)
(* which combinations are admissible is decided here.                          *)
EXTENDS MotionContract, TraceIO

VARIABLE l
tvars == <<l>>

Ev == Log[l]
Is(e) == l <= NLog /\ Ev.e = e /\ l' = l + 1

FormOk(nd, V, f) ==
    /\ SeqToSet(f.q) \subseteq Consultable(nd)              \* NoIndexOutside
    /\ f.r = Verdict(nd, V)
    /\ f.r => Points(nd) \subseteq SeqToSet(f.q)            \* "valid" only after asking everywhere

TInit == l = 1
TReset == Is("Reset")
TMotion ==
    /\ Is("Motion")
    /\ LET nd == Ev.nd
           V  == SeqToSet(Ev.valid)
       IN  /\ nd >= 0 /\ V \subseteq Points(nd)
           /\ FormOk(nd, V, Ev.lin) /\ FormOk(nd, V, Ev.bis)
           /\ Ev.lin.r = Ev.bis.r                              \* both forms agree
           /\ ReportOk(nd, V, Ev.lin.r, IF Ev.lin.last = -1 THEN Untouched ELSE Ev.lin.last)
           /\ Ev.lin.st = (IF Ev.lin.r THEN 0 ELSE 1)

TNext == TReset \/ TMotion
TSpec == TInit /\ [][TNext]_tvars
NotAccepted == l <= NLog
==============================================================================
