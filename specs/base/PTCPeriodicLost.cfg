\* the seeded lost-update variant: TLC MUST report TerminateSticky violated (vacuity gate)
SPECIFICATION Spec
CONSTANTS
  Periods = {1, 2}
  Durations = {1}
  Variant = "lost"
PROPERTY TerminateSticky
