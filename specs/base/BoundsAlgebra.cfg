SPECIFICATION Spec
CONSTANTS
  Ext = 3
  Periods = 2
  Thorough = FALSE
INVARIANT ResultInBounds
PROPERTIES NoOpInBounds Idempotent ResultFaithful
ACTION_CONSTRAINT Dump
