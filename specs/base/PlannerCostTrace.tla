--------------------------- MODULE PlannerCostTrace ---------------------------
(* impl -> spec for the planner half of C04.  An execution is a sequence of     *)
(* continued solve() calls of one optimizing planner on one query under one     *)
(* objective; after each call the harness records, for every solution the       *)
(* definition holds, the stored cost, the cost recomputed from the path with    *)
(* PathGeometric::cost under the same objective, the admissible lower bound of  *)
(* the query, the optimized flag and whether the stored cost satisfies the      *)
(* objective's threshold (all in micro-units; sense = +1 minimise, -1 maximise).*)
(* Failed clauses are printed; the cursor always advances.                      *)
EXTENDS Naturals, Integers, Sequences, FiniteSets, TLC, TraceIO

VARIABLES l, best, hasBest, exactCost, nsol
tvars == <<l, best, hasBest, exactCost, nsol>>
Ev == Log[l]
Is(e) == l <= NLog /\ Ev.e = e /\ l' = l + 1
AbsI(x) == IF x < 0 THEN -x ELSE x
Tol(v) == 40 + AbsI(v) \div 100000      \* 4e-5 absolute + 1e-5 relative
Report(failed) == IF failed = {} THEN TRUE ELSE PrintT(ToJson([line |-> l, failed |-> failed]))
SolutionStatuses == {"EXACT", "APPROXIMATE"}

Judged(s) == s.hasObj /\ s.sameObj /\ s.n >= 1
SolClauses == {"storedNotBetterThanTrue", "storedEqualsTrue", "trueNotBetterThanLowerBound",
               "optimizedIffThresholdMet", "lengthFieldIsPathLength"}
SolClause(c, r, s) ==
    CASE c = "storedNotBetterThanTrue" -> (Judged(s) => r.sense * (s.stored - s.true) >= -Tol(s.true))
      [] c = "storedEqualsTrue" -> (Judged(s) /\ exactCost => AbsI(s.stored - s.true) <= Tol(s.true))
      [] c = "trueNotBetterThanLowerBound" ->
             (s.n >= 1 /\ ~s.approx => r.sense * (s.true - r.lb) >= -Tol(s.true))
      [] c = "optimizedIffThresholdMet" -> (Judged(s) /\ ~s.approx => (s.optimized <=> s.satisfies))
      [] c = "lengthFieldIsPathLength" -> (s.n >= 1 => AbsI(s.len - s.reallen) <= Tol(s.len))
FailedSol(r, s) == {c \in SolClauses : ~SolClause(c, r, s)}

ExactStored(r) == {r.sols[i].stored : i \in {j \in 1..Len(r.sols) : Judged(r.sols[j]) /\ ~r.sols[j].approx}}
BestOf(r) == IF r.sense = 1 THEN CHOOSE m \in ExactStored(r) : \A x \in ExactStored(r) : m <= x
             ELSE CHOOSE m \in ExactStored(r) : \A x \in ExactStored(r) : m >= x
(* solutions this call added (exact, judged): what the planner has just reported *)
AddedStored(r) == {r.sols[i].stored : i \in {j \in 1..Len(r.sols) : Judged(r.sols[j]) /\ ~r.sols[j].approx /\ r.sols[j].added}}
CallClauses == {"noSolutionLost", "bestStoredCostNeverWorse", "nonSolutionAddsNothing", "solutionStatusHasPath",
                "bestFirst", "incumbentNotWorseThanReported"}
CallClause(c, r) ==
    CASE c = "noSolutionLost" -> Len(r.sols) >= nsol
      [] c = "bestStoredCostNeverWorse" ->
             (hasBest /\ ExactStored(r) # {} => r.sense * (BestOf(r) - best) <= Tol(best))
      [] c = "nonSolutionAddsNothing" -> (r.status \notin SolutionStatuses => Len(r.sols) = nsol)
      [] c = "solutionStatusHasPath" -> (r.status \in SolutionStatuses => Len(r.sols) >= 1)
      (* "planners keep the incumbent cost and replace it only by a strictly better one": the incumbent the planner   *)
      (* publishes (progress property 'best cost') is never worse than a solution cost it has just reported          *)
      [] c = "incumbentNotWorseThanReported" ->
             (r.hasBestProp => \A x \in AddedStored(r) : r.sense * (r.bestProp - x) <= Tol(x))
      (* the definition hands out the best solution first: exact before approximate; among exact *)
      (* ones sharing the objective an objective-satisfying one first, then the better cost      *)
      [] c = "bestFirst" ->
             (Len(r.sols) >= 1 =>
                 /\ (r.sols[1].approx => \A i \in 1..Len(r.sols) : r.sols[i].approx)
                 /\ (Judged(r.sols[1]) /\ ~r.sols[1].approx =>
                        \A i \in 1..Len(r.sols) :
                            (Judged(r.sols[i]) /\ ~r.sols[i].approx) =>
                                /\ (r.sols[i].optimized => r.sols[1].optimized)
                                /\ (r.sols[i].optimized = r.sols[1].optimized =>
                                        r.sense * (r.sols[1].stored - r.sols[i].stored) <= 0)))
Failed(r) == {c \in CallClauses : ~CallClause(c, r)} \cup UNION {FailedSol(r, r.sols[i]) : i \in 1..Len(r.sols)}

TInit == l = 1 /\ best = 0 /\ hasBest = FALSE /\ exactCost = FALSE /\ nsol = 0
TReset == Is("Reset") /\ best' = 0 /\ hasBest' = FALSE /\ exactCost' = Ev.exactCost /\ nsol' = 0
TSolve == /\ Is("CostSolve")
          /\ Report(Failed(Ev))
          /\ nsol' = Len(Ev.sols)
          /\ IF ExactStored(Ev) # {} THEN hasBest' = TRUE /\ best' = BestOf(Ev)
             ELSE UNCHANGED <<hasBest, best>>
          /\ UNCHANGED exactCost
(* clearQuery() + a new query on the same planner instance and definition (solutions cleared by the user) *)
TRequery == Is("Requery") /\ best' = 0 /\ hasBest' = FALSE /\ nsol' = 0 /\ UNCHANGED exactCost
TBad == /\ l <= NLog /\ Ev.e \in {"Hang", "Crash"} /\ l' = l + 1
        /\ Report({Ev.e}) /\ UNCHANGED <<best, hasBest, exactCost, nsol>>
TNext == TReset \/ TSolve \/ TRequery \/ TBad
TSpec == TInit /\ [][TNext]_tvars
NotAccepted == l <= NLog
===============================================================================
