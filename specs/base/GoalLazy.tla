------------------------------- MODULE GoalLazy -------------------------------
(* Two-process model of lazy goal sampling (property C03, growth item 7.3):    *)
(*   S  the sampling thread of ompl::base::GoalLazySamples                     *)
(*      (goalSamplingThread, addStateIfDifferent),                              *)
(*   P  the planner thread inside PlannerInputStates::nextGoal(ptc), which     *)
(*      polls: it WAITS (sleep, re-check) while the goal could still produce a *)
(*      sample, it has no new one and ptc is false,                             *)
(*   U  the user thread calling stopSampling() (flag, then join),              *)
(* plus the environment firing the termination condition.  Transcribed from   *)
(* src/ompl/base/goals/src/GoalLazySamples.cpp and Planner.cpp; every method   *)
(* of GoalLazySamples that touches the state list takes lock_, modelled by    *)
(* `lock`; one step = one critical section or one unlocked read.               *)
(*                                                                             *)
(* Safety: the list never holds two states closer than minDist (ids are       *)
(* positions, MinDist an integer threshold); the planner never draws more     *)
(* samples than maxSampleCount(); every access to the list happens under the  *)
(* lock and never while the vector is being grown; a null return happens only *)
(* when ptc fired or sampling ended; stopSampling() returns only after the    *)
(* thread ended.  Liveness under weak fairness of the three threads: a call   *)
(* returns, unless it is in the one documented waiting state (sampling over,  *)
(* every goal of a non-empty list consumed, ptc still false) - in particular  *)
(* there is no infinite wait when the sampler stops without having produced,  *)
(* and no sample is lost.                                                      *)
(*                                                                             *)
(* Two switches describe defective variants, used as negative controls:       *)
(*   Recheck = FALSE   nextGoal does not loop after the sleep (attempt=false), *)
(*   LockedReads = FALSE   the planner reads the list without taking lock_.    *)
EXTENDS Naturals, Sequences, FiniteSets, TLC

CONSTANTS Ids,          \* positions the sample function may produce (integers)
          MinDist,      \* a candidate is added iff every listed state is farther than MinDist
          MaxSamples,   \* bound on calls of the sample function
          MaxCalls,     \* bound on nextGoal(ptc) calls of the planner
          AllowStop,    \* the user may call stopSampling()
          Recheck, LockedReads

VARIABLES lock,       \* "free" | "S" | "P" | "U"
          states,     \* GoalStates::states_: Seq(Ids)
          growing,    \* TRUE between the two halves of vector::push_back (reallocation)
          terminate,  \* terminateSamplingThread_
          thread,     \* samplingThread_ # nullptr
          nsamp,      \* calls of the sample function so far
          cand,       \* the candidate the sample function produced: [id, valid] or <<>>
          pcS, pcP, pcU,
          ptc,        \* the termination condition (monotone)
          sampled,    \* sampledGoalsCount_
          gpos,       \* samplePosition_
          ncall,      \* nextGoal calls started
          rdN, rdSampling, \* what P read last: maxSampleCount(), isSampling()
          ret,        \* result of the last finished call: 0 = null, else the id
          bad,        \* ghost: set of contract clauses broken so far
          racy        \* ghost: samplingThread_ was written (unlocked, by stopSampling) while the
                      \* planner was inside isSampling()'s critical section reading it
vars == <<lock, states, growing, terminate, thread, nsamp, cand, pcS, pcP, pcU, ptc, sampled, gpos,
          ncall, rdN, rdSampling, ret, bad, racy>>

Sampling == ~terminate /\ thread          \* isSampling(), evaluated under the lock
Abs(x, y) == IF x >= y THEN x - y ELSE y - x
Different(id) == \A i \in 1..Len(states) : Abs(states[i], id) > MinDist

Init == /\ lock = "free" /\ states = <<>> /\ growing = FALSE
        /\ terminate = FALSE /\ thread = TRUE        \* startSampling() done: autoStart
        /\ nsamp = 0 /\ cand = <<>>
        /\ pcS = "sync" /\ pcP = "idle" /\ pcU = "idle"
        /\ ptc = FALSE /\ sampled = 0 /\ gpos = 0 /\ ncall = 0
        /\ rdN = 0 /\ rdSampling = FALSE /\ ret = 0 /\ bad = {} /\ racy = FALSE

(* ------------------------------ sampling thread ------------------------------ *)
(* { lock_guard } : wait for startSampling() to finish *)
S_Sync == /\ pcS = "sync" /\ lock = "free"
          /\ pcS' = "head"
          /\ UNCHANGED <<lock, states, growing, terminate, thread, nsamp, cand, pcP, pcU, ptc, sampled, gpos, ncall, rdN, rdSampling, ret, bad, racy>>
(* while (isSampling() && ...) : one critical section *)
S_Head == /\ pcS = "head" /\ lock = "free"
          /\ pcS' = IF Sampling THEN "fn" ELSE "exit"
          /\ UNCHANGED <<lock, states, growing, terminate, thread, nsamp, cand, pcP, pcU, ptc, sampled, gpos, ncall, rdN, rdSampling, ret, bad, racy>>
(* samplerFunc_(this, s): user code, no lock held; returns false => leave the loop *)
S_Fn(id, valid, more) ==
    /\ pcS = "fn"
    /\ (nsamp >= MaxSamples => ~more)
    /\ nsamp' = nsamp + 1
    /\ IF more THEN cand' = [id |-> id, valid |-> valid] /\ pcS' = "add"
               ELSE cand' = <<>> /\ pcS' = "exit"
    /\ UNCHANGED <<lock, states, growing, terminate, thread, pcP, pcU, ptc, sampled, gpos, ncall, rdN, rdSampling, ret, bad, racy>>
(* addStateIfDifferent(): lock; if (distanceGoal(st) > minDistance) states_.push_back(clone) *)
S_AddLock ==
    /\ pcS = "add"
    /\ IF ~cand.valid THEN pcS' = "head" /\ UNCHANGED <<lock, growing>>
       ELSE /\ lock = "free"
            /\ IF Different(cand.id) THEN lock' = "S" /\ growing' = TRUE /\ pcS' = "push"
                                     ELSE pcS' = "head" /\ UNCHANGED <<lock, growing>>
    /\ UNCHANGED <<states, terminate, thread, nsamp, cand, pcP, pcU, ptc, sampled, gpos, ncall, rdN, rdSampling, ret, bad, racy>>
S_Push ==
    /\ pcS = "push"
    /\ states' = Append(states, cand.id) /\ growing' = FALSE /\ lock' = "free" /\ pcS' = "head"
    /\ UNCHANGED <<terminate, thread, nsamp, cand, pcP, pcU, ptc, sampled, gpos, ncall, rdN, rdSampling, ret, bad, racy>>
(* after the loop: { lock_guard; terminateSamplingThread_ = true; } *)
S_Exit == /\ pcS = "exit" /\ lock = "free"
          /\ terminate' = TRUE /\ pcS' = "done"
          /\ UNCHANGED <<lock, states, growing, thread, nsamp, cand, pcP, pcU, ptc, sampled, gpos, ncall, rdN, rdSampling, ret, bad, racy>>
SNext == S_Sync \/ S_Head \/ S_AddLock \/ S_Push \/ S_Exit
         \/ \E id \in Ids, valid \in BOOLEAN, more \in BOOLEAN : S_Fn(id, valid, more)

(* ------------------------------ planner thread ------------------------------ *)
(* Every GoalLazySamples method the planner calls is one critical section: acquire lock_,  *)
(* body, release.  In the defective variant LockedReads = FALSE the list reads skip the   *)
(* lock (isSampling() keeps it).                                                           *)
PKeep == UNCHANGED <<states, growing, terminate, thread, nsamp, cand, pcS, pcU, ptc, racy>>
P_Acquire ==
    /\ pcP \in {"loop", "draw", "could", "could2"}
    /\ IF LockedReads \/ pcP = "could2" THEN lock = "free" /\ lock' = "P" ELSE UNCHANGED lock
    /\ pcP' = [loop |-> "loopB", draw |-> "drawB", could |-> "couldB", could2 |-> "could2B"][pcP]
    /\ PKeep /\ UNCHANGED <<sampled, gpos, ncall, rdN, rdSampling, ret, bad>>
Release == lock' = IF lock = "P" THEN "free" ELSE lock
ReadCheck == bad' = bad \cup (IF lock # "P" THEN {"unlocked"} ELSE {}) \cup (IF growing THEN {"torn"} ELSE {})

P_Call == /\ pcP = "idle" /\ ncall < MaxCalls
          /\ ncall' = ncall + 1 /\ pcP' = "loop"
          /\ PKeep /\ UNCHANGED <<lock, sampled, gpos, rdN, rdSampling, ret, bad>>
(* if (sampledGoalsCount_ < goal->maxSampleCount() && goal->canSample()) *)
P_Loop == /\ pcP = "loopB"
          /\ rdN' = Len(states) /\ ReadCheck /\ Release
          /\ pcP' = IF sampled < Len(states) THEN "draw" ELSE "could"
          /\ PKeep /\ UNCHANGED <<sampled, gpos, ncall, rdSampling, ret>>
(* goal->sampleGoal(tempState_); ++sampledGoalsCount_; the list holds valid states only: return *)
P_Draw == /\ pcP = "drawB"
          /\ ReadCheck /\ Release
          /\ ret' = states[(gpos % Len(states)) + 1]
          /\ gpos' = gpos + 1 /\ sampled' = sampled + 1
          /\ pcP' = "idle"
          /\ PKeep /\ UNCHANGED <<ncall, rdN, rdSampling>>
(* if (goal->couldSample() && !ptc): couldSample = canSample() || isSampling(), two critical sections *)
P_Could1 == /\ pcP = "couldB"
            /\ rdN' = Len(states) /\ ReadCheck /\ Release
            /\ pcP' = IF Len(states) > 0 THEN "ptc1" ELSE "could2"
            /\ rdSampling' = FALSE
            /\ PKeep /\ UNCHANGED <<sampled, gpos, ncall, ret>>
P_Could2 == /\ pcP = "could2B"
            /\ rdSampling' = Sampling /\ Release
            /\ pcP' = IF Sampling THEN "ptc1" ELSE "null"
            /\ PKeep /\ UNCHANGED <<sampled, gpos, ncall, rdN, ret, bad>>
P_Ptc1 == /\ pcP = "ptc1"
          /\ pcP' = IF ptc THEN "null" ELSE "sleep"
          /\ PKeep /\ UNCHANGED <<lock, sampled, gpos, ncall, rdN, rdSampling, ret, bad>>
(* sleep_for(0.01); attempt = !ptc; *)
P_Sleep == /\ pcP = "sleep"
           /\ pcP' = IF Recheck /\ ~ptc THEN "loop" ELSE "null"
           /\ PKeep /\ UNCHANGED <<lock, sampled, gpos, ncall, rdN, rdSampling, ret, bad>>
(* return nullptr: contract - only when ptc fired or sampling is over *)
P_Null == /\ pcP = "null"
          /\ ret' = 0 /\ pcP' = "idle"
          /\ bad' = bad \cup (IF ~ptc /\ Sampling THEN {"null"} ELSE {})
          /\ PKeep /\ UNCHANGED <<lock, sampled, gpos, ncall, rdN, rdSampling>>
PNext == P_Call \/ P_Acquire \/ P_Loop \/ P_Draw \/ P_Could1 \/ P_Could2 \/ P_Ptc1 \/ P_Sleep \/ P_Null

(* ------------------------------ user thread: stopSampling() ------------------------------ *)
U_Flag == /\ AllowStop /\ pcU = "idle" /\ lock = "free"
          /\ terminate' = TRUE /\ pcU' = "join"
          /\ UNCHANGED <<lock, states, growing, thread, nsamp, cand, pcS, pcP, ptc, sampled, gpos, ncall, rdN, rdSampling, ret, bad, racy>>
(* samplingThread_->join(); delete; samplingThread_ = nullptr  (this write is NOT under lock_) *)
U_Join == /\ pcU = "join" /\ pcS = "done"
          /\ thread' = FALSE /\ pcU' = "done"
          /\ racy' = (racy \/ (lock = "P" /\ pcP = "could2B"))
          /\ UNCHANGED <<lock, states, growing, terminate, nsamp, cand, pcS, pcP, ptc, sampled, gpos, ncall, rdN, rdSampling, ret, bad>>
UNext == U_Flag \/ U_Join

PtcFire == /\ ~ptc /\ ptc' = TRUE
           /\ UNCHANGED <<lock, states, growing, terminate, thread, nsamp, cand, pcS, pcP, pcU, sampled, gpos, ncall, rdN, rdSampling, ret, bad, racy>>

Next == SNext \/ PNext \/ UNext \/ PtcFire
(* Fairness: each thread keeps running, and a thread that finds the mutex free again and    *)
(* again eventually gets it (strong fairness: the planner releases lock_ for a 10 ms sleep  *)
(* in every round of its polling loop).  The termination condition is NOT fair: it may      *)
(* never fire.                                                                              *)
Spec == Init /\ [][Next]_vars /\ SF_vars(SNext) /\ SF_vars(PNext) /\ SF_vars(UNext)

(* ---------------------------------- safety ---------------------------------- *)
TypeOK == /\ lock \in {"free", "S", "P", "U"} /\ pcS \in {"sync", "head", "fn", "add", "push", "exit", "done"}
          /\ pcP \in {"idle", "loop", "loopB", "draw", "drawB", "could", "couldB", "could2", "could2B", "ptc1", "sleep", "null"}
          /\ pcU \in {"idle", "join", "done"}
OnlyDifferent == \A i, j \in 1..Len(states) : i # j => Abs(states[i], states[j]) > MinDist
MaxSampleRespected == sampled <= Len(states) /\ (pcP \in {"draw", "drawB"} => sampled < Len(states))
ContractKept == bad = {}
StopJoins == pcU = "done" => pcS = "done" /\ ~Sampling
LockExclusive == /\ (lock = "S") = (pcS = "push")
                 /\ (lock = "P") => pcP \in {"loopB", "drawB", "couldB", "could2B"}
(* design note, NOT part of the contract: the faithful model violates this one, because        *)
(* stopSampling() clears samplingThread_ after the join without holding lock_ while            *)
(* isSampling() reads it under lock_ - a formal data race on a pointer-sized field.            *)
NoThreadPtrRace == ~racy
(* every returned goal was produced (is in the list), each at most once (no restart here) *)
ReturnedWasProduced == ret # 0 => \E i \in 1..Len(states) : states[i] = ret

(* ---------------------------------- liveness ---------------------------------- *)
LegitWait == ~ptc /\ ~Sampling /\ Len(states) > 0 /\ sampled >= Len(states)
CallReturns == [](pcP # "idle" => <>(pcP = "idle" \/ LegitWait))
PtcEndsCall == []((pcP # "idle" /\ ptc) => <>(pcP = "idle"))
SamplerEnds == <>(pcS = "done")
(* the sampler stopped without producing: the waiting call comes back with null, ptc or not *)
NoWaitOnEmpty == []((pcP # "idle" /\ pcS = "done" /\ states = <<>>) => <>(pcP = "idle"))
(* a produced sample is not lost: a waiting planner picks it up *)
NoLostSample == []((pcP # "idle" /\ sampled < Len(states)) => <>(pcP = "idle"))
(* the five in one formula (cheaper for TLC: one tableau) *)
Live == /\ [](pcP # "idle" => <>(pcP = "idle" \/ LegitWait))
        /\ []((pcP # "idle" /\ (ptc \/ (pcS = "done" /\ states = <<>>) \/ sampled < Len(states))) => <>(pcP = "idle"))
        /\ <>(pcS = "done")
==============================================================================
