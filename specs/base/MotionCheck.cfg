SPECIFICATION Spec
CONSTANTS
  N = 6
INVARIANTS NoIndexOutside NeverTwice Shape FormsAgree VerdictCorrect LastValidCorrect CountersCorrect
  BisectVisitsEachOnce LinearVisitsInOrder LinearStopsAtFirst ListCorrect ListVisitsEachOnce ListNoCounters
  EmitCase
