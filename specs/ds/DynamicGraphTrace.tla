-------------------------- MODULE DynamicGraphTrace --------------------------
(* Trace validation of histories recorded from the real DynamicSSSP,           *)
(* LPAstarOnGraph and AdjacencyList (harness/sssp.cpp record / scenario)       *)
(* against the contract DynamicGraph.  One line = one operation with its       *)
(* arguments and every answer the real object gave afterwards; a "Setup" line  *)
(* starts a new history (fresh object of the kind it names).                   *)
(*                                                                             *)
(* Report-and-advance: the effect of an operation on the abstract graph is a   *)
(* function of its arguments, so the cursor always advances; the answers of    *)
(* the line are judged against the contract's observers on the successor       *)
(* state, and a line with broken clauses is REPORTED                           *)
(*     {"reject": line, "e": operation, "k": kind, "broken": [clause, ...]}     *)
(* instead of stopping the validation, so one defect does not hide the rest of *)
(* the file.  Reaching the end is signalled by the violation of NotAccepted;   *)
(* a line no action understands (e.g. the crash handler's {"e":"Crash"}) stops *)
(* the cursor.  Clause names are the finding kinds of the replay judge.        *)
EXTENDS DynamicGraph, TraceIO

VARIABLES l,      \* cursor
          kind,   \* kind of the current history
          src, tgt, hh   \* lpa: source, target, heuristic values (sequence, vertex id + 1)

tvars == <<nv, wt, up, removed, lastAct, l, kind, src, tgt, hh>>

Cur == [nv |-> nv, wt |-> wt, removed |-> removed, kind |-> kind, src |-> src, tgt |-> tgt, hh |-> hh]

Pair(ev) == <<ev.u, ev.v>>
RECURSIVE SeqOfSet2(_)
SeqOfSet2(S) == IF S = {} THEN <<>> ELSE LET x == CHOOSE y \in S : TRUE IN <<x>> \o SeqOfSet2(S \ {x})
InV(st, x) == x \in Verts(st.nv)
SetOfSeq(s) == {s[i] : i \in 1..Len(s)}

(* ------------------------- effect of a line on the abstract state ------------------------- *)
After(st, ev) ==
    CASE ev.e = "Setup" ->
            [nv |-> ev.n, wt |-> NoArcs, removed |-> FALSE, kind |-> ev.k, src |-> ev.s, tgt |-> ev.t, hh |-> ev.h]
      [] ev.e = "AddVertex" ->
            [st EXCEPT !.nv = @ + 1, !.hh = IF Has(ev, "h") THEN Append(@, ev.h) ELSE @]
      [] ev.e = "AddArc" -> [st EXCEPT !.wt = WithArc(@, ev.u, ev.v, ev.c)]
      [] ev.e = "RemoveArc" -> [st EXCEPT !.wt = Without(@, {<<ev.u, ev.v>>})]
      [] ev.e = "AddEdge" -> [st EXCEPT !.wt = WithArc(WithArc(@, ev.u, ev.v, ev.c), ev.v, ev.u, ev.c)]
      [] ev.e = "RemoveEdge" -> [st EXCEPT !.wt = Without(@, {<<ev.u, ev.v>>, <<ev.v, ev.u>>})]
      [] ev.e = "Compute" -> st
      [] ev.e = "AdjAddEdge" ->
            IF ev.u # ev.v /\ Pair(ev) \notin Arcs(st.wt)
            THEN [st EXCEPT !.wt = WithArc(WithArc(@, ev.u, ev.v, ev.c), ev.v, ev.u, ev.c)] ELSE st
      [] ev.e = "AdjRemoveEdge" ->
            [st EXCEPT !.wt = Without(@, {<<ev.u, ev.v>>, <<ev.v, ev.u>>}),
                       !.removed = @ \/ Pair(ev) \in Arcs(st.wt)]
      [] ev.e = "AdjSetWeight" ->
            IF Pair(ev) \in Arcs(st.wt)
            THEN [st EXCEPT !.wt = [@ EXCEPT ![<<ev.u, ev.v>>] = ev.c, ![<<ev.v, ev.u>>] = ev.c]] ELSE st
      [] ev.e = "Clear" -> [st EXCEPT !.nv = 0, !.wt = NoArcs, !.removed = FALSE]

Known == {"Setup", "AddVertex", "AddArc", "RemoveArc", "AddEdge", "RemoveEdge", "Compute",
          "AdjAddEdge", "AdjRemoveEdge", "AdjSetWeight", "Clear"}

(* the recorder must stay inside the documented preconditions; a line outside them is a     *)
(* defect of the harness, reported under "assumption:..." (the check treats it as machinery) *)
Assumed(st, ev) ==
    (IF ev.e \in {"AddArc", "RemoveArc", "AddEdge", "RemoveEdge", "AdjAddEdge", "AdjRemoveEdge", "AdjSetWeight"}
        /\ ~(InV(st, ev.u) /\ InV(st, ev.v))
     THEN {"assumption:vertex-exists"} ELSE {})
    \cup
    (IF ev.e \in {"AddEdge", "AddArc"} /\ st.kind \in {"lpa", "lpad"} /\ InV(st, ev.u) /\ InV(st, ev.v)
     THEN (IF Pair(ev) \in Arcs(st.wt) THEN {"assumption:edge-absent"} ELSE {})
          \cup (IF st.hh[ev.u + 1] > ev.c + st.hh[ev.v + 1]
                   \/ (ev.e = "AddEdge" /\ st.hh[ev.v + 1] > ev.c + st.hh[ev.u + 1])
                THEN {"assumption:consistent-heuristic"} ELSE {})
          \cup (IF ev.c < 1 THEN {"assumption:positive-weight"} ELSE {})
     ELSE {})
    \cup
    (IF ev.e = "AddArc" /\ st.kind = "sssp" /\ ev.c < 1 THEN {"assumption:positive-weight"} ELSE {})
    \cup
    (IF ev.e = "Setup" /\ ev.k \in {"lpa", "lpad"} /\ (ev.s = ev.t \/ ev.h[ev.t + 1] # 0)
     THEN {"assumption:target-heuristic-zero"} ELSE {})

(* ------------------------------ judging the answers ------------------------------ *)
CostClause(got, want) ==
    IF got = want THEN {}
    ELSE IF want = -1 THEN {"finite-though-unreachable"}
    ELSE IF got = -1 THEN {"inf-though-reachable"}
    ELSE IF got < 0 THEN {"garbage"}
    ELSE IF got < want THEN {"too-low"} ELSE {"too-high"}

(* DynamicSSSP: before = state in front of the line *)
SsspBroken(before, st, ev) ==
    LET n == st.nv
        d == DistFrom(st.wt, n, 0)
        d0 == DistFrom(before.wt, before.nv, 0)
        affS == IF Has(ev, "aff") THEN SetOfSeq(ev.aff) ELSE {}
        chg == {u \in Verts(n) \cap Verts(before.nv) : d[u] # d0[u] /\ d[u] < INF}
    IN  IF Len(ev.dist) # n \/ Len(ev.par) # n THEN {"vertex-count"}
        ELSE UNION {{"cost-" \o c : c \in CostClause(ev.dist[u + 1], Out(d[u]))} : u \in Verts(n)}
             \cup (IF n > 0 /\ ev.dist[1] = 0 /\ ev.par[1] # -1 THEN {"source-has-parent"} ELSE {})
             \cup (IF \E u \in Verts(n) \ {0} : /\ d[u] < INF /\ ev.dist[u + 1] = d[u]
                                               /\ ev.par[u + 1] \notin AdmParents(st.wt, n, d, u)
                   THEN {"parent-not-on-a-shortest-path"} ELSE {})
             \cup (IF Has(ev, "aff")
                   THEN (IF ev.kept # 1 THEN {"affected-list-rewritten"} ELSE {})
                        \cup (IF ev.col = 0 /\ ev.aff # <<>> THEN {"affected-listed-without-collect"} ELSE {})
                        \cup (IF ev.col = 1 /\ ~(affS \subseteq Verts(n)) THEN {"affected-invalid-id"} ELSE {})
                        \cup (IF ev.col = 1 /\ ~(chg \subseteq affS) THEN {"affected-misses-changed-vertex"} ELSE {})
                   ELSE {})

(* LPAstarOnGraph::computeShortestPath *)
PathSeq(ev) == ev.path
LpaBroken(st, ev) ==
    LET d == DistFrom(st.wt, st.nv, st.src)[st.tgt]
        want == Out(d)
        p == ev.path
    IN  IF Has(ev, "endless") THEN {"endless-loop"}    \* the call had to be broken off by the harness
        ELSE IF ev.cost # want
        THEN IF want # -1 /\ ev.cost = -1
             THEN (IF ev.gt = want THEN {"inf-but-reachable:g(target)-is-right"} ELSE {"inf-but-reachable"})
             ELSE IF want = -1 THEN {"finite-though-unreachable"}
             ELSE IF ev.cost < 0 THEN {"garbage"}
             ELSE IF ev.cost < want THEN {"cost-too-low"} ELSE {"cost-too-high"}
        ELSE IF want = -1 THEN (IF p # <<>> THEN {"path-though-unreachable"} ELSE {})
        ELSE IF p = <<>> \/ p[1] # st.src \/ p[Len(p)] # st.tgt THEN {"path-endpoints"}
        ELSE IF ~IsPath(st.wt, st.nv, p) THEN {"path-uses-missing-edge"}
        ELSE IF PathCost(st.wt, p) # want THEN {"path-cost-differs"}
        ELSE IF ev.gt # want THEN {"g(target)-differs"} ELSE {}

(* AdjacencyList: one clause set per query record of the line *)
Nbrs(st, v) == {u \in Verts(st.nv) : <<v, u>> \in Arcs(st.wt)}
QueryBroken(st, qr) ==
    LET n == st.nv
        G == st.wt
    IN  CASE qr.q = "exists" ->
               LET has == <<qr.u, qr.v>> \in Arcs(G)
               IN  (IF qr.r # (IF has THEN 1 ELSE 0) THEN {"edgeExists"} ELSE {})
                   \cup (IF has THEN (IF qr.threw # 0 \/ qr.w # G[<<qr.u, qr.v>>] THEN {"getEdgeWeight"} ELSE {})
                         ELSE (IF qr.threw # 1 THEN {"getEdgeWeight"} ELSE {}))
          [] qr.q = "nbrs" ->
               IF /\ qr.n = Cardinality(Nbrs(st, qr.v)) /\ Len(qr.l) = qr.n /\ Len(qr.lw) = qr.n
                  /\ SetOfSeq(qr.l) = Nbrs(st, qr.v)
                  /\ {<<qr.lw[i][1], qr.lw[i][2]>> : i \in 1..Len(qr.lw)} = {<<u, G[<<qr.v, u>>]>> : u \in Nbrs(st, qr.v)}
               THEN {} ELSE {"neighbors"}
          [] qr.q = "sssp" ->
               LET d == DistFrom(G, n, qr.s)
               IN  IF Len(qr.dist) # n THEN {"dijkstra-size"}
                   ELSE (IF \E u \in Verts(n) : qr.dist[u + 1] # Out(d[u]) THEN {"dijkstra-distance"} ELSE {})
                        \cup (IF \E u \in Verts(n) : /\ qr.dist[u + 1] = Out(d[u])
                                                     /\ (u = qr.s \/ d[u] >= INF) /\ qr.pred[u + 1] # u
                              THEN {"dijkstra-predecessor-of-unreached"} ELSE {})
                        \cup (IF \E u \in Verts(n) : /\ qr.dist[u + 1] = Out(d[u]) /\ u # qr.s /\ d[u] < INF
                                                     /\ qr.pred[u + 1] \notin AdmParents(G, n, d, u)
                              THEN {"dijkstra-predecessor-not-on-a-shortest-path"} ELSE {})
          [] qr.q = "path" ->
               LET d == DistFrom(G, n, qr.u)[qr.v]
               IN  IF qr.r # (IF d < INF THEN 1 ELSE 0) THEN {"dijkstra-path-found"}
                   ELSE IF d < INF /\ ~(/\ qr.p # <<>> /\ qr.p[1] = qr.u /\ qr.p[Len(qr.p)] = qr.v
                                        /\ IsPath(G, n, qr.p) /\ PathCost(G, qr.p) = d)
                   THEN {"dijkstra-path"} ELSE {}
          [] qr.q = "comp" ->
               IF st.removed THEN {}      \* not answerable once an edge has been removed (header)
               ELSE LET same == IF qr.v \in Reach(G, n, qr.u) THEN 1 ELSE 0
                    IN  (IF qr.n # NumComponents(G, n) THEN {"numConnectedComponents"} ELSE {})
                        \cup (IF qr.same # same \/ qr.idsame # same THEN {"inSameComponent"} ELSE {})

AdjBroken(before, st, ev) ==
    LET n == st.nv
    IN  (IF ev.e = "AdjAddEdge" /\ ev.ret # (IF ev.u # ev.v /\ Pair(ev) \notin Arcs(before.wt) THEN 1 ELSE 0)
         THEN {"return-value"} ELSE {})
        \cup (IF ev.e \in {"AdjRemoveEdge", "AdjSetWeight"} /\ ev.ret # (IF Pair(ev) \in Arcs(before.wt) THEN 1 ELSE 0)
              THEN {"return-value"} ELSE {})
        \cup (IF ev.e = "AddVertex" /\ ev.id # before.nv THEN {"addVertex-id"} ELSE {})
        \cup (IF ev.nv # n THEN {"numVertices"}
              ELSE (IF ev.ne * 2 # Cardinality(Arcs(st.wt)) THEN {"numEdges"} ELSE {})
                   \cup (IF ev.vx # <<0, 0, IF n > 0 THEN 1 ELSE 0>> THEN {"vertexExists"} ELSE {})
                   \cup UNION {QueryBroken(st, ev.q[i]) : i \in 1..Len(ev.q)})

Broken(before, st, ev) ==
    IF ev.e = "Setup" THEN {}
    ELSE IF st.kind = "sssp" THEN SsspBroken(before, st, ev)
    ELSE IF st.kind \in {"lpa", "lpad"} THEN (IF ev.e = "Compute" THEN LpaBroken(st, ev) ELSE {})
    ELSE IF st.kind = "adj" THEN AdjBroken(before, st, ev)
    ELSE {"unknown-kind"}

(* ------------------------------------ the cursor ------------------------------------ *)
TInit == /\ nv = 0 /\ wt = NoArcs /\ up = TRUE /\ removed = FALSE /\ lastAct = 0
         /\ l = 1 /\ kind = "none" /\ src = 0 /\ tgt = 0 /\ hh = <<>>

Report(ev, st, bad) ==
    IF bad = {} THEN TRUE
    ELSE PrintT(ToJson([reject |-> l, e |-> ev.e, k |-> st.kind, broken |-> SeqOfSet2(bad)]))

TStep ==
    /\ l <= NLog
    /\ Log[l].e \in Known
    /\ LET ev == Log[l]
           pre == Assumed(Cur, ev)
           st == After(Cur, ev)
       IN  /\ Report(ev, st, IF pre # {} THEN pre ELSE Broken(Cur, st, ev))
           /\ nv' = st.nv /\ wt' = st.wt /\ removed' = st.removed /\ kind' = st.kind
           /\ src' = st.src /\ tgt' = st.tgt /\ hh' = st.hh
    /\ l' = l + 1
    /\ UNCHANGED <<up, lastAct>>

TSpec == TInit /\ [][TStep]_tvars
NotAccepted == l <= NLog
==============================================================================
