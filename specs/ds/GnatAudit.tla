------------------------------ MODULE GnatAudit ------------------------------
(* M4 audit of the GNAT internals, property C10: implementation-level           *)
(* invariants evaluated by TLC on the DUMPED internal structure of the real     *)
(* trees (harness/nn.cpp `audit`, one record after every mutating call).  They  *)
(* are what the pruning rules of nearestK / nearestR silently rely on, so a     *)
(* table that is too tight is reported here before any query answer is wrong.   *)
(*                                                                              *)
(* A record:  size     size_                                                    *)
(*            nodes    the tree in pre-order; node id = position.  Per node:    *)
(*                     parent (0 = root), slot (position among the parent's     *)
(*                     children), pivot, data (the elements of data_),          *)
(*                     children (ids), minR / maxR (minRadius_ / maxRadius_),   *)
(*                     minRange / maxRange (one entry per child of the parent)  *)
(*            removed  the removal cache: for every cached address the element  *)
(*                     it points at as (node, slot), slot 0 = the pivot;        *)
(*                     node 0 = the address is not an element of the tree       *)
(* Distances are integers; +-infinity is written as +-1000000.  The fields      *)
(* live / vis / visSparse of a record are informational and read by nothing     *)
(* here.                                                                        *)
EXTENDS NNContract, TraceIO

VARIABLE l

Rec == Log[l]
IsAudit == l <= NLog /\ Rec.e = "Audit"

N(r, id) == r.nodes[id]
Ids(r) == 1..Len(r.nodes)
(* an element of data_ is dead when its address is in the removal cache; dead elements stay in  *)
(* the tree until the next rebuild but no query may return them, so the tables owe them nothing *)
Dead(r) == {<<r.removed[i].node, r.removed[i].slot>> : i \in 1..Len(r.removed)}
LiveData(r, id) == {N(r, id).data[s].pt : s \in {t \in 1..Len(N(r, id).data) : <<id, t>> \notin Dead(r)}}

(* positions of all live elements stored in the subtree of node id, pivot included *)
RECURSIVE SubPts(_, _)
SubPts(r, id) ==
    LET n == N(r, id)
    IN  {n.pivot.pt} \cup LiveData(r, id) \cup UNION {SubPts(r, n.children[c]) : c \in 1..Len(n.children)}
(* ... below the node: everything in its subtree except its own pivot *)
BelowPts(r, id) ==
    LET n == N(r, id)
    IN  LiveData(r, id) \cup UNION {SubPts(r, n.children[c]) : c \in 1..Len(n.children)}

(* minRadius_ / maxRadius_ of every node but the root enclose the distances from its pivot to  *)
(* everything below it (a subtree is skipped when the query ball misses that shell)           *)
RadiiOK(r) ==
    \A id \in Ids(r) :
        N(r, id).parent # 0 =>
            \A p \in BelowPts(r, id) :
                LET d == Dist(N(r, id).pivot.pt, p) IN N(r, id).minR <= d /\ d <= N(r, id).maxR

(* for siblings a # b: [minRange_a[b], maxRange_a[b]] encloses the distances from pivot a to   *)
(* every element of subtree b, pivot b included (sibling b is dropped unseen otherwise)        *)
RangesOK(r) ==
    \A id \in Ids(r) :
        LET cs == N(r, id).children
        IN  \A b \in 1..Len(cs) :
                LET S == SubPts(r, cs[b])
                IN  \A a \in 1..Len(cs) :
                        a # b =>
                            LET na == N(r, cs[a])
                            IN  /\ Len(na.minRange) >= Len(cs) /\ Len(na.maxRange) >= Len(cs)
                                /\ \A p \in S : LET d == Dist(na.pivot.pt, p)
                                                IN  na.minRange[b] <= d /\ d <= na.maxRange[b]

(* every cached address is an element of the tree ... *)
RemovedOK(r) ==
    \A i \in 1..Len(r.removed) :
        LET x == r.removed[i]
        IN  x.node \in Ids(r) /\ x.slot \in 0..Len(N(r, x.node).data)
(* ... and never a pivot: queries report pivots without consulting the cache, which is why     *)
(* removing a pivot rebuilds the tree                                                          *)
NoPivotRemoved(r) == \A i \in 1..Len(r.removed) : r.removed[i].slot # 0

RECURSIVE Stored(_, _)
Stored(r, id) == IF id = 0 THEN 0 ELSE 1 + Len(N(r, id).data) + Stored(r, id - 1)
SizeOK(r) ==
    /\ Cardinality({r.removed[i] : i \in 1..Len(r.removed)}) = Len(r.removed)
    /\ r.size = Stored(r, Len(r.nodes)) - Len(r.removed)

(* the dump itself is a tree in pre-order *)
WellFormed(r) ==
    \A id \in Ids(r) :
        LET n == N(r, id)
        IN  /\ n.id = id
            /\ (n.parent = 0) = (id = 1)
            /\ n.parent # 0 => n.parent \in 1..id - 1 /\ n.slot \in 1..Len(N(r, n.parent).children)
                               /\ N(r, n.parent).children[n.slot] = id
            /\ \A c \in 1..Len(n.children) : n.children[c] \in id + 1..Len(r.nodes)

(* ------------------------------ as TLC invariants over the cursor ------------------------------ *)
DumpWellFormed == IsAudit => WellFormed(Rec)
RangeTablesConservative == IsAudit => RangesOK(Rec)
RadiiConservative == IsAudit => RadiiOK(Rec)
RemovedSubsetOfTree == IsAudit => RemovedOK(Rec)
NoRemovedPivot == IsAudit => NoPivotRemoved(Rec)
SizeConsistent == IsAudit => SizeOK(Rec)

AInit == l = 1
ANext == l <= NLog /\ Rec.e \in {"Audit", "Reset"} /\ l' = l + 1      \* a "Crash" line stops the cursor
ASpec == AInit /\ [][ANext]_l
NotAccepted == l <= NLog
==============================================================================
