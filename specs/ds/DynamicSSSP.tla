----------------------------- MODULE DynamicSSSP -----------------------------
(* Implementation-shaped specification (I) of ompl::DynamicSSSP                *)
(* (src/ompl/datastructures/DynamicSSSP.h, after Ramalingam & Reps): the       *)
(* incremental update of addEdge (propagation through the affected set in      *)
(* order of distance from the new edge) and the decremental update of          *)
(* removeEdge (phase 1: the subtree of the shortest-path tree hanging on the   *)
(* removed edge; phase 2: re-seed every orphan from its unaffected in-         *)
(* neighbours, then Dijkstra over the orphans).                                *)
(*                                                                             *)
(*   outs, ins   the boost graph (vecS, bidirectionalS): per vertex the list   *)
(*               of <<neighbour, weight>> in insertion order; parallel arcs    *)
(*               are separate entries, remove_edge(v, w) drops all of them     *)
(*   dist, par   distance_, parent_  (-1 = NO_ID)                              *)
(*   aff         what the operation appended to the caller's list              *)
(*                                                                             *)
(* The two work queues are std::set<vertex, compare-by-cost>: an element whose *)
(* cost equals that of a queued element is "already there" (insert refuses it, *)
(* find returns the other one).  That is transcribed (SetInsert / SetFind), so *)
(* with TieFreeOnly = FALSE TLC shows what the documented assumption "no two   *)
(* paths have the same cost" is needed for.  Abstractions: the orphans are     *)
(* re-seeded in increasing id order (the code iterates an unordered_set; the   *)
(* seeds do not depend on the order), and the queue of removeEdge always       *)
(* yields its minimum (the code lowers distance_[c] while c sits in the set    *)
(* ordered by distance_, so the real set can be mis-ordered and hold c twice;  *)
(* without ties the loop is a label-correcting iteration whose fixpoint does   *)
(* not depend on the order, only the affected list can differ by duplicates).  *)
EXTENDS DynamicGraph

VARIABLES outs, ins, dist, par, aff

ivars == <<outs, ins, dist, par, aff>>
vars == <<nv, wt, up, removed, lastAct, outs, ins, dist, par, aff>>

VN == Verts(N)
St == [dist |-> dist, par |-> par, aff |-> <<>>]

(* ------------------------- std::set keyed by a cost vector ------------------------- *)
(* the queued element equivalent to x under the comparator, or -1 *)
SetFind(Q, cost, x) == IF \E y \in Q : cost[y] = cost[x] THEN CHOOSE y \in Q : cost[y] = cost[x] ELSE -1
SetInsert(Q, cost, x) == IF \E y \in Q : cost[y] = cost[x] THEN Q ELSE Q \cup {x}
SetMin(Q, cost) == CHOOSE x \in Q : \A y \in Q : cost[x] <= cost[y]

(* ------------------------------------ addEdge ------------------------------------ *)
(* relax the out-edges of u in order; cost is the queue's key vector (distance from v) *)
RECURSIVE RelaxAdd(_, _, _, _, _, _)
RelaxAdd(st, Q, cost, u, base, s) ==
    IF s = <<>> THEN [st |-> st, Q |-> Q, cost |-> cost]
    ELSE LET x == Head(s)[1]
             ew == Head(s)[2]
         IN  IF Plus(st.dist[u], ew) < st.dist[x]
             THEN LET st1 == [st EXCEPT !.dist[x] = Plus(st.dist[u], ew), !.par[x] = u]
                      f == SetFind(Q, cost, x)               \* queue.find(x) with the OLD cost[x]
                      Q1 == IF f # -1 THEN Q \ {f} ELSE Q
                      cost1 == [cost EXCEPT ![x] = st1.dist[x] - base]
                  IN  RelaxAdd(st1, SetInsert(Q1, cost1, x), cost1, u, base, Tail(s))
             ELSE RelaxAdd(st, Q, cost, u, base, Tail(s))

RECURSIVE LoopAdd(_, _, _, _, _, _)
LoopAdd(st, Q, cost, base, O, collect) ==
    IF Q = {} THEN st
    ELSE LET u == SetMin(Q, cost)
             st1 == IF collect THEN [st EXCEPT !.aff = Append(@, u)] ELSE st
             rr == RelaxAdd(st1, Q \ {u}, cost, u, base, O[u])
         IN  LoopAdd(rr.st, rr.Q, rr.cost, base, O, collect)

AddEdgeImpl(st, O, v, w, c, collect) ==
    IF Plus(st.dist[v], c) < st.dist[w]
    THEN LET st1 == [st EXCEPT !.dist[w] = Plus(st.dist[v], c), !.par[w] = v]
             cost == [[x \in VN |-> INF] EXCEPT ![w] = 0]
         IN  LoopAdd(st1, {w}, cost, st.dist[v], O, collect)
    ELSE st

(* ----------------------------------- removeEdge ----------------------------------- *)
(* phase 1: w and everything below it in the shortest-path tree *)
RECURSIVE Subtree(_, _, _, _)
Subtree(p, O, work, A) ==
    IF work = <<>> THEN A
    ELSE LET u == Head(work)
             kids == SelectSeq(O[u], LAMBDA e : p[e[1]] = u)
         IN  Subtree(p, O, Tail(work) \o [i \in 1..Len(kids) |-> kids[i][1]], A \cup {u})

(* phase 2a: best unaffected in-neighbour of an orphan *)
RECURSIVE Seed(_, _, _, _)
Seed(st, A, a, s) ==
    IF s = <<>> THEN st
    ELSE LET b == Head(s)[1]
             ew == Head(s)[2]
         IN  IF b \notin A /\ Plus(st.dist[b], ew) < st.dist[a]
             THEN Seed([st EXCEPT !.dist[a] = Plus(st.dist[b], ew), !.par[a] = b], A, a, Tail(s))
             ELSE Seed(st, A, a, Tail(s))
RECURSIVE SeedAll(_, _, _, _, _)
SeedAll(st, Q, A, I, todo) ==
    IF todo = {} THEN [st |-> st, Q |-> Q]
    ELSE LET a == MinOf(todo)
             st1 == Seed([st EXCEPT !.dist[a] = INF], A, a, I[a])
         IN  SeedAll(st1, IF st1.dist[a] # INF THEN SetInsert(Q, st1.dist, a) ELSE Q, A, I, todo \ {a})

(* phase 2b: Dijkstra over the orphans; the queue is keyed by dist itself *)
RECURSIVE RelaxRem(_, _, _, _)
RelaxRem(st, Q, a, s) ==
    IF s = <<>> THEN [st |-> st, Q |-> Q]
    ELSE LET c == Head(s)[1]
             ew == Head(s)[2]
         IN  IF Plus(st.dist[a], ew) < st.dist[c]
             THEN LET st1 == [st EXCEPT !.dist[c] = Plus(st.dist[a], ew), !.par[c] = a]
                      f == SetFind(Q, st1.dist, c)             \* queue.find(c) with the NEW distance
                      Q1 == IF f # -1 THEN Q \ {f} ELSE Q
                  IN  RelaxRem(st1, SetInsert(Q1, st1.dist, c), a, Tail(s))
             ELSE RelaxRem(st, Q, a, Tail(s))
RECURSIVE LoopRem(_, _, _, _)
LoopRem(st, Q, O, collect) ==
    IF Q = {} THEN st
    ELSE LET a == SetMin(Q, st.dist)
             st1 == IF collect THEN [st EXCEPT !.aff = Append(@, a)] ELSE st
             rr == RelaxRem(st1, Q \ {a}, a, O[a])
         IN  LoopRem(rr.st, rr.Q, O, collect)

(* O, I: the graph after remove_edge(v, w) *)
RemoveEdgeImpl(st, O, I, v, w, collect) ==
    IF st.par[w] # v THEN st
    ELSE LET A == Subtree(st.par, O, <<w>>, {})
             sd == SeedAll(st, {}, A, I, A)
         IN  LoopRem(sd.st, sd.Q, O, collect)

(* ------------------------------------ the model ------------------------------------ *)
Install(st) == dist' = st.dist /\ par' = st.par /\ aff' = st.aff

Init == /\ CInit
        /\ outs = [v \in VN |-> <<>>] /\ ins = [v \in VN |-> <<>>]
        /\ dist = [v \in VN |-> INF] /\ par = [v \in VN |-> -1] /\ aff = <<>>

ISetup == CSetup /\ UNCHANGED ivars

IAddVertex ==      \* distance_.push_back(id == 0 ? 0 : inf); parent_.push_back(NO_ID)
    /\ CAddVertex
    /\ dist' = [dist EXCEPT ![nv] = IF nv = 0 THEN 0 ELSE INF]
    /\ par' = [par EXCEPT ![nv] = -1]
    /\ aff' = <<>> /\ UNCHANGED <<outs, ins>>

IAddArc(u, v, c, collect) ==
    /\ CAddArc(u, v, c)
    /\ outs' = [outs EXCEPT ![u] = Append(@, <<v, c>>)]
    /\ ins' = [ins EXCEPT ![v] = Append(@, <<u, c>>)]
    /\ Install(AddEdgeImpl(St, outs', u, v, c, collect))

IRemoveArc(u, v, collect) ==
    /\ CRemoveArc(u, v)
    /\ outs' = [outs EXCEPT ![u] = SelectSeq(@, LAMBDA e : e[1] # v)]
    /\ ins' = [ins EXCEPT ![v] = SelectSeq(@, LAMBDA e : e[1] # u)]
    /\ Install(RemoveEdgeImpl(St, outs', ins', u, v, collect))

IClear ==
    /\ CClear
    /\ outs' = [v \in VN |-> <<>>] /\ ins' = [v \in VN |-> <<>>]
    /\ dist' = [v \in VN |-> INF] /\ par' = [v \in VN |-> -1] /\ aff' = <<>>

ArcCount == LET RECURSIVE Sum(_)
                Sum(S) == IF S = {} THEN 0 ELSE LET x == MinOf(S) IN Len(outs[x]) + Sum(S \ {x})
            IN  Sum(VN)

Next ==
    \/ ISetup
    \/ IAddVertex
    \/ \E u \in V, v \in V, c \in W :
          /\ (TieFreeOnly /\ <<u, v>> \in Arcs(wt)) => wt[<<u, v>>] = c
          /\ IAddArc(u, v, c, TRUE) /\ Small(wt')
          /\ ArcCount < MaxE + 2                    \* a few parallel arcs, not arbitrarily many
          /\ TieFreeOnly => TieFree(wt', nv, 0)
    \/ \E u \in V, v \in V : IRemoveArc(u, v, TRUE)
    \/ IClear

ISpec == Init /\ [][Next]_vars

(* ------------------------------------ properties ------------------------------------ *)
(* refinement: every query is answered as the contract says *)
CostsRefine == LET d == DistFrom(wt, nv, 0) IN \A u \in V : dist[u] = d[u]
ParentsRefine ==
    LET d == DistFrom(wt, nv, 0)
    IN  \A u \in V : /\ u = 0 => par[u] = -1
                     /\ (u # 0 /\ d[u] < INF) => par[u] \in AdmParents(wt, nv, d, u)
(* the list LBTRRT consumes names every vertex whose cost changed to a finite value *)
AffectedRefine ==
    [][ lastAct'.act \in {"AddArc", "RemoveArc"} =>
          LET d0 == DistFrom(wt, nv, 0)
              d1 == DistFrom(wt', nv', 0)
          IN  \A u \in V : (d1[u] # d0[u] /\ d1[u] < INF) => \E i \in 1..Len(aff') : aff'[i] = u
      ]_vars
(* the multigraph the code holds is the graph the contract speaks about *)
GraphRefines ==
    \A u \in V, v \in V :
        LET ws == {outs[u][i][2] : i \in {j \in 1..Len(outs[u]) : outs[u][j][1] = v}}
        IN  IF <<u, v>> \in Arcs(wt) THEN ws # {} /\ MinOf(ws) = wt[<<u, v>>] ELSE ws = {}
InsMirrorOuts ==
    \A u \in V, v \in V :
        Cardinality({j \in 1..Len(outs[u]) : outs[u][j][1] = v}) =
        Cardinality({j \in 1..Len(ins[v]) : ins[v][j][1] = u})
(* an unreachable vertex may keep the parent it had (observation, not contract): *)
(* StaleParentNeverSeen is expected to be VIOLATED - used as a reachability probe *)
StaleParentNeverSeen == \A u \in V : dist[u] = INF => par[u] = -1

(* The view keeps the graph as the contract sees it plus the number of arcs held: two states that *)
(* differ only in the insertion order of the adjacency lists are explored once.  Without ties the *)
(* operations compute the same (dist, par) whatever the order (unique shortest paths).            *)
SView == <<nv, wt, up, dist, par, ArcCount>>
SViewOrdered == <<nv, wt, up, outs, ins, dist, par>>
==============================================================================
