------------------------------ MODULE BinaryHeap ------------------------------
(* Implementation-shaped specification (I) of ompl::BinaryHeap                 *)
(* (src/ompl/datastructures/BinaryHeap.h).  `arr` mirrors `vector_`: the       *)
(* elements in storage order, 1-based (slot p has children 2p and 2p+1).       *)
(* Every action transcribes the corresponding member function, including the   *)
(* child-selection rule of percolateDown (right child preferred on ties, lone  *)
(* left child handled after the loop).  The contract (module HeapContract)     *)
(* is what verdicts are taken from; here TLC checks that the algorithm refines *)
(* it and enumerates every reachable array shape so that each transition can   *)
(* be replayed on the real heap.                                               *)
EXTENDS Naturals, Sequences, FiniteSets, TLC, Json

CONSTANTS Keys,           \* set of integer keys (duplicates matter: small set)
          MaxSize,        \* bound on the number of elements
          SiftUpOnRemove, \* TRUE: removePos restores order in both directions (the
                          \* repaired code); FALSE: percolateDown only (the defect D1)
          MaxBulk,        \* longest vector handed to insert(vector)/buildFrom/sort
          Core            \* TRUE: only insert / remove / pop / update / clear (deep heaps, small alphabet)

VARIABLES arr,     \* Seq(Keys): keys in storage order
          anon,    \* TRUE while the heap holds elements created by buildFrom(), for which
                   \* the API hands out no handles (so remove/update cannot address them)
          lastAct  \* ghost: [act, args, perm] of the step that produced this state

vars == <<arr, anon, lastAct>>

Elem(i, k) == [id |-> i, key |-> k]
Lt(x, y) == x.key < y.key
KeysOf(a) == [i \in 1..Len(a) |-> a[i].key]
Lab(ks) == [i \in 1..Len(ks) |-> Elem(i, ks[i])]

RECURSIVE Down(_, _, _)
Down(a, p, tmp) ==
    LET n == Len(a)
        l == 2 * p
        r == 2 * p + 1
    IN  IF r <= n
        THEN LET c == IF Lt(a[l], a[r]) THEN l ELSE r
             IN  IF Lt(a[c], tmp) THEN Down([a EXCEPT ![p] = a[c]], c, tmp)
                 ELSE [a EXCEPT ![p] = tmp]
        ELSE IF l = n /\ Lt(a[l], tmp) THEN [a EXCEPT ![p] = a[l], ![l] = tmp]
        ELSE [a EXCEPT ![p] = tmp]

RECURSIVE Up(_, _, _)
Up(a, c, tmp) ==
    IF c > 1 /\ Lt(tmp, a[c \div 2])
    THEN Up([a EXCEPT ![c] = a[c \div 2]], c \div 2, tmp)
    ELSE [a EXCEPT ![c] = tmp]

PercolateDown(a, p) == Down(a, p, a[p])
PercolateUp(a, p) == Up(a, p, a[p])

RECURSIVE BuildFromIdx(_, _)
BuildFromIdx(a, i) == IF i < 1 THEN a ELSE BuildFromIdx(PercolateDown(a, i), i - 1)
Build(a) == BuildFromIdx(a, Len(a) \div 2)

RemovePos(a, p) ==
    LET n == Len(a)
    IN  IF p < n
        THEN LET moved == [SubSeq(a, 1, n - 1) EXCEPT ![p] = a[n]]
             IN  IF SiftUpOnRemove
                 THEN PercolateDown(PercolateUp(moved, p), p)
                 ELSE PercolateDown(moved, p)
        ELSE SubSeq(a, 1, n - 1)

RECURSIVE InsertAll(_, _, _)
InsertAll(a, ks, id) ==
    IF ks = <<>> THEN a
    ELSE InsertAll(PercolateUp(Append(a, Elem(id, Head(ks))), Len(a) + 1), Tail(ks), id + 1)

SeqsUpTo(S, n) == UNION {[1..m -> S] : m \in 0..n}

RECURSIVE SortedInsert(_, _)
SortedInsert(s, k) ==
    IF s = <<>> THEN <<k>>
    ELSE IF k <= Head(s) THEN <<k>> \o s ELSE <<Head(s)>> \o SortedInsert(Tail(s), k)
RECURSIVE SortedKeys(_)
SortedKeys(s) == IF s = <<>> THEN <<>> ELSE SortedInsert(SortedKeys(Tail(s)), Head(s))

(* -------- what sort(list) does internally: build a heap from the list and drain it *)
RECURSIVE DrainKeys(_)
DrainKeys(a) == IF a = <<>> THEN <<>> ELSE <<a[1].key>> \o DrainKeys(RemovePos(a, 1))
HeapSortKeys(ks) == DrainKeys(Build(Lab(ks)))

(* The state holds keys only.  Inside an action the elements are labelled with their   *)
(* source position (new elements: Len(arr)+1, +2, ...) so that the step can report, as *)
(* the ghost `perm`, where every surviving element moved: perm[i] is the label of the  *)
(* element now in slot i.  The replay harness uses perm to keep its table              *)
(* "model slot -> real handle" current without knowing the algorithm.                  *)
IdsOf(a) == [i \in 1..Len(a) |-> a[i].id]
Act(name, args, res) == lastAct' = [act |-> name, args |-> args, perm |-> IdsOf(res)]

Init == arr = <<>> /\ anon = FALSE /\ lastAct = [act |-> "Init", args |-> <<>>, perm |-> <<>>]

Insert(k) ==
    /\ Len(arr) < MaxSize
    /\ LET res == PercolateUp(Append(Lab(arr), Elem(Len(arr) + 1, k)), Len(arr) + 1)
       IN  arr' = KeysOf(res) /\ Act("Insert", [key |-> k], res)
    /\ UNCHANGED anon

InsertMany(ks) ==
    /\ Len(ks) >= 2 /\ Len(arr) + Len(ks) <= MaxSize
    /\ LET res == InsertAll(Lab(arr), ks, Len(arr) + 1)
       IN  arr' = KeysOf(res) /\ Act("InsertMany", [keys |-> ks], res)
    /\ UNCHANGED anon

Remove(p) ==
    /\ p \in 1..Len(arr) /\ ~anon
    /\ LET res == RemovePos(Lab(arr), p)
       IN  arr' = KeysOf(res) /\ Act("Remove", [pos |-> p], res)
    /\ UNCHANGED anon

Pop ==
    /\ Len(arr) > 0
    /\ LET res == RemovePos(Lab(arr), 1)
       IN  arr' = KeysOf(res) /\ Act("Pop", [key |-> arr[1]], res)
    /\ anon' = (anon /\ Len(arr) > 1)

Update(p, k) ==
    /\ p \in 1..Len(arr) /\ k # arr[p] /\ ~anon
    /\ LET a2 == [Lab(arr) EXCEPT ![p].key = k]
           res == PercolateDown(PercolateUp(a2, p), p)
       IN  arr' = KeysOf(res) /\ Act("Update", [pos |-> p, key |-> k], res)
    /\ UNCHANGED anon

(* change one or two keys without telling the heap, then rebuild() *)
PerturbRebuild(p, k, q, j) ==
    /\ p \in 1..Len(arr) /\ q \in p..Len(arr) /\ ~anon
    /\ LET k2 == IF q = p THEN k ELSE j
           a2 == [[Lab(arr) EXCEPT ![p].key = k] EXCEPT ![q].key = k2]
           res == Build(a2)
       IN  arr' = KeysOf(res) /\ Act("PerturbRebuild", [pos1 |-> p, key1 |-> k, pos2 |-> q, key2 |-> k2], res)
    /\ UNCHANGED anon

BuildFrom(ks) ==
    /\ Len(arr) <= 1    \* buildFrom clears first: its result does not depend on the rest
    /\ LET res == Build(Lab(ks))
       IN  arr' = KeysOf(res) /\ Act("BuildFrom", [keys |-> ks], res)
    /\ anon' = (Len(ks) > 0)

Sort(ks) ==
    /\ Len(arr) <= 3
    /\ UNCHANGED <<arr, anon>>
    /\ Act("Sort", [keys |-> ks, sorted |-> SortedKeys(ks)], Lab(arr))

Clear ==
    /\ arr' = <<>> /\ anon' = FALSE
    /\ Act("Clear", <<>>, <<>>)

Next ==
    \/ \E k \in Keys : Insert(k)
    \/ \E p \in 1..Len(arr) : Remove(p)
    \/ Pop
    \/ \E p \in 1..Len(arr), k \in Keys : Update(p, k)
    \/ Clear
    \/ /\ ~Core
       /\ \/ \E ks \in SeqsUpTo(Keys, MaxBulk) : InsertMany(ks)
          \/ \E p \in 1..Len(arr), q \in 1..Len(arr), k \in Keys, j \in Keys : PerturbRebuild(p, k, q, j)
          \/ \E ks \in SeqsUpTo(Keys, MaxSize) : BuildFrom(ks)
          \/ \E ks \in SeqsUpTo(Keys, MaxBulk) : Sort(ks)

Spec == Init /\ [][Next]_vars

(* ------------------------------ properties ------------------------------ *)
HeapOrder == \A p \in 2..Len(arr) : arr[p \div 2] <= arr[p]
TopIsMin == Len(arr) > 0 => \A p \in 1..Len(arr) : arr[1] <= arr[p]
DrainSorted == LET d == DrainKeys(Lab(arr)) IN d = SortedKeys(arr)
SortAgrees == \A ks \in SeqsUpTo(Keys, MaxBulk) : HeapSortKeys(ks) = SortedKeys(ks)

(* action property: every step changes the bag of keys as the contract says, and the   *)
(* handles (labels) of surviving elements keep their keys                              *)
StepRefinesContract ==
    [][ LET act == lastAct'.act
            ar  == lastAct'.args
            pm  == lastAct'.perm
            n   == Len(arr)
            Survivors == {i \in 1..Len(pm) : pm[i] <= n}
        IN  /\ Len(pm) = Len(arr')
            /\ \A i, j \in 1..Len(pm) : i # j => pm[i] # pm[j]
            /\ act \in {"Insert", "InsertMany", "Remove", "Pop", "Sort"} =>
                   \A i \in Survivors : arr'[i] = arr[pm[i]]
            /\ act = "Insert" => Len(arr') = n + 1 /\ \E i \in 1..n + 1 : pm[i] = n + 1 /\ arr'[i] = ar.key
            /\ act = "InsertMany" => Len(arr') = n + Len(ar.keys)
                   /\ \A i \in 1..Len(pm) : pm[i] > n => arr'[i] = ar.keys[pm[i] - n]
            /\ act = "Remove" => Len(arr') = n - 1 /\ \A i \in 1..Len(pm) : pm[i] # ar.pos
            /\ act = "Pop" => Len(arr') = n - 1 /\ (\A i \in 1..Len(pm) : pm[i] # 1)
                               /\ \A p \in 1..n : arr[1] <= arr[p]
            /\ act = "Update" => Len(arr') = n
                   /\ \A i \in 1..n : arr'[i] = IF pm[i] = ar.pos THEN ar.key ELSE arr[pm[i]]
            /\ act = "Sort" => arr' = arr
            /\ act = "Clear" => arr' = <<>>
      ]_vars

(* ------------------------------ scenario export ------------------------------ *)
View == <<arr, anon>>
Dump == PrintT(ToJson([src |-> <<arr, anon>>, dst |-> <<arr', anon'>>, act |-> lastAct'.act,
                       args |-> lastAct'.args, perm |-> lastAct'.perm,
                       exp |-> [keys |-> SortedKeys(arr'), n |-> Len(arr')]]))
===============================================================================
