------------------------------- MODULE LPAstar -------------------------------
(* Implementation-shaped specification (I) of ompl::LPAstarOnGraph              *)
(* (src/ompl/datastructures/LPAstarOnGraph.h), driven the way LazyLBTRRT       *)
(* drives it: the boost graph is changed first, then insertEdge / removeEdge   *)
(* are told (both directions for the undirected graph), computeShortestPath    *)
(* is asked at arbitrary points.                                               *)
(*                                                                             *)
(* Every operation is transcribed statement by statement and is deterministic: *)
(*   g, r, par   Node::g, Node::r (rhs), Node::parent  (-1 = nullptr); a node  *)
(*               that getNode() has not created yet is the node it would       *)
(*               create (g = r = infinity, no parent, not queued)              *)
(*   flag        Node::isInQ                                                   *)
(*   key         Node::k, the key computed when the node was last queued       *)
(*   q           queue_ (std::multiset ordered by the stored key): a sequence, *)
(*               equal keys in insertion order (insert goes to the upper bound) *)
(*   inc         the incidence lists of the boost graph in insertion order     *)
(*               (vecS): out_edges / in_edges iterate in exactly this order    *)
(* so a TLC counterexample is an operation history that can be replayed on the *)
(* real class as it is.  The contract (module DynamicGraph) is what the        *)
(* answers are judged by: RefinesContract below.                               *)
(*                                                                             *)
(* Two statements are switchable.  FALSE = the code as it is now; TRUE = the    *)
(* pinned code before the repairs dd4cdccd9 / 56f0c279a, kept as model         *)
(* mutations that TLC must refute (and whose counterexample histories are      *)
(* re-executed on the real class as regression scenarios):                     *)
(*   EraseAllEqual  removeQueue() called multiset::erase(value), which removes *)
(*                  EVERY queued node whose key compares equal, not only the   *)
(*                  node meant; the others keep isInQ = true and are lost      *)
(*                  (wrong costs both ways, and a parent cycle on which the    *)
(*                  path extraction never ends)                                *)
(*   EmptyMeansInf  computeShortestPath() returned infinity (and no path) when *)
(*                  the queue was empty on entry, i.e. when there was nothing  *)
(*                  left to repair                                             *)
EXTENDS DynamicGraph

CONSTANTS EraseAllEqual, EmptyMeansInf, MaxLen

VARIABLES g, r, par, flag, key, q, inc, inI, res, len

ivars == <<g, r, par, flag, key, q, inc, inI, res, len>>
vars == <<nv, wt, up, removed, lastAct, g, r, par, flag, key, q, inc, inI, res, len>>

VN == Verts(N)
Min2(a, b) == IF a < b THEN a ELSE b
HN(v) == IF v = Target THEN 0 ELSE H(v)       \* target_ is constructed with h = 0
KeyLess(a, b) == IF a[1] # b[1] THEN a[1] < b[1] ELSE a[2] < b[2]

St == [g |-> g, r |-> r, par |-> par, flag |-> flag, key |-> key, q |-> q, hang |-> FALSE,
       over |-> 0, under |-> 0,     \* ghosts: heads expanded as over- / underconsistent by this search
       rekey |-> FALSE]             \* ghost: the loop condition changed the key of the QUEUED target
CalcKey(st, v) == <<Min2(st.g[v], Plus(st.r[v], HN(v))), Min2(st.g[v], st.r[v])>>

(* ---------------------------- queue utilities ---------------------------- *)
(* multiset::insert: after every element whose key is not greater *)
QInsert(st, v) ==
    LET k == CalcKey(st, v)
        st1 == [st EXCEPT !.key[v] = k, !.flag[v] = TRUE]
        n == Cardinality({i \in 1..Len(st.q) : ~KeyLess(k, st1.key[st.q[i]])})
    IN  [st1 EXCEPT !.q = SubSeq(st.q, 1, n) \o <<v>> \o SubSeq(st.q, n + 1, Len(st.q))]

(* removeQueue: queue_.erase(node) is erase-by-value *)
QRemove(st, v) ==
    IF ~st.flag[v] THEN st
    ELSE [st EXCEPT !.flag[v] = FALSE,
                    !.q = IF EraseAllEqual
                          THEN SelectSeq(st.q, LAMBDA x : st.key[x] # st.key[v])
                          ELSE SelectSeq(st.q, LAMBDA x : x # v)]

UpdateVertex(st, v) ==
    IF st.g[v] # st.r[v] THEN QInsert(QRemove(st, v), v)    \* updateQueue / insertQueue
    ELSE QRemove(st, v)

(* chooseBestIncomingNode: first strict minimum in in_edges order *)
RECURSIVE Best(_, _, _, _, _, _)
Best(st, G, v, s, mn, best) ==
    IF s = <<>> THEN <<mn, best>>
    ELSE LET u == Head(s)
             cur == Plus(st.g[u], G[<<u, v>>])
         IN  IF cur < mn THEN Best(st, G, v, Tail(s), cur, u) ELSE Best(st, G, v, Tail(s), mn, best)
ChooseBest(st, G, ins, v) ==
    LET b == Best(st, G, v, ins[v], INF, -1)
    IN  [st EXCEPT !.r[v] = b[1], !.par[v] = b[2]]

(* ---------------------------- public operations ---------------------------- *)
InsertEdge(st, u, v, c) ==
    IF st.r[v] > Plus(st.g[u], c)
    THEN UpdateVertex([st EXCEPT !.par[v] = u, !.r[v] = Plus(st.g[u], c)], v)
    ELSE st

(* the graph (G, ins) no longer has the edge *)
RemoveEdge(st, G, ins, u, v) ==
    UpdateVertex(IF st.par[v] = u THEN ChooseBest(st, G, ins, v) ELSE st, v)

(* overconsistent head: settle it and offer it to its successors *)
RECURSIVE Offer(_, _, _, _)
Offer(st, G, u, s) ==
    IF s = <<>> THEN st
    ELSE LET v == Head(s)
             c == G[<<u, v>>]
         IN  Offer(IF st.r[v] > Plus(st.g[u], c)
                   THEN UpdateVertex([st EXCEPT !.par[v] = u, !.r[v] = Plus(st.g[u], c)], v)
                   ELSE st, G, u, Tail(s))
(* underconsistent head: its successors that hang on it look for another parent *)
RECURSIVE Orphan(_, _, _, _, _)
Orphan(st, G, ins, u, s) ==
    IF s = <<>> THEN st
    ELSE LET v == Head(s)
         IN  Orphan(IF v = Source \/ st.par[v] # u THEN st
                    ELSE UpdateVertex(ChooseBest(st, G, ins, v), v), G, ins, u, Tail(s))

Expand(st, G, outs, ins, u) ==
    IF st.g[u] > st.r[u]
    THEN LET st1 == [st EXCEPT !.g[u] = st.r[u], !.flag[u] = FALSE, !.q = Tail(st.q),   \* popHead
                               !.over = @ + 1]
         IN  Offer(st1, G, u, outs[u])
    ELSE LET st1 == UpdateVertex([st EXCEPT !.g[u] = INF, !.under = @ + 1], u)
         IN  Orphan(st1, G, ins, u, outs[u])

RECURSIVE Loop(_, _, _, _, _)
Loop(st, G, outs, ins, fuel) ==
    IF st.q = <<>> THEN st                                   \* if (queue_.empty()) break;
    ELSE LET st0 == [st EXCEPT !.key[Target] = CalcKey(st, Target),     \* target_->calculateKey()
                               !.rekey = @ \/ (st.key[Target] # CalcKey(st, Target)
                                               /\ \E i \in 1..Len(st.q) : st.q[i] = Target)]
             top == Head(st0.q)
         IN  IF ~(KeyLess(st0.key[top], st0.key[Target]) \/ st0.r[Target] # st0.g[Target]) THEN st0
             ELSE IF fuel = 0 THEN [st0 EXCEPT !.hang = TRUE]
             ELSE Loop(Expand(st0, G, outs, ins, top), G, outs, ins, fuel - 1)

RECURSIVE Back(_, _, _, _)
Back(st, v, path, fuel) ==     \* path.push_front(res->getId()); res = res->getParent();
    IF v = -1 THEN path
    ELSE IF fuel = 0 THEN <<-1>> \o path       \* parent cycle: the real loop never ends
    ELSE Back(st, st.par[v], <<v>> \o path, fuel - 1)

Fuel == 4 * N * N + 8
ComputeResult(st) ==
    IF st.q = <<>> /\ EmptyMeansInf THEN [st |-> st, cost |-> INF, path |-> <<>>]
    ELSE LET st1 == Loop(st, wt, inc, inI, Fuel)
             path == IF st1.g[Target] >= INF THEN <<>> ELSE Back(st1, Target, <<>>, N + 1)
         IN  [st |-> IF path # <<>> /\ path[1] = -1 THEN [st1 EXCEPT !.hang = TRUE] ELSE st1,
              cost |-> st1.g[Target], path |-> path]

(* ------------------------------- the model ------------------------------- *)
Install(st) == /\ g' = st.g /\ r' = st.r /\ par' = st.par /\ flag' = st.flag
               /\ key' = st.key /\ q' = st.q
Drop(s, x) == SelectSeq(s, LAMBDA y : y # x)
NoRes == [fresh |-> FALSE, cost |-> 0, path |-> <<>>, hang |-> FALSE, over |-> 0, under |-> 0, rekey |-> FALSE]

Init == /\ CInit
        /\ g = [v \in VN |-> INF] /\ r = [v \in VN |-> INF] /\ par = [v \in VN |-> -1]
        /\ flag = [v \in VN |-> FALSE] /\ key = [v \in VN |-> <<INF, INF>>] /\ q = <<>>
        /\ inc = [v \in VN |-> <<>>] /\ inI = [v \in VN |-> <<>>] /\ res = NoRes /\ len = 0

(* constructor: rhs(source) = 0, source queued *)
ISetup ==
    /\ CSetup
    /\ LET st0 == [St EXCEPT !.r[Source] = 0] IN Install(QInsert(st0, Source))
    /\ UNCHANGED <<inc, inI, res>>

IAddEdge(u, v, c) ==       \* LazyLBTRRT::addEdgeLb(u, v, c)
    /\ CAddEdge(u, v, c)
    /\ inc' = [inc EXCEPT ![u] = Append(@, v), ![v] = Append(@, u)]
    /\ inI' = inc'
    /\ Install(InsertEdge(InsertEdge(St, u, v, c), v, u, c))
    /\ res' = NoRes

IRemoveEdge(u, v) ==       \* LazyLBTRRT::removeEdgeLb(u, v)
    /\ CRemoveEdge(u, v)
    /\ inc' = [inc EXCEPT ![u] = Drop(@, v), ![v] = Drop(@, u)]
    /\ inI' = inc'
    /\ Install(RemoveEdge(RemoveEdge(St, wt', inI', u, v), wt', inI', v, u))
    /\ res' = NoRes

IAddArc(u, v, c) ==        \* bidirectionalS graph
    /\ CAddArc(u, v, c)
    /\ inc' = [inc EXCEPT ![u] = Append(@, v)]
    /\ inI' = [inI EXCEPT ![v] = Append(@, u)]
    /\ Install(InsertEdge(St, u, v, c))
    /\ res' = NoRes

IRemoveArc(u, v) ==
    /\ CRemoveArc(u, v)
    /\ inc' = [inc EXCEPT ![u] = Drop(@, v)]
    /\ inI' = [inI EXCEPT ![v] = Drop(@, u)]
    /\ Install(RemoveEdge(St, wt', inI', u, v))
    /\ res' = NoRes

ICompute ==
    /\ CCompute
    /\ LET cr == ComputeResult(St)
       IN  /\ Install(cr.st)
           /\ res' = [fresh |-> TRUE, cost |-> cr.cost, path |-> cr.path, hang |-> cr.st.hang,
                    over |-> cr.st.over, under |-> cr.st.under, rekey |-> cr.st.rekey]
    /\ UNCHANGED <<inc, inI>>

Bounded == MaxLen = 0 \/ len < MaxLen
Next ==
    /\ Bounded /\ len' = IF MaxLen = 0 THEN 0 ELSE len + 1
    /\ \/ ISetup
       \/ /\ Kind = "lpa"
          /\ \/ \E u \in V, v \in V, c \in W :
                   /\ Consistent(u, v, c) /\ Consistent(v, u, c)
                   /\ IAddEdge(u, v, c) /\ Small(wt')
                   /\ TieFreeOnly => TieFree(wt', nv, Source)
             \/ \E u \in V, v \in V : IRemoveEdge(u, v)
       \/ /\ Kind = "lpad"
          /\ \/ \E u \in V, v \in V, c \in W :
                   /\ <<u, v>> \notin Arcs(wt) /\ Consistent(u, v, c)
                   /\ IAddArc(u, v, c) /\ Small(wt')
                   /\ TieFreeOnly => TieFree(wt', nv, Source)
             \/ \E u \in V, v \in V : <<u, v>> \in Arcs(wt) /\ IRemoveArc(u, v)
       \/ ICompute

ISpec == Init /\ [][Next]_vars

(* ------------------------------ properties ------------------------------ *)
(* refinement: what computeShortestPath answered is what the contract admits *)
RefinesContract ==
    res.fresh =>
        /\ ~res.hang
        /\ PathAnswerOk(wt, nv, Source, Target, res.cost, res.path)

Terminates == ~res.hang

(* rhs is the best one-step lookahead, and the parent realises it *)
RhsOf(v) == LET C == {Plus(g[e[1]], wt[e]) : e \in InArcs(wt, v)} IN IF C = {} THEN INF ELSE MinOf(C)
RhsIsLookahead == up => /\ r[Source] = 0
                         /\ \A v \in V \ {Source} : r[v] = RhsOf(v)
ParentRealisesRhs ==
    up => \A v \in V \ {Source} :
              IF r[v] < INF
              THEN par[v] # -1 /\ <<par[v], v>> \in Arcs(wt) /\ Plus(g[par[v]], wt[<<par[v], v>>]) = r[v]
              ELSE par[v] = -1
(* exactly the locally inconsistent vertices are queued, under their current key *)
InQ(v) == \E i \in 1..Len(q) : q[i] = v
QueueIsInconsistentSet == up => \A v \in V : (g[v] # r[v]) <=> InQ(v)
FlagIsMembership == up => \A v \in V : flag[v] <=> InQ(v)
KeysCurrent == \A i \in 1..Len(q) : key[q[i]] = CalcKey(St, q[i])
QueueSorted == \A i \in 1..Len(q) - 1 : ~KeyLess(key[q[i + 1]], key[q[i]])
(* after a search: the target is consistent and nothing queued is more urgent than it *)
SearchPostcondition ==
    (res.fresh /\ ~res.hang /\ ~(EmptyMeansInf /\ res.cost = INF)) =>
        /\ g[Target] = r[Target]
        /\ q # <<>> => ~KeyLess(key[q[1]], CalcKey(St, Target))

(* The loop condition calls calculateKey() on the target, which overwrites the stored key the    *)
(* multiset is ordered by.  Harmless as long as a queued target already carries its current key: *)
TargetKeyStableInQueue == ~res.rekey

(* reachability probes (vacuity gates): each of these is expected to be VIOLATED *)
ProbeNoOverconsistentHead == res.over = 0
ProbeNoUnderconsistentHead == res.under = 0
ProbeNoMixedSearch == ~(res.over > 0 /\ res.under > 0)
ProbeNeverUnreachable == ~(res.fresh /\ res.cost = INF /\ Cardinality(Arcs(wt)) > 0)
ProbeNoTieInQueue == \A i \in 1..Len(q) - 1 : key[q[i]] # key[q[i + 1]]

LView == <<nv, wt, up, g, r, par, flag, key, q, inc, inI, res.fresh, res.cost, res.path, res.hang, res.rekey, len>>
LViewProbe == <<nv, wt, up, g, r, par, flag, key, q, inc, inI, res, len>>
==============================================================================
