------------------------------ MODULE PDFContract ------------------------------
(* Contract (A) of the weighted sampler ompl::PDF, property C12.                *)
(* The abstract state is the sequence of live elements [id, w] IN THE ELEMENT   *)
(* ORDER THE STRUCTURE REPORTS (getElements()).  The contract does not say      *)
(* which order that is - only that after every edit the structure lists exactly *)
(* the surviving elements with their current weights - and it defines sampling  *)
(* relative to that order:  sample(r) may return the element at position k iff  *)
(*      prefix(k-1) <= r * total <= prefix(k)          (closed interval)        *)
(* and the element has positive weight unless r is an endpoint (0 or 1) or the  *)
(* total weight is 0 (DESIGN.md section 6: the zero-weight clause presumes      *)
(* total > 0).  r is the exact rational num/den; all comparisons are on         *)
(* integers (den*prefix against num*total).                                     *)
EXTENDS Naturals, Integers, Sequences, FiniteSets, TLC

VARIABLE els    \* Seq([id : Nat, w : Nat]) in element order

Ids(s) == {s[i].id : i \in 1..Len(s)}
Distinct(s) == \A i, j \in 1..Len(s) : i # j => s[i].id # s[j].id
Bag(s) == [id \in Ids(s) |-> LET i == CHOOSE i \in 1..Len(s) : s[i].id = id IN s[i].w]
Restrict(f, S) == [x \in S |-> f[x]]

(* `new` lists exactly the elements of `bag`, each once, with the weight the bag gives it *)
ListsExactly(new, bag) ==
    /\ Distinct(new)
    /\ Ids(new) = DOMAIN bag
    /\ \A i \in 1..Len(new) : new[i].w = bag[new[i].id]

CInit == els = <<>>

CAdd(id, k, new) ==
    /\ id \notin Ids(els) /\ k >= 0
    /\ ListsExactly(new, Bag(els) @@ (id :> k))
    /\ els' = new
CUpdate(id, k, new) ==
    /\ id \in Ids(els) /\ k >= 0
    /\ ListsExactly(new, [Bag(els) EXCEPT ![id] = k])
    /\ els' = new
CRemove(id, new) ==
    /\ id \in Ids(els)
    /\ ListsExactly(new, Restrict(Bag(els), Ids(els) \ {id}))
    /\ els' = new
CClear(new) == new = <<>> /\ els' = <<>>

(* PDF(data, weights): a fresh structure holding data[i] with weight weights[i] *)
RECURSIVE BagFrom(_, _)
BagFrom(ids, ks) == IF ids = <<>> THEN <<>> ELSE (Head(ids) :> Head(ks)) @@ BagFrom(Tail(ids), Tail(ks))
CConstruct(ids, ks, new) ==
    /\ els = <<>> /\ Len(ids) = Len(ks)
    /\ \A i, j \in 1..Len(ids) : i # j => ids[i] # ids[j]
    /\ \A i \in 1..Len(ks) : ks[i] >= 0
    /\ ListsExactly(new, BagFrom(ids, ks))
    /\ els' = new

(* ------------------------------ sampling ------------------------------ *)
RECURSIVE SumTo(_, _)
SumTo(s, k) == IF k = 0 THEN 0 ELSE SumTo(s, k - 1) + s[k].w
Total(s) == SumTo(s, Len(s))
Prefix(s) == [k \in 0..Len(s) |-> SumTo(s, k)]       \* cumulative weights, Prefix(s)[0] = 0

(* the rule itself: the element occupying the cumulative interval [lo, hi] (own weight wk) *)
(* may be returned for r = num/den                                                         *)
Adm3(lo, hi, total, wk, num, den) ==
    /\ den * lo <= num * total
    /\ num * total <= den * hi
    /\ (wk > 0 \/ num = 0 \/ num = den \/ total = 0)

AdmissiblePos(s, k, num, den) ==
    k \in 1..Len(s) /\ Adm3(SumTo(s, k - 1), SumTo(s, k), Total(s), s[k].w, num, den)
(* same with the cumulative weights `pre` = Prefix(s) computed once *)
AdmP(s, pre, k, num, den) ==
    k \in 1..Len(s) /\ Adm3(pre[k - 1], pre[k], pre[Len(s)], s[k].w, num, den)

AdmissibleSet(s, num, den) == LET pre == Prefix(s) IN {k \in 1..Len(s) : AdmP(s, pre, k, num, den)}
(* entry j (1-based) is the admissible set for r = (j-1)/den *)
AdmissibleTable(s, den) ==
    LET pre == Prefix(s) IN [j \in 1..den + 1 |-> {k \in 1..Len(s) : AdmP(s, pre, k, j - 1, den)}]

(* sample(num/den) returned the element `id`; sampling does not change the structure *)
CSample(num, den, id) ==
    /\ den > 0 /\ num \in 0..den
    /\ \E k \in 1..Len(els) : els[k].id = id /\ AdmissiblePos(els, k, num, den)
    /\ UNCHANGED els

(* ---------------- sampling when the weights are only known in fixed point ---------------- *)
(* Used for histories with weights that are not exactly representable.  The weights in `s` are *)
(* fixed-point images (0 iff the real weight is exactly 0, otherwise within 1 unit of it), r   *)
(* is only known to lie in [lo/den, hi/den], `interior` says 0 < r < 1, and `tol` is the slack *)
(* (in weight units) granted on both ends of the cumulative interval for the representation    *)
(* and rounding errors; the recorder derives it (harness/pdf.cpp).  Two clauses need no slack  *)
(* at all: what is returned is a surviving element, and it has non-zero weight when r is       *)
(* interior and some weight is non-zero.  Result: "ok" or the name of the clause that fails.   *)
ApproxVerdict(s, id, lo, hi, den, tol, interior) ==
    IF id \notin Ids(s) THEN "sample-outside-storage"
    ELSE LET k     == CHOOSE i \in 1..Len(s) : s[i].id = id
             pre   == Prefix(s)
             total == pre[Len(s)]
         IN  IF s[k].w = 0 /\ interior /\ total > 0 THEN "zero-weight-drawn"
             ELSE IF /\ den * pre[k - 1] - den * tol <= hi * total
                     /\ lo * total <= den * pre[k] + den * tol
                  THEN "ok"
                  ELSE "interval-beyond-rounding-bound"

(* observers *)
SizeIs(s, n) == Len(s) = n
===============================================================================
