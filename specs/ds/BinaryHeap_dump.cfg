SPECIFICATION Spec
CONSTANTS
  Keys = {1, 2, 3}
  MaxSize = 6
  SiftUpOnRemove = TRUE
  MaxBulk = 3
  Core = FALSE
ACTION_CONSTRAINT Dump
VIEW View
