----------------------------- MODULE HeapContract -----------------------------
(* Contract (A) of the updatable heap, property C11: the abstract state is the *)
(* bag of live elements (element id -> key).  top is some minimum, pop removes *)
(* some minimum, remove/update act on exactly the element named by the handle, *)
(* size is the number of live elements.                                        *)
EXTENDS Naturals, Integers, Sequences, FiniteSets, TLC

VARIABLE bag    \* function: live element id -> key

Ids == DOMAIN bag
IsMin(id) == id \in Ids /\ \A j \in Ids : bag[id] <= bag[j]
Restrict(f, S) == [x \in S |-> f[x]]

CInit == bag = <<>>

CInsert(id, k) == id \notin Ids /\ bag' = bag @@ (id :> k)

RECURSIVE CInsertAllF(_, _, _)
CInsertAllF(f, ids, ks) ==
    IF ids = <<>> THEN f ELSE CInsertAllF(f @@ (Head(ids) :> Head(ks)), Tail(ids), Tail(ks))
CInsertMany(ids, ks) ==
    /\ Len(ids) = Len(ks)
    /\ \A i \in 1..Len(ids) : ids[i] \notin Ids /\ \A j \in 1..Len(ids) : i # j => ids[i] # ids[j]
    /\ bag' = CInsertAllF(bag, ids, ks)

CRemove(id) == id \in Ids /\ bag' = Restrict(bag, Ids \ {id})
CPop(id) == IsMin(id) /\ bag' = Restrict(bag, Ids \ {id})
CUpdate(id, k) == id \in Ids /\ bag' = [bag EXCEPT ![id] = k]

RECURSIVE ApplyChanges(_, _)
ApplyChanges(f, ch) ==
    IF ch = <<>> THEN f ELSE ApplyChanges([f EXCEPT ![Head(ch).id] = Head(ch).k], Tail(ch))
CRebuild(ch) == (\A i \in 1..Len(ch) : ch[i].id \in Ids) /\ bag' = ApplyChanges(bag, ch)

CBuildFrom(ids, ks) ==
    /\ Len(ids) = Len(ks)
    /\ \A i, j \in 1..Len(ids) : i # j => ids[i] # ids[j]
    /\ bag' = CInsertAllF(<<>>, ids, ks)
CClear == bag' = <<>>

(* observers *)
SizeIs(b, n) == Cardinality(DOMAIN b) = n
TopOk(b, hasTop, top) ==
    IF DOMAIN b = {} THEN ~hasTop
    ELSE hasTop /\ top.id \in DOMAIN b /\ b[top.id] = top.k /\ \A j \in DOMAIN b : top.k <= b[j]

(* bag of keys as a function key -> multiplicity, for permutation checks *)
Count(s, v) == Cardinality({i \in 1..Len(s) : s[i] = v})
IsPermutation(s, t) == Len(s) = Len(t) /\ \A i \in 1..Len(s) : Count(s, s[i]) = Count(t, s[i])
===============================================================================
