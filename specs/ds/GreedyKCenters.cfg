\* every multiset of <= 5 points of {0,1,2,4} x k <= 6 x first centre x tie choice; the terminal
\* states (admissible answers) are printed as JSON lines.  tools/checks/c10.py generates the same
\* file for the other configurations (line up to 6 points, 3x3 lattice up to 5 points).
SPECIFICATION Spec
CONSTANTS
  PtSet <- LinePts
  MaxN = 5
  MaxK = 6
  CheckOpt = TRUE
INVARIANTS TypeOK Distinct TerminalIsAnswer Progress EarlyStopOnlyWhenCovered Separated TwoApproximation
PROPERTY RadiusShrinks
ACTION_CONSTRAINT Dump
