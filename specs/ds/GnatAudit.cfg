SPECIFICATION ASpec
INVARIANT DumpWellFormed
INVARIANT RemovedSubsetOfTree
INVARIANT NoRemovedPivot
INVARIANT SizeConsistent
INVARIANT RadiiConservative
INVARIANT RangeTablesConservative
INVARIANT NotAccepted
CHECK_DEADLOCK FALSE
