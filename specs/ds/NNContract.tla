------------------------------ MODULE NNContract ------------------------------
(* Contract (A) of a nearest-neighbour structure, property C10 - the pure part: *)
(* operators over an arbitrary bag `b`, a set of elements [pt, uid].  `pt` is   *)
(* the position (the distance function sees nothing else), `uid` the identity   *)
(* (what operator== of the element type compares).  uids of live elements are   *)
(* pairwise different, so a set of such records is the multiset of positions    *)
(* the structure should hold.  Used by NearestNeighbors.tla (state graph with   *)
(* answer tables, replayed on the real structures) and NearestNeighborsTrace    *)
(* (validation of recorded executions).                                         *)
(*                                                                              *)
(* Points are integer codes x + W*y; the metric is L1 on (x, y).  On a line     *)
(* (y = 0) this is |a - b|.  Both are exact integer metrics.                    *)
EXTENDS Naturals, Integers, Sequences, FiniteSets, TLC

W == 1024
Abs(x) == IF x < 0 THEN -x ELSE x
Dist(p, q) == Abs((p % W) - (q % W)) + Abs((p \div W) - (q \div W))
D(e, q) == Dist(e.pt, q)
MinOf(a, b) == IF a <= b THEN a ELSE b

(* ------------------------------ mutators ------------------------------ *)
Fresh(b, e) == \A f \in b : f.uid # e.uid
CAdd(b, e) == b \cup {e}
RECURSIVE CAddAll(_, _)
CAddAll(b, es) == IF es = <<>> THEN b ELSE CAddAll(CAdd(b, Head(es)), Tail(es))
CRemoveResult(b, e) == e \in b          \* what remove(e) returns
CRemove(b, e) == b \ {e}                \* ... and what it leaves (b itself when e is absent)
CClear == {}

(* ------------------------------ observers ------------------------------ *)
Size(b) == Cardinality(b)

(* nearest(q): throws iff the structure is empty; otherwise any element at minimum      *)
(* distance - for the square-root approximate structure merely any current member.      *)
NearestThrows(b) == b = {}
NearestAdm(b, q, approx) == IF approx THEN b ELSE {e \in b : \A f \in b : D(e, q) <= D(f, q)}
IsNearestAnswer(b, q, approx, e) == e \in b /\ (approx \/ \A f \in b : D(e, q) <= D(f, q))

(* brute force: the distances of all elements to q in non-decreasing order *)
RECURSIVE SortedDists(_, _)
SortedDists(b, q) ==
    IF b = {} THEN <<>>
    ELSE LET m == CHOOSE e \in b : \A f \in b : D(e, q) <= D(f, q)
         IN  <<D(m, q)>> \o SortedDists(b \ {m}, q)

(* nearestK(q, k): min(k, |b|) elements; their distances are the first k brute-force ones *)
KDists(b, q, k) == SubSeq(SortedDists(b, q), 1, MinOf(k, Cardinality(b)))
(* nearestR(q, r): exactly the elements within distance r *)
RSet(b, q, r) == {e \in b : D(e, q) <= r}
RDists(b, q, r) == SortedDists(RSet(b, q, r), q)

(* ---- answers as the implementation gives them: sequences of elements ---- *)
ElemsOf(res) == {res[i] : i \in 1..Len(res)}
DistSeq(res, q) == [i \in 1..Len(res) |-> D(res[i], q)]
NonDecr(s) == \A i \in 1..Len(s) - 1 : s[i] <= s[i + 1]
NoElementTwice(res) == Cardinality({res[i].uid : i \in 1..Len(res)}) = Len(res)
OnlyMembers(b, res) == \A i \in 1..Len(res) : res[i] \in b

IsKAnswer(b, q, k, res) ==
    /\ Len(res) = MinOf(k, Cardinality(b))
    /\ OnlyMembers(b, res)
    /\ NoElementTwice(res)
    /\ NonDecr(DistSeq(res, q))
    /\ Len(res) > 0 => LET far == D(res[Len(res)], q)
                       IN  \A e \in b \ ElemsOf(res) : D(e, q) >= far

IsRAnswer(b, q, r, res) ==
    /\ OnlyMembers(b, res)
    /\ NoElementTwice(res)
    /\ \A i \in 1..Len(res) : D(res[i], q) <= r
    /\ Len(res) = Cardinality(RSet(b, q, r))
    /\ NonDecr(DistSeq(res, q))

IsListAnswer(b, res) == Len(res) = Cardinality(b) /\ ElemsOf(res) = b
===============================================================================
