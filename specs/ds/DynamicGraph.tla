---------------------------- MODULE DynamicGraph ----------------------------
(* Contract (A) of the dynamic shortest-path structures used by LBTRRT and      *)
(* LazyLBTRRT (growth property G01):                                           *)
(*                                                                             *)
(*   Kind = "sssp"  ompl::DynamicSSSP        directed multigraph, source = vertex 0, *)
(*                  addVertex / addEdge / removeEdge / clear,                  *)
(*                  getShortestPathCost / getShortestPathParent (+ the list of *)
(*                  affected vertices LBTRRT consumes)                         *)
(*   Kind = "lpa"   ompl::LPAstarOnGraph over an UNDIRECTED boost graph (the   *)
(*                  way LazyLBTRRT uses it: add_edge + insertEdge both ways,   *)
(*                  remove_edge + removeEdge both ways), computeShortestPath   *)
(*   Kind = "lpad"  the same class over a bidirectionalS (directed) graph      *)
(*   Kind = "adj"   ompl::AdjacencyList      undirected simple graph,          *)
(*                  addVertex / addEdge / removeEdge / setEdgeWeight / clear,  *)
(*                  edgeExists / getEdgeWeight / neighbours / dijkstra /       *)
(*                  components                                                 *)
(*                                                                             *)
(* Abstract state: the number of vertices nv (ids 0..nv-1, as all three classes *)
(* number them) and the weight function wt : arcs -> weight (an undirected     *)
(* edge is the pair of opposite arcs; parallel arcs of the multigraph are      *)
(* represented by their minimum, which is all a shortest-path answer can       *)
(* depend on).  Every answer is defined declaratively from (nv, wt):           *)
(* shortest-path cost = Bellman-Ford fixpoint (cross-checked against explicit  *)
(* enumeration of simple paths), a parent is admissible iff it lies on SOME    *)
(* shortest path, unreachable = INF.                                           *)
(*                                                                             *)
(* Documented preconditions are environment assumptions (guards):              *)
(*   sssp  "we assume that no two paths have the same cost" (comment on        *)
(*         addEdge) -> TieFree: distinct simple paths from the source have     *)
(*         distinct costs; weights > 0 (the assert in addEdge)                 *)
(*   lpa   the heuristic is consistent (Koenig/Likhachev/Furcy, the paper the  *)
(*         header cites) and h(target) = 0 (hard-wired by the constructor);    *)
(*         an edge is inserted only when absent (LazyLBTRRT tests edgeExists)  *)
(*   adj   weights >= 0; component queries are answerable only while no edge   *)
(*         has been removed (the header says so)                               *)
EXTENDS Naturals, Integers, Sequences, FiniteSets, TLC, Json

CONSTANTS Kind,        \* "sssp" | "lpa" | "lpad" | "adj"
          N,           \* bound on the number of vertices
          W,           \* set of weights the model chooses from
          MaxE,        \* bound on the number of arcs (model only)
          Source,      \* lpa/lpad: source vertex (sssp: always 0)
          Target,      \* lpa/lpad: target vertex
          HSel,        \* lpa/lpad: which heuristic (0: zero, 1: |u - Target|, 2: 1 off target)
          TieFreeOnly  \* TRUE: sssp histories keep the documented no-ties assumption

VARIABLES nv,       \* number of vertices
          wt,       \* arcs -> weight
          up,       \* Setup happened (the object exists)
          removed,  \* adj: an edge has been removed since construction / clear
          lastAct   \* ghost: [act, args, ret] of the step that produced this state

cvars == <<nv, wt, up, removed, lastAct>>

(* ------------------------------------------------------------------------- *)
(* pure operators over an explicit graph (G, n): used on primed and unprimed *)
(* states, by the trace specification and by the implementation-shaped specs *)
(* ------------------------------------------------------------------------- *)
INF == 1000000000
Plus(a, b) == IF a >= INF \/ b >= INF THEN INF ELSE a + b
MinOf(S) == CHOOSE x \in S : \A y \in S : x <= y
Abs(x) == IF x < 0 THEN -x ELSE x
Verts(n) == 0..(n - 1)
Arcs(G) == DOMAIN G
NoArcs == [e \in {} |-> 0]
InArcs(G, v) == {e \in DOMAIN G : e[2] = v}
OutArcs(G, v) == {e \in DOMAIN G : e[1] = v}
Without(G, S) == [e \in (DOMAIN G) \ S |-> G[e]]
WithArc(G, u, v, c) == IF <<u, v>> \in DOMAIN G
                       THEN [G EXCEPT ![<<u, v>>] = IF c < @ THEN c ELSE @]
                       ELSE G @@ (<<u, v>> :> c)

Relax(G, n, d) == [v \in Verts(n) |-> MinOf({d[v]} \cup {Plus(d[e[1]], G[e]) : e \in InArcs(G, v)})]
RECURSIVE Fix(_, _, _, _)
Fix(G, n, d, k) == IF k = 0 THEN d
                   ELSE LET d2 == Relax(G, n, d) IN IF d2 = d THEN d ELSE Fix(G, n, d2, k - 1)
(* shortest-path cost from s to every vertex: Bellman-Ford fixpoint *)
DistFrom(G, n, s) == Fix(G, n, [v \in Verts(n) |-> IF v = s THEN 0 ELSE INF], n)

(* parents admissible for u under distances d: the last hop of SOME shortest path *)
AdmParents(G, n, d, u) ==
    {p \in Verts(n) : <<p, u>> \in DOMAIN G /\ d[p] < INF /\ d[p] + G[<<p, u>>] = d[u]}

RECURSIVE PathCost(_, _)
PathCost(G, p) == IF Len(p) <= 1 THEN 0 ELSE G[<<p[1], p[2]>>] + PathCost(G, Tail(p))
IsPath(G, n, p) == /\ Len(p) >= 1
                   /\ \A i \in 1..Len(p) : p[i] \in Verts(n)
                   /\ \A i \in 1..Len(p) - 1 : <<p[i], p[i + 1]>> \in DOMAIN G
(* the answer of a point-to-point query: cost and a witness path (empty when unreachable) *)
PathAnswerOk(G, n, s, t, cost, path) ==
    LET d == DistFrom(G, n, s)[t]
    IN  IF d >= INF THEN cost = INF /\ path = <<>>
        ELSE /\ cost = d
             /\ IsPath(G, n, path) /\ path[1] = s /\ path[Len(path)] = t
             /\ PathCost(G, path) = d

(* explicit enumeration of the simple paths starting at s (second definition of distance) *)
RECURSIVE Ext(_, _, _)
Ext(G, n, P) ==
    LET more == {Append(p, v) : p \in P, v \in Verts(n)}
        ok == {q \in more : /\ <<q[Len(q) - 1], q[Len(q)]>> \in DOMAIN G
                            /\ \A i \in 1..Len(q) - 1 : q[i] # q[Len(q)]}
    IN  IF ok \subseteq P THEN P ELSE Ext(G, n, P \cup ok)
SimplePaths(G, n, s) == IF s \in Verts(n) THEN Ext(G, n, {<<s>>}) ELSE {}
EnumDist(G, n, s, u) ==
    LET C == {PathCost(G, p) : p \in {q \in SimplePaths(G, n, s) : q[Len(q)] = u}}
    IN  IF C = {} THEN INF ELSE MinOf(C)
(* the documented assumption of DynamicSSSP: no two paths (from the source) have the same cost *)
TieFree(G, n, s) == \A p, q \in SimplePaths(G, n, s) : p # q => PathCost(G, p) # PathCost(G, q)

Reach(G, n, s) == {v \in Verts(n) : DistFrom(G, n, s)[v] < INF}
NumComponents(G, n) == Cardinality({Reach(G, n, s) : s \in Verts(n)})
Symmetric(G) == \A e \in DOMAIN G : <<e[2], e[1]>> \in DOMAIN G /\ G[<<e[2], e[1]>>] = G[e]

(* heuristic of the point-to-point structure *)
H(u) == IF HSel = 1 THEN Abs(u - Target)
        ELSE IF HSel = 2 THEN (IF u = Target THEN 0 ELSE 1)
        ELSE 0
Directed == Kind \in {"sssp", "lpad"}
Src == IF Kind = "sssp" THEN 0 ELSE Source

(* ------------------------------------------------------------------------- *)
(* operations: the effect on (nv, wt); answers are the observers further down *)
(* ------------------------------------------------------------------------- *)
V == Verts(nv)
Act(name, args, ret) == lastAct' = [act |-> name, args |-> args, ret |-> ret]

CInit == nv = 0 /\ wt = NoArcs /\ up = FALSE /\ removed = FALSE
         /\ lastAct = [act |-> "Init", args |-> <<>>, ret |-> 0]

(* construction; the point-to-point structure is built over a graph that already has its vertices *)
CSetup ==
    /\ ~up /\ up' = TRUE
    /\ nv' = IF Kind \in {"lpa", "lpad"} THEN N ELSE 0
    /\ wt' = NoArcs /\ removed' = FALSE
    /\ Act("Setup", [kind |-> Kind, n |-> nv', source |-> Src, target |-> Target,
                     h |-> [i \in 1..N |-> H(i - 1)]], 0)

CAddVertex ==
    /\ up /\ nv < N
    /\ nv' = nv + 1 /\ UNCHANGED <<wt, up, removed>>
    /\ Act("AddVertex", [id |-> nv], nv)

(* directed arc; a second arc between the same vertices is a parallel arc: the minimum counts *)
CAddArc(u, v, c) ==
    /\ up /\ u \in V /\ v \in V /\ u # v
    /\ wt' = WithArc(wt, u, v, c)
    /\ UNCHANGED <<nv, up, removed>>
    /\ Act("AddArc", [u |-> u, v |-> v, c |-> c], 0)

(* removes every arc u -> v (a no-op when there is none: LBTRRT removes "the opposite edge" blindly) *)
CRemoveArc(u, v) ==
    /\ up /\ u \in V /\ v \in V /\ u # v
    /\ wt' = Without(wt, {<<u, v>>})
    /\ UNCHANGED <<nv, up>> /\ removed' = removed
    /\ Act("RemoveArc", [u |-> u, v |-> v], 0)

(* undirected edge, inserted only when absent *)
CAddEdge(u, v, c) ==
    /\ up /\ u \in V /\ v \in V /\ u # v /\ <<u, v>> \notin Arcs(wt)
    /\ wt' = WithArc(WithArc(wt, u, v, c), v, u, c)
    /\ UNCHANGED <<nv, up, removed>>
    /\ Act("AddEdge", [u |-> u, v |-> v, c |-> c], 0)

CRemoveEdge(u, v) ==
    /\ up /\ <<u, v>> \in Arcs(wt)
    /\ wt' = Without(wt, {<<u, v>>, <<v, u>>})
    /\ UNCHANGED <<nv, up, removed>>
    /\ Act("RemoveEdge", [u |-> u, v |-> v], 0)

(* the point-to-point query is an operation of its own: it changes nothing abstractly, but the *)
(* incremental search does its work here, so histories differ in where it is asked             *)
CCompute ==
    /\ up /\ UNCHANGED <<nv, wt, up, removed>>
    /\ Act("Compute", <<>>, 0)

(* AdjacencyList: the operations answer whether they did anything *)
CAdjAddEdge(u, v, c) ==
    LET ok == u # v /\ <<u, v>> \notin Arcs(wt)
    IN  /\ up /\ u \in V /\ v \in V
        /\ wt' = IF ok THEN WithArc(WithArc(wt, u, v, c), v, u, c) ELSE wt
        /\ UNCHANGED <<nv, up, removed>>
        /\ Act("AdjAddEdge", [u |-> u, v |-> v, c |-> c], IF ok THEN 1 ELSE 0)

CAdjRemoveEdge(u, v) ==
    LET ok == <<u, v>> \in Arcs(wt)
    IN  /\ up /\ u \in V /\ v \in V
        /\ wt' = Without(wt, {<<u, v>>, <<v, u>>})
        /\ removed' = (removed \/ ok)
        /\ UNCHANGED <<nv, up>>
        /\ Act("AdjRemoveEdge", [u |-> u, v |-> v], IF ok THEN 1 ELSE 0)

CAdjSetWeight(u, v, c) ==
    LET ok == <<u, v>> \in Arcs(wt)
    IN  /\ up /\ u \in V /\ v \in V
        /\ wt' = IF ok THEN [wt EXCEPT ![<<u, v>>] = c, ![<<v, u>>] = c] ELSE wt
        /\ UNCHANGED <<nv, up, removed>>
        /\ Act("AdjSetWeight", [u |-> u, v |-> v, c |-> c], IF ok THEN 1 ELSE 0)

CClear ==
    /\ up /\ nv > 0
    /\ nv' = 0 /\ wt' = NoArcs /\ removed' = FALSE /\ UNCHANGED up
    /\ Act("Clear", <<>>, 0)

(* ------------------------------------------------------------------------- *)
(* the model: which operations a kind offers, within the bounds               *)
(* ------------------------------------------------------------------------- *)
Small(G) == Cardinality(DOMAIN G) <= MaxE
Consistent(u, v, c) == H(u) <= c + H(v)       \* h(u) <= c(u,v) + h(v)

NextSssp ==
    \/ CAddVertex
    \/ \E u \in V, v \in V, c \in W :
          \* LBTRRT adds the same edge again (same states, same length): an exact duplicate.  A parallel
          \* arc of a different weight is a second path whose cost can tie with a third one, so under the
          \* no-ties assumption only duplicates are offered
          /\ (TieFreeOnly /\ <<u, v>> \in Arcs(wt)) => wt[<<u, v>>] = c
          /\ CAddArc(u, v, c) /\ Small(wt')
          /\ TieFreeOnly => TieFree(wt', nv, 0)
    \/ \E u \in V, v \in V : CRemoveArc(u, v)
    \/ CClear

NextLpa ==
    \/ \E u \in V, v \in V, c \in W :
          /\ Consistent(u, v, c) /\ Consistent(v, u, c)
          /\ CAddEdge(u, v, c) /\ Small(wt')
    \/ \E u \in V, v \in V : CRemoveEdge(u, v)
    \/ CCompute

NextLpad ==
    \/ \E u \in V, v \in V, c \in W :
          /\ <<u, v>> \notin Arcs(wt) /\ Consistent(u, v, c)
          /\ CAddArc(u, v, c) /\ Small(wt')
    \/ \E u \in V, v \in V : <<u, v>> \in Arcs(wt) /\ CRemoveArc(u, v)
    \/ CCompute

NextAdj ==
    \/ CAddVertex
    \/ \E u \in V, v \in V, c \in W : CAdjAddEdge(u, v, c) /\ Small(wt')
    \/ \E u \in V, v \in V : CAdjRemoveEdge(u, v)
    \/ \E u \in V, v \in V, c \in W : CAdjSetWeight(u, v, c)
    \/ CClear

CNext == \/ CSetup
         \/ Kind = "sssp" /\ NextSssp
         \/ Kind = "lpa" /\ NextLpa
         \/ Kind = "lpad" /\ NextLpad
         \/ Kind = "adj" /\ NextAdj

Spec == CInit /\ [][CNext]_cvars

(* ------------------------------------------------------------------------- *)
(* sanity of the contract itself                                              *)
(* ------------------------------------------------------------------------- *)
Sources == IF Kind = "adj" THEN V ELSE IF Src \in V THEN {Src} ELSE {}

TypeOK == /\ nv \in 0..N
          /\ DOMAIN wt \subseteq (V \X V)
          /\ \A e \in DOMAIN wt : wt[e] \in W /\ e[1] # e[2]
          /\ up \in BOOLEAN /\ removed \in BOOLEAN

UndirectedIsSymmetric == (~Directed) => Symmetric(wt)

(* triangle property of the answers *)
Triangle == \A s \in Sources :
                LET d == DistFrom(wt, nv, s)
                IN  /\ d[s] = 0
                    /\ \A e \in Arcs(wt) : d[e[2]] <= Plus(d[e[1]], wt[e])

(* a reachable vertex other than the source has an admissible parent that is no farther    *)
(* (strictly nearer when weights are positive), so every parent chain reaches the source   *)
ParentChain == \A s \in Sources :
                   LET d == DistFrom(wt, nv, s)
                   IN  \A u \in V \ {s} :
                           IF d[u] < INF
                           THEN \E p \in AdmParents(wt, nv, d, u) :
                                    d[p] <= d[u] /\ ((0 \notin W) => d[p] < d[u])
                           ELSE AdmParents(wt, nv, d, u) = {}

(* the two definitions of distance agree; INF exactly when no path exists *)
FixpointIsEnumeration == \A s \in Sources : \A u \in V :
                             DistFrom(wt, nv, s)[u] = EnumDist(wt, nv, s, u)

(* insertion can only lower, removal only raise an answer *)
Monotone ==
    [][ LET a == lastAct'.act
        IN  \A s \in Sources : s \in Verts(nv') =>
              LET d0 == DistFrom(wt, nv, s)
                  d1 == DistFrom(wt', nv', s)
              IN  /\ a \in {"AddArc", "AddEdge", "AdjAddEdge"} => \A u \in V : d1[u] <= d0[u]
                  /\ a \in {"RemoveArc", "RemoveEdge", "AdjRemoveEdge"} => \A u \in V : d1[u] >= d0[u]
                  /\ a \in {"Compute", "AddVertex"} => \A u \in V : d1[u] = d0[u]
      ]_cvars

(* ------------------------------------------------------------------------- *)
(* scenario export: every transition with the full table of admissible answers *)
(* ------------------------------------------------------------------------- *)
Out(x) == IF x >= INF THEN -1 ELSE x
SeqOfSet(S) == LET RECURSIVE Go(_)
                   Go(T) == IF T = {} THEN <<>> ELSE LET x == MinOf(T) IN <<x>> \o Go(T \ {x})
               IN  Go(S)
Matrix(G, n) == [i \in 1..n |-> [j \in 1..n |->
                    IF <<i - 1, j - 1>> \in DOMAIN G THEN G[<<i - 1, j - 1>>] ELSE -1]]
DistRow(G, n, s) == LET d == DistFrom(G, n, s) IN [i \in 1..n |-> Out(d[i - 1])]

ExpOf(G0, n0, G, n) ==
    LET d0 == DistFrom(G0, n0, Src)
        d == DistFrom(G, n, Src)
        common == Verts(n) \cap Verts(n0)
    IN  [nv |-> n, w |-> Matrix(G, n), ne |-> Cardinality(DOMAIN G),
         ret |-> lastAct'.ret, removed |-> IF removed' THEN 1 ELSE 0,
         dist |-> [i \in 1..n |-> Out(d[i - 1])],
         par |-> [i \in 1..n |-> IF d[i - 1] < INF /\ i - 1 # Src
                                THEN SeqOfSet(AdmParents(G, n, d, i - 1)) ELSE <<>>],
         \* vertices whose answer changed in this step: to a finite value / to unreachable
         chg |-> SeqOfSet({u \in common : d[u] # d0[u] /\ d[u] < INF}),
         lost |-> SeqOfSet({u \in common : d[u] # d0[u] /\ d[u] >= INF}),
         cost |-> IF Target \in Verts(n) THEN Out(d[Target]) ELSE -1,
         apd |-> IF Kind = "adj" THEN [i \in 1..n |-> DistRow(G, n, i - 1)] ELSE <<>>,
         comp |-> IF Kind = "adj" THEN NumComponents(G, n) ELSE 0]

StateKey == <<nv, Matrix(wt, nv), up, removed>>
View == <<nv, wt, up, removed>>
Dump == PrintT(ToJson([src |-> <<nv, Matrix(wt, nv), up, removed>>,
                       dst |-> <<nv', Matrix(wt', nv'), up', removed'>>,
                       act |-> lastAct'.act, args |-> lastAct'.args,
                       exp |-> ExpOf(wt, nv, wt', nv')]))
=============================================================================
