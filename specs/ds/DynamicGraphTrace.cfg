\* the constants of the contract module parameterise its model only; the trace names its own kind
SPECIFICATION TSpec
CONSTANTS
  Kind = "trace"
  N = 0
  W = {}
  MaxE = 0
  Source = 0
  Target = 0
  HSel = 0
  TieFreeOnly = FALSE
INVARIANT NotAccepted
CHECK_DEADLOCK FALSE
