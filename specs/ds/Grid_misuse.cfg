\* WITHOUT the protocol restriction of DESIGN.md section 6 (Strict = FALSE): TLC finds the history
\* createCell(a) ; createCell(b adjacent to a) ; add ; add  after which CountExactQuiescent fails.
\* This documents why the restriction is an environment assumption; it is API misuse, not a finding.
SPECIFICATION Spec
CONSTANTS
  Kind = "GridN"
  Dim = 1
  Axis = {0, 1, 2, 3, 4}
  AxisRest = {0}
  Plus = FALSE
  HasBounds = TRUE
  LoB = 1
  HiB = 3
  Limit = 2
  Prios = {1}
  ByCount = FALSE
  ExtMax = TRUE
  Strict = FALSE
  MaxPending = 2
  MaxCells = 99
VIEW View
INVARIANTS TypeOK CountExactQuiescent
