--------------------------------- MODULE Grid ---------------------------------
(* Specification of the grid discretizations ompl::Grid, ompl::GridN and       *)
(* ompl::GridB (src/ompl/datastructures/Grid.h, GridN.h, GridB.h), property    *)
(* C13.  The code is its own contract here (A = I): the state is what the      *)
(* public interface lets one observe, and every action transcribes the         *)
(* corresponding member function, including the TWO-STEP protocol              *)
(*     createCell(coord)  (bumps the counters of the present neighbours and    *)
(*                         computes the new cell's own count)                  *)
(*     add(cell)          (inserts into the hash and, in GridB, into a heap)   *)
(* and  remove(cell) ; destroyCell(cell).                                      *)
(*                                                                             *)
(*   Kind = "Grid"   hash of cells only                                        *)
(*   Kind = "GridN"  + per-cell neighbour count `cnt` and `border` flag        *)
(*   Kind = "GridB"  + two priority queues (internal / external cells); the    *)
(*                     priority `data` is recomputed by the user's callback    *)
(*                     whenever the grid announces a change of the cell        *)
(*                                                                             *)
(* All observers are written over an explicit state record so that the trace   *)
(* specification (GridTrace) can evaluate them on the successor state.         *)
EXTENDS Integers, Sequences, FiniteSets, TLC, Json

CONSTANTS Kind,        \* "Grid" | "GridN" | "GridB"
          Dim,         \* dimension of the grid
          Axis,        \* model values of coordinate 1          } the box explored by TLC;
          AxisRest,    \* model values of coordinates 2..Dim    } actions work on any integers
          Plus,        \* TRUE: only the cells of the box differing from (1,..,1) in at most one
                       \* coordinate (a cell with all its 2*Dim neighbours, cheaply)
          HasBounds,   \* setBounds() was called
          LoB, HiB,    \* ... with [LoB, HiB]^Dim
          Limit,       \* interior-cell neighbour limit (default 2*Dim)
          Prios,       \* base priorities (GridB) / payloads (Grid, GridN)
          ByCount,     \* TRUE: the callback derives the priority from base AND neighbour count
          ExtMax,      \* TRUE: external heap pops the LARGEST data, internal the smallest
                       \* FALSE: the two functors are exchanged
          Strict,      \* TRUE: the documented protocol (DESIGN.md section 6); FALSE: anything goes
          MaxPending,  \* bound on created-but-not-added cells (model only)
          MaxCells     \* bound on live cells (model only)

VARIABLES present,  \* coordinates of the cells in the hash
          pending,  \* coordinates of cells created by createCell() and not (yet) added
          dead,     \* coordinates of cells removed and not yet destroyed (at most one)
          base,     \* live cell -> base priority / payload given by the user
          cnt,      \* live cell -> Cell::neighbors
          border,   \* live cell -> Cell::border
          inQ,      \* present cell -> "int" | "ext" | "none": the heap holding the cell
          data,     \* present cell -> Cell::data as last written by the callback
          key,      \* present cell -> the data under which its heap last (re)filed the cell
          lastAct   \* ghost: what the step did (for scenario export)

vars == <<present, pending, dead, base, cnt, border, inQ, data, key, lastAct>>

Tracks == Kind # "Grid"      \* neighbour counts and border flags exist
Heaps == Kind = "GridB"      \* the two heaps exist

(* ------------------------------ geometry ------------------------------ *)
Dims == 1..Dim
AxisOf(i) == IF i = 1 THEN Axis ELSE AxisRest
Coords == {c \in [Dims -> Axis \cup AxisRest] :
              /\ \A i \in Dims : c[i] \in AxisOf(i)
              /\ Plus => Cardinality({i \in Dims : c[i] # 1}) <= 1}
Shift(c, i, d) == [c EXCEPT ![i] = c[i] + d]
(* the probe sequence of Grid::neighbors(): dimensions from last to first, -1 before +1 *)
ProbeSeq(c) == [k \in 1..2 * Dim |-> Shift(c, Dim - ((k - 1) \div 2), IF k % 2 = 1 THEN -1 ELSE 1)]
NbrCoords(c) == {Shift(c, i, d) : i \in Dims, d \in {-1, 1}}
Adjacent(a, b) == b \in NbrCoords(a)
(* the relation of the property statement, defined independently of the probe *)
Abs(x) == IF x < 0 THEN -x ELSE x
DiffersByOne(a, b) == \E i \in Dims : Abs(a[i] - b[i]) = 1 /\ \A j \in Dims \ {i} : a[j] = b[j]
(* GridN::numberOfBoundaryDimensions *)
BDims(c) == IF HasBounds THEN Cardinality({i \in Dims : c[i] = LoB \/ c[i] = HiB}) ELSE 0
(* what the user's callback writes into Cell::data *)
Pri(b, n) == IF Heaps /\ ByCount THEN 3 * b + n ELSE b

Restrict(f, S) == [x \in S |-> f[x]]
Ext(f, c, v) == [x \in DOMAIN f \cup {c} |-> IF x = c THEN v ELSE f[x]]
Max(S) == CHOOSE x \in S : \A y \in S : y <= x
Min(S) == CHOOSE x \in S : \A y \in S : x <= y

(* ------------------------- observers over a state record ------------------------- *)
St == [present |-> present, pending |-> pending, dead |-> dead, base |-> base, cnt |-> cnt,
       border |-> border, inQ |-> inQ, data |-> data, key |-> key]

HasCell(s, c) == c \in s.present
NbrSeqOf(s, c) == SelectSeq(ProbeSeq(c), LAMBDA x : x \in s.present)     \* neighbors(), in order
NbrsOf(s, c) == NbrCoords(c) \cap s.present                               \* neighbors(), as a set

RECURSIVE Reach(_, _)
Reach(s, S) == LET N == S \cup UNION {NbrsOf(s, x) : x \in S} IN IF N = S THEN S ELSE Reach(s, N)
CompsOf(s) == {Reach(s, {c}) : c \in s.present}          \* connected components by closure
RECURSIVE SizesDesc(_)
SizesDesc(CS) == IF CS = {} THEN <<>>
                 ELSE LET m == CHOOSE X \in CS : \A Y \in CS : Cardinality(Y) <= Cardinality(X)
                      IN  <<Cardinality(m)>> \o SizesDesc(CS \ {m})

QueueOf(s, q) == {c \in s.present : s.inQ[c] = q}
BestOf(s, q) == LET K == {s.key[c] : c \in QueueOf(s, q)}
                IN  IF (q = "ext") = ExtMax THEN Max(K) ELSE Min(K)
(* the priority a top*() call must return: best under the functor among the cells that     *)
(* ARE internal (resp. border) cells now, by their current data                            *)
WantTop(s, q) == LET D == {s.data[c] : c \in {x \in s.present : s.border[x] = (q = "ext")}}
                 IN  IF (q = "ext") = ExtMax THEN Max(D) ELSE Min(D)

(* ---- Grid::components() transcribed: BFS whose queue may hold duplicates that are     *)
(* erased when popped; `ord` is the iteration order of the hash                           *)
RemoveAt(q, i) == SubSeq(q, 1, i - 1) \o SubSeq(q, i + 1, Len(q))
RECURSIVE Bfs(_, _, _, _)
Bfs(s, q, idx, seen) ==
    IF idx >= Len(q) THEN <<q, seen>>
    ELSE LET c == q[idx + 1]
         IN  IF c \notin seen
             THEN Bfs(s, q \o SelectSeq(NbrSeqOf(s, c), LAMBDA n : n \notin seen \cup {c}), idx + 1, seen \cup {c})
             ELSE Bfs(s, RemoveAt(q, idx + 1), idx, seen)
RECURSIVE CompLoop(_, _, _, _)
CompLoop(s, ord, seen, res) ==
    IF ord = <<>> THEN res
    ELSE IF Head(ord) \in seen THEN CompLoop(s, Tail(ord), seen, res)
    ELSE LET r == Bfs(s, <<Head(ord)>>, 0, seen) IN CompLoop(s, Tail(ord), r[2], Append(res, r[1]))
RECURSIVE SeqOf(_)
SeqOf(S) == IF S = {} THEN <<>> ELSE LET x == CHOOSE y \in S : TRUE IN <<x>> \o SeqOf(S \ {x})
Reverse(q) == [i \in 1..Len(q) |-> q[Len(q) + 1 - i]]
AlgoComps(s, ord) == CompLoop(s, ord, {}, <<>>)

(* ------------------------------ actions ------------------------------ *)
Act(name, args, toInt, toExt) == lastAct' = [act |-> name, args |-> args, toInt |-> toInt, toExt |-> toExt]

Init ==
    /\ present = {} /\ pending = {} /\ dead = {}
    /\ base = <<>> /\ cnt = <<>> /\ border = <<>> /\ inQ = <<>> /\ data = <<>> /\ key = <<>>
    /\ lastAct = [act |-> "Init", args |-> <<>>, toInt |-> 0, toExt |-> 0]

(* The loop over the present neighbours N in createCell (d = 1) and remove (d = -1):      *)
(* counter, flag flip, callback, then the heap operations of GridB.                        *)
Bump(N, d) ==
    LET cnt1 == [x \in DOMAIN cnt |-> IF Tracks /\ x \in N THEN cnt[x] + d ELSE cnt[x]]
        brd1 == [x \in DOMAIN border |->
                    IF ~Tracks \/ x \notin N THEN border[x]
                    ELSE IF d = 1 THEN (IF border[x] /\ cnt1[x] >= Limit THEN FALSE ELSE border[x])
                    ELSE (IF ~border[x] /\ cnt1[x] < Limit THEN TRUE ELSE border[x])]
        dat1 == [x \in DOMAIN data |-> IF Heaps /\ x \in N THEN Pri(base[x], cnt1[x]) ELSE data[x]]
        inq1 == [x \in DOMAIN inQ |->
                    IF ~Heaps \/ x \notin N THEN inQ[x]
                    ELSE IF d = 1
                         THEN (IF brd1[x] THEN inQ[x]                 \* external_.update
                               ELSE IF border[x] THEN "int"           \* external_.remove ; internal_.insert
                               ELSE inQ[x])                           \* internal_.update
                         ELSE (IF brd1[x] THEN (IF border[x] THEN inQ[x]   \* external_.update
                                                ELSE "ext")                \* internal_.remove ; external_.insert
                               ELSE inQ[x])]                               \* internal_.update
        key1 == [x \in DOMAIN key |-> IF Heaps /\ x \in N THEN dat1[x] ELSE key[x]]
    IN  [cnt |-> cnt1, border |-> brd1, data |-> dat1, inQ |-> inq1, key |-> key1,
         toInt |-> Cardinality({x \in N : border[x] /\ ~brd1[x]}),
         toExt |-> Cardinality({x \in N : ~border[x] /\ brd1[x]})]

(* DESIGN.md section 6: while a cell is pending nothing adjacent to it is created or     *)
(* removed (its own count and the counts of pending neighbours would not be maintained). *)
Isolated(c) == (Tracks /\ Strict) => \A p \in pending \ {c} : ~Adjacent(p, c)

Create(c, v) ==
    /\ dead = {} /\ c \notin present \cup pending
    /\ Isolated(c)
    /\ LET N == NbrsOf(St, c)
           b == Bump(N, 1)
           own == BDims(c) + Cardinality(N)
       IN  /\ pending' = pending \cup {c}
           /\ base' = Ext(base, c, v)
           /\ cnt' = Ext(b.cnt, c, IF Tracks THEN own ELSE 0)
           /\ border' = Ext(b.border, c, IF Tracks /\ own >= Limit THEN FALSE ELSE TRUE)
           /\ inQ' = b.inQ /\ data' = b.data /\ key' = b.key
           /\ Act("Create", [c |-> c, v |-> v], b.toInt, b.toExt)
    /\ UNCHANGED <<present, dead>>

Add(c) ==
    /\ dead = {} /\ c \in pending /\ c \notin present
    /\ present' = present \cup {c} /\ pending' = pending \ {c}
    /\ LET d == Pri(base[c], cnt[c])                             \* callback runs first
       IN  /\ data' = Ext(data, c, d) /\ key' = Ext(key, c, d)
           /\ inQ' = Ext(inQ, c, IF ~Heaps THEN "none" ELSE IF border[c] THEN "ext" ELSE "int")
    /\ UNCHANGED <<dead, base, cnt, border>>
    /\ Act("Add", [c |-> c], 0, 0)

Remove(c) ==
    /\ dead = {} /\ c \in present \cup pending
    /\ Isolated(c)
    /\ LET N == NbrsOf(St, c)
           b == Bump(N, -1)
           live == (present \cup pending) \ {c}
           pres == present \ {c}
       IN  /\ present' = pres /\ pending' = pending \ {c} /\ dead' = {c}
           /\ base' = Restrict(base, live) /\ cnt' = Restrict(b.cnt, live) /\ border' = Restrict(b.border, live)
           /\ inQ' = Restrict(b.inQ, pres) /\ data' = Restrict(b.data, pres) /\ key' = Restrict(b.key, pres)
           /\ Act("Remove", [c |-> c, was |-> c \in present], b.toInt, b.toExt)

Destroy(c) ==
    /\ c \in dead /\ dead' = {}
    /\ UNCHANGED <<present, pending, base, cnt, border, inQ, data, key>>
    /\ Act("Destroy", [c |-> c], 0, 0)

Update(c, v) ==
    /\ Heaps /\ dead = {} /\ c \in present
    /\ base' = [base EXCEPT ![c] = v]
    /\ data' = [data EXCEPT ![c] = Pri(v, cnt[c])]
    /\ key' = [key EXCEPT ![c] = Pri(v, cnt[c])]                 \* the heap named by the flag re-files it
    /\ UNCHANGED <<present, pending, dead, cnt, border, inQ>>
    /\ Act("Update", [c |-> c, v |-> v], 0, 0)

(* the user changes the bases of the cells in DOMAIN f, then calls updateAll() *)
UpdateAll(f) ==
    /\ Heaps /\ dead = {} /\ DOMAIN f \subseteq present
    /\ base' = [x \in DOMAIN base |-> IF x \in DOMAIN f THEN f[x] ELSE base[x]]
    /\ data' = [x \in present |-> Pri(base'[x], cnt[x])]
    /\ key' = data'
    /\ UNCHANGED <<present, pending, dead, cnt, border, inQ>>
    /\ Act("UpdateAll", [ch |-> {[c |-> x, v |-> f[x]] : x \in DOMAIN f}], 0, 0)

Clear ==
    /\ dead = {}
    /\ (Tracks /\ Strict) => \A p \in pending : NbrsOf(St, p) = {}
    /\ present' = {}
    /\ base' = Restrict(base, pending) /\ cnt' = Restrict(cnt, pending) /\ border' = Restrict(border, pending)
    /\ inQ' = <<>> /\ data' = <<>> /\ key' = <<>>
    /\ UNCHANGED <<pending, dead>>
    /\ Act("Clear", <<>>, 0, 0)

(* a new grid object (trace validation only) *)
Reset ==
    /\ present' = {} /\ pending' = {} /\ dead' = {}
    /\ base' = <<>> /\ cnt' = <<>> /\ border' = <<>> /\ inQ' = <<>> /\ data' = <<>> /\ key' = <<>>
    /\ Act("Reset", <<>>, 0, 0)

NextPrio(v) == IF v = Max(Prios) THEN Min(Prios) ELSE Min({w \in Prios : w > v})
(* updateAll() after re-basing nothing, everything, every interior cell, every border cell *)
FlipSets == {{}, present, QueueOf(St, "int"), QueueOf(St, "ext")}
Flip(S) == [x \in S |-> NextPrio(base[x])]

Next ==
    \/ \E c \in Coords, v \in Prios :
           /\ Cardinality(pending) < MaxPending
           /\ Cardinality(present) + Cardinality(pending) < MaxCells
           /\ Create(c, v)
    \/ \E c \in pending : Add(c)
    \/ \E c \in present \cup pending : Remove(c)
    \/ \E c \in dead : Destroy(c)
    \/ \E c \in present, v \in Prios : v # base[c] /\ Update(c, v)
    \/ \E S \in FlipSets : UpdateAll(Flip(S))
    \/ Clear

Spec == Init /\ [][Next]_vars

(* ------------------------------ properties ------------------------------ *)
Live == present \cup pending
TypeOK ==
    /\ present \cap pending = {} /\ Cardinality(dead) <= 1
    /\ DOMAIN base = Live /\ DOMAIN cnt = Live /\ DOMAIN border = Live
    /\ DOMAIN inQ = present /\ DOMAIN data = present /\ DOMAIN key = present
    /\ \A c \in Live : border[c] \in BOOLEAN /\ cnt[c] \in Int

NbrSymmetric == \A a, b \in present : (b \in NbrsOf(St, a)) <=> (a \in NbrsOf(St, b))
NbrExact == \A a \in present : /\ NbrsOf(St, a) = {b \in present : DiffersByOne(a, b)}
                               /\ {NbrSeqOf(St, a)[k] : k \in 1..Len(NbrSeqOf(St, a))} = NbrsOf(St, a)
                               /\ Len(NbrSeqOf(St, a)) = Cardinality(NbrsOf(St, a))

(* components by closure partition the present cells according to the relation ...     *)
ComponentsPartition ==
    LET CS == CompsOf(St)
    IN  /\ UNION CS = present
        /\ \A X, Y \in CS : X # Y => X \cap Y = {}
        /\ \A X \in CS : X # {} /\ \A a \in X, b \in present : DiffersByOne(a, b) => b \in X
        /\ \A X \in CS : \A a \in X : Reach(St, {a}) = X
(* ... and the BFS of the code computes exactly those, whatever the hash order          *)
ComponentsAlgo ==
    \A ord \in {SeqOf(present), Reverse(SeqOf(present))} :
        LET res == AlgoComps(St, ord)
        IN  /\ \A i \in 1..Len(res) : Len(res[i]) = Cardinality({res[i][k] : k \in 1..Len(res[i])})
            /\ {{res[i][k] : k \in 1..Len(res[i])} : i \in 1..Len(res)} = CompsOf(St)
            /\ Len(res) = Cardinality(CompsOf(St))

(* a pending cell is counted by its present neighbours (createCell bumped them) *)
CountExact ==
    Tracks => /\ \A c \in present : cnt[c] = Cardinality(NbrsOf(St, c)) + Cardinality(NbrCoords(c) \cap pending) + BDims(c)
              /\ \A c \in pending : cnt[c] = Cardinality(NbrsOf(St, c)) + BDims(c)
CountExactQuiescent ==
    (Tracks /\ pending = {}) => \A c \in present : cnt[c] = Cardinality({b \in present : DiffersByOne(c, b)}) + BDims(c)
BorderExact == Tracks => \A c \in Live : border[c] <=> (cnt[c] < Limit)
QueuePartition ==
    Heaps => \A c \in present : inQ[c] \in {"int", "ext"} /\ (inQ[c] = "ext") <=> border[c]
TopsAreBest ==
    Heaps => /\ \A c \in present : key[c] = data[c] /\ data[c] = Pri(base[c], cnt[c])
             /\ \A q \in {"int", "ext"} : QueueOf(St, q) # {} => BestOf(St, q) = WantTop(St, q)

(* ------------------------------ scenario export ------------------------------ *)
View == <<present, pending, dead, base, cnt, border, inQ, data, key>>

CoordSeq == SeqOf(Coords)
B2N(b) == IF b THEN 1 ELSE 0
KeyOf(s) == [i \in 1..Len(CoordSeq) |->
               LET c == CoordSeq[i]
               IN  IF c \in s.present THEN <<1, s.base[c], s.cnt[c], B2N(s.border[c]), s.inQ[c], s.data[c], s.key[c]>>
                   ELSE IF c \in s.pending THEN <<2, s.base[c], s.cnt[c], B2N(s.border[c])>>
                   ELSE IF c \in s.dead THEN <<3>> ELSE <<0>>]

(* everything the public interface must report in state s *)
ExpOf(s) ==
    LET ni == Cardinality({c \in s.present : ~s.border[c]})
        ne == Cardinality({c \in s.present : s.border[c]})
        CS == CompsOf(s)
    IN  [size  |-> Cardinality(s.present),
         cells |-> {[c |-> c, nb |-> NbrsOf(s, c), n |-> s.cnt[c], f |-> s.border[c], d |-> s.data[c]] : c \in s.present},
         abs   |-> {[c |-> c, nb |-> NbrsOf(s, c)] : c \in Coords \ s.present},
         pend  |-> {[c |-> c, n |-> s.cnt[c], f |-> s.border[c]] : c \in s.pending},
         comps |-> SizesDesc(CS),
         parts |-> CS,
         ni    |-> IF Heaps THEN ni ELSE 0,
         ne    |-> IF Heaps THEN ne ELSE 0,
         ti    |-> IF Heaps /\ ni > 0 THEN WantTop(s, "int") ELSE 0,
         te    |-> IF Heaps /\ ne > 0 THEN WantTop(s, "ext") ELSE 0]

Dump == PrintT(ToJson([src |-> KeyOf(St), dst |-> KeyOf(St'), act |-> lastAct'.act, args |-> lastAct'.args,
                       exp |-> ExpOf(St') @@ [toInt |-> lastAct'.toInt, toExt |-> lastAct'.toExt]]))
===============================================================================
