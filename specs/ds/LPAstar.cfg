\* LPAstarOnGraph as the code is now: refines the contract, LPA* invariants hold (all histories, 3 vertices, weights 1..2)
SPECIFICATION ISpec
CONSTANTS
  Kind = "lpa"
  N = 3
  W = {1, 2}
  MaxE = 6
  Source = 0
  Target = 2
  HSel = 0
  TieFreeOnly = FALSE
  EraseAllEqual = FALSE
  EmptyMeansInf = FALSE
  MaxLen = 0
VIEW LView
INVARIANTS RefinesContract RhsIsLookahead ParentRealisesRhs QueueIsInconsistentSet FlagIsMembership KeysCurrent QueueSorted SearchPostcondition TargetKeyStableInQueue
