\* sanity of the contract itself (tools/checks/g01.py generates one such configuration per kind)
SPECIFICATION Spec
CONSTANTS
  Kind = "lpa"
  N = 4
  W = {1, 2, 3}
  MaxE = 12
  Source = 0
  Target = 3
  HSel = 1
  TieFreeOnly = FALSE
VIEW View
INVARIANTS TypeOK UndirectedIsSymmetric Triangle ParentChain FixpointIsEnumeration
PROPERTY Monotone
