\* GridB on a 1-D box of 6 coordinates, bounds [1,4], interior limit 2, priority callback depending
\* on the neighbour count; tools/checks/c13.py generates the other configurations
SPECIFICATION Spec
CONSTANTS
  Kind = "GridB"
  Dim = 1
  Axis = {0, 1, 2, 3, 4, 5}
  AxisRest = {0}
  Plus = FALSE
  HasBounds = TRUE
  LoB = 1
  HiB = 4
  Limit = 2
  Prios = {1, 2}
  ByCount = TRUE
  ExtMax = TRUE
  Strict = TRUE
  MaxPending = 2
  MaxCells = 99
VIEW View
INVARIANTS TypeOK NbrSymmetric NbrExact ComponentsPartition ComponentsAlgo CountExact CountExactQuiescent BorderExact QueuePartition TopsAreBest
