---------------------------- MODULE PDFApproxTrace ----------------------------
(* Trace validation of recorded ompl::PDF executions whose weights are NOT      *)
(* exactly representable (0.1, 1/3, 1e-9 next to 1e12 ...).  Same contract,     *)
(* same mutation lines as PDFContractTrace, except that weights are fixed-point *)
(* images (see harness/pdf.cpp, recordNonrep) and `wbad` counts listed elements *)
(* whose getWeight() is not bit-for-bit the weight last given (must be 0).      *)
(* A Sample line carries lo, hi, den (r lies in [lo/den, hi/den]), interior     *)
(* (1 iff 0 < r < 1), tol and the id returned (0: what came back is not the     *)
(* data of a surviving element).                                                *)
(* Sampling is an observer, so a sample that breaks the contract does not       *)
(* block the trace: the spec prints one JSON finding per offending line (class  *)
(* = the contract clause that fails) and goes on, so that one known defect does *)
(* not hide the rest of the history.  The check turns findings into verdicts.   *)
EXTENDS PDFContract, TraceIO

VARIABLE l
tvars == <<els, l>>

Ev == Log[l]
Is(e) == l <= NLog /\ Ev.e = e /\ l' = l + 1
Listed == [i \in 1..Len(Ev.ord) |-> [id |-> Ev.ord[i], w |-> Ev.ws[i]]]
Observed == Len(Ev.ord) = Len(Ev.ws) /\ SizeIs(els', Ev.n) /\ Ev.hbad = 0 /\ Ev.wbad = 0

TInit == els = <<>> /\ l = 1

TReset == Is("Reset") /\ els' = <<>>
TAdd == Is("Add") /\ CAdd(Ev.id, Ev.w, Listed) /\ Observed
TUpdate == Is("Update") /\ CUpdate(Ev.id, Ev.w, Listed) /\ Observed
TRemove == Is("Remove") /\ CRemove(Ev.id, Listed) /\ Observed
TClear == Is("Clear") /\ CClear(Listed) /\ Observed
TSample ==
    /\ Is("Sample") /\ UNCHANGED els
    /\ Ev.den > 0 /\ 0 <= Ev.lo /\ Ev.lo <= Ev.hi /\ Ev.hi <= Ev.den /\ Ev.tol >= 0
    /\ Ev.interior \in {0, 1} /\ (Ev.interior = 1 => Ev.hi > 0 /\ Ev.lo < Ev.den)
    /\ Len(els) > 0
    /\ LET v == ApproxVerdict(els, Ev.id, Ev.lo, Ev.hi, Ev.den, Ev.tol, Ev.interior = 1)
       IN  v = "ok" \/ PrintT(ToJson([finding |-> v, line |-> l, sample |-> Ev, listing |-> els]))

TNext == TReset \/ TAdd \/ TUpdate \/ TRemove \/ TClear \/ TSample

TSpec == TInit /\ [][TNext]_tvars
NotAccepted == l <= NLog
==============================================================================
