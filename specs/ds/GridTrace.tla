------------------------------ MODULE GridTrace ------------------------------
(* Trace validation of histories recorded from the real ompl::Grid / GridN /   *)
(* GridB (harness/grid.cpp record) against the specification Grid.  Each line  *)
(* carries the operation with its arguments and what the real structure        *)
(* reported afterwards; TLC applies the SAME action of module Grid to its own  *)
(* state and recomputes every reported value from that state.  A `Reset` line  *)
(* starts a new grid object and repeats the configuration, which must be the   *)
(* one this model was instantiated with (Kind, Dim, bounds, Limit, ...).       *)
(* Coordinates are arbitrary integers here; the box constants of Grid are not  *)
(* used.                                                                       *)
EXTENDS Grid, TraceIO

VARIABLE l
tvars == <<vars, l>>

Ev == Log[l]
Is(e) == l <= NLog /\ Ev.e = e /\ l' = l + 1
ToSet(s) == {s[i] : i \in 1..Len(s)}
NoDup(s) == Cardinality(ToSet(s)) = Len(s)

(* ---- what every line reports: size, and for GridB both counts and both tops *)
TopOk(s, t, q) ==
    LET C == {c \in s.present : s.border[c] = (q = "ext")}
    IN  IF C = {} THEN ~t.has
        ELSE /\ t.has /\ t.c \in C
             /\ s.data[t.c] = t.d
             /\ t.d = WantTop(s, q)
Common(s) ==
    /\ Ev.size = Cardinality(s.present)
    /\ Heaps => /\ Ev.ni = Cardinality({c \in s.present : ~s.border[c]})
                /\ Ev.ne = Cardinality({c \in s.present : s.border[c]})
                /\ TopOk(s, Ev.ti, "int")
                /\ TopOk(s, Ev.te, "ext")

(* rows [c, n, f, d] describe cells as the real structure shows them *)
RowOk(s, r) == /\ r.c \in s.present
               /\ s.data[r.c] = r.d
               /\ Tracks => s.cnt[r.c] = r.n /\ s.border[r.c] = r.f
(* the present neighbours of coordinate c, each with its count, flag and data *)
TouchedOk(s, c, rows) ==
    /\ NoDup([i \in 1..Len(rows) |-> rows[i].c])
    /\ {rows[i].c : i \in 1..Len(rows)} = NbrsOf(s, c)
    /\ \A i \in 1..Len(rows) : RowOk(s, rows[i])

TInit == Init /\ l = 1

TReset ==
    /\ Is("Reset") /\ Reset
    /\ Ev.kind = Kind /\ Ev.dim = Dim /\ Ev.bounds = HasBounds
    /\ (HasBounds => Ev.lo = LoB /\ Ev.hi = HiB)
    /\ (Tracks => Ev.limit = Limit)
    /\ (Heaps => Ev.bycount = ByCount /\ Ev.extmax = ExtMax)

TCreate ==
    /\ Is("Create") /\ Create(Ev.c, Ev.v)
    /\ Len(Ev.c) = Dim
    /\ Tracks => cnt'[Ev.c] = Ev.n /\ border'[Ev.c] = Ev.f
    /\ Ev.hasNbh => NoDup(Ev.nbh) /\ ToSet(Ev.nbh) = NbrsOf(St', Ev.c)
    /\ TouchedOk(St', Ev.c, Ev.touched)
    /\ Common(St')

TAdd ==
    /\ Is("Add") /\ Add(Ev.c)
    /\ data'[Ev.c] = Ev.d
    /\ Common(St')

TRemove ==
    /\ Is("Remove") /\ Remove(Ev.c)
    /\ Ev.ret = (Ev.c \in present)
    /\ TouchedOk(St', Ev.c, Ev.touched)
    /\ Common(St')

TDestroy == Is("Destroy") /\ Destroy(Ev.c) /\ Common(St')

TUpdate ==
    /\ Is("Update") /\ Update(Ev.c, Ev.v)
    /\ data'[Ev.c] = Ev.d
    /\ Common(St')

ChFun(ch) == [x \in {ch[i].c : i \in 1..Len(ch)} |-> ch[CHOOSE i \in 1..Len(ch) : ch[i].c = x].v]
TUpdateAll ==
    /\ Is("UpdateAll")
    /\ NoDup([i \in 1..Len(Ev.ch) |-> Ev.ch[i].c])
    /\ UpdateAll(ChFun(Ev.ch))
    /\ Common(St')

TClear == Is("Clear") /\ Clear /\ Common(St')

(* pure observers *)
Same == UNCHANGED vars
THas == Is("Has") /\ Same /\ Ev.r = HasCell(St, Ev.c) /\ Common(St)
TNbrs == Is("Nbrs") /\ Same /\ NoDup(Ev.nb) /\ ToSet(Ev.nb) = NbrsOf(St, Ev.c) /\ Common(St)
TComps ==
    /\ Is("Comps") /\ Same
    /\ LET P == Ev.parts IN
       /\ \A i \in 1..Len(P) : NoDup(P[i])
       /\ \A i \in 1..Len(P) - 1 : Len(P[i]) >= Len(P[i + 1])           \* largest first
       /\ {ToSet(P[i]) : i \in 1..Len(P)} = CompsOf(St)                 \* the partition
       /\ Len(P) = Cardinality(CompsOf(St))
    /\ Common(St)
TCells ==
    /\ Is("Cells") /\ Same
    /\ NoDup([i \in 1..Len(Ev.rows) |-> Ev.rows[i].c])
    /\ {Ev.rows[i].c : i \in 1..Len(Ev.rows)} = present
    /\ \A i \in 1..Len(Ev.rows) : RowOk(St, Ev.rows[i])
    /\ Common(St)

TNext == \/ TReset \/ TCreate \/ TAdd \/ TRemove \/ TDestroy \/ TUpdate \/ TUpdateAll \/ TClear
         \/ THas \/ TNbrs \/ TComps \/ TCells

TSpec == TInit /\ [][TNext]_tvars
NotAccepted == l <= NLog
==============================================================================
