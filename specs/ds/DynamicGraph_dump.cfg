\* scenario export: every transition of the contract with the table of admissible answers; run with -workers 1
SPECIFICATION Spec
CONSTANTS
  Kind = "sssp"
  N = 4
  W = {1, 2, 4}
  MaxE = 3
  Source = 0
  Target = 1
  HSel = 0
  TieFreeOnly = TRUE
VIEW View
ACTION_CONSTRAINT Dump
