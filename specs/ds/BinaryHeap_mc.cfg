SPECIFICATION Spec
CONSTANTS
  Keys = {1, 2, 3}
  MaxSize = 7
  SiftUpOnRemove = TRUE
  MaxBulk = 3
  Core = FALSE
INVARIANTS HeapOrder TopIsMin DrainSorted SortAgrees
PROPERTY StepRefinesContract
VIEW View
