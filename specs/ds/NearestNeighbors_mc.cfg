\* 4 points on a line, 2 copies each (81 bags): consistency of the answer definitions.
\* tools/checks/c10.py generates the same file for the other named configurations.
SPECIFICATION Spec
CONSTANTS
  PtSeq <- Line4
  MaxCopies = 2
  MaxSize = 8
  Bulks <- Line4Bulks
  QSeq <- Line4Q
  RSeq <- Radii
  CheckSubsets = TRUE
VIEW View
INVARIANTS TypeOK Canonical KSorted KLen KPrefix RPrefixOfK RMonotone RBounded NearestIsK1 ApproxWeaker SizeAgrees KSubBag RAnswerAgrees ListAgrees
PROPERTY StepContract
