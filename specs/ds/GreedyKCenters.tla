---------------------------- MODULE GreedyKCenters ----------------------------
(* Contract of ompl::GreedyKCenters::kcenters (src/ompl/datastructures/          *)
(* GreedyKCenters.h, an anchored file of C10: the GNATs choose the pivots of     *)
(* every split with it).  Given a non-empty vector `data` and k >= 1:            *)
(*  - the first centre is any index (the code draws it from its RNG: here it is  *)
(*    a free choice, and the harness repeats the call until every choice was     *)
(*    seen);                                                                     *)
(*  - every further centre is a point FARTHEST from the centres chosen so far    *)
(*    (ties free; the code takes the lowest index);                              *)
(*  - it stops at k centres, or earlier exactly when every point coincides with  *)
(*    a chosen centre (the code: largest remaining distance < epsilon);          *)
(*  - centres are therefore pairwise different indices of pairwise different     *)
(*    points, and dists(j, i) is the distance from data[j] to the i-th centre.   *)
(* The specification builds answers step by step, non-deterministically; its     *)
(* terminal states are all admissible answers.  TLC enumerates every multiset    *)
(* of at most MaxN points of PtSet (as a sorted vector) x every k x every first  *)
(* centre x every tie choice, checks the properties below (including the         *)
(* classical guarantees of the greedy rule on a metric: centres are at least     *)
(* the covering radius apart, and the radius is at most twice the optimum),      *)
(* and prints the terminal states for the replay on the real class.              *)
EXTENDS NNContract, Json

CONSTANTS PtSet,     \* point codes (metric: NNContract!Dist)
          MaxN,      \* largest data vector
          MaxK,      \* largest k
          CheckOpt   \* TRUE: also compare with the optimal k-centre radius (all subsets)

VARIABLES data, k, centers, done
vars == <<data, k, centers, done>>

SortedVectors == UNION {{s \in [1..n -> PtSet] : \A i \in 1..n - 1 : s[i] <= s[i + 1]} : n \in 1..MaxN}
Idx == 1..Len(data)

MaxOf(S) == CHOOSE x \in S : \A y \in S : y <= x
MinOfSet(S) == CHOOSE x \in S : \A y \in S : x <= y
D2(i, j) == Dist(data[i], data[j])
(* distance from point j to the nearest of the centres cs (cs non-empty) *)
MinDist(cs, j) == MinOfSet({D2(j, cs[i]) : i \in 1..Len(cs)})
(* covering radius of the centres cs *)
Radius(cs) == MaxOf({MinDist(cs, j) : j \in Idx})
Farthest(cs) == {j \in Idx : MinDist(cs, j) = Radius(cs)}
Matrix(cs) == [j \in Idx |-> [i \in 1..Len(cs) |-> D2(j, cs[i])]]

Init == data \in SortedVectors /\ k \in 1..MaxK /\ centers = <<>> /\ done = FALSE

First(f) == ~done /\ centers = <<>> /\ f \in Idx /\ centers' = <<f>> /\ UNCHANGED <<data, k, done>>
Grow(j) ==
    /\ ~done /\ centers # <<>> /\ Len(centers) < k
    /\ Radius(centers) > 0
    /\ j \in Farthest(centers)
    /\ centers' = Append(centers, j) /\ UNCHANGED <<data, k, done>>
Stop ==
    /\ ~done /\ centers # <<>>
    /\ Len(centers) = k \/ Radius(centers) = 0
    /\ done' = TRUE /\ UNCHANGED <<data, k, centers>>

Next == (\E f \in Idx : First(f)) \/ (\E j \in Idx : Grow(j)) \/ Stop
Spec == Init /\ [][Next]_vars

(* ------------------------------ the answer, said declaratively ------------------------------ *)
Prefix(cs, i) == SubSeq(cs, 1, i)
IsAnswer(cs) ==
    /\ Len(cs) >= 1 /\ Len(cs) <= k
    /\ \A i \in 1..Len(cs) : cs[i] \in Idx
    /\ \A i \in 2..Len(cs) : /\ Radius(Prefix(cs, i - 1)) > 0
                             /\ MinDist(Prefix(cs, i - 1), cs[i]) = Radius(Prefix(cs, i - 1))
    /\ Len(cs) < k => Radius(cs) = 0

(* ------------------------------ properties ------------------------------ *)
TypeOK == /\ Len(centers) <= k /\ Len(centers) <= Len(data)
          /\ \A i \in 1..Len(centers) : centers[i] \in Idx
Distinct == \A i, j \in 1..Len(centers) : i # j => centers[i] # centers[j] /\ D2(centers[i], centers[j]) > 0
TerminalIsAnswer == done => IsAnswer(centers)
(* never stuck before an answer: a running state can take a step *)
Progress == ~done => (centers = <<>> \/ Len(centers) = k \/ Radius(centers) = 0 \/ Farthest(centers) # {})
(* fewer than k centres only when nothing is left to cover *)
EarlyStopOnlyWhenCovered == done /\ Len(centers) < k => \A j \in Idx : \E i \in 1..Len(centers) : data[j] = data[centers[i]]
(* greedy centres are at least the covering radius apart ... *)
Separated == centers # <<>> => \A i, j \in 1..Len(centers) : i # j => D2(centers[i], centers[j]) >= Radius(centers)
(* ... hence (pigeonhole + triangle inequality) the radius is at most twice the best possible
   with as many centres *)
SubsetsOfSize(m) == {S \in SUBSET Idx : Cardinality(S) = m}
RadiusOfSet(S) == MaxOf({MinOfSet({D2(j, c) : c \in S}) : j \in Idx})
OptRadius(m) == MinOfSet({RadiusOfSet(S) : S \in SubsetsOfSize(m)})
TwoApproximation == CheckOpt /\ centers # <<>> => Radius(centers) <= 2 * OptRadius(Len(centers))
(* the radius never grows when a centre is added *)
RadiusShrinks == [][centers # <<>> /\ centers' # centers => Radius(centers') <= Radius(centers)]_vars

(* ------------------------------ scenario export ------------------------------ *)
(* one line per terminal state: an admissible answer with its distance matrix *)
Dump == done' /\ ~done => PrintT(ToJson([data |-> data, k |-> k, centers |-> centers, dists |-> Matrix(centers)]))

(* named point sets (configuration files cannot spell them conveniently) *)
LinePts == {0, 1, 2, 4}
LatticePts == {0, 1, 2, 1024, 1025, 1026, 2048, 2049, 2050}
===============================================================================
