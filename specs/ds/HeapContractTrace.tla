-------------------------- MODULE HeapContractTrace --------------------------
(* Trace validation of recorded BinaryHeap executions against HeapContract.    *)
(* Each line: the operation with its arguments, then what the real heap        *)
(* reported afterwards (size, top).  Reset starts a new execution.             *)
EXTENDS HeapContract, TraceIO

VARIABLE l
tvars == <<bag, l>>

Ev == Log[l]
Is(e) == l <= NLog /\ Ev.e = e /\ l' = l + 1
Observed == SizeIs(bag', Ev.n) /\ TopOk(bag', Ev.hasTop, Ev.top)

TInit == bag = <<>> /\ l = 1

TReset == Is("Reset") /\ bag' = <<>>
TInsert == Is("Insert") /\ CInsert(Ev.id, Ev.k) /\ Observed
TInsertMany == Is("InsertMany") /\ CInsertMany(Ev.ids, Ev.ks) /\ Observed
TRemove == Is("Remove") /\ CRemove(Ev.id) /\ Observed
TPop == Is("Pop") /\ CPop(Ev.id) /\ bag[Ev.id] = Ev.k /\ Observed
TUpdate == Is("Update") /\ CUpdate(Ev.id, Ev.k) /\ Observed
TRebuild == Is("Rebuild") /\ CRebuild(Ev.ch) /\ Observed
TBuildFrom == Is("BuildFrom") /\ CBuildFrom(Ev.ids, Ev.ks) /\ Observed
TClear == Is("Clear") /\ CClear /\ Observed
TSort == Is("Sort") /\ UNCHANGED bag /\ IsPermutation(Ev.in, Ev.out) /\ IsNonDecreasing(Ev.out) /\ Observed
TContent == /\ Is("Content") /\ UNCHANGED bag
            /\ Len(Ev.ids) = Cardinality(Ids)
            /\ \A i \in 1..Len(Ev.ids) : Ev.ids[i] \in Ids /\ bag[Ev.ids[i]] = Ev.ks[i]
            /\ SeqToSet(Ev.ids) = Ids
            /\ Observed

TNext == TReset \/ TInsert \/ TInsertMany \/ TRemove \/ TPop \/ TUpdate \/ TRebuild
         \/ TBuildFrom \/ TClear \/ TSort \/ TContent

TSpec == TInit /\ [][TNext]_tvars
NotAccepted == l <= NLog
==============================================================================
