------------------------------- MODULE PDFTree -------------------------------
(* Implementation-shaped specification (I) of ompl::PDF<T>                      *)
(* (src/ompl/datastructures/PDF.h).                                             *)
(*   data : mirrors `data_`.  data[i] is the `index_` field stored in the       *)
(*          Element that sits in storage slot i (0-based, as in the code), so   *)
(*          IndexConsistent says data[i] = i-1.  Element identity is not part   *)
(*          of the state: inside an action the elements are labelled with       *)
(*          their source slot (a new element: Len(data)+1) and the ghost        *)
(*          lastAct.perm reports where each survivor went (perm[i] = label of   *)
(*          the element now in slot i).                                         *)
(*   rows : mirrors `tree_`.  rows[1] is tree_[0] (the leaf weights in storage  *)
(*          order); rows[r+1] holds the pairwise sums of rows[r].               *)
(* Code indices are 0-based, TLA+ sequences 1-based: tree_[i][k] is             *)
(* rows[i+1][k+1].  Every action transcribes the member function statement by   *)
(* statement.  Verdicts on the code are taken from PDFContract; here TLC checks *)
(* that the algorithm refines it (SampleRefines, StepRefinesContract) and       *)
(* enumerates every tree shape so each transition can be replayed.              *)
(*                                                                              *)
(* Two algorithms are transcribed, selected by ExactSums:                       *)
(*   TRUE  - the repaired code (e0af2370e): add / update / remove recompute     *)
(*           every touched inner node from its children (recomputeSums), and    *)
(*           sample() steps right only if r > left, a right sibling exists and  *)
(*           it carries weight.                                                 *)
(*   FALSE - the code before the repair: += / -= of weight differences up the   *)
(*           tree and an unguarded descent.                                     *)
(* With exact (integer) arithmetic both behave identically.  Drift = TRUE adds  *)
(* a design-level model of floating-point rounding; see the Drift section.      *)
EXTENDS Naturals, Integers, Sequences, FiniteSets, TLC, Json

CONSTANTS Weights,    \* set of small natural weights, 0 included
          MaxSize,    \* bound on the number of elements
          ExactSums,  \* TRUE: repaired algorithm; FALSE: delta propagation (defect D-C12)
          Drift       \* FALSE: exact arithmetic (integer weights, what the replay uses);
                      \* TRUE: sums / differences may be off by one unit (rounding model)

VARIABLES data, rows, lastAct

vars == <<data, rows, lastAct>>

Front(s) == SubSeq(s, 1, Len(s) - 1)
Last(s) == s[Len(s)]
Shr(i, k) == i \div (2 ^ k)
Max(a, b) == IF a >= b THEN a ELSE b

E(id, ix) == [id |-> id, ix |-> ix]
Lab(d) == [i \in 1..Len(d) |-> E(i, d[i])]
IxOf(d) == [i \in 1..Len(d) |-> d[i].ix]
IdsOf(d) == [i \in 1..Len(d) |-> d[i].id]
Leaves(t) == IF t = <<>> THEN <<>> ELSE t[1]

Act(name, args, d) == lastAct' = [act |-> name, args |-> args, perm |-> IdsOf(d)]

(* ------------------------- rounding errors (Drift) ------------------------- *)
(* An error vector gives, per tree row (0-based row index), the error of the one *)
(* floating-point operation performed at that row: e \in {-1, 0, 1} units.       *)
(* Sums are formed in rows 1..MaxRows-1; the descent also uses entry 0, for      *)
(* r * head.                                                                     *)
RECURSIVE RowsFor(_)
RowsFor(n) == IF n <= 1 THEN 1 ELSE 1 + RowsFor((n + 1) \div 2)
MaxRows == RowsFor(MaxSize)
NoErr == [r \in 0..MaxRows |-> 0]
DescErrs == IF Drift THEN [0..MaxRows - 1 -> {-1, 0, 1}] ELSE {NoErr}
(* fl(a + b) for a, b >= 0: exact when an operand is zero, otherwise within one unit *)
RoundAdd(a, b, e) == IF a = 0 \/ b = 0 THEN a + b ELSE a + b + e

(* --------------------- recomputeSums (ExactSums = TRUE) --------------------- *)
(* for (; row < tree_.size(); ++row, index >>= 1)                                 *)
(*     tree_[row][index] = left+1 < below.size() ? below[left] + below[left+1]    *)
(*                                               : below[left];                   *)
RECURSIVE Recompute(_, _, _, _)
Recompute(t, row, index, es) ==
    IF row >= Len(t) THEN t
    ELSE LET below == t[row]                        \* tree_[row - 1]
             left  == 2 * index
             v     == IF left + 1 < Len(below)
                      THEN RoundAdd(below[left + 1], below[left + 2], es[row])
                      ELSE below[left + 1]
         IN  Recompute([t EXCEPT ![row + 1][index + 1] = v], row + 1, index \div 2, es)

(* ---------------------------------- add ---------------------------------- *)
(* old: while (i < tree_.size()) { tree_[i].back() += w; ++i; }                 *)
AddBack(t, i, w) ==
    [r \in 1..Len(t) |-> IF r >= i + 1 THEN [t[r] EXCEPT ![Len(t[r])] = @ + w] ELSE t[r]]

(* for (i = 1; i < tree_.size(); ++i) ... ; then the new head                   *)
RECURSIVE AddLoop(_, _, _, _)
AddLoop(t, i, w, es) ==
    IF i < Len(t)
    THEN IF Len(t[i]) % 2 = 1                       \* tree_[i-1].size() % 2 == 1
         THEN AddLoop([t EXCEPT ![i + 1] = Append(@, w)], i + 1, w, es)
         ELSE IF ExactSums THEN Recompute(t, i, Len(t[i + 1]) - 1, es)   \* recomputeSums(i, tree_[i].size()-1)
              ELSE AddBack(t, i, w)
    ELSE Append(t, <<RoundAdd(Last(t)[1], Last(t)[2], es[Len(t)])>>)     \* head = back()[0] + back()[1]

AddTree(t, nBefore, w, es) ==
    IF nBefore = 0                                   \* data_.size() == 1 after push_back
    THEN Append(t, <<w>>)
    ELSE AddLoop([t EXCEPT ![1] = Append(@, w)], 1, w, es)

(* -------------------------------- update --------------------------------- *)
(* old: tree_[row][index >> row] += change for row >= 1                         *)
Propagate(t, index, change) ==
    [r \in 1..Len(t) |-> IF r = 1 THEN t[1]
                         ELSE [t[r] EXCEPT ![Shr(index, r - 1) + 1] = @ + change]]

UpdateTree(t, index, w, es) ==
    LET t0 == [t EXCEPT ![1][index + 1] = w]         \* tree_.front()[index] = w
    IN  IF ExactSums THEN Recompute(t0, 1, index \div 2, es)          \* recomputeSums(1, index >> 1)
        ELSE Propagate(t0, index, w - t[1][index + 1])

(* -------------------------------- remove --------------------------------- *)
(* for (i = 1; i < tree_.size() && tree_[i-1].size() > 1; ++i) ...;             *)
(* tree_.pop_back()                                                             *)
RECURSIVE PopLoop(_, _, _, _)
PopLoop(t, i, weight, es) ==
    IF i < Len(t) /\ Len(t[i]) > 1
    THEN IF Len(t[i]) % 2 = 0
         THEN PopLoop([t EXCEPT ![i + 1] = Front(@)], i + 1, weight, es)
         ELSE IF ExactSums THEN Recompute(t, i, Len(t[i + 1]) - 1, es)   \* recomputeSums(i, tree_[i].size()-1); return
              ELSE AddBack(t, i, 0 - weight)         \* back() -= weight upwards; return
    ELSE Front(t)                                    \* redundant head removed

(* result: [d, t, sib, swap] for data_.size() > 1; es, es2: errors of the two passes *)
RemoveBody(d, t, index, es, es2) ==
    LET n      == Len(d)
        nl     == Len(t[1])
        isLast == index + 1 = n
        d1     == IF isLast THEN d
                  ELSE [d EXCEPT ![index + 1] = E(d[n].id, index), ![n] = d[index + 1]]
        t1     == IF isLast THEN t
                  ELSE [t EXCEPT ![1] = [@ EXCEPT ![index + 1] = t[1][nl], ![nl] = t[1][index + 1]]]
        sib    == ~isLast /\ index + 2 = n /\ index % 2 = 0
        weight == IF isLast \/ sib THEN Last(t1[1]) ELSE t1[1][index + 1]
        t2     == IF isLast \/ sib THEN t1
                  ELSE IF ExactSums THEN Recompute(t1, 1, index \div 2, es)   \* recomputeSums(1, index >> 1)
                  ELSE Propagate(t1, index, weight - Last(t1[1]))
        t3     == PopLoop([t2 EXCEPT ![1] = Front(@)], 1, weight, es2)
    IN  [d |-> Front(d1), t |-> t3, sib |-> sib, swap |-> ~isLast]

(* -------------------------------- sample --------------------------------- *)
(* r = j/16.  The code multiplies r by the head and walks down; here everything *)
(* is scaled by 16: r16 = j * head, compared with 16 * tree_[row][node].        *)
(* ExactSums: step right only if r > left, a right sibling exists and it is > 0. *)
(* Result: 0-based leaf index, or -1 when the walk reads past the end of a row   *)
(* (a value rather than a TLC error, so that invariants can speak about it).     *)
(* ds: rounding errors of r * head (ds[0]) and of r -= left (ds[row]); a         *)
(* difference of two distinct doubles is never rounded to 0, hence Max(1, ..).   *)
RECURSIVE Desc(_, _, _, _, _)
Desc(t, row, node, r16, ds) ==
    IF row = 0 THEN node
    ELSE LET below == t[row]                         \* tree_[row - 1]
             li    == 2 * node + 1                   \* 1-based position of tree_[row-1][node << 1]
         IN  IF li > Len(below) THEN -1
             ELSE LET left == 16 * below[li]
                      right == IF ExactSums THEN r16 > left /\ li + 1 <= Len(below) /\ below[li + 1] > 0
                               ELSE r16 > left
                  IN  IF right THEN Desc(t, row - 1, 2 * node + 1, Max(1, r16 - left + ds[row]), ds)
                      ELSE Desc(t, row - 1, 2 * node, r16, ds)
DescentD(t, j, ds) ==
    LET head == Last(t)[1]
        r16  == IF j = 0 \/ j = 16 \/ head <= 0 THEN j * head ELSE Max(1, j * head + ds[0])
    IN  Desc(t, Len(t) - 1, 0, r16, ds)
Descent(t, j) == DescentD(t, j, NoErr)

(* -------------------------------- actions -------------------------------- *)
Init == data = <<>> /\ rows = <<>> /\ lastAct = [act |-> "Init", args |-> <<>>, perm |-> <<>>]

Add(w, es) ==
    /\ Len(data) < MaxSize
    /\ LET n  == Len(data)
           d1 == Append(Lab(data), E(n + 1, n))      \* new Element(d, data_.size())
           t1 == AddTree(rows, n, w, es)
       IN  /\ data' = IxOf(d1) /\ rows' = t1
           /\ Act("Add", [w |-> w, grow |-> Len(t1) - Len(rows)], d1)

Update(s, w, es) ==
    /\ s \in 1..Len(data) /\ w # rows[1][s]
    /\ LET index == Lab(data)[s].ix
       IN  /\ index < Len(data)                      \* else the code throws
           /\ rows' = UpdateTree(rows, index, w, es)
    /\ UNCHANGED data
    /\ Act("Update", [pos |-> s, w |-> w], Lab(data))

(* the code before the repair with a rounded weight change: the leaf gets w exactly, the    *)
(* inner nodes get change + e                                                                *)
UpdateDrift(s, w, e) ==
    /\ Drift /\ ~ExactSums /\ s \in 1..Len(data) /\ w # rows[1][s]
    /\ LET index == Lab(data)[s].ix
           change == w - rows[1][index + 1]
       IN  rows' = Propagate([rows EXCEPT ![1][index + 1] = w], index, change + e)
    /\ UNCHANGED data
    /\ Act("UpdateDrift", [pos |-> s, w |-> w, e |-> e], Lab(data))

Remove(s, es, es2) ==
    /\ s \in 1..Len(data)
    /\ IF Len(data) = 1
       THEN /\ data' = <<>> /\ rows' = <<>>
            /\ Act("Remove", [pos |-> s, swap |-> FALSE, sib |-> FALSE, shrunk |-> 0,
                              head |-> FALSE, single |-> TRUE], <<>>)
       ELSE LET res == RemoveBody(Lab(data), rows, Lab(data)[s].ix, es, es2)
            IN  /\ data' = IxOf(res.d) /\ rows' = res.t
                /\ Act("Remove", [pos |-> s, swap |-> res.swap, sib |-> res.sib,
                                  shrunk |-> Cardinality({r \in 2..Len(res.t) : Len(res.t[r]) < Len(rows[r])}),
                                  head |-> Len(res.t) < Len(rows), single |-> FALSE], res.d)

Clear ==
    /\ data' = <<>> /\ rows' = <<>>
    /\ Act("Clear", [n |-> Len(data)], <<>>)

(* rounding of sums only exists in the repaired algorithm's recomputation; the old algorithm's *)
(* rounding is modelled by UpdateDrift (enough for the counterexamples)                        *)
SumErrs == IF Drift /\ ExactSums THEN [1..MaxRows - 1 -> {-1, 0, 1}] ELSE {NoErr}
(* remove() makes up to two recomputation passes; their errors are independent, but for   *)
(* trees of more than 3 rows the model reuses the first vector to keep TLC's work bounded *)
Pass2Errs(es) == IF MaxRows <= 3 THEN SumErrs ELSE {es}

Next ==
    \/ \E w \in Weights, es \in SumErrs : Add(w, es)
    \/ \E s \in 1..Len(data), w \in Weights, es \in SumErrs : Update(s, w, es)
    \/ \E s \in 1..Len(data), es \in SumErrs : \E es2 \in Pass2Errs(es) : Remove(s, es, es2)
    \/ Clear
    \/ \E s \in 1..Len(data), w \in Weights, e \in {-1, 1} : UpdateDrift(s, w, e)

Spec == Init /\ [][Next]_vars

(* ------------------------------ properties ------------------------------ *)
TypeOK ==
    /\ \A r \in 1..Len(rows) : \A k \in 1..Len(rows[r]) : rows[r][k] \in Nat
    /\ \A k \in 1..Len(Leaves(rows)) : rows[1][k] \in Weights

(* |row r+1| = ceil(|row r| / 2); the head has one entry and is the only such row *)
RowLengths ==
    /\ (Len(data) = 0) <=> (rows = <<>>)
    /\ Len(data) > 0 =>
          /\ Len(rows[1]) = Len(data)
          /\ \A r \in 2..Len(rows) : Len(rows[r]) = (Len(rows[r - 1]) + 1) \div 2
          /\ Len(Last(rows)) = 1
          /\ \A r \in 1..Len(rows) - 1 : Len(rows[r]) > 1

(* every inner node is the sum of its children: the invariant whose loss causes drift *)
RowsAreSums ==
    \A r \in 2..Len(rows) : \A k \in 1..Len(rows[r]) :
        rows[r][k] = rows[r - 1][2 * k - 1]
                     + (IF 2 * k <= Len(rows[r - 1]) THEN rows[r - 1][2 * k] ELSE 0)

IndexConsistent == \A i \in 1..Len(data) : data[i] = i - 1

(* the contract's view of this state: elements in storage order with their leaf weights *)
Listed(t) == [i \in 1..Len(Leaves(t)) |-> [id |-> i, w |-> Leaves(t)[i]]]
C == INSTANCE PDFContract WITH els <- Listed(rows)

Sixteenths == 0..16
SampleRefines ==
    Len(data) > 0 =>
        LET adm == C!AdmissibleTable(Listed(rows), 16)
        IN  \A j \in Sixteenths :
                LET k == Descent(rows, j) + 1
                IN  /\ k \in 1..Len(data)            \* data_[node] inside the storage
                    /\ k \in adm[j + 1]

(* ---- Drift model: the clauses that must survive rounding.                              *)
(* every inner node is the (rounded) sum of its children: nothing stale is left behind     *)
RowsAreRoundedSums ==
    \A r \in 2..Len(rows) : \A k \in 1..Len(rows[r]) :
        LET a == rows[r - 1][2 * k - 1]
        IN  IF 2 * k <= Len(rows[r - 1])
            THEN LET b == rows[r - 1][2 * k]
                 IN  rows[r][k] \in {RoundAdd(a, b, e) : e \in {-1, 0, 1}}
            ELSE rows[r][k] = a
(* whatever the rounding inside the descent, it ends on an element of the storage ...      *)
SampleInStorageDrift ==
    Len(data) > 0 => \A j \in Sixteenths, ds \in DescErrs : DescentD(rows, j, ds) \in 0..Len(data) - 1
(* ... and for 0 < r < 1 never on an element of weight zero when some weight is not zero   *)
NoZeroWeightDrawnDrift ==
    (Len(data) > 0 /\ C!Total(Listed(rows)) > 0) =>
        \A j \in 1..15, ds \in DescErrs :
            LET k == DescentD(rows, j, ds) IN k \in 0..Len(data) - 1 => rows[1][k + 1] > 0

(* every step changes the listed elements as the contract says; labels (handles) of      *)
(* survivors keep their weights                                                           *)
StepRefinesContract ==
    [][ LET act == lastAct'.act
            ar  == lastAct'.args
            pm  == lastAct'.perm
            old == Leaves(rows)
            new == Leaves(rows')
            n   == Len(old)
        IN  /\ Len(pm) = Len(new) /\ Len(new) = Len(data')
            /\ \A i, j \in 1..Len(pm) : i # j => pm[i] # pm[j]
            /\ act = "Add" => /\ Len(new) = n + 1
                              /\ \A i \in 1..n + 1 : new[i] = IF pm[i] = n + 1 THEN ar.w ELSE old[pm[i]]
            /\ act = "Update" => /\ Len(new) = n
                                 /\ \A i \in 1..n : new[i] = IF pm[i] = ar.pos THEN ar.w ELSE old[pm[i]]
            /\ act = "Remove" => /\ Len(new) = n - 1
                                 /\ \A i \in 1..n - 1 : pm[i] # ar.pos /\ pm[i] \in 1..n /\ new[i] = old[pm[i]]
            /\ act = "Clear" => new = <<>>
      ]_vars

(* ------------------------------ scenario export ------------------------------ *)
View == <<data, rows>>
Exp(t) == [n   |-> Len(Leaves(t)),
           ws  |-> Leaves(t),
           adm |-> C!AdmissibleTable(Listed(t), 16),
           pick |-> [j \in 1..17 |-> IF t = <<>> THEN 0 ELSE Descent(t, j - 1) + 1]]
Dump == PrintT(ToJson([src |-> <<data, rows>>, dst |-> <<data', rows'>>, act |-> lastAct'.act,
                       args |-> lastAct'.args, perm |-> lastAct'.perm, exp |-> Exp(rows')]))
===============================================================================
