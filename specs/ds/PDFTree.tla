------------------------------- MODULE PDFTree -------------------------------
(* Implementation-shaped specification (I) of ompl::PDF<T>                      *)
(* (src/ompl/datastructures/PDF.h).                                             *)
(*   data : mirrors `data_`.  data[i] is the `index_` field stored in the       *)
(*          Element that sits in storage slot i (0-based, as in the code), so   *)
(*          IndexConsistent says data[i] = i-1.  Element identity is not part   *)
(*          of the state: inside an action the elements are labelled with       *)
(*          their source slot (a new element: Len(data)+1) and the ghost        *)
(*          lastAct.perm reports where each survivor went (perm[i] = label of   *)
(*          the element now in slot i).                                         *)
(*   rows : mirrors `tree_`.  rows[1] is tree_[0] (the leaf weights in storage  *)
(*          order); rows[r+1] holds the pairwise sums of rows[r].               *)
(* Code indices are 0-based, TLA+ sequences 1-based: tree_[i][k] is             *)
(* rows[i+1][k+1].  Every action transcribes the member function statement by   *)
(* statement.  Verdicts on the code are taken from PDFContract; here TLC checks *)
(* that the algorithm refines it (SampleRefines, StepRefinesContract) and       *)
(* enumerates every tree shape so each transition can be replayed.              *)
EXTENDS Naturals, Integers, Sequences, FiniteSets, TLC, Json

CONSTANTS Weights,   \* set of small natural weights, 0 included
          MaxSize,   \* bound on the number of elements
          Drift      \* FALSE: exact arithmetic (integer weights, what the replay uses).
                     \* TRUE: additionally allow update() to propagate a weight change that is
                     \* off by one unit, the way a rounded `w - old` is (design-level model of
                     \* floating-point weights; only the *Drift invariants are meant for it)

VARIABLES data, rows, lastAct

vars == <<data, rows, lastAct>>

Front(s) == SubSeq(s, 1, Len(s) - 1)
Last(s) == s[Len(s)]
Shr(i, k) == i \div (2 ^ k)

E(id, ix) == [id |-> id, ix |-> ix]
Lab(d) == [i \in 1..Len(d) |-> E(i, d[i])]
IxOf(d) == [i \in 1..Len(d) |-> d[i].ix]
IdsOf(d) == [i \in 1..Len(d) |-> d[i].id]
Leaves(t) == IF t = <<>> THEN <<>> ELSE t[1]

Act(name, args, d) == lastAct' = [act |-> name, args |-> args, perm |-> IdsOf(d)]

(* ---------------------------------- add ---------------------------------- *)
(* while (i < tree_.size()) { tree_[i].back() += w; ++i; }                      *)
AddBack(t, i, w) ==
    [r \in 1..Len(t) |-> IF r >= i + 1 THEN [t[r] EXCEPT ![Len(t[r])] = @ + w] ELSE t[r]]

(* for (i = 1; i < tree_.size(); ++i) ... ; then the new head                   *)
RECURSIVE AddLoop(_, _, _)
AddLoop(t, i, w) ==
    IF i < Len(t)
    THEN IF Len(t[i]) % 2 = 1                       \* tree_[i-1].size() % 2 == 1
         THEN AddLoop([t EXCEPT ![i + 1] = Append(@, w)], i + 1, w)
         ELSE AddBack(t, i, w)
    ELSE Append(t, <<Last(t)[1] + Last(t)[2]>>)     \* head = back()[0] + back()[1]

AddTree(t, nBefore, w) ==
    IF nBefore = 0                                   \* data_.size() == 1 after push_back
    THEN Append(t, <<w>>)
    ELSE AddLoop([t EXCEPT ![1] = Append(@, w)], 1, w)

(* -------------------------------- update --------------------------------- *)
(* tree_[row][index >> row] += change for row >= 1                              *)
Propagate(t, index, change) ==
    [r \in 1..Len(t) |-> IF r = 1 THEN t[1]
                         ELSE [t[r] EXCEPT ![Shr(index, r - 1) + 1] = @ + change]]

UpdateTree(t, index, w) ==
    LET change == w - t[1][index + 1]
    IN  Propagate([t EXCEPT ![1][index + 1] = w], index, change)

(* -------------------------------- remove --------------------------------- *)
(* for (i = 1; i < tree_.size() && tree_[i-1].size() > 1; ++i) ...;             *)
(* tree_.pop_back()                                                             *)
RECURSIVE PopLoop(_, _, _)
PopLoop(t, i, weight) ==
    IF i < Len(t) /\ Len(t[i]) > 1
    THEN IF Len(t[i]) % 2 = 0
         THEN PopLoop([t EXCEPT ![i + 1] = Front(@)], i + 1, weight)
         ELSE AddBack(t, i, 0 - weight)              \* back() -= weight upwards; return
    ELSE Front(t)                                    \* redundant head removed

(* result: [d, t, sib, swap] for data_.size() > 1 *)
RemoveBody(d, t, index) ==
    LET n      == Len(d)
        nl     == Len(t[1])
        isLast == index + 1 = n
        d1     == IF isLast THEN d
                  ELSE [d EXCEPT ![index + 1] = E(d[n].id, index), ![n] = d[index + 1]]
        t1     == IF isLast THEN t
                  ELSE [t EXCEPT ![1] = [@ EXCEPT ![index + 1] = t[1][nl], ![nl] = t[1][index + 1]]]
        sib    == ~isLast /\ index + 2 = n /\ index % 2 = 0
        weight == IF isLast \/ sib THEN Last(t1[1]) ELSE t1[1][index + 1]
        t2     == IF isLast \/ sib THEN t1
                  ELSE Propagate(t1, index, weight - Last(t1[1]))
        t3     == PopLoop([t2 EXCEPT ![1] = Front(@)], 1, weight)
    IN  [d |-> Front(d1), t |-> t3, sib |-> sib, swap |-> ~isLast]

(* -------------------------------- sample --------------------------------- *)
(* r = j/16.  The code multiplies r by the head and walks down; here everything *)
(* is scaled by 16: r16 = j * head, compared with 16 * tree_[row][node].        *)
(* Result: 0-based leaf index.                                                  *)
RECURSIVE Desc(_, _, _, _)
Desc(t, row, node, r16) ==
    IF row = 0 THEN node
    ELSE LET left == 16 * t[row][2 * node + 1]       \* tree_[row-1][node<<1]
         IN  IF r16 > left THEN Desc(t, row - 1, 2 * node + 1, r16 - left)
             ELSE Desc(t, row - 1, 2 * node, r16)
Descent(t, j) == Desc(t, Len(t) - 1, 0, j * Last(t)[1])

(* -------------------------------- actions -------------------------------- *)
Init == data = <<>> /\ rows = <<>> /\ lastAct = [act |-> "Init", args |-> <<>>, perm |-> <<>>]

Add(w) ==
    /\ Len(data) < MaxSize
    /\ LET n  == Len(data)
           d1 == Append(Lab(data), E(n + 1, n))      \* new Element(d, data_.size())
           t1 == AddTree(rows, n, w)
       IN  /\ data' = IxOf(d1) /\ rows' = t1
           /\ Act("Add", [w |-> w, grow |-> Len(t1) - Len(rows)], d1)

Update(s, w) ==
    /\ s \in 1..Len(data) /\ w # rows[1][s]
    /\ LET index == Lab(data)[s].ix
       IN  /\ index < Len(data)                      \* else the code throws
           /\ rows' = UpdateTree(rows, index, w)
    /\ UNCHANGED data
    /\ Act("Update", [pos |-> s, w |-> w], Lab(data))

(* update() with a rounded weight change: the leaf gets w exactly (tree_.front()[index] = w), *)
(* the inner nodes get change + e                                                            *)
UpdateDrift(s, w, e) ==
    /\ Drift /\ s \in 1..Len(data) /\ w # rows[1][s]
    /\ LET index == Lab(data)[s].ix
           change == w - rows[1][index + 1]
       IN  rows' = Propagate([rows EXCEPT ![1][index + 1] = w], index, change + e)
    /\ UNCHANGED data
    /\ Act("UpdateDrift", [pos |-> s, w |-> w, e |-> e], Lab(data))

Remove(s) ==
    /\ s \in 1..Len(data)
    /\ IF Len(data) = 1
       THEN /\ data' = <<>> /\ rows' = <<>>
            /\ Act("Remove", [pos |-> s, swap |-> FALSE, sib |-> FALSE, shrunk |-> 0,
                              head |-> FALSE, single |-> TRUE], <<>>)
       ELSE LET res == RemoveBody(Lab(data), rows, Lab(data)[s].ix)
            IN  /\ data' = IxOf(res.d) /\ rows' = res.t
                /\ Act("Remove", [pos |-> s, swap |-> res.swap, sib |-> res.sib,
                                  shrunk |-> Cardinality({r \in 2..Len(res.t) : Len(res.t[r]) < Len(rows[r])}),
                                  head |-> Len(res.t) < Len(rows), single |-> FALSE], res.d)

Clear ==
    /\ data' = <<>> /\ rows' = <<>>
    /\ Act("Clear", [n |-> Len(data)], <<>>)

Next ==
    \/ \E w \in Weights : Add(w)
    \/ \E s \in 1..Len(data), w \in Weights : Update(s, w)
    \/ \E s \in 1..Len(data) : Remove(s)
    \/ Clear
    \/ \E s \in 1..Len(data), w \in Weights, e \in {-1, 1} : UpdateDrift(s, w, e)

Spec == Init /\ [][Next]_vars

(* ------------------------------ properties ------------------------------ *)
TypeOK ==
    /\ \A r \in 1..Len(rows) : \A k \in 1..Len(rows[r]) : rows[r][k] \in Nat
    /\ \A k \in 1..Len(Leaves(rows)) : rows[1][k] \in Weights

(* |row r+1| = ceil(|row r| / 2); the head has one entry and is the only such row *)
RowLengths ==
    /\ (Len(data) = 0) <=> (rows = <<>>)
    /\ Len(data) > 0 =>
          /\ Len(rows[1]) = Len(data)
          /\ \A r \in 2..Len(rows) : Len(rows[r]) = (Len(rows[r - 1]) + 1) \div 2
          /\ Len(Last(rows)) = 1
          /\ \A r \in 1..Len(rows) - 1 : Len(rows[r]) > 1

(* every inner node is the sum of its children: the invariant whose loss causes drift *)
RowsAreSums ==
    \A r \in 2..Len(rows) : \A k \in 1..Len(rows[r]) :
        rows[r][k] = rows[r - 1][2 * k - 1]
                     + (IF 2 * k <= Len(rows[r - 1]) THEN rows[r - 1][2 * k] ELSE 0)

IndexConsistent == \A i \in 1..Len(data) : data[i] = i - 1

(* the contract's view of this state: elements in storage order with their leaf weights *)
Listed(t) == [i \in 1..Len(Leaves(t)) |-> [id |-> i, w |-> Leaves(t)[i]]]
C == INSTANCE PDFContract WITH els <- Listed(rows)

Sixteenths == 0..16
SampleRefines ==
    Len(data) > 0 =>
        LET adm == C!AdmissibleTable(Listed(rows), 16)
        IN  \A j \in Sixteenths :
                LET k == Descent(rows, j) + 1
                IN  /\ k \in 1..Len(data)            \* data_[node] inside the storage
                    /\ k \in adm[j + 1]

(* ---- the two clauses that need no exact sums, for the Drift model.  The descent is      *)
(* re-stated with a guard so that stepping outside a row is a value (-1), not a TLC error.  *)
RECURSIVE DescG(_, _, _, _)
DescG(t, row, node, r16) ==
    IF row = 0 THEN node
    ELSE IF 2 * node + 1 > Len(t[row]) THEN -1       \* tree_[row-1][node<<1] does not exist
    ELSE LET left == 16 * t[row][2 * node + 1]
         IN  IF r16 > left THEN DescG(t, row - 1, 2 * node + 1, r16 - left)
             ELSE DescG(t, row - 1, 2 * node, r16)
DescentG(t, j) == DescG(t, Len(t) - 1, 0, j * Last(t)[1])

SampleInStorageDrift ==
    Len(data) > 0 => \A j \in Sixteenths : DescentG(rows, j) \in 0..Len(data) - 1
NoZeroWeightDrawnDrift ==
    (Len(data) > 0 /\ C!Total(Listed(rows)) > 0) =>
        \A j \in 1..15 : LET k == DescentG(rows, j) IN k \in 0..Len(data) - 1 => rows[1][k + 1] > 0

(* every step changes the listed elements as the contract says; labels (handles) of      *)
(* survivors keep their weights                                                           *)
StepRefinesContract ==
    [][ LET act == lastAct'.act
            ar  == lastAct'.args
            pm  == lastAct'.perm
            old == Leaves(rows)
            new == Leaves(rows')
            n   == Len(old)
        IN  /\ Len(pm) = Len(new) /\ Len(new) = Len(data')
            /\ \A i, j \in 1..Len(pm) : i # j => pm[i] # pm[j]
            /\ act = "Add" => /\ Len(new) = n + 1
                              /\ \A i \in 1..n + 1 : new[i] = IF pm[i] = n + 1 THEN ar.w ELSE old[pm[i]]
            /\ act = "Update" => /\ Len(new) = n
                                 /\ \A i \in 1..n : new[i] = IF pm[i] = ar.pos THEN ar.w ELSE old[pm[i]]
            /\ act = "Remove" => /\ Len(new) = n - 1
                                 /\ \A i \in 1..n - 1 : pm[i] # ar.pos /\ pm[i] \in 1..n /\ new[i] = old[pm[i]]
            /\ act = "Clear" => new = <<>>
      ]_vars

(* ------------------------------ scenario export ------------------------------ *)
View == <<data, rows>>
Exp(t) == [n   |-> Len(Leaves(t)),
           ws  |-> Leaves(t),
           adm |-> C!AdmissibleTable(Listed(t), 16),
           pick |-> [j \in 1..17 |-> IF t = <<>> THEN 0 ELSE Descent(t, j - 1) + 1]]
Dump == PrintT(ToJson([src |-> <<data, rows>>, dst |-> <<data', rows'>>, act |-> lastAct'.act,
                       args |-> lastAct'.args, perm |-> lastAct'.perm, exp |-> Exp(rows')]))
===============================================================================
