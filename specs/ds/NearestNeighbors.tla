--------------------------- MODULE NearestNeighbors ---------------------------
(* Contract (A) of the nearest-neighbour structures as a state machine, C10.    *)
(* State: `bag`, the multiset of live elements [pt, uid] (module NNContract).   *)
(* Actions: Add, AddMany (add(vector)), Remove of a present element (result     *)
(* TRUE), RemoveAbsent (result FALSE, nothing changes), Clear.  Every state     *)
(* carries the table of expected answers `Exp` for every query point, every k   *)
(* in 0..|bag|+1 and every radius.  The expected answers depend on the bag      *)
(* only, while the shape of a GNAT depends on the whole history: TLC exports    *)
(* the complete state graph once (Dump) and the harness walks every path up to  *)
(* a depth through it on the real structures (mechanism M3' of DESIGN.md).      *)
(*                                                                              *)
(* uids are canonical to keep the graph small: the copies of point p carry      *)
(* uid p*8+1 .. p*8+n in order of age; removing copy i renumbers the younger    *)
(* ones.  The harness keeps the map canonical uid -> real element.              *)
(* TLC also checks the answer definitions against each other (invariants).      *)
EXTENDS NNContract, Json

CONSTANTS PtSeq,        \* the point universe, a sequence of point codes (fixes the state key order)
          MaxCopies,    \* copies of one point that may be live at once (<= 7)
          MaxSize,      \* bound on |bag|
          Bulks,        \* set of point sequences handed to add(vector)
          QSeq,         \* query points (sequence of codes; includes points outside the universe)
          RSeq,         \* query radii
          CheckSubsets  \* TRUE: also check the invariants that enumerate every sub-bag

VARIABLES bag, lastAct
vars == <<bag, lastAct>>

Pts == {PtSeq[i] : i \in 1..Len(PtSeq)}
El(p, i) == [pt |-> p, uid |-> p * 8 + i]
Cnt(b, p) == Cardinality({e \in b : e.pt = p})
Key(b) == [i \in 1..Len(PtSeq) |-> Cnt(b, PtSeq[i])]

(* the elements add(vector) creates for the point sequence ps on top of b *)
RECURSIVE Labelled(_, _)
Labelled(b, ps) ==
    IF ps = <<>> THEN <<>>
    ELSE LET e == El(Head(ps), Cnt(b, Head(ps)) + 1) IN <<e>> \o Labelled(CAdd(b, e), Tail(ps))
Fits(b, ps) ==
    /\ Cardinality(b) + Len(ps) <= MaxSize
    /\ \A p \in Pts : Cnt(b, p) + Cardinality({i \in 1..Len(ps) : ps[i] = p}) <= MaxCopies
(* after copy i of p is gone the younger copies move down one label *)
Renumber(b, p, i) == {IF e.pt = p /\ e.uid > p * 8 + i THEN [e EXCEPT !.uid = @ - 1] ELSE e : e \in b}

Act(name, args) == lastAct' = [act |-> name, args |-> args]

Init == bag = {} /\ lastAct = [act |-> "Init", args |-> <<>>]

Add(p) ==
    /\ Fits(bag, <<p>>)
    /\ LET e == El(p, Cnt(bag, p) + 1) IN Fresh(bag, e) /\ bag' = CAdd(bag, e)
    /\ Act("Add", [pt |-> p])

AddMany(ps) ==
    /\ Len(ps) >= 2 /\ Fits(bag, ps)
    /\ bag' = CAddAll(bag, Labelled(bag, ps))
    /\ Act("AddMany", [pts |-> ps])

Remove(p, i) ==
    /\ i \in 1..Cnt(bag, p)
    /\ CRemoveResult(bag, El(p, i))
    /\ bag' = Renumber(CRemove(bag, El(p, i)), p, i)
    /\ Act("Remove", [pt |-> p, idx |-> i, res |-> TRUE])

(* removing something that is not there: an element at p with an identity no live element has *)
RemoveAbsent(p) ==
    /\ ~CRemoveResult(bag, El(p, 0))
    /\ bag' = CRemove(bag, El(p, 0))
    /\ Act("RemoveAbsent", [pt |-> p, res |-> FALSE])

Clear == bag' = CClear /\ Act("Clear", <<>>)

Next ==
    \/ \E p \in Pts : Add(p)
    \/ \E ps \in Bulks : AddMany(ps)
    \/ \E p \in Pts, i \in 1..MaxCopies : Remove(p, i)
    \/ \E p \in Pts : RemoveAbsent(p)
    \/ Clear

Spec == Init /\ [][Next]_vars

(* ------------------------------ answer tables ------------------------------ *)
Uids(S) == {e.uid : e \in S}
QExp(b, q) ==
    LET sd == SortedDists(b, q)
        n  == Cardinality(b)
    IN  [pt   |-> q,
         near |-> Uids(NearestAdm(b, q, FALSE)),
         k    |-> [k1 \in 1..n + 2 |-> SubSeq(sd, 1, MinOf(k1 - 1, n))],     \* entry k+1 is nearestK(q, k)
         r    |-> [j \in 1..Len(RSeq) |-> [r |-> RSeq[j], ids |-> Uids(RSet(b, q, RSeq[j])),
                                           ds |-> RDists(b, q, RSeq[j])]]]
Exp(b) == [n |-> Size(b), list |-> Uids(b), throws |-> NearestThrows(b),
           nearApprox |-> Uids(NearestAdm(b, 0, TRUE)),
           q |-> [i \in 1..Len(QSeq) |-> QExp(b, QSeq[i])]]

(* ------------------------------ properties ------------------------------ *)
Qs == {QSeq[i] : i \in 1..Len(QSeq)}
Rs == {RSeq[i] : i \in 1..Len(RSeq)}
Ks == 0..Cardinality(bag) + 1

TypeOK == /\ \A e \in bag : e.pt \in Pts
          /\ Cardinality(bag) <= MaxSize
          /\ Cardinality(Uids(bag)) = Cardinality(bag)
Canonical == \A p \in Pts : {e.uid : e \in {f \in bag : f.pt = p}} = {p * 8 + i : i \in 1..Cnt(bag, p)}

KSorted == \A q \in Qs, k \in Ks : NonDecr(KDists(bag, q, k))
KLen == \A q \in Qs, k \in Ks : Len(KDists(bag, q, k)) = MinOf(k, Cardinality(bag))
KPrefix == \A q \in Qs, k \in Ks : KDists(bag, q, k) = SubSeq(KDists(bag, q, k + 1), 1, Len(KDists(bag, q, k)))
(* the radius answer is the k-nearest answer for k = number of elements within the radius *)
RPrefixOfK == \A q \in Qs, r \in Rs : RDists(bag, q, r) = KDists(bag, q, Cardinality(RSet(bag, q, r)))
RMonotone == \A q \in Qs, r1 \in Rs, r2 \in Rs : r1 <= r2 => RSet(bag, q, r1) \subseteq RSet(bag, q, r2)
RBounded == \A q \in Qs, r \in Rs :
                /\ \A i \in 1..Len(RDists(bag, q, r)) : RDists(bag, q, r)[i] <= r
                /\ \A e \in bag \ RSet(bag, q, r) : D(e, q) > r
NearestIsK1 == \A q \in Qs :
                /\ (NearestAdm(bag, q, FALSE) = {}) = NearestThrows(bag)
                /\ \A e \in NearestAdm(bag, q, FALSE) : <<D(e, q)>> = KDists(bag, q, 1)
                /\ \A e \in bag : IsNearestAnswer(bag, q, FALSE, e) = (e \in NearestAdm(bag, q, FALSE))
                /\ \A e \in bag : IsNearestAnswer(bag, q, TRUE, e)
ApproxWeaker == \A q \in Qs : NearestAdm(bag, q, FALSE) \subseteq NearestAdm(bag, q, TRUE)
                               /\ NearestAdm(bag, q, TRUE) = bag
SizeAgrees == \A q \in Qs : Len(SortedDists(bag, q)) = Size(bag)

(* Two independent definitions of the k-nearest answer agree: every sub-bag S of the      *)
(* right size that leaves nothing nearer outside has exactly the brute-force distances,   *)
(* its sorted listing is accepted by IsKAnswer, and at least one such S exists.           *)
RECURSIVE Listing(_, _)
Listing(S, q) ==
    IF S = {} THEN <<>>
    ELSE LET m == CHOOSE e \in S : \A f \in S : D(e, q) <= D(f, q) IN <<m>> \o Listing(S \ {m}, q)
Admissible(S, q, k) ==
    /\ Cardinality(S) = MinOf(k, Cardinality(bag))
    /\ \A e \in S, f \in bag \ S : D(e, q) <= D(f, q)
KSubBag ==
    CheckSubsets =>
        \A q \in Qs, k \in Ks :
            /\ \E S \in SUBSET bag : Admissible(S, q, k)
            /\ \A S \in SUBSET bag :
                   /\ Admissible(S, q, k) => /\ SortedDists(S, q) = KDists(bag, q, k)
                                             /\ IsKAnswer(bag, q, k, Listing(S, q))
                   /\ (~Admissible(S, q, k)) => ~IsKAnswer(bag, q, k, Listing(S, q))
RAnswerAgrees ==
    CheckSubsets =>
        \A q \in Qs, r \in Rs :
            \A S \in SUBSET bag : IsRAnswer(bag, q, r, Listing(S, q)) = (S = RSet(bag, q, r))
ListAgrees == IsListAnswer(bag, Listing(bag, 0)) /\ (bag # {} => ~IsListAnswer(bag, Tail(Listing(bag, 0))))

(* what each operation does to the bag *)
StepContract ==
    [][ LET a == lastAct'.act
            n == Cardinality(bag)
        IN  /\ a = "Add" => Cardinality(bag') = n + 1 /\ bag \subseteq bag'
            /\ a = "AddMany" => Cardinality(bag') = n + Len(lastAct'.args.pts) /\ bag \subseteq bag'
                                /\ \A p \in Pts : Cnt(bag', p) = Cnt(bag, p) +
                                       Cardinality({i \in 1..Len(lastAct'.args.pts) : lastAct'.args.pts[i] = p})
            /\ a = "Remove" => Cardinality(bag') = n - 1 /\ lastAct'.args.res
                               /\ \A p \in Pts : Cnt(bag', p) = Cnt(bag, p) - (IF p = lastAct'.args.pt THEN 1 ELSE 0)
            /\ a = "RemoveAbsent" => bag' = bag /\ ~lastAct'.args.res
            /\ a = "Clear" => bag' = {}
      ]_vars

(* ------------------------------ named configurations ------------------------------ *)
(* (TLC configuration files cannot spell tuples: they substitute these with `<-`.)      *)
Radii == <<0, 1, 2, 100>>
(* four points on a line, two copies each: 81 bags *)
Line4 == <<0, 1, 2, 4>>
Line4Q == <<0, 1, 2, 4, 3, 7>>
Line4Bulks == {<<0, 1, 2, 4>>, <<2, 2, 0>>, <<4, 0, 1, 2, 4, 0, 1>>}
(* tight clusters far apart, two copies each: 729 bags *)
Cluster6 == <<0, 1, 2, 100, 101, 102>>
Cluster6Q == <<0, 1, 2, 100, 101, 102, 51, 60>>
Cluster6Bulks == {<<0, 100, 1, 101, 2, 102>>, <<101, 101, 0>>, <<0, 1, 2, 100, 101, 102, 0, 1, 2, 100>>}
(* two adjacent points, up to four copies each: splits whose pivot candidates coincide *)
Dup2 == <<0, 1>>
Dup2Q == <<0, 1, 2>>
Dup2Bulks == {<<0, 0, 0>>, <<1, 0, 0, 0, 0>>, <<0, 1, 0, 1, 0, 1>>}
(* 3 x 3 lattice with the L1 metric (many ties) *)
Lattice9 == <<0, 1, 2, 1024, 1025, 1026, 2048, 2049, 2050>>
Lattice9Q == <<0, 1, 2, 1024, 1025, 1026, 2048, 2049, 2050, 3075>>
Lattice9Bulks == {<<1025, 0, 2, 2048, 2050>>, <<0, 1, 2, 1024, 1025, 1026, 2048>>, <<1, 1024, 1026, 2049>>}

(* ------------------------------ scenario export ------------------------------ *)
View == bag
(* One line per explored transition.  The answer table of a state is attached to exactly one  *)
(* of its incoming edges (the Add of its largest point; for the empty bag the Clear self-loop) *)
(* - computing and printing it on every edge costs a minute for the 729-state graph.  The      *)
(* harness refuses a graph in which some state has no table.                                   *)
TableEdge == \/ lastAct'.act = "Clear" /\ bag = {}
             \/ lastAct'.act = "Add" /\ \A e \in bag' : e.pt <= lastAct'.args.pt
Dump == PrintT(ToJson([src |-> Key(bag), dst |-> Key(bag'), act |-> lastAct'.act,
                       args |-> lastAct'.args, exp |-> IF TableEdge THEN Exp(bag') ELSE <<>>]))
===============================================================================
