--------------------------- MODULE PDFContractTrace ---------------------------
(* Trace validation of recorded ompl::PDF executions against PDFContract.       *)
(* Every mutation line carries the operation with its arguments and then what   *)
(* the real structure reported afterwards:                                      *)
(*   n    = size()                                                              *)
(*   ord  = the ids found in getElements(), in that order                       *)
(*   ws   = getWeight(handle) for the harness's own handle of each listed id    *)
(*          (-1: the listed id has no live handle, -2: not an integer)          *)
(*   hbad = number of listed Element pointers that differ from the handle the   *)
(*          API returned for that id when it was added                          *)
(* Sample lines carry r = num/den (den a power of two) and the id returned.     *)
(* Weights are integers, so every comparison made here is exact; the harness    *)
(* keeps den * total below 2^31.  Reset starts a new execution.                 *)
EXTENDS PDFContract, TraceIO

VARIABLE l
tvars == <<els, l>>

Ev == Log[l]
Is(e) == l <= NLog /\ Ev.e = e /\ l' = l + 1
Listed == [i \in 1..Len(Ev.ord) |-> [id |-> Ev.ord[i], w |-> Ev.ws[i]]]
Observed == Len(Ev.ord) = Len(Ev.ws) /\ SizeIs(els', Ev.n) /\ Ev.hbad = 0

TInit == els = <<>> /\ l = 1

TReset == Is("Reset") /\ els' = <<>>
TConstruct == Is("Construct") /\ CConstruct(Ev.ids, Ev.wts, Listed) /\ Observed
TAdd == Is("Add") /\ CAdd(Ev.id, Ev.w, Listed) /\ Observed
TUpdate == Is("Update") /\ CUpdate(Ev.id, Ev.w, Listed) /\ Observed
TRemove == Is("Remove") /\ CRemove(Ev.id, Listed) /\ Observed
TClear == Is("Clear") /\ CClear(Listed) /\ Observed
TSample == Is("Sample") /\ CSample(Ev.num, Ev.den, Ev.id)

TNext == TReset \/ TConstruct \/ TAdd \/ TUpdate \/ TRemove \/ TClear \/ TSample

TSpec == TInit /\ [][TNext]_tvars
NotAccepted == l <= NLog
==============================================================================
