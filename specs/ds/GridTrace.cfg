\* default instantiation (GridB, 2-D, bounds [0,3]^2, interior limit 2, count-dependent priority);
\* tools/checks/c13.py generates one such file per recorded configuration
SPECIFICATION TSpec
CONSTANTS
  Kind = "GridB"
  Dim = 2
  Axis = {0}
  AxisRest = {0}
  Plus = FALSE
  HasBounds = TRUE
  LoB = 0
  HiB = 3
  Limit = 2
  Prios = {1}
  ByCount = TRUE
  ExtMax = TRUE
  Strict = TRUE
  MaxPending = 0
  MaxCells = 0
INVARIANT NotAccepted
CHECK_DEADLOCK FALSE
