\* DynamicSSSP under its documented no-ties assumption: every answer refines the contract
SPECIFICATION ISpec
CONSTANTS
  Kind = "sssp"
  N = 3
  W = {1, 2, 4}
  MaxE = 6
  Source = 0
  Target = 1
  HSel = 0
  TieFreeOnly = TRUE
VIEW SView
INVARIANTS CostsRefine ParentsRefine GraphRefines InsMirrorOuts
PROPERTY AffectedRefine
