------------------------ MODULE NearestNeighborsTrace ------------------------
(* Trace validation of recorded executions of the real nearest-neighbour        *)
(* structures against the contract NNContract (C10).  TLC keeps the bag; every  *)
(* logged answer is checked against brute force over that bag, computed here.   *)
(* One line per operation, written after it returned:                           *)
(*   Reset    approx            new execution on an empty structure             *)
(*   Add      el                                                                *)
(*   AddMany  els                                                               *)
(*   Remove   el, res           res = what remove() returned                    *)
(*   Clear                                                                      *)
(*   Nearest  q, threw, el      el is meaningless when threw                    *)
(*   NearestK q, k, res         res = returned elements in returned order       *)
(*   NearestR q, r, res                                                         *)
(*   List     res                                                               *)
(* every line also carries n = size() after the operation.  A "Crash" line      *)
(* matches no action and is therefore rejected.                                 *)
EXTENDS NNContract, TraceIO

VARIABLES bag, approx, l
tvars == <<bag, approx, l>>

Ev == Log[l]
Is(e) == l <= NLog /\ Ev.e = e /\ l' = l + 1
SizeOk == Ev.n = Size(bag')
Query == UNCHANGED <<bag, approx>> /\ SizeOk

TInit == bag = {} /\ approx = FALSE /\ l = 1

TReset == Is("Reset") /\ bag' = {} /\ approx' = Ev.approx
TAdd == Is("Add") /\ Fresh(bag, Ev.el) /\ bag' = CAdd(bag, Ev.el) /\ UNCHANGED approx /\ SizeOk
TAddMany == /\ Is("AddMany")
            /\ bag' = CAddAll(bag, Ev.els)
            /\ Cardinality({e.uid : e \in bag'}) = Cardinality(bag) + Len(Ev.els)   \* all fresh, all different
            /\ UNCHANGED approx /\ SizeOk
TRemove == /\ Is("Remove")
           /\ Ev.res = CRemoveResult(bag, Ev.el)
           /\ bag' = CRemove(bag, Ev.el)
           /\ UNCHANGED approx /\ SizeOk
TClear == Is("Clear") /\ bag' = CClear /\ UNCHANGED approx /\ SizeOk
TNearest == /\ Is("Nearest") /\ Query
            /\ IF NearestThrows(bag) THEN Ev.threw
               ELSE ~Ev.threw /\ IsNearestAnswer(bag, Ev.q, approx, Ev.el)
TNearestK == Is("NearestK") /\ Query /\ IsKAnswer(bag, Ev.q, Ev.k, Ev.res)
TNearestR == Is("NearestR") /\ Query /\ IsRAnswer(bag, Ev.q, Ev.r, Ev.res)
TList == Is("List") /\ Query /\ IsListAnswer(bag, Ev.res)

TNext == TReset \/ TAdd \/ TAddMany \/ TRemove \/ TClear \/ TNearest \/ TNearestK \/ TNearestR \/ TList

TSpec == TInit /\ [][TNext]_tvars
NotAccepted == l <= NLog
==============================================================================
