\* the two refuted statements of the pinned code put back: TLC must report RefinesContract violated
\* (Setup, AddEdge(2,0,1), Compute, Compute: the second search answers infinity)
SPECIFICATION ISpec
CONSTANTS
  Kind = "lpa"
  N = 3
  W = {1, 2}
  MaxE = 6
  Source = 0
  Target = 2
  HSel = 0
  TieFreeOnly = FALSE
  EraseAllEqual = TRUE
  EmptyMeansInf = TRUE
  MaxLen = 0
VIEW LView
INVARIANTS RefinesContract
