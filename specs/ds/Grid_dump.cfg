\* scenario export: GridN on the 2-D "plus" (centre cell with its four neighbours), bounds [0,2]^2,
\* default interior limit 4; run with -workers 1
SPECIFICATION Spec
CONSTANTS
  Kind = "GridN"
  Dim = 2
  Axis = {0, 1, 2}
  AxisRest = {0, 1, 2}
  Plus = TRUE
  HasBounds = TRUE
  LoB = 0
  HiB = 2
  Limit = 4
  Prios = {1}
  ByCount = FALSE
  ExtMax = TRUE
  Strict = TRUE
  MaxPending = 2
  MaxCells = 99
VIEW View
INVARIANTS TypeOK NbrSymmetric NbrExact ComponentsPartition ComponentsAlgo CountExact CountExactQuiescent BorderExact QueuePartition TopsAreBest
ACTION_CONSTRAINT Dump
