\* State graph with answer tables (run with -workers 1): one JSON line per transition.
SPECIFICATION Spec
CONSTANTS
  PtSeq <- Line4
  MaxCopies = 2
  MaxSize = 8
  Bulks <- Line4Bulks
  QSeq <- Line4Q
  RSeq <- Radii
  CheckSubsets = FALSE
VIEW View
ACTION_CONSTRAINT Dump
