------------------------------- MODULE TraceIO -------------------------------
(* Shared plumbing for trace validation: the recorded execution is an ndjson   *)
(* file named by the environment variable TRACE.  A trace spec declares a      *)
(* cursor `l`; acceptance is "l ran past the last line", detected as the       *)
(* violation of INVARIANT NotAccepted (CHECK_DEADLOCK is off).                 *)
EXTENDS Naturals, Sequences, TLC, Json, IOUtils

Log == ndJsonDeserialize(IOEnv.TRACE)
NLog == Len(Log)

Has(r, f) == f \in DOMAIN r
SeqToSet(s) == {s[i] : i \in 1..Len(s)}
IsNonDecreasing(s) == \A i \in 1..Len(s) - 1 : s[i] <= s[i + 1]
==============================================================================
