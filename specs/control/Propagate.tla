------------------------------ MODULE Propagate ------------------------------
(* Property C02, propagation half.                                             *)
(*                                                                             *)
(* Implementation-shaped specification (I) of                                  *)
(*   control::SpaceInformation::propagateWhileValid(state, control, steps, result)          "A" *)
(*   control::SpaceInformation::propagateWhileValid(state, control, steps, result[], alloc)  "B" *)
(* (src/ompl/control/src/SpaceInformation.cpp) over an integer integrator:     *)
(* one propagation step adds the signed step d = +1 / -1 to the position, the  *)
(* input state is at position 0.  Memory is explicit: a buffer is an id, `mem` *)
(* maps ids to contents, allocState() hands out a fresh id and freeState()     *)
(* retires it (ghost set `live`), so the buffer swapping of A and the          *)
(* alloc / free / resize of B are transcribed statement by statement.          *)
(*                                                                             *)
(* The contract (A) is the documented one: the returned count is the number of *)
(* leading valid steps (B without alloc: among the steps that fit in result),  *)
(* the result is the state after that many steps, nothing leaks, steps = 0     *)
(* copies the input.  `valid` is the set of offsets 1..N *in the direction of  *)
(* travel* whose state is valid, so the contract for negative steps is the     *)
(* mirror image of the forward one by construction; every position on the      *)
(* other side of the input is invalid, which makes a propagation in the wrong  *)
(* direction observable.  Verdicts on the code come from replaying every case  *)
(* printed by Emit on the real SpaceInformation (harness/control.cpp) and      *)
(* comparing with `exp`, which is computed from the contract operators only.   *)
EXTENDS Integers, Sequences, FiniteSets, TLC, Json

CONSTANTS N,       \* |steps| <= N, offsets 1..N
          Caps,    \* sizes of the caller-provided vector tried when alloc = FALSE
          Alias    \* TRUE: overload A is called with result == state (no caller in the
                   \* library does this; explored for the record, not for verdicts)

VARIABLES cs,      \* the case [steps, valid, alloc, cap]; constant along a behaviour
          pc,
          mem,     \* buffer id -> content
          live,    \* ghost: ids handed out by allocState() and not yet freed
          fresh,   \* ghost: next id allocState() returns
          err,     \* ghost: "" or a description of a memory error
          a,       \* locals of overload A  [d, n, t1, t2, del, i, r, x]
          b        \* locals of overload B  [d, n, st, vec, r]
vars == <<cs, pc, mem, live, fresh, err, a, b>>

SRC == 0                           \* the caller's input state
RES == IF Alias THEN 0 ELSE 1      \* the caller's result buffer of overload A
CB == 100                          \* caller-provided vector entries are CB+1 .. CB+cap
NULL == -1
GARB == 777                        \* content of a buffer nobody has written yet

AbsI(x) == IF x < 0 THEN -x ELSE x
MinI(x, y) == IF x < y THEN x ELSE y
D(s) == IF s > 0 THEN 1 ELSE -1    \* signedStepSize = steps > 0 ? stepSize_ : -stepSize_

(* validity of a position: the input is valid (documented precondition); offset k in the *)
(* direction of travel is valid iff k \in valid; everything else is invalid              *)
IsValidIn(c, v) == \/ v = 0
                   \/ c.steps > 0 /\ v \in c.valid
                   \/ c.steps < 0 /\ (-v) \in c.valid
IsValid(v) == IsValidIn(cs, v)

(* ------------------------------ contract ------------------------------ *)
Lead(V, m) == CHOOSE k \in 0..m : /\ \A j \in 1..k : j \in V
                                  /\ (k = m \/ (k + 1) \notin V)
PosAt(s, k) == D(s) * k
NA(c) == AbsI(c.steps)                                          \* steps overload A may take
NB(c) == IF c.alloc THEN AbsI(c.steps) ELSE MinI(AbsI(c.steps), c.cap)
ExpRA(c) == Lead(c.valid, NA(c))
ExpXA(c) == PosAt(c.steps, ExpRA(c))
ExpRB(c) == Lead(c.valid, NB(c))
ExpLenB(c) == IF c.alloc THEN ExpRB(c) ELSE c.cap               \* result.size() afterwards
Comparable(c) == c.alloc \/ c.cap >= AbsI(c.steps)              \* B was not cut short by capacity

(* ------------------------------ cases ------------------------------ *)
Cases == {[steps |-> s, valid |-> V, alloc |-> al, cap |-> c] :
              s \in (-N)..N, V \in SUBSET (1..N), al \in BOOLEAN, c \in Caps}
Init == /\ cs \in {c \in Cases : c.alloc => c.cap = 0}
        /\ pc = "A0"
        /\ mem = [id \in {SRC, RES} \cup {CB + j : j \in 1..cs.cap} |-> IF id = SRC THEN 0 ELSE GARB]
        /\ live = {} /\ fresh = 2 /\ err = ""
        /\ a = [d |-> 0, n |-> 0, t1 |-> NULL, t2 |-> NULL, del |-> NULL, i |-> 0, r |-> -1, x |-> GARB]
        /\ b = [d |-> 0, n |-> 0, st |-> 0, r |-> -1,
                vec |-> IF cs.alloc THEN <<>> ELSE [j \in 1..cs.cap |-> CB + j]]

(* ------------------------------ overload A ------------------------------ *)
(* if (steps == 0) { if (result != state) copyState(result, state); return 0; }          *)
(* signedStepSize = ...; steps = abs(steps); propagate(state, control, d, result);       *)
A0 == /\ pc = "A0"
      /\ IF cs.steps = 0
         THEN /\ mem' = IF RES # SRC THEN [mem EXCEPT ![RES] = mem[SRC]] ELSE mem
              /\ a' = [a EXCEPT !.r = 0, !.x = mem'[RES]]
              /\ pc' = "B0"
         ELSE /\ mem' = [mem EXCEPT ![RES] = mem[SRC] + D(cs.steps)]
              /\ a' = [a EXCEPT !.d = D(cs.steps), !.n = AbsI(cs.steps)]
              /\ pc' = "A1"
      /\ UNCHANGED <<cs, live, fresh, err, b>>

(* if (isValid(result)) { temp1 = result; temp2 = allocState(); toDelete = temp2; r = steps; ... } *)
(* else { if (result != state) copyState(result, state); return 0; }                               *)
A1 == /\ pc = "A1"
      /\ IF IsValid(mem[RES])
         THEN /\ mem' = mem @@ (fresh :> GARB)
              /\ live' = live \cup {fresh}
              /\ fresh' = fresh + 1
              /\ a' = [a EXCEPT !.t1 = RES, !.t2 = fresh, !.del = fresh, !.r = a.n, !.i = 1]
              /\ pc' = "A2"
         ELSE /\ mem' = IF RES # SRC THEN [mem EXCEPT ![RES] = mem[SRC]] ELSE mem
              /\ a' = [a EXCEPT !.r = 0, !.x = mem'[RES]]
              /\ pc' = "B0"
              /\ UNCHANGED <<live, fresh>>
      /\ UNCHANGED <<cs, err, b>>

(* for (i = 1; i < steps; ++i) { propagate(temp1, control, d, temp2);                     *)
(*     if (isValid(temp2)) swap(temp1, temp2); else { r = i; break; } }                   *)
A2 == /\ pc = "A2"
      /\ IF a.i < a.n
         THEN LET v == mem[a.t1] + a.d
              IN  /\ mem' = [mem EXCEPT ![a.t2] = v]
                  /\ IF IsValid(v)
                     THEN a' = [a EXCEPT !.t1 = a.t2, !.t2 = a.t1, !.i = a.i + 1] /\ pc' = "A2"
                     ELSE a' = [a EXCEPT !.r = a.i] /\ pc' = "A3"
         ELSE UNCHANGED <<mem, a>> /\ pc' = "A3"
      /\ UNCHANGED <<cs, live, fresh, err, b>>

(* if (result != temp1) copyState(result, temp1); freeState(toDelete); return r;          *)
A3 == /\ pc = "A3"
      /\ mem' = IF RES # a.t1 THEN [mem EXCEPT ![RES] = mem[a.t1]] ELSE mem
      /\ err' = IF a.del \in live THEN err ELSE "A frees a state it does not own"
      /\ live' = live \ {a.del}
      /\ a' = [a EXCEPT !.x = mem'[RES]]
      /\ pc' = "B0"
      /\ UNCHANGED <<cs, fresh, b>>

(* ------------------------------ overload B ------------------------------ *)
(* signedStepSize = ...; steps = abs(steps);                                              *)
(* if (alloc) result.resize(steps);                                                       *)
(* else { if (result.empty()) return 0; steps = min(steps, result.size()); }  st = 0;     *)
B0 == /\ pc = "B0"
      /\ mem' = [mem EXCEPT ![SRC] = 0]     \* (only matters under Alias: B starts from the original input)
      /\ IF cs.alloc
         THEN b' = [b EXCEPT !.d = D(cs.steps), !.n = AbsI(cs.steps), !.st = 0,
                             !.vec = [j \in 1..AbsI(cs.steps) |-> NULL]] /\ pc' = "B1"
         ELSE IF b.vec = <<>>
              THEN b' = [b EXCEPT !.st = 0] /\ pc' = "B3"
              ELSE b' = [b EXCEPT !.d = D(cs.steps), !.st = 0,
                                  !.n = MinI(AbsI(cs.steps), Len(b.vec))] /\ pc' = "B1"
      /\ UNCHANGED <<cs, live, fresh, err, a>>

(* one propagation into slot st (0-based), from `src`; shared by the first step and the loop *)
BStep(src, nextpc) ==
    LET slot == IF cs.alloc THEN fresh ELSE b.vec[b.st + 1]
        v    == mem[src] + b.d
        mem1 == IF cs.alloc THEN mem @@ (fresh :> GARB) ELSE mem
    IN  /\ mem' = [mem1 EXCEPT ![slot] = v]
        /\ fresh' = IF cs.alloc THEN fresh + 1 ELSE fresh
        /\ IF IsValid(v)
           THEN /\ b' = [b EXCEPT !.vec[b.st + 1] = slot, !.st = b.st + 1]
                /\ live' = IF cs.alloc THEN live \cup {slot} ELSE live
                /\ pc' = nextpc
           ELSE \* if (alloc) { freeState(result[st]); result.resize(st); }  break / fall through
                /\ b' = IF cs.alloc THEN [b EXCEPT !.vec = SubSeq(b.vec, 1, b.st)] ELSE b
                /\ live' = live
                /\ pc' = "B3"

(* if (st < steps) { if (alloc) result[st] = allocState(); propagate(state, ..., result[st]);      *)
(*     if (isValid(result[st])) { ++st; while ... } else { if (alloc) {free; resize(st);} } }      *)
B1 == /\ pc = "B1"
      /\ IF b.st < b.n
         THEN BStep(SRC, "B2")
         ELSE UNCHANGED <<mem, fresh, b, live>> /\ pc' = "B3"
      /\ UNCHANGED <<cs, err, a>>

(* while (st < steps) { if (alloc) result[st] = allocState();                                      *)
(*     propagate(result[st - 1], ..., result[st]);                                                 *)
(*     if (!isValid(result[st])) { if (alloc) {free; resize(st);} break; }  ++st; }                *)
B2 == /\ pc = "B2"
      /\ IF b.st < b.n
         THEN BStep(b.vec[b.st], "B2")
         ELSE UNCHANGED <<mem, fresh, b, live>> /\ pc' = "B3"
      /\ UNCHANGED <<cs, err, a>>

(* ------------------------------ scenario export (M3) ------------------------------ *)
CaseJson(c) == [steps |-> c.steps, valid |-> [j \in 1..N |-> IF j \in c.valid THEN 1 ELSE 0],
                alloc |-> c.alloc, cap |-> c.cap,
                exp |-> [rA |-> ExpRA(c), xA |-> ExpXA(c), rB |-> ExpRB(c), lenB |-> ExpLenB(c),
                         cmp |-> Comparable(c), xFull |-> PosAt(c.steps, AbsI(c.steps))]]
Emit == PrintT(ToJson(CaseJson(cs)))

(* return st; *)
B3 == /\ pc = "B3"
      /\ b' = [b EXCEPT !.r = b.st]
      /\ pc' = "done"
      /\ Emit
      /\ UNCHANGED <<cs, mem, live, fresh, err, a>>

Next == A0 \/ A1 \/ A2 \/ A3 \/ B0 \/ B1 \/ B2 \/ B3
Spec == Init /\ [][Next]_vars

(* ------------------------------ properties ------------------------------ *)
Done == pc = "done"
VecSet == {b.vec[j] : j \in 1..Len(b.vec)}

CountCorrect == Done => a.r = ExpRA(cs) /\ b.r = ExpRB(cs)

ResultIsLastValid ==
    Done => /\ a.x = ExpXA(cs)                                   \* A: state after r steps
            /\ IsValid(a.x)
            /\ Len(b.vec) = ExpLenB(cs)
            /\ \A j \in 1..ExpRB(cs) : mem[b.vec[j]] = PosAt(cs.steps, j)   \* B: the r valid states, in order
            /\ (~Alias => mem[SRC] = 0)                           \* the input is never written

AgreeA_B == Done /\ Comparable(cs) =>
                /\ a.r = b.r
                /\ a.x = (IF b.r = 0 THEN 0 ELSE mem[b.vec[b.r]])

NoAllocLeak ==
    /\ err = ""
    /\ (pc = "B0" => live = {})                                  \* A returns with its temporary freed
    /\ (Done => /\ live = (IF cs.alloc THEN VecSet ELSE {})      \* B: exactly the returned states stay allocated
                /\ (cs.alloc => /\ NULL \notin VecSet
                                /\ Cardinality(VecSet) = Len(b.vec)))

ZeroCopies == Done /\ cs.steps = 0 =>
                  /\ a.r = 0 /\ a.x = 0 /\ b.r = 0
                  /\ (cs.alloc => b.vec = <<>>)
                  /\ (~cs.alloc => \A j \in 1..cs.cap : mem[CB + j] = GARB)   \* nothing written

(* the backward contract is the mirror image of the forward one (contract-level law) *)
BackwardMirrors ==
    \A s \in 1..N : \A V \in SUBSET (1..N) :
        LET f == [steps |-> s, valid |-> V, alloc |-> TRUE, cap |-> 0]
            g == [f EXCEPT !.steps = -s]
        IN  ExpRA(f) = ExpRA(g) /\ ExpXA(f) = -ExpXA(g) /\ ExpRB(f) = ExpRB(g)
MirrorAtInit == (pc = "A0" /\ cs.steps = N /\ cs.valid = {} /\ cs.alloc) => BackwardMirrors

(* the invalid first state never escapes: whatever A leaves in result is a valid position *)
NeverReturnsInvalid == Done /\ ~Alias => IsValid(a.x) /\ \A j \in 1..b.r : IsValid(mem[b.vec[j]])
===============================================================================
