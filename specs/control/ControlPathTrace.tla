--------------------------- MODULE ControlPathTrace ---------------------------
(* impl -> spec: every recorded solve report must be allowed by                *)
(* ControlPathContract.  The log holds one SolveReport per planner run         *)
(* (Reset lines separate batches).  A report that breaks the contract does not *)
(* stop the validation: TLC prints which clauses it breaks (one JSON line per  *)
(* rejected report, the check turns them into violations keyed by planner and  *)
(* clause) and counts it, so that one TLC run judges the whole log.  The log   *)
(* is ACCEPTED iff the cursor runs past the last line with no rejected report  *)
(* (INVARIANT NotAccepted violated); with rejected reports INVARIANT           *)
(* NotRejected is violated instead; any other line (a Crash event, a malformed *)
(* record) leaves the spec stuck before the end: rejected as well.             *)
EXTENDS ControlPathContract, TraceIO, Json

ASSUME ContractConsistent

VARIABLES l, nbad
tvars == <<l, nbad>>
Ev == Log[l]

TInit == l = 1 /\ nbad = 0

TReset == l <= NLog /\ Ev.e = "Reset" /\ l' = l + 1 /\ UNCHANGED nbad

TGood == /\ l <= NLog /\ Ev.e = "SolveReport"
         /\ ReportOK(Ev)
         /\ l' = l + 1 /\ UNCHANGED nbad

TBad == /\ l <= NLog /\ Ev.e = "SolveReport"
        /\ ~ReportOK(Ev)
        /\ PrintT(ToJson([verdict |-> "rejected", line |-> l, run |-> Ev.run, planner |-> Ev.planner,
                          failed |-> Failed(Ev)]))
        /\ l' = l + 1 /\ nbad' = nbad + 1

TNext == TReset \/ TGood \/ TBad
TSpec == TInit /\ [][TNext]_tvars

NotAccepted == ~(l > NLog /\ nbad = 0)
NotRejected == ~(l > NLog /\ nbad > 0)
===============================================================================
