SPECIFICATION TSpec
CONSTANTS
  Pdefs = {"A", "B"}
  Budgets = {"k0", "k1", "k2", "k3", "k5", "k8", "k13", "k21", "k34", "k60", "k150", "k400", "inf"}
  MaxQueries = 1000
INVARIANT NotAccepted
CHECK_DEADLOCK FALSE
