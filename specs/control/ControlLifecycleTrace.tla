------------------------- MODULE ControlLifecycleTrace -------------------------
(* impl -> spec for property C03 on the CONTROL planners (RRT with / without    *)
(* intermediate states, SST, EST, KPIECE1, PDST, SyclopRRT, SyclopEST).         *)
(* Recorded life cycles (harness/control.cpp c03ctl) are replayed through the   *)
(* actions of PlannerLifecycle - an execution that breaks the documented        *)
(* protocol is not consumed: a framework error, never a verdict - and every     *)
(* Solve / GetPlannerData / Destroy report is judged by named clauses:          *)
(*   * the life-cycle clauses of C03 (status truthful about what the problem    *)
(*     definition now holds, nothing lost, top solution never worse, bounded    *)
(*     return after the k-th evaluation, a fresh planner forgets old queries,   *)
(*     no leak / double free at destruction, no crash, no hang), with the same  *)
(*     names as specs/base/PlannerLifecycleTrace.tla;                           *)
(*   * for every solution ADDED by the call, the path clauses of                *)
(*     ControlPathContract (C02): the path replays through the harness's own    *)
(*     propagator, every step valid, controls in bounds, whole-step durations,  *)
(*     starts at the start of the CURRENT query, exact ends in the goal,        *)
(*     approximate difference truthful - "never reports an empty or half-built  *)
(*     path as a solution".                                                     *)
(* Failed clauses are printed (one JSON line per judged event); the cursor      *)
(* always advances.                                                             *)
EXTENDS PlannerLifecycle, ControlPathContract, TraceIO

VARIABLES l,      \* cursor
          nsol,   \* [Pdefs -> Nat]: number of solutions each definition held after its last report
          B,      \* bound on termination-condition evaluations after the k-th
          gpd     \* getPlannerData() was called in this execution
tvars == <<vars, l, nsol, B, gpd>>

Ev == Log[l]
Is(e) == l <= NLog /\ Ev.e = e /\ l' = l + 1
Report(failed) == IF failed = {} THEN TRUE ELSE PrintT(ToJson([line |-> l, failed |-> failed]))

Fresh == (holds \cup roadmap) = {}

(* ranking used by the problem definition: exact before approximate, smaller difference, shorter *)
Worse(a, b) ==   \* a strictly worse than b, beyond tolerance
    \/ (a.approx /\ ~b.approx)
    \/ (a.approx /\ b.approx /\ a.diff > b.diff + Tol)
    \/ (~a.approx /\ ~b.approx /\ a.len > b.len + Tol)

Added(r) == {i \in 1..Len(r.sols) : r.sols[i].added}

SolveClauses == {"knownStatus", "solutionCount", "solutionStatusHasPath", "exactStatusHoldsExact",
                 "approxStatusAddedNoExact", "nonSolutionAddsNothing", "noSolutionLost", "topNotWorse",
                 "invalidStartOnlyIfInvalid", "invalidGoalOnlyIfInvalid", "exactOnlyIfReachable",
                 "noSolutionFromInvalidStart", "boundedReturn", "freshForgetsOldQueries"}

SolveClause(c, r) ==
    CASE c = "knownStatus" -> r.status \in SolutionStatuses \cup NonSolutionStatuses
      [] c = "solutionCount" -> Len(r.sols) = r.nAfter
      (* the status truthfully describes what the problem definition now holds *)
      [] c = "solutionStatusHasPath" -> (r.status \in SolutionStatuses => r.nAfter >= 1)
      [] c = "exactStatusHoldsExact" -> (r.status = "EXACT_SOLUTION" => r.hasExact)
      [] c = "approxStatusAddedNoExact" ->
             (r.status = "APPROXIMATE_SOLUTION" => \A i \in Added(r) : r.sols[i].approx)
      [] c = "nonSolutionAddsNothing" -> (r.status \notin SolutionStatuses => r.nAfter = r.nBefore)
      (* solving again can only keep or improve the reported solution *)
      [] c = "noSolutionLost" -> r.nAfter >= r.nBefore
      [] c = "topNotWorse" -> (r.hadTop /\ r.nAfter >= 1 => ~Worse(r.topAfter, r.topBefore))
      (* model-determined facts *)
      [] c = "invalidStartOnlyIfInvalid" -> (r.status = "INVALID_START" => ~r.startValid)
      [] c = "invalidGoalOnlyIfInvalid" -> (r.status = "INVALID_GOAL" => ~r.goalValid)
      [] c = "exactOnlyIfReachable" ->
             ((\E i \in Added(r) : ~r.sols[i].approx) /\ r.thr # "huge"
                  => r.goalCell \in Reach(r.W, r.H, SeqSet(r.obst), r.startCell))
      [] c = "noSolutionFromInvalidStart" -> (~r.startValid => Added(r) = {})
      (* returns after a bounded number of further evaluations *)
      [] c = "boundedReturn" -> (r.kval >= 0 => r.evals <= r.kval + B)
      (* after clear() / on a new planner nothing of a previous query comes back *)
      [] c = "freshForgetsOldQueries" -> (Fresh => \A i \in Added(r) : r.sols[i].stale = 0)

(* C02's clauses on every path the call added *)
FailedPaths(r) == {c \in PathClauseNames : \E i \in Added(r) : ~PathClause(c, r, r.sols[i])}
FailedSolve(r) == {c \in SolveClauses : ~SolveClause(c, r)} \cup FailedPaths(r)

TInit == Init /\ l = 1 /\ nsol = [p \in Pdefs |-> 0] /\ B = 0 /\ gpd = FALSE

TReset == /\ Is("Reset")
          /\ bound' = "none" /\ qid' = [p \in Pdefs |-> 0] /\ holds' = {} /\ roadmap' = {}
          /\ needsClear' = FALSE /\ solved' = [p \in Pdefs |-> FALSE] /\ alive' = TRUE
          /\ lastAct' = [act |-> "Init", args |-> <<>>]
          /\ nsol' = [p \in Pdefs |-> 0] /\ B' = Ev.B /\ gpd' = FALSE
TSetPdef == Is("SetPdef") /\ SetPdef(Ev.p) /\ UNCHANGED <<nsol, B, gpd>>
TNewQuery == Is("NewQuery") /\ NewQuery(Ev.p) /\ nsol' = [nsol EXCEPT ![Ev.p] = 0] /\ UNCHANGED <<B, gpd>>
TSetup == Is("Setup") /\ Setup /\ UNCHANGED <<nsol, B, gpd>>
TSolve == /\ Is("Solve") /\ Solve(Ev.k)
          /\ Report(FailedSolve(Ev) \cup (IF Ev.nBefore = nsol[bound] THEN {} ELSE {"solutionsVanishedBetweenCalls"}))
          /\ nsol' = [nsol EXCEPT ![bound] = Ev.nAfter] /\ UNCHANGED <<B, gpd>>
TClear == Is("Clear") /\ Clear /\ UNCHANGED <<nsol, B, gpd>>
TClearQuery == Is("ClearQuery") /\ ClearQuery /\ UNCHANGED <<nsol, B, gpd>>
TGetData == /\ Is("GetPlannerData") /\ GetPlannerData
            /\ Report(IF roadmap = {} /\ (\A h \in holds : h = Cur(bound)) /\ Ev.stale # 0
                      THEN {"plannerDataForgetsOldQueries"} ELSE {})
            /\ gpd' = TRUE /\ UNCHANGED <<nsol, B>>
TDestroy == /\ Is("Destroy") /\ Destroy
            /\ Report((IF Ev.live # 0 THEN {IF gpd THEN "noLeakAfterGetPlannerData" ELSE "noLeak"} ELSE {})
                          \cup (IF Ev.badFrees # 0 THEN {"noDoubleFree"} ELSE {}))
            /\ UNCHANGED <<nsol, B, gpd>>
TBad == /\ l <= NLog /\ Ev.e \in {"Hang", "Crash"} /\ l' = l + 1
        /\ Report({Ev.e}) /\ UNCHANGED <<vars, nsol, B, gpd>>

TNext == TReset \/ TSetPdef \/ TNewQuery \/ TSetup \/ TSolve \/ TClear \/ TClearQuery \/ TGetData
         \/ TDestroy \/ TBad
TSpec == TInit /\ [][TNext]_tvars
NotAccepted == l <= NLog
===============================================================================
