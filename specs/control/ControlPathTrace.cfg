SPECIFICATION TSpec
INVARIANT NotAccepted
INVARIANT NotRejected
CHECK_DEADLOCK FALSE
