-------------------------- MODULE ControlPathContract --------------------------
(* Property C02, planner half: the contract around one solve() call of a       *)
(* control-based planner on a fresh problem definition.                        *)
(*                                                                             *)
(* A report `r` is what harness/control.cpp recorded for one run: the          *)
(* configuration (planner, system, 4x4 cell map, start / goal cell, goal       *)
(* threshold class), what the planner said (status, number of solution paths   *)
(* it added, per path the approximate flag and the reported difference) and,   *)
(* per path, FACTS established by an oracle that never calls the code under    *)
(* test: the harness's own copy of the propagator re-applied for               *)
(* round(duration / stepSize) steps per segment, its own validity predicate    *)
(* (bounds + cell lookup), its own bounds check of the controls, its own goal  *)
(* distance.  TLC decides which combinations are allowed; the clauses are the  *)
(* sentences of the property statement, one operator each, so that a rejected  *)
(* report names the sentence it breaks.  Reals are integers in micro-units.    *)
EXTENDS Naturals, Integers, Sequences, FiniteSets, TLC

SolutionStatuses == {"EXACT_SOLUTION", "APPROXIMATE_SOLUTION"}
NonSolutionStatuses == {"TIMEOUT", "INVALID_START", "INVALID_GOAL", "UNRECOGNIZED_GOAL_TYPE",
                        "UNKNOWN", "CRASH", "ABORT", "INFEASIBLE"}
Tol == 4     \* micro-units: two fixed-point roundings plus slack

AbsI(x) == IF x < 0 THEN -x ELSE x
SeqSet(s) == {s[i] : i \in 1..Len(s)}

(* ---------------- the map: W x H cells, 8-connected free space ---------------- *)
(* One propagation step moves the system by less than one cell (the harness     *)
(* configures maximum speed x step size < 0.5 cell), and validity is decided    *)
(* per step, so the cells visited by consecutive valid steps are equal or       *)
(* 8-adjacent and a real path is a walk in the free 8-connected cell graph.     *)
CellsOf(W, H) == 0..(W * H - 1)
XOf(W, c) == c % W
YOf(W, c) == c \div W
Adj8(W, p, q) == p # q /\ AbsI(XOf(W, p) - XOf(W, q)) <= 1 /\ AbsI(YOf(W, p) - YOf(W, q)) <= 1
RECURSIVE Grow(_, _, _, _)
Grow(W, free, seen, frontier) ==
    IF frontier = {} THEN seen
    ELSE LET nxt == {c \in free \ seen : \E f \in frontier : Adj8(W, f, c)}
         IN  Grow(W, free, seen \cup nxt, nxt)
Reach(W, H, obst, s) ==
    LET free == CellsOf(W, H) \ obst
    IN  IF s \in free THEN Grow(W, free, {s}, {s}) ELSE {}
IsFreeWalk(W, H, obst, cells) ==
    /\ \A i \in 1..Len(cells) : cells[i] \in CellsOf(W, H) \ obst
    /\ \A i \in 1..Len(cells) - 1 : cells[i] = cells[i + 1] \/ Adj8(W, cells[i], cells[i + 1])

(* ---------------- clauses about one solution path p of report r ---------------- *)
PathClauseNames == {"counts", "startIsAStart", "replayMatches", "allStepsValid", "controlsInBounds",
                    "durationsWholeSteps", "exactEndsInGoal", "approxDifferenceAgrees", "cellsFreeWalk"}

PathClause(c, r, p) ==
    CASE c = "counts" ->                  \* a path is states s0..sn, n controls, n durations; never empty
            p.nStates >= 1 /\ p.nControls = p.nStates - 1 /\ p.nDurations = p.nControls
      [] c = "startIsAStart" ->           \* "starting from a valid start state"
            p.startIsAStart
      [] c = "replayMatches" ->           \* "applying the recorded controls for their recorded durations
            p.replayMatches               \*  ... reproduces every subsequent path state"
      [] c = "allStepsValid" ->           \* "every propagation step along the way lands on a valid state"
            p.allStepsValid
      [] c = "controlsInBounds" ->        \* "every control lies within the control-space bounds"
            p.controlsInBounds
      [] c = "durationsWholeSteps" ->     \* "every duration is a whole number of propagation steps"
            p.durationsWholeSteps
      [] c = "exactEndsInGoal" ->         \* "the last state is inside the goal region unless ... approximate"
            ~p.approx => p.lastInGoal
      [] c = "approxDifferenceAgrees" ->  \* the reported difference describes the last state
            p.approx => AbsI(p.diff - p.lastDist) <= Tol
      [] c = "cellsFreeWalk" ->           \* model side: the replayed steps walk through free cells from the start cell
            (p.replayMatches /\ p.allStepsValid /\ ~p.cellsTruncated) =>
                /\ Len(p.cells) >= 1 /\ p.cells[1] = r.startCell
                /\ IsFreeWalk(r.W, r.H, SeqSet(r.obst), p.cells)
                /\ (~p.approx /\ r.thr # "huge" => p.cells[Len(p.cells)] = r.goalCell)

(* ---------------- clauses about the report as a whole ---------------- *)
ReportClauseNames == {"statusKnown", "nAddedMatches", "solutionStatusAddsPath", "nonSolutionAddsNothing",
                      "exactStatusHasExactPath", "approxStatusOnlyApproxPaths",
                      "invalidStartOnlyIfStartInvalid", "invalidStartNeverSolves",
                      "invalidGoalOnlyIfGoalInvalid", "exactOnlyIfReachable"}

SomeExact(r) == \E i \in 1..Len(r.paths) : ~r.paths[i].approx
(* A report of a CONTINUED solve() (same planner, same problem definition, no clear()) lists   *)
(* the paths that call added; what the problem definition holds from earlier calls is summed   *)
(* up in hasExact.  A resumed call may add nothing and still report the solution it holds, so  *)
(* the clauses tying the status to the ADDED paths speak about the first call only; every      *)
(* path clause applies to every added path of every call.                                      *)
Resumed(r) == "resumed" \in DOMAIN r /\ r.resumed

ReportClause(c, r) ==
    CASE c = "statusKnown" -> r.status \in SolutionStatuses \cup NonSolutionStatuses
      [] c = "nAddedMatches" -> Len(r.paths) = r.nAdded
      [] c = "solutionStatusAddsPath" -> (~Resumed(r) /\ r.status \in SolutionStatuses) => r.nAdded >= 1
      [] c = "nonSolutionAddsNothing" -> r.status \notin SolutionStatuses => r.nAdded = 0   \* also when resumed
      (* status, approximate flag and paths agree *)
      [] c = "exactStatusHasExactPath" -> r.status = "EXACT_SOLUTION" => (SomeExact(r) \/ (Resumed(r) /\ r.hasExact))
      [] c = "approxStatusOnlyApproxPaths" -> r.status = "APPROXIMATE_SOLUTION" => ~SomeExact(r)   \* of the added paths
      (* facts the model determines from the map *)
      [] c = "invalidStartOnlyIfStartInvalid" -> r.status = "INVALID_START" => ~r.startValid
      [] c = "invalidStartNeverSolves" -> ~r.startValid => r.status \notin SolutionStatuses /\ r.nAdded = 0
      [] c = "invalidGoalOnlyIfGoalInvalid" -> r.status = "INVALID_GOAL" => ~r.goalValid
      [] c = "exactOnlyIfReachable" ->
            SomeExact(r) /\ r.thr # "huge" =>      \* (an exact STATUS without an exact path is the clause above)
                r.goalCell \in Reach(r.W, r.H, SeqSet(r.obst), r.startCell)

(* the set of clauses a report breaks; the report is allowed iff it is empty *)
Failed(r) == {c \in ReportClauseNames : ~ReportClause(c, r)}
             \cup {c \in PathClauseNames : \E i \in 1..Len(r.paths) : ~PathClause(c, r, r.paths[i])}
ReportOK(r) == Failed(r) = {}

(* ---------------- consistency of the contract itself (checked by TLC once) ---------------- *)
(* Over every combination of the boolean facts of a one-path report on the open map: the     *)
(* guard accepts exactly the reports in which every fact holds and the flags are coherent,   *)
(* and it never accepts a solution status with an empty path list.                           *)
Facts == [approx : BOOLEAN, startIsAStart : BOOLEAN, replayMatches : BOOLEAN, allStepsValid : BOOLEAN,
          controlsInBounds : BOOLEAN, durationsWholeSteps : BOOLEAN, lastInGoal : BOOLEAN]
MkPath(f) == [approx |-> f.approx, diff |-> IF f.lastInGoal THEN 100 ELSE 900000,
              lastDist |-> IF f.lastInGoal THEN 100 ELSE 900000, lastInGoal |-> f.lastInGoal,
              nStates |-> 3, nControls |-> 2, nDurations |-> 2,
              startIsAStart |-> f.startIsAStart, replayMatches |-> f.replayMatches,
              allStepsValid |-> f.allStepsValid, controlsInBounds |-> f.controlsInBounds,
              durationsWholeSteps |-> f.durationsWholeSteps,
              cells |-> IF f.lastInGoal THEN <<0, 1>> ELSE <<0>>, cellsTruncated |-> FALSE]
MkReport(st, ps) == [status |-> st, nAdded |-> Len(ps), paths |-> ps, W |-> 2, H |-> 1, obst |-> <<>>,
                     startCell |-> 0, goalCell |-> 1, thr |-> "normal", startValid |-> TRUE, goalValid |-> TRUE]
ContractConsistent ==
    /\ \A st \in SolutionStatuses : ~ReportOK(MkReport(st, <<>>))
    /\ \A st \in NonSolutionStatuses \ {"INVALID_START", "INVALID_GOAL"} : ReportOK(MkReport(st, <<>>))
    /\ ~ReportOK(MkReport("INVALID_START", <<>>)) /\ ~ReportOK(MkReport("INVALID_GOAL", <<>>))
    /\ ReportOK([MkReport("INVALID_START", <<>>) EXCEPT !.startValid = FALSE])
    /\ ReportOK([MkReport("INVALID_GOAL", <<>>) EXCEPT !.goalValid = FALSE])
    /\ ~ReportOK([MkReport("EXACT_SOLUTION", <<MkPath([f \in DOMAIN CHOOSE g \in Facts : TRUE |-> TRUE])>>)
                    EXCEPT !.startValid = FALSE])
    /\ \A f \in Facts : \A st \in SolutionStatuses \cup {"TIMEOUT"} :
           ReportOK(MkReport(st, <<MkPath(f)>>)) <=>
               /\ f.startIsAStart /\ f.replayMatches /\ f.allStepsValid
               /\ f.controlsInBounds /\ f.durationsWholeSteps
               /\ (~f.approx => f.lastInGoal)
               /\ st = (IF f.approx THEN "APPROXIMATE_SOLUTION" ELSE "EXACT_SOLUTION")
===============================================================================
